#!/bin/sh
# offline setup: regenerate coq/gen from /repo, build every .vo (full build, no -vos)
cd "$(dirname "$0")"
exec env PYTHONPATH="${VERIF_REPO:-/repo}:$(pwd)/lib" PYTHONHASHSEED=0 PYTHONDONTWRITEBYTECODE=1 PYTHONWARNINGS=ignore \
     /venv/bin/python lib/setup.py
