#!/usr/bin/env python3
"""regenerate MANIFEST.json from props/*/meta.json (one entry per property that has a check)"""
import json, os, sys
V = os.path.dirname(os.path.dirname(os.path.abspath(__file__)))
props = [json.loads(l) for l in open(os.path.join(V, "properties.jsonl"))]
checks, na = [], []
reasons = {}
rp = os.path.join(V, "props", "not_applicable.json")
if os.path.exists(rp):
    reasons = json.load(open(rp))
integ = set(open(os.path.join(V, "props", "integrated.txt")).read().split())
for p in props:
    pid = p["id"]
    mp = os.path.join(V, "props", pid, "meta.json")
    cp = os.path.join(V, "props", pid, "check.py")
    if pid in integ and os.path.exists(mp) and os.path.exists(cp):
        m = json.load(open(mp))
        checks.append({
            "property_id": pid,
            "quick_cmd": "./check %s --tier quick" % pid,
            "thorough_cmd": "./check %s --tier thorough" % pid,
            "evidence_file": "/verif/evidence/%s.json" % pid,
            "replay_cmd_template": "./check %s --replay {path}" % pid,
            "engine": "coq",
            "level_claimed": {"category": m["category"], "text": m["text"],
                              "design_ref": m.get("design_ref", "DESIGN.md section 7, " + pid)},
            "level_note": m["level_note"],
            "technique": m["technique"],
        })
    else:
        na.append({"property_id": pid,
                   "reason": reasons.get(pid, "not claimed yet: the Coq model/theorems for this property are not "
                                              "built at this commit (planned per DESIGN.md section 7); no other "
                                              "technique is substituted")})
man = {
    "version": 1,
    "setup_cmd": "./setup.sh",
    "hooks": {
        "guard": "IOFLO_VERIF",
        "enable": "no hooks are installed in /repo: checks drive the unmodified code through doubles passed to constructors / patched in the harness process only",
        "baseline_off_cmd": "cd /repo && /venv/bin/python -m pytest -ra -q -p no:cacheprovider --timeout=900 --continue-on-collection-errors",
        "source_commits": [],
        "add_only": True,
    },
    "engines": [{
        "name": "coq", "path": "/verif/coq",
        "serves_properties": [c["property_id"] for c in checks],
        "kind_free_text": "Coq 8.16.1 development (one directory per property: Model.v / Proofs.v / Props.v; "
                          "coq/gen regenerated from /repo by lib/py2coq.py) + per-property correspondence "
                          "harness props/Cxx/check.py driven by ./check",
    }],
    "checks": checks,
    "not_applicable": na,
    "notes": "All checks honour VERIF_SEED and VERIF_TIER; VERIF_REPO overrides the implementation root (default /repo). "
             "known_findings.json lists genuine defects (open / fixed).",
}
json.dump(man, open(os.path.join(V, "MANIFEST.json"), "w"), indent=1)
print("checks:", len(checks), "not claimed:", len(na))
