#!/usr/bin/env python3
"""seedall.py [names...]  -- re-evaluate the kept seeded changes (seeded/<name>/, name = Cxx or Cxx-rN) with
lib/seedtest.sh and record the verdict of today's checks in each meta.json (field "verdict", "check_output_tail").
The check used is meta["check"] (default: the property's own check).  Runs serially (each run builds a scratch
worktree under /tmp and removes it).  Prints one line per seed; never touches /repo's working tree."""
import json, os, re, subprocess, sys
V = os.path.dirname(os.path.dirname(os.path.abspath(__file__)))
names = sys.argv[1:] or sorted(os.listdir(os.path.join(V, "seeded")))
for name in names:
    d = os.path.join(V, "seeded", name)
    mp = os.path.join(d, "meta.json")
    if not os.path.isfile(mp):
        continue
    m = json.load(open(mp))
    pid = name[:3]
    chk = m.get("check", pid)
    out = subprocess.run(["sh", os.path.join(V, "lib", "seedtest.sh"), pid, d, chk], capture_output=True, text=True).stdout.strip()
    line = out.splitlines()[-1] if out else ""
    g = re.search(r"demo\(repo\)=(\d+) demo\(changed\)=(\d+) check_exit=(\d+) violations=(\d+) no_input=(\d+)", line)
    if not g:
        verdict = "not-evaluated: " + line[:120]
    else:
        d0, d1, ce, v, ni = map(int, g.groups())
        if d0 != 0 or d1 == 0:
            verdict = "demo-invalid(repo=%d,changed=%d)" % (d0, d1)
        elif ce == 0 or v == 0:
            verdict = "missed"
        elif ni:
            verdict = "caught-no-input"
        else:
            verdict = "caught"
        if chk != pid and verdict.startswith("caught"):
            verdict += "-by:" + chk
    m["verdict"] = verdict
    m["property"] = pid
    res = "/tmp/seed-%s.check" % pid
    if os.path.exists(res):
        m["check_output_tail"] = [l[:300] for l in open(res).read().splitlines() if not l.startswith("KNOWN-FINDING")][-3:]
    json.dump(m, open(mp, "w"), indent=1)
    print(name, verdict, flush=True)
