import collections.abc  # noqa
import importlib.util, os, sys, glob
import vlib

def main():
    # 1. regenerate translated sources (properties whose check defines gen(ctx))
    for path in sorted(glob.glob(os.path.join(vlib.VERIF, "props", "C*", "check.py"))):
        pid = os.path.basename(os.path.dirname(path))
        src = open(path).read()
        if "\ndef gen(" not in src:
            continue
        sys.path.insert(0, os.path.dirname(path))
        spec = importlib.util.spec_from_file_location("check_" + pid, path)
        mod = importlib.util.module_from_spec(spec)
        try:
            spec.loader.exec_module(mod)
            ctx = vlib.Ctx(pid)
            mod.gen(ctx)
            print("generated for", pid)
        except Exception as ex:
            print("WARNING: generation for %s failed: %r (its check will report it)" % (pid, ex))
        sys.path.pop(0)
    ctx = vlib.Ctx("C00")
    lock = ctx._lock()
    ctx._refresh_makefile()
    rc, out = vlib.sh("make -k -j%d" % vlib.NCPU, cwd=vlib.COQ, timeout=3600)
    lock.close()
    print(out[-4000:])
    if rc != 0:
        print("WARNING: some Coq files did not build; the checks depending on them will report it")
    import shutil
    shutil.rmtree(ctx.work, ignore_errors=True)
    sys.exit(0)

main()
