"""
kernel.py -- harness side of M-Kernel (coq/Kernel): program generator, dual renderer
(FloScript text for the real Builder/Skedder, Coq term for the model), implementation
runner with doubles (recorder = patched Printer.action, runner proxies logging every
send), and rendering of observations as Coq literals.

Program AST (plain dicts, JSON-serialisable):
 prog   = {tick: float, nvars: int, framers: [framer]}
 framer = {name, sched: active|inactive|aux|slave, order: front|mid|back, period: float,
           first: framename, frames: [frame]}
 frame  = {name, over: framename|None, under: framename|None, beacts: [need], enacts: [act],
           renacts, preacts: [pact], reacts, exacts, rexacts: [act], auxes: [framername]}
 need   = [always] | [var, v, cmp, g] | [elapsed, cmp, float] | [recurred, cmp, int] |
          [done, framer] | [doneaux, any|all|framername, framename] | [status, framer, status] |
          [not, need]
 act    = [rec, tag] | [put, v, z] | [inc, v, z] | [copy, src, dst] |
          [bid, ctl, [framers], period|None] | [fiat, ctl, framer] | [done, [framers]]
 pact   = [act, act] | [go, [needs], framename] | [aux, [needs], framername]
"""
import collections.abc  # noqa
import signal
import os
import json

CMPS = {"<": "CLt", "<=": "CLe", "==": "CEq", "!=": "CNe", ">=": "CGe", ">": "CGt"}
CTLS = {"stop": "CStop", "start": "CStart", "run": "CRun", "abort": "CAbort", "ready": "CReady"}
CTLN = {0: "CStop", 1: "CStart", 2: "CRun", 3: "CAbort", 4: "CReady"}
STATS = {"stopped": "Stopped", "started": "Started", "running": "Running",
         "aborted": "Aborted", "readied": "Readied"}
STATN = {0: "Stopped", 1: "Started", 2: "Running", 3: "Aborted", 4: "Readied"}
SCHED = {"active": "Active", "inactive": "Inactive", "aux": "Aux", "slave": "Slave", "moot": "Moot"}


# ---------------------------------------------------------------------------
# indexing
# ---------------------------------------------------------------------------
class Index(object):
    def __init__(self, prog):
        self.tid = {}
        self.fid = {}
        self.frames = []
        for t, fm in enumerate(prog["framers"]):
            self.tid[fm["name"]] = t
            for j, fr in enumerate(fm["frames"]):
                self.fid[(fm["name"], fr["name"])] = j      # frame ids are local to their framer
                self.frames.append((fm, fr))

    def taskables(self, prog):
        out = []
        for order in ("front", "mid", "back"):
            for fm in prog["framers"]:
                if fm["sched"] in ("active", "inactive") and fm.get("order", "mid") == order:
                    out.append(self.tid[fm["name"]])
        return out


def unders_of(fm, fr):
    """resolved .unders order, as Frame.resolveOverLinks builds it: frames are taken in declaration order and
    each one climbs its chain of still unresolved over links, appending itself (then its over, ...) to the
    over's unders; a script `under X` reserves position 0 for X.  With parents declared before children this
    is plain declaration order of the children; with forward references an ancestor chain can be attached
    early (frame f2 in f1 declared first attaches f1 to f0 before an earlier-declared-later sibling)."""
    frs = {f["name"]: f for f in fm["frames"]}
    unders = {n: ([f["under"]] if f.get("under") and frs.get(f["under"], {}).get("over") == n else [])
              for n, f in frs.items()}
    resolved = set()
    for f in fm["frames"]:
        under, over, guard = f["name"], f.get("over"), 0
        while over and guard < 100:
            if under not in resolved:
                resolved.add(under)
                if under not in unders[over]:
                    unders[over].append(under)
            under, over = over, frs[over].get("over")
            guard += 1
    return unders[fr["name"]]


# ---------------------------------------------------------------------------
# marker needs ('is updated' / 'is changed'): mark ids and the enact markers the resolver inserts
# ---------------------------------------------------------------------------
def marker_needs(n):
    """marker needs inside a need (through 'not')"""
    if n[0] in ("updated", "changed"):
        return [n]
    if n[0] == "not":
        return marker_needs(n[1])
    return []


class Marks(object):
    """mirror of needing.NeedMarker._resolve: one Mark per (share, 'framer<marker-or-frame'); a marker need with
    an `in frame` clause inserts an enact marker FIRST in that frame unless an equal one is already there.
    Resolution order: framers in script order, frames in script order, beacts, enacts, reacts, preacts."""

    def __init__(self, prog):
        self.ids = {}
        self.enact = {}       # (framer, frame) -> list of inserted marker acts, final order (first = last inserted)
        for fm in prog["framers"]:
            for fr in fm["frames"]:
                for pa in fr.get("preacts", []):
                    if pa[0] in ("go", "aux"):
                        for nd in pa[1]:
                            for m in marker_needs(nd):
                                self.resolve(fm, fr, m)

    def key(self, fm, fr, m):
        kind, v, infr, by = m[0], m[1], m[2], m[3]
        frame = fr["name"] if (not infr or infr == "me") else infr
        return (v, fm["name"] + "<" + (by if by else frame))

    def mid(self, fm, fr, m):
        k = self.key(fm, fr, m)
        if k not in self.ids:
            self.ids[k] = len(self.ids)
        return self.ids[k]

    def resolve(self, fm, fr, m):
        i = self.mid(fm, fr, m)
        infr = m[2]
        if infr:
            frame = fr["name"] if infr == "me" else infr
            lst = self.enact.setdefault((fm["name"], frame), [])
            act = ["marku", i] if m[0] == "updated" else ["markc", m[1], i]
            if act not in lst:
                lst.insert(0, act)

# ---------------------------------------------------------------------------
# FloScript rendering
# ---------------------------------------------------------------------------
def fl(x):
    return repr(float(x))


def flo_need(n):
    k = n[0]
    if k == "var":
        return ".v%d %s %d" % (n[1], n[2], n[3])
    if k == "elapsed":
        return "elapsed %s %s" % (n[1], fl(n[2]))
    if k == "recurred":
        return "recurred %s %d" % (n[1], n[2])
    if k == "done":
        return "%s is done" % n[1]
    if k == "doneaux":
        if n[1] in ("any", "all"):
            return "%s in frame %s is done" % (n[1], n[2])
        return "aux %s in frame %s is done" % (n[1], n[2])
    if k == "status":
        return "%s is %s" % (n[1], n[2])
    if k in ("updated", "changed"):
        t = ".v%d is %s" % (n[1], k)
        if n[2]:
            t += " in frame %s" % n[2]
        if n[3]:
            t += " by %s" % n[3]
        return t
    if k == "not":
        return "not " + flo_need(n[1])
    raise ValueError(n)


def flo_needs(ns):
    ns = [n for n in ns if n[0] != "always"]
    if not ns:
        return ""
    return " if " + " and ".join(flo_need(n) for n in ns)


def flo_act(a):
    k = a[0]
    if k == "rec":
        return "print T%d" % a[1]
    if k == "put":
        return "put %d into .v%d" % (a[2], a[1])
    if k == "inc":
        return "inc .v%d with %d" % (a[1], a[2])
    if k == "copy":
        return "copy .v%d into .v%d" % (a[1], a[2])
    if k == "bid":
        s = "bid %s %s" % (a[1], " ".join(a[2]))
        if a[3] is not None and a[1] not in ("stop", "abort"):
            s += " at %s" % fl(a[3])
        return s
    if k == "fiat":
        return "%s %s" % (a[1], a[2])
    if k == "done":
        return "done %s" % " ".join(a[1])
    raise ValueError(a)


def render_flo(prog):
    L = ["house h", ""]
    for v in range(prog["nvars"]):
        L.append("  init .v%d with value 0" % v)
    for fm in prog["framers"]:
        h = "  framer %s be %s" % (fm["name"], fm["sched"])
        if fm.get("order", "mid") != "mid":       # slaves / auxes too: an order option never schedules them
            h += " in %s" % fm["order"]
        if fm.get("period", 0.0):
            h += " at %s" % fl(fm["period"])
        h += " first %s" % fm["first"]
        L += ["", h]
        for fr in fm["frames"]:
            h = "    frame %s" % fr["name"]
            if fr.get("over"):
                h += " in %s" % fr["over"]
            L.append(h)
            ind = "      "
            if fr.get("under"):
                L.append(ind + "under %s" % fr["under"])
            for ax in fr.get("auxes", []):
                L.append(ind + "aux %s" % ax)
            if fr.get("beacts"):
                L.append(ind + "let me" + flo_needs(fr["beacts"]))
            for ctx, key in (("enter", "enacts"), ("renter", "renacts")):
                if fr.get(key):
                    L.append(ind + ctx)
                    for a in fr[key]:
                        L.append(ind + "  " + flo_act(a))
            inprecur = False
            for pa in fr.get("preacts", []):
                if pa[0] == "act":
                    if not inprecur:
                        L.append(ind + "precur")
                        inprecur = True
                    L.append(ind + "  " + flo_act(pa[1]))
                elif pa[0] == "go" and len(pa) > 3 and pa[3] == "timeout":
                    # the verb itself: `timeout T` = go <lexically next frame> if elapsed >= T
                    L.append(ind + "timeout %s" % fl(pa[1][0][2]))
                elif pa[0] == "go" and len(pa) > 3 and pa[3] == "repeat":
                    L.append(ind + "repeat %d" % pa[1][0][2])
                elif pa[0] == "go":
                    L.append(ind + "go %s%s" % (pa[2], flo_needs(pa[1])))
                elif pa[0] == "aux":
                    L.append(ind + "aux %s%s" % (pa[2], flo_needs(pa[1])))
                else:
                    raise ValueError(pa)
            for ctx, key in (("recur", "reacts"), ("exit", "exacts"), ("rexit", "rexacts")):
                if fr.get(key):
                    L.append(ind + ctx)
                    for a in fr[key]:
                        L.append(ind + "  " + flo_act(a))
    return "\n".join(L) + "\n"


# ---------------------------------------------------------------------------
# Coq rendering (instance FOps: binary64, hex literals are bit exact)
# ---------------------------------------------------------------------------
def cf(x):
    x = float(x)
    h = x.hex()
    return "(%s)%%float" % h


def clist(xs, ty=None):
    xs = list(xs)
    if not xs:
        return "[]" if ty is None else "(@nil %s)" % ty
    return "[" + "; ".join(xs) + "]"


def cn(n):
    return "%d%%nat" % n


def cz(n):
    return "(%d)%%Z" % n


def coq_need(ix, fm, n, fr=None, marks=None):
    k = n[0]
    if k in ("updated", "changed"):
        return "(%s %s %s)" % ("NUpdated" if k == "updated" else "NChanged", cn(n[1]), cn(marks.mid(fm, fr, n)))
    if k == "always":
        return "NAlways"
    if k == "var":
        return "(NVar %s %s %s)" % (cn(n[1]), CMPS[n[2]], cz(n[3]))
    if k == "elapsed":
        return "(@NElapsed FOps %s %s)" % (CMPS[n[1]], cf(n[2]))
    if k == "recurred":
        return "(NRecurred %s %s)" % (CMPS[n[1]], cz(n[2]))
    if k == "done":
        return "(NDone %s)" % cn(ix.tid[n[1]])
    if k == "doneaux":
        sel = {"any": "AuxAny", "all": "AuxAll"}.get(n[1]) or "(AuxNamed %s)" % cn(ix.tid[n[1]])
        return "(NDoneAux %s %s)" % (sel, cn(ix.fid[(fm["name"], n[2])]))
    if k == "status":
        return "(NStatus %s %s)" % (cn(ix.tid[n[1]]), STATS[n[2]])
    if k == "not":
        return "(NNot %s)" % coq_need(ix, fm, n[1], fr, marks)
    raise ValueError(n)


def coq_act(ix, prog, fm, a):
    k = a[0]
    if k == "rec":
        return "(ARec %s)" % cn(a[1])
    if k == "put":
        return "(APut %s %s)" % (cn(a[1]), cz(a[2]))
    if k == "inc":
        return "(AInc %s %s)" % (cn(a[1]), cz(a[2]))
    if k == "copy":
        return "(ACopy %s %s)" % (cn(a[1]), cn(a[2]))
    if k == "bid":
        ts = []
        for nm in a[2]:
            if nm == "all":
                for t in ix.taskables(prog):
                    if t not in ts:
                        ts.append(t)
            elif nm == "me":
                t = ix.tid[fm["name"]]
                if t not in ts:
                    ts.append(t)
            else:
                t = ix.tid[nm]
                if t not in ts:
                    ts.append(t)
        per = "None" if (a[3] is None or a[1] in ("stop", "abort")) else "(Some %s)" % cf(a[3])
        return "(@ABid FOps %s %s %s)" % (CTLS[a[1]], clist([cn(t) for t in ts], "nat"), per)
    if k == "fiat":
        return "(AFiat %s %s)" % (CTLS[a[1]], cn(ix.tid[a[2]]))
    if k == "done":
        ts = []
        for nm in a[1]:
            t = ix.tid[fm["name"]] if nm == "me" else ix.tid[nm]
            if t not in ts:
                ts.append(t)
        return "(ADone %s)" % clist([cn(t) for t in ts], "nat")
    raise ValueError(a)


def render_coq(prog, name="P"):
    ix = Index(prog)
    marks = Marks(prog)
    fms = []
    for fm in prog["framers"]:
        me = fm["name"]
        frs = []
        for fr in fm["frames"]:
            pre, deact = [], []
            for pa in fr.get("preacts", []):
                if pa[0] == "act":
                    pre.append("(PAct %s)" % coq_act(ix, prog, fm, pa[1]))
                elif pa[0] == "go":
                    pre.append("(PGo %s %s)" % (clist([coq_need(ix, fm, n, fr, marks) for n in pa[1]], "(need FOps)"),
                                                cn(ix.fid[(me, pa[2])])))
                elif pa[0] == "aux":
                    pre.append("(PAux %s %s)" % (clist([coq_need(ix, fm, n, fr, marks) for n in pa[1]], "(need FOps)"),
                                                 cn(ix.tid[pa[2]])))
                    deact.append("(ADeactivize %s)" % cn(ix.tid[pa[2]]))
            exacts = [coq_act(ix, prog, fm, a) for a in fr.get("exacts", [])] + deact

            def acts(key):
                pre_m = []
                if key == "enacts":     # enact markers inserted first by the resolver
                    for m in marks.enact.get((me, fr["name"]), []):
                        pre_m.append("(AMarkU %s false)" % cn(m[1]) if m[0] == "marku"
                                     else "(AMarkC %s %s)" % (cn(m[1]), cn(m[2])))
                return clist(pre_m + [coq_act(ix, prog, fm, a) for a in fr.get(key, [])], "(act FOps)")
            frs.append(
                "(@Build_frame FOps %s %s %s %s %s %s %s %s %s %s)" % (
                    "None" if not fr.get("over") else "(Some %s)" % cn(ix.fid[(me, fr["over"])]),
                    clist([cn(ix.fid[(me, u)]) for u in unders_of(fm, fr)], "nat"),
                    clist([coq_need(ix, fm, n) for n in fr.get("beacts", [])], "(need FOps)"),
                    acts("enacts"), acts("renacts"), clist(pre, "(pact FOps)"), acts("reacts"),
                    clist(exacts, "(act FOps)"), acts("rexacts"),
                    clist([cn(ix.tid[a]) for a in fr.get("auxes", [])], "nat")))
        fms.append("(@Build_framer FOps %s %s %s %s true None)" % (
            clist(frs, "(frame FOps)"),
            cn(ix.fid[(fm["name"], fm["first"])]), SCHED[fm["sched"]], cf(abs(fm.get("period", 0.0)))))
    return ("(@Build_prog FOps %s %s %s %s)" % (
        clist(fms, "(framer FOps)"),
        clist([cn(t) for t in ix.taskables(prog)], "nat"), cf(prog["tick"]), cf(0.0)))


def coq_obs(ob):
    """observation dict (from run_impl) -> Coq term of type obs FOps"""
    evs = []
    for e in ob["trace"]:
        if e[0] == "rec":
            evs.append("(ERec %s %s)" % (cn(e[1]), cn(e[2])))
        else:
            _, tk, t, c, r, acts, el, rc = e[:8]
            evs.append("(@ESend FOps %s %s %s %s %s %s %s)" % (
                cn(tk), cn(t), CTLN[c], "None" if r is None else "(Some %s)" % STATN[r],
                clist([cn(a) for a in acts], "nat"), "(%s)%%float" % el, cz(rc)))
    return "(@Build_obs FOps %s %s %s %s)" % (
        clist(evs, "(event FOps)"), clist([cz(v) for v in ob["vars"]], "Z"),
        clist([cn(s) for s in ob["status"]], "nat"), "true" if ob["excn"] else "false")


COQ_HEADER = """From Coq Require Import List ZArith Bool Arith.
From Coq Require Import Floats.PrimFloat.
Import ListNotations.
Require Import V.Kernel.Model V.Kernel.Inst.
"""


def coq_run_expr(prog, crash_at, maxticks=60):
    ca = "None" if crash_at is None else "(Some (%s, %s))" % (cn(crash_at[0]), crash_at[1])
    return "(observe FOps (run %s %s %s %s))" % (render_coq(prog), cn(prog["nvars"]), ca, cn(maxticks))


# ---------------------------------------------------------------------------
# implementation side
# ---------------------------------------------------------------------------
class Crash(Exception):
    pass


class Hang(Exception):
    pass


class RunnerProxy(object):
    """stands in for tasker.runner: forwards send(), logs control, status and framer state"""
    def __init__(self, tasker, tid, rec):
        self.gen = tasker.runner
        self.tasker = tasker
        self.tid = tid
        self.rec = rec

    def _log(self, ctl, status):
        t = self.tasker
        acts = [self.rec.fid[(t.name, f.name)] for f in getattr(t, "actives", [])]
        act = getattr(t, "active", None)
        self.rec.trace.append(["send", self.rec.tick, self.tid, ctl, status, acts,
                               float(getattr(t, "elapsed", 0.0)).hex(), int(getattr(t, "recurred", 0)),
                               None if act is None else self.rec.fid[(t.name, act.name)]])

    def send(self, ctl):
        if not hasattr(self.rec, "oracle"):      # recorders of other harnesses (props/C12) carry no oracle log
            return self._send(ctl)
        self.rec.oracle.append(["sendbegin", self.rec.tick, self.tasker.name, ctl, self.tasker.status,
                                len(self.rec.trace), self.rec.senddepth])
        self.rec.senddepth += 1
        try:
            return self._send(ctl)
        finally:
            self.rec.senddepth -= 1

    def _send(self, ctl):
        snap = getattr(self.rec, "snapshot", None)
        if snap is not None and ctl in (1, 4) and not getattr(self.rec, "quiet", 0):     # START / READY: oracle record
            entry = ["ctl", self.rec.tick, self.tasker.name, ctl, self.tasker.status, snap(),
                     len(self.rec.trace), None, None]
            self.rec.oracle.append(entry)
            try:
                status = self.gen.send(ctl)
            except StopIteration:
                self._log(ctl, None)
                raise
            entry[7] = len(self.rec.trace)
            entry[8] = status
            self._log(ctl, status)
            return status
        try:
            status = self.gen.send(ctl)
        except StopIteration:
            self._log(ctl, None)
            raise
        self._log(ctl, status)
        return status

    def close(self):
        return self.gen.close()


class Recorder(object):
    def __init__(self, ix, crash_at):
        self.trace = []
        self.tick = 0
        self.nrec = 0
        self.crash_at = crash_at
        self.fid = dict(ix.fid)
        self.oracle = []
        self.quiet = 0
        self.senddepth = 0

    def record(self, message):
        tag = int(message.strip()[1:])
        self.trace.append(["rec", self.tick, tag])
        k = self.nrec
        self.nrec += 1
        if self.crash_at is not None and k == self.crash_at[0]:
            if self.crash_at[1] == "KbdInt":
                raise KeyboardInterrupt()
            raise Crash("injected")


def install_oracle(rec, house, store=None, nvars=0):
    """implementation-side oracle log (rec.oracle; never compared with the model): the harness wraps, in the
    check process only, Transiter.action, Suspender.action, Framer.enterAll/exitAll, Frame.enter,
    CompleteDone.action and NeedDone/NeedDoneAux.action and records, at the moment of every attempt, an
    independent evaluation of every frame's before-enter needs, every framer's active outline, owner frame
    and done flag.  lib/kprops.py evaluates the statements of C04/C08/C09/C10 on that log.
    returns the function that removes the wrappers"""
    from ioflo.base import framing, acting, needing, completing
    framers = list(house.framers)
    rec.oracle = []
    rec.quiet = 0
    depth = [0]

    def marks_digest():
        out = []
        for v in range(nvars):
            sh = store.fetchShare(".v%d" % v) or store.fetchShare("v%d" % v)
            if sh is None:
                continue
            for k, m in sh.marks.items():
                d = m.data
                out.append([v, str(k), repr(m.stamp), repr(m.used), repr(dict(getattr(d, "__dict__", {}) or {}))])
        return out

    def snapshot():
        rec.quiet += 1
        try:
            S = {"__marks__": marks_digest()}
            for t in framers:
                g = {}
                for f in t.frameNames.values():
                    ok = True
                    for n in f.beacts:
                        if not n():
                            ok = False
                    g[f.name] = ok
                m = getattr(t, "main", None)
                S[t.name] = [g, [f.name for f in t.actives], None if not m else [m.framer.name, m.name],
                             bool(t.done), float(t.elapsed).hex(), int(t.recurred)]
            return S
        finally:
            rec.quiet -= 1

    rec.snapshot = snapshot

    def needs_ok(needs):
        rec.quiet += 1
        try:
            ok = True
            for n in needs:
                if not n():
                    ok = False
            return ok
        finally:
            rec.quiet -= 1

    def after(t):
        return [[f.name for f in t.actives], float(t.elapsed).hex(), int(t.recurred), marks_digest()]

    saved = []

    def patch(cls, name, make):
        orig = cls.__dict__[name]
        saved.append((cls, name, orig))
        setattr(cls, name, make(orig))

    def mk_transit(orig):
        def action(self, needs, near, far, human, **kw):
            if rec.quiet:
                return orig(self, needs=needs, near=near, far=far, human=human, **kw)
            S = snapshot()
            nk = needs_ok(needs)
            p0 = len(rec.trace)
            entry = ["transit", rec.tick, near.framer.name, near.name, far.name, S, nk, p0, None, None, None]
            rec.oracle.append(entry)
            r = orig(self, needs=needs, near=near, far=far, human=human, **kw)
            entry[8] = len(rec.trace)
            entry[9] = r is not None
            entry[10] = after(near.framer)
            entry.append(len(rec.oracle))
            return r
        return action

    def mk_suspend(orig):
        def action(self, needs, main, aux, human, **kw):
            if rec.quiet:
                return orig(self, needs=needs, main=main, aux=aux, human=human, **kw)
            S = snapshot()
            nk = needs_ok(needs)
            p0 = len(rec.trace)
            entry = ["suspend", rec.tick, main.framer.name, main.name, aux.name, S, nk, p0, None, None, None]
            rec.oracle.append(entry)
            r = orig(self, needs=needs, main=main, aux=aux, human=human, **kw)
            entry[8] = len(rec.trace)
            entry[9] = bool(r)
            entry[10] = after(main.framer)
            entry.append(len(rec.oracle))
            return r
        return action

    def mk_enterAll(orig):
        def enterAll(self):
            top = depth[0] == 0
            rec.oracle.append(["enterAll", rec.tick, self.name, top, snapshot() if top else None, len(rec.trace)])
            return orig(self)
        return enterAll

    def mk_exitAll(orig):
        def exitAll(self, abort=False):
            r = orig(self, abort=abort)
            rec.oracle.append(["exitAll", rec.tick, self.name, bool(abort), len(rec.trace)])
            return r
        return exitAll

    def mk_segue(orig):
        def segue(self):
            rec.oracle.append(["segue", rec.tick, self.name, "begin"])
            try:
                return orig(self)
            finally:
                rec.oracle.append(["segue", rec.tick, self.name, "end",
                                   [[f.name for f in self.actives], float(self.elapsed).hex(), int(self.recurred)]])
        return segue

    def mk_marker(orig):
        def action(self, share, marker, **kwa):
            rec.oracle.append(["mark", rec.tick, depth[0], len(rec.trace)])
            return orig(self, share=share, marker=marker, **kwa)
        return action

    def mk_frame_recur(orig):
        def recur(self):
            rec.oracle.append(["recur", rec.tick, self.framer.name, self.name, [f.name for f in self.framer.actives]])
            return orig(self)
        return recur

    def mk_frame_enter(orig):
        def enter(self):
            depth[0] += 1
            try:
                return orig(self)
            finally:
                depth[0] -= 1
        return enter

    def mk_done(orig):
        def action(self, taskers, **kw):
            for t in taskers:
                rec.oracle.append(["done", rec.tick, t.name, len(rec.trace)])
            return orig(self, taskers=taskers, **kw)
        return action

    def mk_needdone(orig):
        def action(self, tasker, **kw):
            r = orig(self, tasker=tasker, **kw)
            if not rec.quiet:
                rec.oracle.append(["needdone", rec.tick, tasker.name, bool(r), len(rec.trace)])
            return r
        return action

    def mk_needdoneaux(orig):
        def action(self, tasker, framer, frame, **kw):
            r = orig(self, tasker=tasker, framer=framer, frame=frame, **kw)
            if not rec.quiet:
                who = tasker if tasker in ("any", "all") else tasker.name
                rec.oracle.append(["needdoneaux", rec.tick, who, framer.name if framer else None,
                                   frame.name if frame else None, bool(r), len(rec.trace)])
            return r
        return action

    patch(acting.Transiter, "action", mk_transit)
    patch(acting.Suspender, "action", mk_suspend)
    patch(framing.Framer, "enterAll", mk_enterAll)
    patch(framing.Framer, "exitAll", mk_exitAll)
    patch(framing.Frame, "enter", mk_frame_enter)
    patch(framing.Framer, "segue", mk_segue)
    patch(framing.Frame, "recur", mk_frame_recur)
    patch(acting.MarkerUpdate, "action", mk_marker)
    patch(acting.MarkerChange, "action", mk_marker)
    for t in framers:
        for f in t.frameNames.values():
            rec.oracle.append(["beacts", 0, t.name, f.name, len(f.beacts)])
    patch(completing.CompleteDone, "action", mk_done)
    patch(needing.NeedDone, "action", mk_needdone)
    patch(needing.NeedDoneAux, "action", mk_needdoneaux)

    def restore():
        for cls, name, orig in reversed(saved):
            setattr(cls, name, orig)
    return restore


def _alarm(signum, frame):
    raise Hang("wall-clock limit")


def run_impl(prog, crash_at, workdir, name="prog", limit_s=20, maxticks=60):
    """build the FloScript with the real Builder and run it with the real Skedder.
    returns observation dict {trace, vars, status, excn} or {"error": cls, "msg":...}"""
    import os
    from ioflo.aid.consoling import getConsole
    getConsole().reinit(verbosity=0)
    from ioflo.base import skedding, acting, housing
    ix = Index(prog)
    path = os.path.join(workdir, name + ".flo")
    with open(path, "w") as f:
        f.write(render_flo(prog))
    rec = Recorder(ix, crash_at)
    orig_printer = acting.Printer.action
    restore_oracle = lambda: None

    def action(self, message, **kw):
        rec.record(message)

    acting.Printer.action = action
    old = signal.signal(signal.SIGALRM, _alarm)
    signal.setitimer(signal.ITIMER_REAL, limit_s)
    try:
        housing.House.Clear() if hasattr(housing.House, "Clear") else None
        housing.ClearRegistries()
        sk = skedding.Skedder(name="k", period=prog["tick"], real=False, filepath=path)
        try:
            ok = sk.build()
        except Exception as ex:
            return {"error": type(ex).__name__, "msg": str(ex)[:300], "phase": "build"}
        if not ok:
            return {"error": "BuildFalse", "msg": "", "phase": "build"}
        house = sk.houses[0]
        store = house.store
        taskers = {}
        for fm in prog["framers"]:
            t = None
            for x in house.taskers:
                if x.name == fm["name"]:
                    t = x
            taskers[fm["name"]] = t
            t.runner = RunnerProxy(t, ix.tid[fm["name"]], rec)
        orig_change = store.changeStamp
        calls = [0]

        def changeStamp(stamp):
            calls[0] += 1
            if calls[0] > maxticks:
                raise KeyboardInterrupt()     # interrupt delivered between two ticks
            rec.tick = calls[0] - 1
            return orig_change(stamp)

        store.changeStamp = changeStamp
        restore_oracle = install_oracle(rec, house, store, prog["nvars"])
        excn = False
        try:
            sk.run()
        except Crash:
            excn = True
        except KeyboardInterrupt:     # delivered inside the final sweep: it leaves run()
            excn = True
        except Hang:
            raise
        except Exception as ex:
            return {"error": type(ex).__name__, "msg": str(ex)[:300], "phase": "run",
                    "trace": rec.trace}
        vals = []
        for v in range(prog["nvars"]):
            sh = store.fetchShare(".v%d" % v) or store.fetchShare("v%d" % v)
            x = sh.value if sh is not None else 0
            vals.append(int(x) if x is not None else 0)
        status = [taskers[fm["name"]].status for fm in prog["framers"]]
        return {"trace": rec.trace, "vars": vals, "status": status, "excn": excn, "oracle": rec.oracle,
                "ticks": calls[0], "maxticks": maxticks}
    except Hang:
        return {"error": "Hang", "msg": "no termination within %ss" % limit_s, "phase": "run",
                "trace": rec.trace[-20:]}
    finally:
        signal.setitimer(signal.ITIMER_REAL, 0)
        signal.signal(signal.SIGALRM, old)
        acting.Printer.action = orig_printer
        restore_oracle()


# ---------------------------------------------------------------------------
# generator
# ---------------------------------------------------------------------------
class Gen(object):
    """random well-formed kernel programs.  Every frame carries recorder acts in enter,
    recur and exit contexts (unique tags) so every frame-level step is observable."""

    def __init__(self, rng, features=None, ticks=(0.125,), sizes=(2, 4)):
        self.rng = rng
        self.feat = features or {}
        self.ticks = ticks
        self.sizes = sizes
        self.tag = 0

    def f(self, name, default=True):
        return self.feat.get(name, default)

    def newtag(self):
        self.tag += 1
        return self.tag

    def need(self, prog, fm, depth=0):
        r = self.rng
        opts = ["var", "var", "elapsed", "recurred"]
        others = [x["name"] for x in prog["framers"] if x["name"] != fm["name"]]
        if others and self.f("status"):
            opts += ["status", "done"]
        if self.f("aux") and fm.get("frames"):
            opts += ["doneaux"]
        k = r.choice(opts)
        if k == "var":
            n = ["var", r.randrange(prog["nvars"]), r.choice(list(CMPS)), r.randint(0, 4)]
        elif k == "elapsed":
            n = ["elapsed", r.choice([">=", ">=", ">", "<", "=="]),
                 r.choice([1, 2, 3, 4]) * prog["tick"] if r.random() < 0.7 else r.choice([0.1, 0.3, 0.25, 0.5])]
        elif k == "recurred":
            n = ["recurred", r.choice([">=", ">=", ">", "=="]), r.randint(0, 4)]
        elif k == "doneaux":
            # any / all over the plain auxiliaries of a frame of this framer (frames without any included)
            n = ["doneaux", r.choice(["any", "all"]), r.choice(fm["frames"])["name"]]
        elif k == "status":
            n = ["status", r.choice(others), r.choice(list(STATS))]
        else:
            n = ["done", r.choice(others)]
        if depth == 0 and r.random() < 0.2:
            n = ["not", n]
        return n

    def needs(self, prog, fm, lo=0, hi=2):
        return [self.need(prog, fm) for _ in range(self.rng.randint(lo, hi))]

    def marker_need(self, prog, fm, fr):
        """'.vN is updated|changed [in frame me|name] [by mk]' -- only in transition / conditional-aux clauses"""
        r = self.rng
        kind = r.choice(["updated", "updated", "changed"])
        infr = r.choice([None, None, "me", r.choice(fm["frames"])["name"]])
        by = r.choice([None, None, "mka", "mkb"])
        n = [kind, r.randrange(prog["nvars"]), infr, by]
        return ["not", n] if r.random() < 0.15 else n

    def simple_act(self, prog, fm):
        r = self.rng
        k = r.choice(["put", "inc", "inc", "copy", "rec"])
        if k == "put":
            return ["put", r.randrange(prog["nvars"]), r.randint(0, 4)]
        if k == "inc":
            return ["inc", r.randrange(prog["nvars"]), r.randint(1, 2)]
        if k == "copy":
            return ["copy", r.randrange(prog["nvars"]), r.randrange(prog["nvars"])]
        return ["rec", self.newtag()]

    def program(self):
        r = self.rng
        tick = r.choice(self.ticks)
        prog = {"tick": tick, "nvars": r.randint(1, 3), "framers": []}
        nmain = r.randint(1, self.sizes[0])
        naux = r.randint(0, 2) if self.f("aux") else 0
        nslave = r.randint(0, 1) if self.f("slave") else 0
        kinds = ["main"] * nmain + ["aux"] * naux + ["slave"] * nslave
        for i, kind in enumerate(kinds):
            if kind == "main":
                sched = "active" if (i == 0 or r.random() < 0.75) else "inactive"
                per = r.choice([0.0, 0.0, tick, 2 * tick, 0.3, 0.1, tick / 2]) if self.f("period") else 0.0
                fm = {"name": "m%d" % i, "sched": sched, "order": r.choice(["front", "mid", "mid", "back"]),
                      "period": per}
            elif kind == "aux":
                fm = {"name": "a%d" % i, "sched": "aux", "order": r.choice(["mid", "mid", "mid", "front", "back"]),
                      "period": 0.0}
            else:
                fm = {"name": "s%d" % i, "sched": "slave", "order": r.choice(["mid", "mid", "front", "back"]),
                      "period": 0.0}
            nfr = r.randint(1, self.sizes[1])
            frs = []
            for j in range(nfr):
                over = None
                if j > 0 and r.random() < 0.55 and self.f("nest"):
                    over = r.choice(frs)["name"]
                frs.append({"name": "f%d" % j, "over": over, "under": None, "beacts": [], "enacts": [],
                            "renacts": [], "preacts": [], "reacts": [], "exacts": [], "rexacts": [],
                            "auxes": []})
            if self.f("fwd") and r.random() < 0.3:
                r.shuffle(frs)          # forward references: a frame may be declared before its over frame
            fm["frames"] = frs
            fm["first"] = r.choice(frs)["name"]
            prog["framers"].append(fm)
        auxes = [x["name"] for x in prog["framers"] if x["sched"] == "aux"]
        slaves = [x["name"] for x in prog["framers"] if x["sched"] == "slave"]
        mains = [x["name"] for x in prog["framers"] if x["sched"] in ("active", "inactive")]
        toplist, auxparent = {}, {}

        def related(fm, f, g):
            """frames f and g of fm can occur in one outline (one is an ancestor of the other or equal)"""
            frs = {x["name"]: x for x in fm["frames"]}

            def anc(x):
                out = []
                while x is not None:
                    out.append(x)
                    x = frs[x]["over"]
                return out
            return f in anc(g) or g in anc(f)

        for fm in prog["framers"]:
            for fr in fm["frames"]:
                kids = [c["name"] for c in fm["frames"] if c["over"] == fr["name"]]
                if len(kids) > 1 and r.random() < 0.4 and self.f("under"):
                    fr["under"] = r.choice(kids)
                fr["enacts"].append(["rec", self.newtag()])
                fr["reacts"].append(["rec", self.newtag()])
                fr["exacts"].append(["rec", self.newtag()])
                if r.random() < 0.3:
                    fr["renacts"].append(["rec", self.newtag()])
                    fr["rexacts"].append(["rec", self.newtag()])
                for key in ("enacts", "reacts", "exacts"):
                    for _ in range(r.randint(0, 2)):
                        fr[key].append(self.simple_act(prog, fm))
                if r.random() < 0.25 and self.f("let"):
                    fr["beacts"] = self.needs(prog, fm, 1, 2)
                # plain auxiliaries.  An original auxiliary may be shared by frames of several scheduled /
                # slave framers (ownership conflicts are part of C08/C09) and by frames of one framer that
                # never occur in the same outline; it is never listed twice within one outline nor both by a
                # framer and by one of that framer's own auxiliaries (known finding C09
                # shared-original-aux-same-outline: ioflo's ownership test runs before any frame is entered).
                top = fm["sched"] != "aux"
                cand = []
                for a in auxes:
                    if a == fm["name"]:
                        continue
                    if top:
                        if auxparent.get(a) is not None:
                            continue
                        # slaves are entered by fiats in the middle of other framers' entries: exclusive auxes
                        users = set(f2 for (f2, g) in toplist.get(a, []))
                        if fm["sched"] == "slave" and users - {fm["name"]}:
                            continue
                        if fm["sched"] != "slave" and any(u.startswith("s") for u in users):
                            continue
                        prev = [g for (f2, g) in toplist.get(a, []) if f2 == fm["name"]]
                        if "*cond*" in prev:
                            continue
                        prev = [g for g in prev if g != "*cond*"]
                        if any(related(fm, g, fr["name"]) for g in prev):
                            continue
                    else:
                        if a <= fm["name"] or toplist.get(a) or auxparent.get(a) not in (None,):
                            continue
                    cand.append(a)
                if cand and r.random() < 0.35:
                    a = r.choice(cand)
                    fr["auxes"].append(a)
                    if top:
                        toplist.setdefault(a, []).append((fm["name"], fr["name"]))
                    else:
                        auxparent[a] = fm["name"]
                # candidates for conditional auxiliaries: same family rules, and not plain in this frame
                cand = [a for a in auxes if a != fm["name"] and a not in fr["auxes"] and
                        ((top and auxparent.get(a) is None and
                          not (fm["sched"] == "slave" and set(f2 for (f2, g) in toplist.get(a, [])) - {fm["name"]}) and
                          not (fm["sched"] != "slave" and any(f2.startswith("s") for (f2, g) in toplist.get(a, [])))) or
                         (not top and a > fm["name"] and not toplist.get(a) and auxparent.get(a) in (None, fm["name"])))]
                # bids
                if mains and r.random() < 0.25 and self.f("bid"):
                    ctl = r.choice(["stop", "start", "run", "abort", "ready", "stop"])
                    tg = r.sample(mains, r.randint(1, min(2, len(mains))))
                    if r.random() < 0.2:
                        tg = ["all"]
                    elif r.random() < 0.2 and fm["sched"] in ("active", "inactive"):
                        tg = ["me"]
                    per = r.choice([None, None, 0.0, prog["tick"], 2 * prog["tick"], 0.3]) if self.f("period") else None
                    key = r.choice(["enacts", "reacts", "exacts"])
                    fr[key].append(["rec", self.newtag()])      # announces the bid to the observer
                    fr[key].append(["bid", ctl, tg, per])
                # fiats on slaves
                if slaves and fm["sched"] in ("active", "inactive") and r.random() < 0.3:
                    fr[r.choice(["enacts", "reacts", "exacts"])].append(
                        ["fiat", r.choice(["ready", "start", "run", "run", "stop", "abort"]), r.choice(slaves)])
                # done
                if fm["sched"] in ("aux", "slave") and r.random() < 0.35:
                    fr[r.choice(["enacts", "reacts"])].append(["done", ["me"]])
                # preacts
                npre = r.randint(0, 3)
                for _ in range(npre):
                    x = r.random()
                    if x < 0.6:
                        far = r.choice(fm["frames"])["name"]
                        ns = self.needs(prog, fm, 0 if r.random() < 0.15 else 1, 2)
                        if self.f("marker") and r.random() < 0.3:
                            ns.insert(r.randint(0, len(ns)), self.marker_need(prog, fm, fr))
                        nxt = None
                        names = [x["name"] for x in fm["frames"]]
                        if names.index(fr["name"]) + 1 < len(names):
                            nxt = names[names.index(fr["name"]) + 1]
                        if nxt and self.f("verbs") and r.random() < 0.25:
                            # the timeout / repeat verbs (target = lexically next frame)
                            if r.random() < 0.5:
                                t = r.choice([1, 2, 3, 4]) * prog["tick"] if r.random() < 0.7 else r.choice([0.1, 0.3, 0.25, 0.5])
                                fr["preacts"].append(["go", [["elapsed", ">=", t]], nxt, "timeout"])
                            else:
                                fr["preacts"].append(["go", [["recurred", ">=", r.randint(0, 4)]], nxt, "repeat"])
                            continue
                        fr["preacts"].append(["go", ns, far])
                    elif x < 0.75 and self.f("condaux") and cand:
                        # (the same framer as plain AND conditional aux of one frame is excluded: see
                        #  known finding C06 aux-plain-and-conditional-same-frame)
                        a = r.choice(cand)
                        fr["preacts"].append(["aux", self.needs(prog, fm, 1, 2), a])
                        if not top:
                            auxparent[a] = fm["name"]
                        else:
                            toplist.setdefault(a, []).append((fm["name"], "*cond*"))
                    else:
                        fr["preacts"].append(["act", self.simple_act(prog, fm)])
        return prog


# ---------------------------------------------------------------------------
# correspondence driver shared by the kernel properties (C02-C12)
# ---------------------------------------------------------------------------
def transitions_in(ob):
    """number of sends after which a tasker's active outline differs from its previous one"""
    last, n = {}, 0
    for e in ob["trace"]:
        if e[0] == "send":
            if e[2] in last and last[e[2]] != e[5]:
                n += 1
            last[e[2]] = e[5]
    return n


def correspond(ctx, nprog, features=None, ticks=(0.125,), sizes=(2, 4), crash="none", maxticks=30,
               label="kernel", shard=12, keep=None):
    """generate nprog programs, run each on the implementation and on the model (FOps, vm_compute),
    register mismatches as broken correspondence.  crash: none | some | all  (inject an exception or a
    KeyboardInterrupt at a random recorder event).  Returns list of (prog, crash_at, obs, mismatch?)."""
    g = Gen(ctx.rng, features=features, ticks=ticks, sizes=sizes)
    cases, metas = [], []
    for i in range(nprog):
        p = g.program()
        ca = None
        if crash == "all" or (crash == "some" and ctx.rng.random() < 0.4):
            ca = (ctx.rng.randint(0, 40), ctx.rng.choice(["KbdInt", "Excn"]))
        ob = run_impl(p, ca, ctx.work, "%s%d" % (label, i), maxticks=maxticks)
        if "error" in ob:
            # the implementation left the kernel language: internal error or hang
            ctx.case({"prog": render_flo(p), "crash_at": ca, "error": ob["error"]}, nontrivial=True,
                     kind="impl-error")
            ctx.tie_broken("correspondence", "%s: implementation raised %s" % (label, ob["error"]),
                           json_dumps({"flo": render_flo(p), "crash_at": ca, "error": ob}))
            metas.append((p, ca, ob, True))
            cases.append(None)
            continue
        nt = transitions_in(ob)
        ctx.case({"flo": render_flo(p), "crash_at": ca, "events": len(ob["trace"]), "transitions": nt},
                 nontrivial=nt > 0 and len(ob["trace"]) > 6,
                 kind="%s,trans=%s,crash=%s" % (label, min(nt, 3), ca[1] if ca else "-"))
        cases.append((coq_run_expr(p, ca, maxticks), coq_obs(ob)))
        metas.append((p, ca, ob, False))
    idx = [i for i, c in enumerate(cases) if c is not None]
    bad = ctx.coq_cases(COQ_HEADER, "(obs_eqb FOps)", [cases[i] for i in idx], shard=shard, name=label)
    out = []
    for j in bad:
        i = idx[j]
        p, ca, ob, _ = metas[i]
        metas[i] = (p, ca, ob, True)
        if os.environ.get("VERIF_DUMP_MISMATCH"):
            with open(os.environ["VERIF_DUMP_MISMATCH"], "a") as f:
                f.write(json.dumps({"prog": p, "crash_at": ca, "maxticks": maxticks, "trace": ob["trace"],
                                    "vars": ob["vars"], "status": ob["status"]}) + "\n")
        if len(out) < 3:
            ctx.tie_broken("correspondence", "%s: model and implementation traces differ" % label,
                           json_dumps({"flo": render_flo(p), "crash_at": ca, "impl": ob}))
            out.append(i)
    ctx.extra.setdefault("mismatches", 0)
    ctx.extra["mismatches"] += len(bad)
    return metas


def json_dumps(x):
    import json
    return json.dumps(x, default=str)[:6000]


# ---------------------------------------------------------------------------
# directed scenario programs: situations the random generator reaches only rarely
# ---------------------------------------------------------------------------
def _fr(name, over=None, **kw):
    d = {"name": name, "over": over, "under": None, "beacts": [], "enacts": [], "renacts": [], "preacts": [],
         "reacts": [], "exacts": [], "rexacts": [], "auxes": []}
    d.update(kw)
    return d


def _tagged(prog):
    """give every frame a recorder first in enter / recur / exit (and renter / rexit) contexts"""
    tag = [1000]

    def nt():
        tag[0] += 1
        return tag[0]
    for fm in prog["framers"]:
        for fr in fm["frames"]:
            for key in ("enacts", "renacts", "reacts", "exacts", "rexacts"):
                fr[key] = [["rec", nt()]] + fr[key]
    return prog


def scenarios(tick=0.125):
    out = []
    # S1: transitions between leaves with TWO shared ancestors carrying re-exit / re-enter actions
    out.append(("renter-order", _tagged({"tick": tick, "nvars": 1, "framers": [
        {"name": "m0", "sched": "active", "order": "mid", "period": 0.0, "first": "a", "frames": [
            _fr("top"), _fr("mid", "top"),
            _fr("a", "mid", preacts=[["go", [["recurred", ">=", 1]], "b"]]),
            _fr("b", "mid", preacts=[["go", [["recurred", ">=", 1]], "a"]])]}]})))
    # S2: conditional aux completes LATER while the active frame sits under a NON-primary child of its main
    out.append(("suspend-nonprimary", _tagged({"tick": tick, "nvars": 1, "framers": [
        {"name": "m0", "sched": "active", "order": "mid", "period": 0.0, "first": "c2", "frames": [
            _fr("f0", preacts=[["aux", [["var", 0, ">=", 1]], "a1"]]),
            _fr("c1", "f0"), _fr("c2", "f0", enacts=[["put", 0, 1]])]},
        {"name": "a1", "sched": "aux", "order": "mid", "period": 0.0, "first": "x", "frames": [
            _fr("x", preacts=[["go", [["recurred", ">=", 2]], "y"]]),
            _fr("y", enacts=[["done", ["me"]]])]}]})))
    # S3: forced re-entry of the active frame and of an ancestor restarts the clocks
    out.append(("forced-reentry", _tagged({"tick": tick, "nvars": 1, "framers": [
        {"name": "m0", "sched": "active", "order": "mid", "period": 0.0, "first": "b", "frames": [
            _fr("t", preacts=[["go", [["elapsed", ">=", 5 * tick]], "t"]]),
            _fr("b", "t", preacts=[["go", [["elapsed", ">=", 2 * tick]], "b"]])]}]})))
    # S4: a framer bids on itself while it is being started
    out.append(("bid-me-at-start", _tagged({"tick": tick, "nvars": 1, "framers": [
        {"name": "m0", "sched": "active", "order": "mid", "period": 0.0, "first": "f0", "frames": [
            _fr("f0", enacts=[["rec", 901], ["bid", "stop", ["me"], None]])]},
        {"name": "m1", "sched": "active", "order": "mid", "period": 0.0, "first": "f0", "frames": [
            _fr("f0", preacts=[["go", [["recurred", ">=", 4]], "f1"]]),
            _fr("f1", enacts=[["rec", 902], ["bid", "stop", ["all"], None]])]}]})))
    # S5: a framer is aborted / stopped in the tick right after it started (status STARTED, never RUNNING)
    for ctl in ("abort", "stop"):
        out.append(("%s-while-started" % ctl, _tagged({"tick": tick, "nvars": 1, "framers": [
            {"name": "m0", "sched": "active", "order": "front", "period": 0.0, "first": "f0", "frames": [
                _fr("f0"), _fr("f1", "f0")]},
            {"name": "m1", "sched": "active", "order": "back", "period": 0.0, "first": "f0", "frames": [
                _fr("f0", enacts=[["rec", 903], ["bid", ctl, ["m0"], None]],
                    preacts=[["go", [["recurred", ">=", 3]], "f1"]]),
                _fr("f1", enacts=[["rec", 904], ["bid", "stop", ["all"], None]])]}]})))
    # S6: a plain auxiliary that marked itself done is still exited with its main frame (and re-entered later)
    out.append(("done-aux-exits-with-main", _tagged({"tick": tick, "nvars": 1, "framers": [
        {"name": "m0", "sched": "active", "order": "mid", "period": 0.0, "first": "f0", "frames": [
            _fr("f0", auxes=["a1"], preacts=[["go", [["recurred", ">=", 1]], "f1"]]),
            _fr("f1", preacts=[["go", [["recurred", ">=", 1]], "f0"]])]},
        {"name": "a1", "sched": "aux", "order": "mid", "period": 0.0, "first": "x", "frames": [
            _fr("x", enacts=[["done", ["me"]]])]}]})))
    # S7: conditional aux completes in its first run; one that never completes while main transits away
    out.append(("condaux-immediate-and-never", _tagged({"tick": tick, "nvars": 2, "framers": [
        {"name": "m0", "sched": "active", "order": "mid", "period": 0.0, "first": "g", "frames": [
            _fr("f0", preacts=[["aux", [["var", 0, ">=", 0]], "a1"], ["go", [["recurred", ">=", 3]], "h"]]),
            _fr("g", "f0"),
            _fr("h", preacts=[["aux", [["var", 0, ">=", 0]], "a2"]]), _fr("k", "h")]},
        {"name": "a1", "sched": "aux", "order": "mid", "period": 0.0, "first": "x", "frames": [
            _fr("x", enacts=[["done", ["me"]]])]},
        {"name": "a2", "sched": "aux", "order": "mid", "period": 0.0, "first": "x", "frames": [
            _fr("x")]}]})))
    # S8: forced re-entry of the ACTIVE main frame while its conditional auxiliary is running: the auxiliary is
    # exited with the frame, the full outline is entered again and must be active again (not the truncated one)
    out.append(("reenter-main-while-suspended", _tagged({"tick": tick, "nvars": 1, "framers": [
        {"name": "m0", "sched": "active", "order": "mid", "period": 0.0, "first": "f0", "frames": [
            _fr("f0", preacts=[["go", [["recurred", ">=", 3]], "f0"], ["aux", [["var", 0, ">=", 0]], "a1"]]),
            _fr("g", "f0")]},
        {"name": "a1", "sched": "aux", "order": "mid", "period": 0.0, "first": "x", "frames": [_fr("x")]}]})))
    # S9: main frame left while its conditional auxiliary is running, then re-entered: the auxiliary must be
    # enterable again (its exit with the main frame completed it)
    out.append(("leave-and-return-while-suspended", _tagged({"tick": tick, "nvars": 1, "framers": [
        {"name": "m0", "sched": "active", "order": "mid", "period": 0.0, "first": "g", "frames": [
            _fr("f0", preacts=[["go", [["recurred", ">=", 2]], "h"], ["aux", [["var", 0, ">=", 0]], "a1"]]),
            _fr("g", "f0"),
            _fr("h", preacts=[["go", [["recurred", ">=", 2]], "g"]])]},
        {"name": "a1", "sched": "aux", "order": "mid", "period": 0.0, "first": "x", "frames": [_fr("x")]}]})))
    # S10: an upper frame's transition depends on what a LOWER frame's auxiliary did in its own transition
    # phase of the same tick (all auxiliaries segue before any frame's transition clauses are evaluated)
    out.append(("aux-segue-before-all-preacts", _tagged({"tick": tick, "nvars": 1, "framers": [
        {"name": "m0", "sched": "active", "order": "mid", "period": 0.0, "first": "lo", "frames": [
            _fr("up", preacts=[["go", [["var", 0, ">=", 1]], "fin"]]),
            _fr("lo", "up", auxes=["a1"]),
            _fr("fin")]},
        {"name": "a1", "sched": "aux", "order": "mid", "period": 0.0, "first": "x", "frames": [
            _fr("x", preacts=[["go", [["recurred", ">=", 2]], "y"]]),
            _fr("y", enacts=[["put", 0, 1]])]}]})))
    # S11: ready while the first frame's guard holds, guard goes false, then start: the start must be refused
    out.append(("ready-then-guard-false-then-start", _tagged({"tick": tick, "nvars": 1, "framers": [
        {"name": "m0", "sched": "active", "order": "front", "period": 0.0, "first": "f0", "frames": [
            _fr("f0", enacts=[["put", 0, 1], ["rec", 905], ["bid", "ready", ["m1"], None]],
                preacts=[["go", [["recurred", ">=", 2]], "f1"]]),
            _fr("f1", enacts=[["put", 0, 0], ["rec", 906], ["bid", "start", ["m1"], None]],
                preacts=[["go", [["recurred", ">=", 3]], "f2"]]),
            _fr("f2", enacts=[["rec", 907], ["bid", "stop", ["all"], None]])]},
        {"name": "m1", "sched": "inactive", "order": "back", "period": 0.0, "first": "f0", "frames": [
            _fr("f0", beacts=[["var", 0, ">=", 1]])]}]})))
    # S12: transition between two frames (different outlines) that share one original auxiliary whose first
    # frame is guarded: the ownership test passes (the owner is being exited) but the guard must still hold
    out.append(("shared-aux-guard-on-transition", _tagged({"tick": tick, "nvars": 1, "framers": [
        {"name": "m0", "sched": "active", "order": "front", "period": 0.0, "first": "f0", "frames": [
            _fr("f0", enacts=[["put", 0, 1]], preacts=[["go", [["recurred", ">=", 2]], "f1"]]),
            _fr("f1", enacts=[["rec", 908], ["bid", "stop", ["all"], None]])]},
        {"name": "m1", "sched": "active", "order": "back", "period": 0.0, "first": "f0", "frames": [
            _fr("f0", auxes=["a1"], reacts=[["put", 0, 0]], preacts=[["go", [["recurred", ">=", 1]], "f1"]]),
            _fr("f1", auxes=["a1"])]},
        {"name": "a1", "sched": "aux", "order": "mid", "period": 0.0, "first": "x", "frames": [
            _fr("x", beacts=[["var", 0, ">=", 1]])]}]})))
    # S13: a transition guarded by 'is updated' / 'is changed' whose TARGET is refused for a few ticks: a refused
    # attempt must not re-arm the mark (the pending update is still pending when the guard opens)
    for kind in ("updated", "changed"):
        out.append(("marked-transition-refused-%s" % kind, _tagged({"tick": tick, "nvars": 2, "framers": [
            {"name": "m0", "sched": "active", "order": "front", "period": 0.0, "first": "w0", "frames": [
                _fr("w0", preacts=[["go", [["recurred", ">=", 1]], "w1"]]),
                _fr("w1", enacts=[["put", 0, 5]], preacts=[["go", [["recurred", ">=", 3]], "w2"]]),
                _fr("w2", enacts=[["put", 1, 1]], preacts=[["go", [["recurred", ">=", 3]], "w3"]]),
                _fr("w3", enacts=[["rec", 909], ["bid", "stop", ["all"], None]])]},
            {"name": "m1", "sched": "active", "order": "back", "period": 0.0, "first": "f0", "frames": [
                _fr("f0", preacts=[["go", [[kind, 0, "me", None]], "f1"]]),
                _fr("f1", beacts=[["var", 1, ">=", 1]])]}]})))
    # S14: a plain auxiliary that marks itself done in the enter context of its first frame is observed as done
    # by the any / all / named done-needs of its main frame, each time the main frame is entered again
    out.append(("done-on-entry-observed", _tagged({"tick": tick, "nvars": 1, "framers": [
        {"name": "m0", "sched": "active", "order": "front", "period": 0.0, "first": "f0", "frames": [
            _fr("f0", auxes=["a1", "a2"], preacts=[["go", [["doneaux", "all", "f0"]], "f1"],
                                                   ["go", [["doneaux", "any", "f0"], ["recurred", ">=", 1]], "f2"]]),
            _fr("f1", enacts=[["rec", 910]]),
            _fr("f2", enacts=[["rec", 911]], preacts=[["go", [["done", "a1"], ["recurred", ">=", 1]], "f0"]])]},
        {"name": "a1", "sched": "aux", "order": "mid", "period": 0.0, "first": "x", "frames": [
            _fr("x", enacts=[["done", ["me"]]])]},
        {"name": "a2", "sched": "aux", "order": "mid", "period": 0.0, "first": "x", "frames": [
            _fr("x", preacts=[["go", [["recurred", ">=", 4]], "y"]]), _fr("y", enacts=[["done", ["me"]]])]},
        {"name": "m1", "sched": "active", "order": "back", "period": 0.0, "first": "f0", "frames": [
            _fr("f0", auxes=["b1"], preacts=[["go", [["doneaux", "b1", "f0"], ["doneaux", "all", "f0"]], "f1"]]),
            _fr("f1", enacts=[["rec", 912]], preacts=[["go", [["recurred", ">=", 2]], "f0"]])]},
        {"name": "b1", "sched": "aux", "order": "mid", "period": 0.0, "first": "x", "frames": [
            _fr("x", enacts=[["done", ["me"]]])]}]})))
    # S15: the timeout and repeat verbs in a scheduled framer, a slave and an auxiliary (target = next frame)
    out.append(("timeout-and-repeat-verbs", _tagged({"tick": tick, "nvars": 1, "framers": [
        {"name": "m0", "sched": "active", "order": "front", "period": 0.0, "first": "f0", "frames": [
            _fr("f0", auxes=["a1"], preacts=[["go", [["elapsed", ">=", 3 * tick]], "f1", "timeout"]]),
            _fr("f1", enacts=[["rec", 913]], preacts=[["go", [["recurred", ">=", 2]], "f2", "repeat"]]),
            _fr("f2", enacts=[["rec", 914]], preacts=[["go", [["elapsed", ">=", 0.3]], "f3", "timeout"]]),
            _fr("f3", enacts=[["rec", 915], ["bid", "stop", ["all"], None]])]},
        {"name": "a1", "sched": "aux", "order": "mid", "period": 0.0, "first": "x", "frames": [
            _fr("x", preacts=[["go", [["recurred", ">=", 1]], "y", "repeat"]]),
            _fr("y", enacts=[["rec", 916]], preacts=[["go", [["elapsed", ">=", tick]], "z", "timeout"]]),
            _fr("z", enacts=[["rec", 917], ["done", ["me"]]])]}]})))
    # S16: forward references -- frames declared BEFORE their over frames; the main frame of a conditional
    # auxiliary sits at depth 2: while the auxiliary runs, the frames ABOVE the main frame keep recurring and
    # their transitions are still evaluated (they leave, exiting main frame and auxiliary)
    out.append(("condaux-under-forward-declared-over", _tagged({"tick": tick, "nvars": 1, "framers": [
        {"name": "m0", "sched": "active", "order": "mid", "period": 0.0, "first": "low", "frames": [
            _fr("low", "mid"),
            _fr("mid", "top", preacts=[["aux", [["var", 0, ">=", 0]], "a1"]]),
            _fr("top", preacts=[["go", [["recurred", ">=", 4]], "fin"]]),
            _fr("fin", enacts=[["rec", 918], ["bid", "stop", ["all"], None]])]},
        {"name": "a1", "sched": "aux", "order": "mid", "period": 0.0, "first": "x", "frames": [
            _fr("x", preacts=[["go", [["recurred", ">=", 9]], "y"]]),
            _fr("y", enacts=[["done", ["me"]]])]}]})))
    # S17: an original auxiliary owned by an ANCESTOR frame that the transition does not exit: the lower frame
    # that lists it too must be refused (the auxiliary is never active under two frames)
    out.append(("ancestor-owned-aux-refuses-lower-frame", _tagged({"tick": tick, "nvars": 1, "framers": [
        {"name": "m0", "sched": "active", "order": "mid", "period": 0.0, "first": "left", "frames": [
            _fr("top", auxes=["a1"], preacts=[["go", [["recurred", ">=", 6]], "fin"]]),
            _fr("left", "top", preacts=[["go", [["recurred", ">=", 1]], "right"]]),
            _fr("right", "top", auxes=["a1"]),
            _fr("fin", enacts=[["rec", 919], ["bid", "stop", ["all"], None]])]},
        {"name": "a1", "sched": "aux", "order": "mid", "period": 0.0, "first": "x", "frames": [_fr("x")]}]})))
    # S18: two sibling frames list the same original auxiliary; timeout / repeat / go move between them (the owner
    # is among the exits, so the entry check lets the transition through and the auxiliary restarts)
    out.append(("shared-aux-between-near-and-far", _tagged({"tick": tick, "nvars": 1, "framers": [
        {"name": "m0", "sched": "active", "order": "mid", "period": 0.0, "first": "f0", "frames": [
            _fr("f0", auxes=["a1"], preacts=[["go", [["elapsed", ">=", 2 * tick]], "f1", "timeout"]]),
            _fr("f1", auxes=["a1"], preacts=[["go", [["recurred", ">=", 2]], "f2", "repeat"]]),
            _fr("f2", auxes=["a1"], preacts=[["go", [["recurred", ">=", 1]], "f3"]]),
            _fr("f3", enacts=[["rec", 920], ["bid", "stop", ["all"], None]])]},
        {"name": "a1", "sched": "aux", "order": "mid", "period": 0.0, "first": "x", "frames": [
            _fr("x", preacts=[["go", [["recurred", ">=", 1]], "y"]]), _fr("y")]}]})))
    # S19: a framer with a nested outline is stopped, started again and stopped again from the same active
    # frame (exitAll twice): entries stay top-down and exits bottom-up the second time as well
    out.append(("stop-start-stop-nested-outline", _tagged({"tick": tick, "nvars": 1, "framers": [
        {"name": "m0", "sched": "active", "order": "front", "period": 0.0, "first": "leaf", "frames": [
            _fr("top", auxes=["a1"]), _fr("mid", "top"), _fr("leaf", "mid")]},
        {"name": "a1", "sched": "aux", "order": "mid", "period": 0.0, "first": "y", "frames": [
            _fr("x"), _fr("y", "x")]},
        {"name": "m1", "sched": "active", "order": "back", "period": 0.0, "first": "c0", "frames": [
            _fr("c0", preacts=[["go", [["recurred", ">=", 1]], "c1"]]),
            _fr("c1", enacts=[["rec", 921], ["bid", "stop", ["m0"], None]], preacts=[["go", [["recurred", ">=", 1]], "c2"]]),
            _fr("c2", enacts=[["rec", 922], ["bid", "start", ["m0"], None]], preacts=[["go", [["recurred", ">=", 2]], "c3"]]),
            _fr("c3", enacts=[["rec", 923], ["bid", "stop", ["m0"], None]], preacts=[["go", [["recurred", ">=", 1]], "c4"]]),
            _fr("c4", enacts=[["rec", 924], ["bid", "start", ["m0"], None]], preacts=[["go", [["recurred", ">=", 2]], "c5"]]),
            _fr("c5", enacts=[["rec", 925], ["bid", "stop", ["all"], None]])]}]})))
    # S20: ready succeeds, the first-frame conditions flip, ready again must demote to stopped (slave by fiat,
    # scheduled framer by bid), then start is refused
    out.append(("ready-twice-with-flipped-guard", _tagged({"tick": tick, "nvars": 2, "framers": [
        {"name": "m0", "sched": "active", "order": "front", "period": 0.0, "first": "c0", "frames": [
            _fr("c0", enacts=[["put", 0, 1], ["fiat", "ready", "s1"], ["rec", 926], ["bid", "ready", ["m1"], None]],
                preacts=[["go", [["recurred", ">=", 1]], "c1"]]),
            _fr("c1", enacts=[["put", 0, 0], ["fiat", "ready", "s1"], ["rec", 927], ["bid", "ready", ["m1"], None]],
                preacts=[["go", [["recurred", ">=", 1]], "c2"]]),
            _fr("c2", enacts=[["fiat", "start", "s1"], ["rec", 928], ["bid", "start", ["m1"], None]],
                preacts=[["go", [["recurred", ">=", 2]], "c3"]]),
            _fr("c3", enacts=[["rec", 929], ["bid", "stop", ["all"], None]])]},
        {"name": "s1", "sched": "slave", "order": "mid", "period": 0.0, "first": "x", "frames": [
            _fr("x", beacts=[["var", 0, ">=", 1]])]},
        {"name": "m1", "sched": "inactive", "order": "back", "period": 0.0, "first": "x", "frames": [
            _fr("x", beacts=[["var", 0, ">=", 1]])]}]})))
    # S21: forced re-entry (go me, go <ancestor in the outline>) while the target's own let guard has become false
    out.append(("forced-reentry-with-false-guard", _tagged({"tick": tick, "nvars": 2, "framers": [
        {"name": "m0", "sched": "active", "order": "mid", "period": 0.0, "first": "leaf", "frames": [
            _fr("top", beacts=[["var", 0, "<=", 0]], preacts=[["go", [["recurred", ">=", 4]], "top"]]),
            _fr("leaf", "top", beacts=[["var", 1, "<=", 0]], enacts=[["put", 1, 1]],
                preacts=[["go", [["recurred", ">=", 2]], "leaf"]], reacts=[["inc", 0, 1]]),
            ]}]})))
    # S22: conditional auxiliary running on the middle of a three deep outline; a transition from the top to a
    # frame BELOW the cut is refused (empty enters) and the outline stays truncated
    out.append(("transition-below-the-cut-while-suspended", _tagged({"tick": tick, "nvars": 1, "framers": [
        {"name": "m0", "sched": "active", "order": "mid", "period": 0.0, "first": "leaf", "frames": [
            _fr("top", preacts=[["go", [["recurred", ">=", 3]], "leaf2"], ["go", [["recurred", ">=", 7]], "fin"]]),
            _fr("mid", "top", preacts=[["aux", [["var", 0, ">=", 0]], "a1"]]),
            _fr("leaf", "mid"), _fr("leaf2", "mid"),
            _fr("fin", enacts=[["rec", 930], ["bid", "stop", ["all"], None]])]},
        {"name": "a1", "sched": "aux", "order": "mid", "period": 0.0, "first": "x", "frames": [_fr("x")]}]})))
    # S23: a conditional auxiliary whose first outline is two frames deep completes and is triggered again,
    # several times: every run enters top-down and exits bottom-up
    out.append(("nested-condaux-runs-repeatedly", _tagged({"tick": tick, "nvars": 1, "framers": [
        {"name": "m0", "sched": "active", "order": "mid", "period": 0.0, "first": "g", "frames": [
            _fr("f0", preacts=[["aux", [["var", 0, ">=", 0]], "a1"], ["go", [["recurred", ">=", 12]], "fin"]]),
            _fr("g", "f0"),
            _fr("fin", enacts=[["rec", 931], ["bid", "stop", ["all"], None]])]},
        {"name": "a1", "sched": "aux", "order": "mid", "period": 0.0, "first": "y", "frames": [
            _fr("x"), _fr("y", "x", preacts=[["go", [["recurred", ">=", 1]], "z"]]),
            _fr("z", "x", enacts=[["done", ["me"]]])]}]})))
    # S24: `under X` names a child that is NOT the first one declared (parent declared before its children, and
    # once with the parent declared last): X is the primary under, outlines run through it
    for order in (["top", "c1", "c2", "c3"], ["c1", "c2", "top", "c3"], ["c3", "c2", "c1", "top"]):
        frs = {"top": _fr("top", under="c2", preacts=[["go", [["recurred", ">=", 2]], "c3"]]),
               "c1": _fr("c1", "top"), "c2": _fr("c2", "top"),
               "c3": _fr("c3", "top", preacts=[["go", [["recurred", ">=", 1]], "top"]],
                         reacts=[["inc", 0, 1]])}
        out.append(("under-names-later-child-%s" % order[0], _tagged({"tick": tick, "nvars": 1, "framers": [
            {"name": "m0", "sched": "active", "order": "mid", "period": 0.0, "first": "top",
             "frames": [frs[n] for n in order]}]})))
    # S25: a let guard written as a conjunction: EVERY conjunct guards the entry (first false / last true)
    out.append(("let-conjunction-every-conjunct-guards", _tagged({"tick": tick, "nvars": 2, "framers": [
        {"name": "m0", "sched": "active", "order": "front", "period": 0.0, "first": "f0", "frames": [
            _fr("f0", preacts=[["go", [["recurred", ">=", 1]], "f1"], ["go", [["recurred", ">=", 4]], "f2"]],
                reacts=[["inc", 1, 1]]),
            _fr("f1", beacts=[["var", 0, ">=", 1], ["var", 1, ">=", 0]], enacts=[["rec", 932]]),
            _fr("f2", enacts=[["rec", 933], ["bid", "stop", ["all"], None]])]},
        {"name": "m1", "sched": "inactive", "order": "back", "period": 0.0, "first": "g0", "frames": [
            _fr("g0", beacts=[["var", 0, ">=", 1], ["var", 1, ">=", 0], ["var", 1, "<=", 9]])]},
        {"name": "m2", "sched": "active", "order": "mid", "period": 0.0, "first": "h0", "frames": [
            _fr("h0", enacts=[["rec", 934], ["bid", "start", ["m1"], None]])]}]})))
    # S26: a taken transition runs its transit (marker re-arm) actions BEFORE the exit actions of the frames it
    # leaves: an exit action that changes the marked share is seen as a change by a later need on the same mark
    out.append(("transit-actions-before-exit-actions", _tagged({"tick": tick, "nvars": 1, "framers": [
        {"name": "m0", "sched": "active", "order": "mid", "period": 0.0, "first": "f0", "frames": [
            _fr("f0", enacts=[["put", 0, 1]], exacts=[["put", 0, 5]],
                preacts=[["go", [["changed", 0, "me", None]], "f1"]]),
            _fr("f1", preacts=[["go", [["changed", 0, "f0", None]], "f2"], ["go", [["recurred", ">=", 3]], "f3"]]),
            _fr("f2", enacts=[["rec", 935], ["bid", "stop", ["all"], None]]),
            _fr("f3", enacts=[["rec", 936], ["bid", "stop", ["all"], None]])]}]})))
    # S27: `repeat N` / `timeout T` whose target refuses entry at the first due evaluation and lets it through
    # later: the verb still fires (the goal is >=, not ==)
    out.append(("repeat-fires-after-the-goal-was-passed", _tagged({"tick": tick, "nvars": 1, "framers": [
        {"name": "m0", "sched": "active", "order": "front", "period": 0.0, "first": "f0", "frames": [
            _fr("f0", preacts=[["go", [["recurred", ">=", 2]], "f1", "repeat"]], reacts=[["inc", 0, 1]]),
            _fr("f1", beacts=[["var", 0, ">=", 5]], enacts=[["rec", 937]],
                preacts=[["go", [["recurred", ">=", 0]], "f2", "repeat"]]),
            _fr("f2", enacts=[["rec", 938], ["bid", "stop", ["all"], None]])]}]})))
    # S28: a slave declared with an order option is still never run by the scheduler
    out.append(("slave-with-order-option-not-scheduled", _tagged({"tick": tick, "nvars": 1, "framers": [
        {"name": "m0", "sched": "active", "order": "mid", "period": 0.0, "first": "f0", "frames": [
            _fr("f0", enacts=[["fiat", "start", "s1"]], reacts=[["fiat", "run", "s1"]],
                preacts=[["go", [["recurred", ">=", 3]], "f1"]]),
            _fr("f1", enacts=[["rec", 939], ["bid", "stop", ["all"], None]])]},
        {"name": "s1", "sched": "slave", "order": "front", "period": 0.0, "first": "x", "frames": [
            _fr("x", reacts=[["inc", 0, 1]])]}]})))
    # S29: one original auxiliary used as conditional auxiliary by frames of TWO framers: while it runs for the
    # first, the second leaves it alone (does not run, complete or deactivate it); the first framer's suspended
    # frames resume when it completes
    out.append(("shared-conditional-aux-left-to-its-owner", _tagged({"tick": tick, "nvars": 1, "framers": [
        {"name": "m0", "sched": "active", "order": "front", "period": 0.0, "first": "g", "frames": [
            _fr("f0", preacts=[["aux", [["var", 0, ">=", 0]], "a1"], ["go", [["recurred", ">=", 9]], "fin"]]),
            _fr("g", "f0", reacts=[["inc", 0, 1]]),
            _fr("fin", enacts=[["rec", 940], ["bid", "stop", ["all"], None]])]},
        {"name": "m1", "sched": "active", "order": "back", "period": 0.0, "first": "h", "frames": [
            _fr("f0", preacts=[["aux", [["var", 0, ">=", 0]], "a1"]]),
            _fr("h", "f0")]},
        {"name": "a1", "sched": "aux", "order": "mid", "period": 0.0, "first": "x", "frames": [
            _fr("x", preacts=[["go", [["recurred", ">=", 2]], "y"]]),
            _fr("y", enacts=[["done", ["me"]]])]}]})))
    # S30: one original PLAIN auxiliary listed by frames of TWO framers: while a frame of the first framer holds
    # it, the second framer's transition into its frame is refused (tick after tick, no entry, no exit, the
    # auxiliary is not entered again); once the first framer has left its frame the transition is taken
    out.append(("shared-plain-aux-held-by-another-framer", _tagged({"tick": tick, "nvars": 1, "framers": [
        {"name": "m0", "sched": "active", "order": "front", "period": 0.0, "first": "a", "frames": [
            _fr("a", auxes=["a1"], preacts=[["go", [["recurred", ">=", 6]], "b"]]),
            _fr("b", preacts=[["go", [["recurred", ">=", 4]], "fin"]]),
            _fr("fin", enacts=[["rec", 950], ["bid", "stop", ["all"], None]])]},
        {"name": "m1", "sched": "active", "order": "back", "period": 0.0, "first": "p", "frames": [
            _fr("p", preacts=[["go", [["recurred", ">=", 2]], "q"]]),
            _fr("q", auxes=["a1"], reacts=[["inc", 0, 1]])]},
        {"name": "a1", "sched": "aux", "order": "mid", "period": 0.0, "first": "x", "frames": [
            _fr("x", preacts=[["go", [["recurred", ">=", 1]], "y"]]),
            _fr("y")]}]})))
    return out
