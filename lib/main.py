import collections.abc  # noqa: F401  (must precede any ioflo import: C01 defect guard)
import argparse
import importlib.util
import os
import sys
import traceback

import vlib


def main():
    ap = argparse.ArgumentParser()
    ap.add_argument("pid")
    ap.add_argument("--tier", default=os.environ.get("VERIF_TIER", "quick"), choices=["quick", "thorough"])
    ap.add_argument("--replay", default=None)
    a = ap.parse_args()
    path = os.path.join(vlib.VERIF, "props", a.pid, "check.py")
    if not os.path.exists(path):
        print("no check for", a.pid)
        sys.exit(2)
    sys.path.insert(0, os.path.dirname(path))
    spec = importlib.util.spec_from_file_location("check_" + a.pid, path)
    mod = importlib.util.module_from_spec(spec)
    spec.loader.exec_module(mod)
    ctx = vlib.Ctx(a.pid, a.tier, level=getattr(mod, "LEVEL", "proof"))
    if a.replay:
        if hasattr(mod, "replay"):
            sys.exit(mod.replay(ctx, a.replay) or 0)
        print(open(a.replay).read())
        sys.exit(0)
    try:
        mod.run(ctx)
    except SystemExit:
        raise
    except Exception:
        # machinery failure: the property is not shown to hold on this run
        tb = traceback.format_exc()
        print(tb)
        ctx.tie_broken("harness", "exception in check", tb)
        ctx.settle(getattr(mod, "search", None) and (lambda: mod.search(ctx)))
    ctx.finish()


if __name__ == "__main__":
    main()
