"""
kprops.py -- executable statements of the kernel properties (C03-C11) evaluated on the
IMPLEMENTATION's observations alone (independent of the Coq model), used by the checks' search for a
failing input, plus the shared driver for the kernel property checks.
"""
import kernel

RUNNING = (1, 2)   # Started, Running


def fr_by_name(fm):
    return {fr["name"]: fr for fr in fm["frames"]}


def head_of(fm, name):
    frs = fr_by_name(fm)
    chain, cur, guard = [], name, 0
    while cur is not None and guard < 100:
        chain.append(cur)
        cur = frs[cur].get("over")
        guard += 1
    return list(reversed(chain))


def outline_of(fm, name):
    out = head_of(fm, name)
    cur, guard = name, 0
    while guard < 100:
        kids = kernel.unders_of(fm, fr_by_name(fm)[cur])
        if not kids:
            break
        cur = kids[0]
        out.append(cur)
        guard += 1
    return out


def tag_table(prog):
    """recorder tag -> (framer name, frame name, context, position in that act list)"""
    tab = {}
    for fm in prog["framers"]:
        for fr in fm["frames"]:
            for ctx in ("enacts", "renacts", "reacts", "exacts", "rexacts"):
                for i, a in enumerate(fr.get(ctx, [])):
                    if a[0] == "rec":
                        tab[a[1]] = (fm["name"], fr["name"], ctx, i)
            for i, pa in enumerate(fr.get("preacts", [])):
                if pa[0] == "act" and pa[1][0] == "rec":
                    tab[pa[1][1]] = (fm["name"], fr["name"], "preacts", i)
    return tab


def pred_c05(prog, ob):
    """after every runner send: a started/running framer's actives are an outline of one of its frames,
    or (conditional aux running) a head; a stopped/aborted scheduled or slave framer has none"""
    ix = kernel.Index(prog)
    names = {t: fm for fm in prog["framers"] for t in [ix.tid[fm["name"]]]}
    tab = tag_table(prog)
    inside = set()
    condaux = {}        # (framer, frame) -> conditional auxiliaries declared in that frame
    for fm0 in prog["framers"]:
        for fr0 in fm0["frames"]:
            condaux[(fm0["name"], fr0["name"])] = [pa[2] for pa in fr0.get("preacts", []) if pa[0] == "aux"]
    for e in ob["trace"]:
        if e[0] != "send":
            if e[2] in tab and tab[e[2]][3] == 0:
                fmn, frn, ctx, _i = tab[e[2]]
                if ctx == "enacts":
                    inside.add((fmn, frn))
                elif ctx == "exacts":
                    inside.discard((fmn, frn))
            continue
        _, tk, t, c, r, acts, el, rc = e[:8]
        fm = names[t]
        local = {j: fr["name"] for j, fr in enumerate(fm["frames"])}
        anames = [local[a] for a in acts]
        if r in RUNNING:
            if len(e) > 8 and e[8] is not None:
                full = outline_of(fm, local[e[8]])       # the outline of the ACTIVE frame
                ok = anames == full
                if not ok:
                    for m in full:
                        if anames == head_of(fm, m):
                            # cut at m only while a conditional auxiliary of m is entered
                            if any(k[0] in condaux[(fm["name"], m)] for k in inside):
                                ok = True
                            else:
                                return ("truncated-without-aux", "tick %d: framer %s has actives %r (cut at %s) "
                                        "but no conditional auxiliary of %s is running" % (tk, fm["name"], anames, m, m))
            else:
                ok = False
            if not ok:
                return ("actives-not-outline", "tick %d: framer %s status %d has actives %r: neither an outline nor "
                        "a head" % (tk, fm["name"], r, anames))
        elif r in (0, 3) and anames:
            return ("stopped-with-actives", "tick %d: framer %s status %d still has active frames %r" % (
                tk, fm["name"], r, anames))
    return None


def pred_c05_susp(prog, ob):
    """while a conditional auxiliary of frame F of a running framer is entered, the framer's active frames are
    exactly the head of F (of the highest such F): the frames below stay suspended, whatever transitions were
    attempted meanwhile"""
    orc = ob.get("oracle", [])
    ix = kernel.Index(prog)
    names = {ix.tid[fm["name"]]: fm for fm in prog["framers"]}
    ev, started = [], {}
    for i, e in enumerate(orc):
        if e[0] == "enterAll":
            ev.append((e[5], i, "in", e[2]))
        elif e[0] == "exitAll":
            ev.append((e[4], i, "out", e[2]))
        elif e[0] == "suspend" and len(e) > 11:
            for j in range(i + 1, e[11]):
                if orc[j][0] == "enterAll" and orc[j][2] == e[4]:
                    started[j] = (e[2], e[3])
    ev.sort()
    entered, k = {}, 0
    for idx, e in enumerate(ob["trace"]):
        while k < len(ev) and ev[k][0] <= idx:
            _pos, oi, kind, name = ev[k]
            k += 1
            if kind == "in" and oi in started:
                entered[name] = started[oi]
            else:
                entered.pop(name, None)
        if e[0] != "send" or e[4] not in RUNNING:
            continue
        fm = names[e[2]]
        mine = [main for aux, (fmn, main) in entered.items() if fmn == fm["name"]]
        if not mine:
            continue
        local = {j: fr["name"] for j, fr in enumerate(fm["frames"])}
        anames = [local[a] for a in e[5]]
        heads = sorted((head_of(fm, m) for m in mine), key=len)
        if anames != heads[0]:
            return ("not-truncated-while-suspended", "tick %d: framer %s has active frames %r while the conditional "
                    "auxiliary of frame %s is running (expected the head %r)" % (e[1], fm["name"], anames, heads[0][-1], heads[0]))
    return None


def enter_exit_events(prog, ob):
    """[(tick, framer, frame, 'enter'|'exit')] from the first recorder of each frame's enacts / exacts"""
    tab = tag_table(prog)
    out = []
    for e in ob["trace"]:
        if e[0] == "rec" and e[2] in tab:
            fmn, frn, ctx, i = tab[e[2]]
            if ctx == "enacts" and i == 0:
                out.append((e[1], fmn, frn, "enter"))
            elif ctx == "exacts" and i == 0:
                out.append((e[1], fmn, frn, "exit"))
    return out


def _aux_uses(prog, name):
    n = 0
    for fm in prog["framers"]:
        for fr in fm["frames"]:
            n += fr.get("auxes", []).count(name)
            n += sum(1 for pa in fr.get("preacts", []) if pa[0] == "aux" and pa[2] == name)
    return n


def pred_c06(prog, ob, crashed=False):
    """each frame's enter and exit actions alternate starting with enter; after a run that ended
    without an injected crash every entered frame of a scheduled framer has been exited.
    returns None or (finding key, description)"""
    ix = kernel.Index(prog)
    tid_of = {fm["name"]: ix.tid[fm["name"]] for fm in prog["framers"]}
    state = {}
    suspended = {}      # framer -> True when its last logged outline was shorter than its entered frames
    tab = tag_table(prog)
    fms0 = {fm["name"]: fm for fm in prog["framers"]}
    nrec = -1
    for ti, e in enumerate(ob["trace"]):
        if e[0] == "rec":
            nrec += 1
        if e[0] == "send":
            fmn = [n for n, t in tid_of.items() if t == e[2]][0]
            entered = [k for k, v in state.items() if v == "in" and k[0] == fmn]
            suspended[fmn] = len(entered) > len(e[5]) > 0 or (suspended.get(fmn, False) and not e[5] and bool(entered))
            continue
        if e[2] not in tab:
            continue
        fmn, frn, ctx, i = tab[e[2]]
        if i != 0 or ctx not in ("enacts", "exacts"):
            continue
        tk, k = e[1], (fmn, frn)
        cur = state.get(k, "out")
        if ctx == "enacts":
            if cur == "in":
                if any(v for v in suspended.values()):
                    return ("suspended-frames-not-exited",
                            "tick %d: frame %s.%s entered twice without exit (frames suspended under a conditional "
                            "aux were not exited)" % (tk, fmn, frn))
                if _aux_uses(prog, fmn) > 1:
                    # the known defect (two frames of ONE attempt both pass the ownership test because it runs
                    # before any of them is entered) leaves the auxiliary unowned at the moment of the attempt;
                    # an auxiliary that already had an owner at that moment is a different violation
                    owner = None
                    for o in ob.get("oracle", []):
                        snap, pos = None, None
                        if o[0] in ("transit", "suspend"):
                            snap, pos = o[5], o[7]
                        elif o[0] == "ctl":
                            snap, pos = o[5], o[6]
                        elif o[0] == "enterAll" and o[3]:
                            snap, pos = o[4], o[5]
                        if snap is not None and pos <= ti and fmn in snap:
                            owner = snap[fmn][2]
                    if owner:
                        return ("aux-entered-while-owned", "tick %d: frame %s.%s of shared auxiliary entered again while "
                                "the auxiliary was owned by frame %s of %s at the moment of the attempt"
                                % (tk, fmn, frn, owner[1], owner[0]))
                    return ("aux-claimed-twice", "tick %d: frame %s.%s of shared auxiliary entered twice without exit"
                            % (tk, fmn, frn))
                return ("enter-twice", "tick %d: frame %s.%s entered twice without exit" % (tk, fmn, frn))
            over = fr_by_name(fms0[fmn])[frn].get("over")
            if over and state.get((fmn, over), "out") != "in":
                return ("enter-before-over", "tick %d: frame %s.%s was entered while its over frame %s is not entered "
                        "(entries must run top-down)" % (tk, fmn, frn, over))
            state[k] = "in"
        else:
            if crashed and nrec == crashed[0]:
                # the injected fault was raised by THIS exit action: the exit was interrupted, the frame is still
                # entered and the final sweep exits it (again from its first exit action)
                continue
            if cur != "in":
                if crashed and nrec > crashed[0]:
                    # after a fault in the middle of a transition the sweep exits the whole (unchanged) active
                    # outline, including frames the interrupted transition had already exited: outside the
                    # statement (no fault-free history does this)
                    continue
                return ("exit-without-enter", "tick %d: frame %s.%s exited without being entered" % (tk, fmn, frn))
            below = [g for (f2, g), v in state.items() if f2 == fmn and v == "in" and g != frn
                     and frn in head_of(fms0[fmn], g)[:-1]]
            if below:
                # the known defect also occurs inside an auxiliary framer (which has no send log): it needs a
                # conditional-auxiliary clause on the exiting frame or on a frame between it and the frames left
                chain = set([frn])
                for g in below:
                    chain.update(head_of(fms0[fmn], g))
                has_cond = any(pa[0] == "aux" for g in chain for pa in fr_by_name(fms0[fmn])[g].get("preacts", []))
                if any(v for v in suspended.values()) or has_cond:
                    return ("suspended-frames-not-exited",
                            "tick %d: frame %s.%s exited while %r below it are still entered (frames suspended under a "
                            "conditional aux are not exited)" % (tk, fmn, frn, below))
                return ("exit-before-under", "tick %d: frame %s.%s was exited while the frames %r below it are still "
                        "entered (exits must run bottom-up)" % (tk, fmn, frn, below))
            state[k] = "out"
    # re-exit actions run bottom-up, re-enter actions top-down, over the shared ancestors of a transition
    fms = {fm["name"]: fm for fm in prog["framers"]}
    run_of = []          # consecutive (framer, frame, ctx) events of renter / rexit recorders
    for e in ob["trace"] + [["send"]]:
        if e[0] == "rec" and e[2] in tab and tab[e[2]][3] == 0 and tab[e[2]][2] in ("renacts", "rexacts"):
            run_of.append((e[1],) + tab[e[2]][:3])
            continue
        if e[0] == "send" or (e[0] == "rec" and e[2] in tab and tab[e[2]][2] in ("enacts", "exacts")):
            for (tk1, fa, ra, ca), (tk2, fb, rb, cb) in zip(run_of, run_of[1:]):
                if fa == fb and ca == cb:
                    if ca == "renacts" and ra in head_of(fms[fa], rb)[:-1] is False:
                        pass
                    if ca == "renacts" and rb in head_of(fms[fa], ra)[:-1]:
                        return ("renter-order", "tick %d: re-enter action of %s.%s ran before that of its ancestor "
                                "%s (must be top-down)" % (tk1, fa, ra, rb))
                    if ca == "rexacts" and ra in head_of(fms[fa], rb)[:-1]:
                        return ("rexit-order", "tick %d: re-exit action of %s.%s ran before that of its descendant "
                                "%s (must be bottom-up)" % (tk1, fa, ra, rb))
            run_of = []
    sched = set(fm["name"] for fm in prog["framers"] if fm["sched"] in ("active", "inactive"))
    if crashed:
        # with an injected fault only the framers that later received a (logged) ABORT and reported
        # ABORTED are known to have been swept: those must have exited their own frames
        swept = set(n for n, t in tid_of.items()
                    if any(e[0] == "send" and e[2] == t and e[3] == 3 and e[4] == 3 and not e[5] for e in ob["trace"]))
        sched = sched & swept
    if True:
        left = [k for k, v in state.items() if v == "in" and k[0] in sched]
        if left:
            if any(suspended.get(k[0]) for k in left):
                return ("suspended-frames-not-exited",
                        "run returned with frames still entered %r: frames suspended under a conditional aux are not "
                        "exited by stop/abort/transitions (exits are computed from the truncated outline)" % (left,))
            return ("frames-left-entered", "run returned with frames still entered: %r" % (left,))
    return None


def pred_c03(prog, ob, crashed=False):
    """however the run ends every tasker still scheduled gets exactly one abort in the final sweep and ends
    aborted; taskers dropped earlier had aborted.  (sweep = trailing abort sends by the skedder)"""
    ix = kernel.Index(prog)
    taskables = ix.taskables(prog)
    sends = [e for e in ob["trace"] if e[0] == "send"]
    # final sweep: trailing sends with control ABORT to taskables
    sweep = []
    for e in reversed(sends):
        if e[3] == 3 and e[2] in taskables:
            sweep.append(e[2])
        elif e[2] in taskables:
            break
    if len(set(sweep)) != len(sweep):
        return ("sweep-twice", "a tasker was aborted twice in the final sweep: %r" % (sweep,))
    if crashed:
        # a fault delivered inside the final sweep itself (no scheduler send follows the crashing action)
        # interrupts the sweep: outside the statement (the run had already ended)
        k, seen, after = crashed[0], 0, None
        for i, e in enumerate(ob["trace"]):
            if e[0] == "rec":
                if seen == k:
                    after = i
                seen += 1
        if after is not None and not any(e[0] == "send" and e[2] in taskables for e in ob["trace"][after + 1:]):
            # no scheduler send follows the crash.  That is the end of the statement only if the crash hit the
            # final sweep itself: the send that was in progress is an ABORT nobody had bid (the skedder's own).
            # A crash inside an ordinary run must be followed by the sweep of every tasker still scheduled.
            begun = [o for o in ob.get("oracle", []) if o[0] == "sendbegin" and o[5] <= after]
            top = [o for o in begun if ix.tid.get(o[2]) in taskables]
            if not top or top[-1][3] != 3:
                left = [t for t in taskables if ob["status"][t] != 3]
                if left and top:
                    return ("not-swept-after-fault", "an action raised during an ordinary run (control %d to %s) and "
                            "the taskers %r were never aborted: the final sweep did not reach them" % (
                                top[-1][3], top[-1][2], left))
            return None
    for t in taskables:
        if ob["status"][t] != 3:
            return ("not-aborted", "tasker %d not aborted when run() returned (status %d)" % (t, ob["status"][t]))
    return None


def pred_c09(prog, ob):
    """a plain auxiliary's frames are entered after its main frame's enter action and exited before the
    main frame's exit action (bracketing of aux events inside the main frame's enter/exit)"""
    plain = {}
    for fm in prog["framers"]:
        for fr in fm["frames"]:
            for ax in fr.get("auxes", []):
                plain.setdefault(ax, []).append((fm["name"], fr["name"]))
    cond = set(pa[2] for fm in prog["framers"] for fr in fm["frames"] for pa in fr.get("preacts", []) if pa[0] == "aux")
    inside = {}
    for tk, fmn, frn, kind in enter_exit_events(prog, ob):
        inside[(fmn, frn)] = (kind == "enter")
        if kind == "exit":
            # the exit action of a main frame runs after its plain auxiliaries were fully exited
            for ax, mains in plain.items():
                if mains == [(fmn, frn)] and ax not in cond:
                    still = [k for k, v in inside.items() if v and k[0] == ax]
                    if still:
                        return ("aux-outlives-main", "tick %d: main frame %s.%s exits while frames %r of its "
                                "auxiliary %s are still entered" % (tk, fmn, frn, still, ax))
        if fmn in plain and fmn not in cond and kind == "enter":
            mains = plain[fmn]
            if not any(inside.get(m) for m in mains):
                return ("aux-outside-main", "tick %d: aux %s frame %s entered while none of its main frames %r is "
                        "entered" % (tk, fmn, frn, mains))
    return None


def pred_c11(prog, ob):
    """after every run of a scheduled framer: recurred counts the iterations since the outline last
    changed and elapsed is the store time since then (binary64, the scheduler's own stamps)"""
    tick = prog["tick"]
    ix = kernel.Index(prog)
    sched = set(ix.taskables(prog))
    stamps, s = [], 0.0
    for _ in range(4096):
        stamps.append(s)
        s += tick
    tab = tag_table(prog)
    fmn_of = {ix.tid[fm["name"]]: fm["name"] for fm in prog["framers"]}
    since = {}     # tid -> stamp at last (re)entry
    count = {}
    entered_now = set()
    for e in ob["trace"]:
        if e[0] == "rec":
            if e[2] in tab and tab[e[2]][2] == "enacts" and tab[e[2]][3] == 0:
                entered_now.add(tab[e[2]][0])
            continue
        _, tk, t, c, r, acts, el, rc = e[:8]
        if t not in sched:
            entered_now.discard(fmn_of[t])
            continue
        if fmn_of[t] in entered_now:          # its own frames were (re)entered during this send
            since[t] = stamps[tk]
            count[t] = 0
            entered_now.discard(fmn_of[t])
            if r in RUNNING and (float.fromhex(el) != 0.0 or rc != 0):
                return ("clock-not-reset", "tick %d: framer %s re-entered but elapsed=%s recurred=%d" % (
                    tk, fmn_of[t], el, rc))
        elif c == 2 and r == 2 and t in since:
            count[t] += 1
            exp = stamps[tk] - since[t]
            if float.fromhex(el) != exp or rc != count[t]:
                return ("clock-wrong", "tick %d: framer %s elapsed=%s recurred=%d, expected %r / %d" % (
                    tk, fmn_of[t], el, rc, exp, count[t]))
    return None


def bid_table(prog):
    """recorder tag placed immediately before a bid -> (control number, [target tids])"""
    ix = kernel.Index(prog)
    ctln = {"stop": 0, "start": 1, "run": 2, "abort": 3, "ready": 4}
    tab = {}
    for fm in prog["framers"]:
        for fr in fm["frames"]:
            for key in ("enacts", "renacts", "reacts", "exacts", "rexacts"):
                acts = fr.get(key, [])
                for i in range(len(acts) - 1):
                    if acts[i][0] == "rec" and acts[i + 1][0] == "bid":
                        b = acts[i + 1]
                        ts = []
                        for nm in b[2]:
                            if nm == "all":
                                ts += ix.taskables(prog)
                            elif nm == "me":
                                ts.append(ix.tid[fm["name"]])
                            else:
                                ts.append(ix.tid[nm])
                        tab[acts[i][1]] = (ctln[b[1]], ts)
    return tab


def pred_c04(prog, ob):
    """every control the scheduler sends to a tasker is the tasker's desire at that moment: the initial
    desire, updated by the runner's own table and by every bid executed since (the most recent wins);
    an independent tracker replays that from the recorder events that announce each bid"""
    ix = kernel.Index(prog)
    taskables = ix.taskables(prog)
    bids = bid_table(prog)
    desire = {}
    status = {}
    for fm in prog["framers"]:
        t = ix.tid[fm["name"]]
        desire[t] = 1 if fm["sched"] == "active" else 0
        status[t] = 0
    pending = []          # bids executed since the last top-level send was logged
    n_sends = len([e for e in ob["trace"] if e[0] == "send" and e[2] in taskables])
    seen = 0
    last_tick = max([e[1] for e in ob["trace"]] or [0])
    for e in ob["trace"]:
        if e[0] == "rec":
            if e[2] in bids:
                pending.append(bids[e[2]])
            continue
        _, tk, t, c, r, acts, el, rc = e[:8]
        if t not in taskables:
            continue
        seen += 1
        in_sweep = (c == 3 and tk == last_tick and desire[t] != 3)
        if not in_sweep and c != desire[t]:
            return ("wrong-control", "tick %d: tasker %d was sent control %d but its latest desire (own table + most "
                    "recent bid) was %d" % (tk, t, c, desire[t]))
        if r is None:
            pending = []
            continue
        s0 = status[t]
        running = s0 in (1, 2)
        # runner table (framing.Framer.makeRunner): desire written BEFORE the actions run, except for ABORT
        if c == 2:
            if not running and s0 in (0, 4):
                desire[t] = 1
        elif c == 4:
            if s0 in (0, 4) and r == 0:
                desire[t] = 0
        elif c == 1:
            if s0 in (0, 4):
                desire[t] = 2 if r == 1 else 0
            elif running:
                desire[t] = 2
        elif c == 0:
            if running:
                desire[t] = 0
        for ctl, ts in pending:       # bids executed during this send (and since the previous one)
            for x in ts:
                desire[x] = ctl
        pending = []
        if c == 3 or r == 3:
            desire[t] = 3
        status[t] = r
    return None


# ---------------------------------------------------------------------------
# statements evaluated on the oracle log (kernel.install_oracle): C04 / C08 / C09 / C10
# ---------------------------------------------------------------------------
def _fms(prog):
    return {fm["name"]: fm for fm in prog["framers"]}


def exen(nears, far, fars):
    """independent statement of Framer.ExEn on frame names"""
    for i in range(min(len(nears), len(fars))):
        if nears[i] == far or nears[i] != fars[i]:
            return nears[i:], fars[i:], nears[:i]
    return [], [], nears[:]


def guard_ok(prog, S, fm, fr, exits, depth=0):
    """None if frame fr of framer fm may be entered in snapshot S (its own before-enter needs hold, every plain
    auxiliary is free / its own / owned by a frame being exited, and the auxiliary's first outline may be
    entered), else the reason"""
    fms = _fms(prog)
    if depth > 12:
        return None
    if not S[fm][0].get(fr, True):
        return "before-enter needs of frame %s of %s are false" % (fr, fm)
    for ax in fr_by_name(fms[fm])[fr].get("auxes", []):
        owner = S[ax][2]
        if owner and owner != [fm, fr] and not (owner[0] == fm and owner[1] in exits):
            return "auxiliary %s of frame %s is owned by frame %s of %s which is not being exited" % (
                ax, fr, owner[1], owner[0])
        for f in outline_of(fms[ax], fms[ax]["first"]):
            why = guard_ok(prog, S, ax, f, [], depth + 1)
            if why:
                return "auxiliary %s of frame %s: %s" % (ax, fr, why)
    return None


def start_ok(prog, S, fm):
    fms = _fms(prog)
    for f in outline_of(fms[fm], fms[fm]["first"]):
        why = guard_ok(prog, S, fm, f, [])
        if why:
            return why
    return None


def pred_c08(prog, ob):
    """no frame is entered whose guard, evaluated independently at the moment of the attempt, is false; a
    refused transition logs nothing and leaves outline, elapsed and recurred as they were"""
    fms = _fms(prog)
    orc = ob.get("oracle", [])
    for i, e in enumerate(orc):
        if e[0] == "transit" and e[8] is not None:
            _, tk, fm, near, far, S, nk, p0, p1, taken, aft = e[:11]
            actives = S[fm][1]
            exits, enters, _re = exen(actives, far, outline_of(fms[fm], far))
            if taken:
                for f in enters:
                    why = guard_ok(prog, S, fm, f, exits)
                    if why:
                        return ("guard-bypassed", "tick %d: framer %s went from %s to %s (enters %s, exits %s) although "
                                "%s at the moment of the attempt" % (tk, fm, near, far, enters, exits, why))
            else:
                acted = [x for x in ob["trace"][p0:p1]]
                if acted:
                    return ("refused-transition-acted", "tick %d: refused transition %s -> %s of %s ran actions %s"
                            % (tk, near, far, fm, acted[:4]))
                bef = [actives, S[fm][4], S[fm][5], S.get("__marks__", [])]
                if aft != bef:
                    return ("refused-transition-changed-state", "tick %d: refused transition %s -> %s of %s changed "
                            "(outline, elapsed, recurred, marks written by transit actions) from %s to %s"
                            % (tk, near, far, fm, bef, aft))
        elif e[0] == "suspend" and e[8] is not None and len(e) > 11:
            _, tk, fm, main, aux, S, nk, p0, p1, res, aft, end = e
            nested = orc[i + 1:end]
            if S[aux][3] and not any(x[0] == "enterAll" and x[2] == aux for x in nested):
                # the auxiliary was idle (done flag set) and the attempt did not start it: a refused start
                bef = [S[fm][1], S[fm][4], S[fm][5], S.get("__marks__", [])]
                if ob["trace"][p0:p1] or aft != bef:
                    return ("refused-condaux-acted", "tick %d: the refused start of conditional auxiliary %s of frame %s "
                            "of %s ran actions %s / changed (outline, elapsed, recurred, marks) from %s to %s"
                            % (tk, aux, main, fm, ob["trace"][p0:p1][:4], bef, aft))
        elif e[0] == "enterAll" and e[3]:
            why = start_ok(prog, e[4], e[2])
            if why:
                return ("start-guard-bypassed", "tick %d: framer %s was entered at its first frame although %s at that "
                        "moment" % (e[1], e[2], why))
    return None


def pred_c08_permitted(prog, ob):
    """a transition whose conditions hold and whose target passes the independent entry check at that moment
    (guards, auxiliary ownership with the exits of this very transition, auxiliaries' first-frame conditions) is
    taken: e.g. `timeout T` / `repeat N` leave at the first evaluation at which the clock has reached the goal"""
    fms = _fms(prog)
    for e in ob.get("oracle", []):
        if e[0] == "transit" and e[8] is not None and not e[9] and e[6]:
            _, tk, fm, near, far, S, nk, p0, p1, taken, aft = e[:11]
            actives = S[fm][1]
            exits, enters, _re = exen(actives, far, outline_of(fms[fm], far))
            if enters and all(guard_ok(prog, S, fm, f, exits) is None for f in enters):
                return ("permitted-transition-refused", "tick %d: transition %s -> %s of %s was refused although its "
                        "conditions held and every frame to enter %r passed the entry check (exits %r)"
                        % (tk, near, far, fm, enters, exits))
    return None


def pred_c04_start(prog, ob):
    """a start (ready) of a stopped/readied tasker yields started (readied) iff the first-frame conditions,
    evaluated independently when the control arrives, hold; otherwise the tasker is left stopped"""
    for e in ob.get("oracle", []):
        if e[0] != "ctl" or e[8] is None or e[4] not in (0, 4):
            continue
        _, tk, fm, ctl, s0, S, p0, p1, s1 = e
        why = start_ok(prog, S, fm)
        want = (1 if ctl == 1 else 4) if why is None else 0
        if s1 != want:
            return ("start-conditions", "tick %d: %s sent to %s in status %d returned status %d, expected %d (%s)"
                    % (tk, "start" if ctl == 1 else "ready", fm, s0, s1, want,
                       why or "first-frame conditions hold"))
    return None


def pred_c09_done(prog, ob):
    """'is done' needs observe exactly the completion state: reset when the framer is (re)entered at its first
    frame, set by the done verb and by a full exit"""
    fms = _fms(prog)
    done = {}
    for e in ob.get("oracle", []):
        k = e[0]
        if k == "enterAll":
            done[e[2]] = False
        elif k == "done":
            done[e[2]] = True
        elif k == "exitAll":
            if not e[3]:
                done[e[2]] = True
        elif k == "needdone":
            if e[2] in done and done[e[2]] != e[3]:
                return ("done-need", "tick %d: 'if %s is done' evaluated %s but %s %s" % (
                    e[1], e[2], e[3], e[2], "had completed (done verb / full exit since its last entry)"
                    if done[e[2]] else "had been re-entered and not completed since"))
        elif k == "needdoneaux":
            _, tk, who, fm, fr, r, _p = e
            if fr is None:
                if who in done and done[who] != r:
                    return ("done-need", "tick %d: 'if aux %s is done' evaluated %s, completion state %s" % (
                        tk, who, r, done[who]))
                continue
            auxes = fr_by_name(fms[fm])[fr].get("auxes", [])
            if any(a not in done for a in auxes):
                continue
            if who == "any":
                want = any(done[a] for a in auxes)
            elif who == "all":
                want = bool(auxes) and all(done[a] for a in auxes)
            else:
                want = done[who] if who in auxes else False
            if bool(r) != want:
                return ("done-need", "tick %d: 'if %s in frame %s is done' of %s evaluated %s, completion states %s"
                        % (tk, who, fr, fm, r, {a: done[a] for a in auxes}))
    return None


def pred_c09_order(prog, ob, crashed=False):
    """within one segue of a framer, every plain auxiliary of its active frames makes its transitions before
    any frame of the framer evaluates its own transition / conditional-auxiliary clauses"""
    if crashed:
        return None     # an injected fault unwinds segues half-way: the order statement is about fault-free runs
    orc = ob.get("oracle", [])
    stack = []          # [framer, own clause evaluated?]
    i = 0
    while i < len(orc):
        e = orc[i]
        if e[0] == "segue":
            if e[3] == "begin":
                if stack and stack[-1][1]:
                    return ("aux-segue-after-main", "tick %d: auxiliary %s made its transitions after the frames of its "
                            "main framer %s had already evaluated theirs in the same run" % (e[1], e[2], stack[-1][0]))
                stack.append([e[2], False])
            elif stack:
                stack.pop()
        elif e[0] in ("transit", "suspend") and stack and e[2] == stack[-1][0]:
            stack[-1][1] = True
            if e[0] == "suspend" and len(e) > 11:
                i = max(i, e[11] - 1)        # the conditional auxiliary's own segue is part of the clause
        i += 1
    return None


def pred_c11_const(prog, ob, crashed=False):
    """whenever a transition condition is evaluated during a run of framer M (by M itself or by one of its
    auxiliaries), M's elapsed and recurred are the values of THIS run: they do not change between the start
    of M's segue and M's first taken transition / the end of the segue"""
    if crashed:
        return None
    orc = ob.get("oracle", [])
    stack = []          # [framer, [(elapsed, recurred, where)], frozen?]
    for e in orc:
        if e[0] == "segue":
            if e[3] == "begin":
                stack.append([e[2], [], False])
            elif stack:
                m, vals, frozen = stack.pop()
                if not frozen and len(e) > 4:
                    vals.append((e[4][1], e[4][2], "end of its run"))
                seen = set((a, b) for a, b, _ in vals)
                if len(seen) > 1:
                    return ("clock-changes-mid-run", "tick %d: framer %s's clocks were read as %s within one run before "
                            "any of its own transitions was taken (a condition saw a stale elapsed / recurred)"
                            % (e[1], m, [(float.fromhex(a), b, w) for a, b, w in vals][:6]))
        elif e[0] in ("transit", "suspend") and e[8] is not None:
            S = e[5]
            for fr in stack:
                if not fr[2] and fr[0] in S:
                    fr[1].append((S[fr[0]][4], S[fr[0]][5], "%s of %s" % (e[0], e[2])))
            if e[0] == "transit" and e[9]:
                for fr in stack:
                    if fr[0] == e[2]:
                        fr[2] = True
    return None


def pred_c03_end(prog, ob, crashed=False):
    """a run that ends by itself (no fault, tick limit not reached) ends only when no scheduled tasker is
    started or running: the final sweep finds none in that state"""
    if crashed or ob.get("excn") or ob.get("ticks", 0) >= ob.get("maxticks", 0):
        return None
    ix = kernel.Index(prog)
    taskables = set(ix.taskables(prog))
    sends = [e for e in ob["trace"] if e[0] == "send" and e[2] in taskables]
    if not sends:
        return None
    last_tick = max(e[1] for e in sends)
    status, desire = {}, {}
    bids = bid_table(prog)
    pending = []
    for e in ob["trace"]:
        if e[0] == "rec":
            if e[2] in bids:
                pending.append(bids[e[2]])
            continue
        _, tk, t, c, r = e[:5]
        if t not in taskables:
            continue
        for ctl, ts in pending:
            for x in ts:
                desire[x] = ctl
        pending = []
        if c == 3 and tk == last_tick and desire.get(t) != 3 and status.get(t) in RUNNING:
            # an abort nobody asked for, in the last tick, on a started / running tasker = the final sweep
            later = [x for x in sends if x[1] == tk and x[2] == t]
            if later and later[-1] is e:
                return ("ended-while-running", "tick %d: the run ended and swept tasker %d although it was still %s "
                        "(no abort had been bid on it)" % (tk, t, "started" if status[t] == 1 else "running"))
        if r is not None:
            status[t] = r
    return None


def pred_c02_replay(prog, ob):
    """replay of the scheduler's due test on the implementation's trace alone: every scheduler send goes to a
    tasker that is due (retime <= stamp), every due live tasker is sent in that tick ("at its next due tick"),
    and after a run retime advances from the PREVIOUS due time by the period the tasker has at that moment
    (a bid's period applies from the next reschedule)"""
    ix = kernel.Index(prog)
    order = ix.taskables(prog)
    tick = prog["tick"]
    stamps, s = [], 0.0
    for _ in range(4096):
        stamps.append(s)
        s += tick
    period = {ix.tid[fm["name"]]: abs(fm.get("period", 0.0) or 0.0) for fm in prog["framers"]}
    retime = {t: 0.0 for t in order}
    alive = set(order)
    bids = {}
    for fm in prog["framers"]:
        for fr in fm["frames"]:
            for key in ("enacts", "renacts", "reacts", "exacts", "rexacts"):
                acts = fr.get(key, [])
                for i in range(len(acts) - 1):
                    if acts[i][0] == "rec" and acts[i + 1][0] == "bid" and acts[i + 1][3] is not None \
                            and acts[i + 1][1] not in ("stop", "abort"):
                        ts = []
                        for nm in acts[i + 1][2]:
                            if nm == "all":
                                ts += list(order)
                            elif nm == "me":
                                ts.append(ix.tid[fm["name"]])
                            else:
                                ts.append(ix.tid[nm])
                        bids[acts[i][1]] = (ts, max(0.0, acts[i + 1][3]))
    last_tick = max([e[1] for e in ob["trace"]] or [0])
    sent = {}
    for e in ob["trace"]:
        if e[0] == "rec":
            if e[2] in bids:
                for t in bids[e[2]][0]:
                    period[t] = bids[e[2]][1]
            continue
        tk, t, c, r = e[1], e[2], e[3], e[4]
        if t not in retime:
            continue
        if tk == last_tick and c == 3:
            continue            # the final sweep
        if t not in alive:
            return ("sent-after-abort", "tasker %d sent control %d at tick %d after it had aborted" % (t, c, tk))
        if retime[t] > stamps[tk]:
            return ("ran-before-due", "tasker %d ran at tick %d (stamp %r) before its due time %r"
                    % (t, tk, stamps[tk], retime[t]))
        j = sent.get(t, -1) + 1
        while j < tk:
            if not (retime[t] > stamps[j]):
                return ("ran-after-due", "tasker %d was due at tick %d (due time %r) but was first run at tick %d"
                        % (t, j, retime[t], tk))
            j += 1
        sent[t] = tk
        retime[t] = retime[t] + period[t]
        if r == 3 or r is None:
            alive.discard(t)
    return None


def pred_slaves_unscheduled(prog, ob):
    """slave and auxiliary framers are never run by the scheduler: every control they receive is sent from inside
    the run of another framer (a fiat, or their main framer), never at the top level of a tick"""
    sched = {fm["name"]: fm["sched"] for fm in prog["framers"]}
    for e in ob.get("oracle", []):
        if e[0] == "sendbegin" and len(e) > 6 and e[6] == 0 and sched.get(e[2]) in ("slave", "aux"):
            return ("slave-run-by-scheduler", "tick %d: %s framer %s received control %d directly from the scheduler"
                    % (e[1], sched[e[2]], e[2], e[3]))
    return None


def pred_let_conjuncts(prog, ob):
    """every conjunct of a `let [me] if A and B ...` command is a before-enter act of its frame"""
    want = {(fm["name"], fr["name"]): len([n for n in fr.get("beacts", []) if n[0] != "always"])
            for fm in prog["framers"] for fr in fm["frames"]}
    for e in ob.get("oracle", []):
        if e[0] == "beacts" and (e[2], e[3]) in want and e[4] != want[(e[2], e[3])]:
            return ("let-conjunct-dropped", "frame %s of %s was written with %d before-enter conditions but carries %d "
                    "before-enter acts after the build" % (e[3], e[2], want[(e[2], e[3])], e[4]))
    return None


def pred_tracts_first(prog, ob):
    """a taken transition (or a started conditional auxiliary) runs its transit actions before any exit, re-exit,
    re-enter or enter action: no recorder event precedes a transit marker inside the attempt"""
    orc = ob.get("oracle", [])
    for i, e in enumerate(orc):
        if e[0] in ("transit", "suspend") and e[8] is not None and len(e) > 11:
            for x in orc[i + 1:e[11]]:
                if x[0] == "mark" and x[2] == 0 and x[3] > e[7]:
                    return ("transit-actions-late", "tick %d: %s of %s ran %d action event(s) %r before its transit "
                            "(marker) actions" % (e[1], e[0], e[2], x[3] - e[7], ob["trace"][e[7]:x[3]][:3]))
                if x[0] in ("transit", "suspend"):
                    break        # nested attempts have their own check
    return None


def pred_recur_active(prog, ob):
    """only the frames of the framer's (possibly truncated) active outline recur: a frame suspended under a
    conditional auxiliary -- and with it its plain auxiliaries -- does not"""
    for e in ob.get("oracle", []):
        if e[0] == "recur" and e[3] not in e[4]:
            return ("suspended-frame-recurs", "tick %d: frame %s of %s ran its recur step (its recur actions and its "
                    "auxiliaries' runs) although the framer's active frames were %r" % (e[1], e[3], e[2], e[4]))
    return None


def pred_c11_verbs(prog, ob):
    """`timeout T` / `repeat N`: whenever the verb's transition is attempted its condition is exactly
    elapsed >= T / recurred >= N on the framer's clocks at that moment"""
    verbs = {}
    for fm in prog["framers"]:
        for fr in fm["frames"]:
            gos = [pa for pa in fr.get("preacts", []) if pa[0] == "go"]
            for pa in gos:
                if len(pa) > 3 and len([g for g in gos if g[2] == pa[2]]) == 1:
                    verbs[(fm["name"], fr["name"], pa[2])] = (pa[3], pa[1][0][2])
    for e in ob.get("oracle", []):
        if e[0] != "transit":
            continue
        k = (e[2], e[3], e[4])
        if k not in verbs:
            continue
        kind, goal = verbs[k]
        S = e[5]
        if kind == "timeout":
            want = float.fromhex(S[e[2]][4]) >= float(goal)
        else:
            want = S[e[2]][5] >= goal
        if bool(e[6]) != want:
            return ("verb-condition", "tick %d: `%s %r` in frame %s of %s evaluated %s with elapsed=%r recurred=%d"
                    % (e[1], kind, goal, e[3], e[2], e[6], float.fromhex(S[e[2]][4]), S[e[2]][5]))
    return None


def pred_c10(prog, ob):
    """a conditional auxiliary that is not entered, whose conditions hold, which is free and may start, is
    entered by the attempt; the frames below its main frame are suspended (truthy result) only while it is
    entered"""
    entered = {}
    done = {}
    orc = ob.get("oracle", [])
    for i, e in enumerate(orc):
        k = e[0]
        if k == "enterAll":
            entered[e[2]] = True
            done[e[2]] = False
        elif k == "exitAll":
            entered[e[2]] = False
        elif k == "done":
            done[e[2]] = True
        elif k == "suspend" and e[8] is not None and len(e) > 11:
            _, tk, fm, main, aux, S, nk, p0, p1, res, aft, end = e
            was = entered.get(aux, False)
            nested = orc[i + 1:end]
            now = was
            started = False
            for x in nested:
                if x[0] == "enterAll" and x[2] == aux:
                    now, started = True, True
                elif x[0] == "exitAll" and x[2] == aux:
                    now = False
            owner = S[aux][2]
            free = (not owner) or owner == [fm, main]
            if not was and nk and free and start_ok(prog, S, aux) is None and not started:
                return ("condaux-not-entered", "tick %d: conditional auxiliary %s of frame %s of %s was not running, its "
                        "conditions held, it was free and startable, yet it was not entered" % (tk, aux, main, fm))
            if not was and started and not (nk and free and start_ok(prog, S, aux) is None):
                return ("condaux-entered-unduly", "tick %d: conditional auxiliary %s of frame %s of %s was entered although "
                        "%s" % (tk, aux, main, fm, "its conditions were false" if not nk else
                                ("it is owned by %s" % owner if not free else start_ok(prog, S, aux))))
            completed = done.get(aux, False) or any(x[0] == "done" and x[2] == aux for x in nested)
            for x in nested:       # a done verb counts only if it follows the (re)entry of this call
                if x[0] == "enterAll" and x[2] == aux:
                    completed = False
                elif x[0] == "done" and x[2] == aux:
                    completed = True
            mine = started or (was and owner == [fm, main])
            if mine and completed and (now or res):
                return ("completed-condaux-not-exited", "tick %d: conditional auxiliary %s of frame %s of %s executed "
                        "'done' but %s" % (tk, aux, main, fm, "is still entered" if now else
                                           "the frames below its main frame stay suspended"))
            if res and not now:
                return ("suspended-without-aux", "tick %d: the frames below %s of %s were suspended by conditional "
                        "auxiliary %s which is not entered (exited and never re-entered)" % (tk, main, fm, aux))
    return None


PREDS = {"C04": pred_c04, "C03": pred_c03, "C05": pred_c05, "C06": pred_c06, "C09": pred_c09, "C11": pred_c11,
         "C08": pred_c08, "C04s": pred_c04_start, "C09d": pred_c09_done, "C10": pred_c10,
         "C09o": pred_c09_order, "C11c": pred_c11_const, "C03e": pred_c03_end,
         "C02r": pred_c02_replay, "C05s": pred_c05_susp, "C08p": pred_c08_permitted,
         "C09r": pred_recur_active, "C11v": pred_c11_verbs,
         "C04u": pred_slaves_unscheduled, "C08l": pred_let_conjuncts, "C06t": pred_tracts_first}


def kernel_check(ctx, pid, runs, preds, rule, extra_assumptions=(), corpus=(), extra_checks=()):
    """shared body of the kernel property checks: build Props, run correspondence batches, evaluate the
    implementation-only statements on every run; a failing statement is a violation (known findings excepted)"""
    ctx.rule = rule
    ctx.assumptions = [
        "harness doubles in the check process only: Printer.action recorder, runner proxies, store.changeStamp "
        "wrapper (tick count, tick-limit KeyboardInterrupt), attempt oracle (wrappers that only record: Transiter / "
        "Suspender / enterAll / exitAll / segue / Frame.enter / Frame.recur / markers / done / done-needs); kernel "
        "language excludes clones/rear/raze, "
        "loggers/servers, fiats in benter context; generated programs never list one original auxiliary twice in "
        "one outline / family nor as plain and conditional auxiliary of the same frame (known findings)",
    ] + list(extra_assumptions)
    ctx.coq_build("%s/Props.v" % pid)
    extra_found = [f for f in [chk(ctx) for chk in extra_checks] if f]
    allm = []
    for i, (p, ca) in enumerate(corpus):
        ob = kernel.run_impl(p, ca, ctx.work, "corpus%d" % i, maxticks=ctx.n(20, 36))
        ctx.case({"corpus": i, "flo": kernel.render_flo(p)}, nontrivial=True, kind="corpus")
        allm.append((p, ca, ob, False))
    sc_cases, sc_meta = [], []
    for nm, p in kernel.scenarios(0.125) + kernel.scenarios(0.1):
        ob = kernel.run_impl(p, None, ctx.work, "sc_" + nm.replace("-", "_"), maxticks=ctx.n(20, 36))
        if "error" in ob:
            ctx.tie_broken("correspondence", "scenario %s: implementation raised %s" % (nm, ob["error"]),
                           kernel.json_dumps(ob))
            allm.append((p, None, ob, True))
            continue
        ctx.case({"scenario": nm, "tick": p["tick"], "events": len(ob["trace"])}, nontrivial=True, kind="scenario")
        sc_cases.append((kernel.coq_run_expr(p, None, ctx.n(20, 36)), kernel.coq_obs(ob)))
        sc_meta.append((nm, p, ob))
        allm.append((p, None, ob, False))
    for i in ctx.coq_cases(kernel.COQ_HEADER, "(obs_eqb FOps)", sc_cases, shard=8, name="scen"):
        nm, p, ob = sc_meta[i]
        ctx.tie_broken("correspondence", "scenario %s: model and implementation traces differ" % nm,
                       kernel.json_dumps({"flo": kernel.render_flo(p), "impl": ob}))
    for r in runs:
        allm += kernel.correspond(ctx, ctx.n(r["quick"], r["thorough"]), features=r.get("features"),
                                  ticks=r.get("ticks", (0.125,)), sizes=r.get("sizes", (2, 4)),
                                  crash=r.get("crash", "none"), maxticks=ctx.n(20, 36), label=r["label"])
    seen, fails = set(), []
    for p, ca, ob, bad in allm:
        if "error" in ob:
            continue
        for pr in preds:
            f = PREDS[pr]
            res = f(p, ob, crashed=ca) if "crashed" in f.__code__.co_varnames[:f.__code__.co_argcount] else f(p, ob)
            if res:
                key, why = res
                key = "%s:%s" % (pr, key)
                if key in seen:
                    continue
                seen.add(key)
                # the implementation alone fails the executable statement on this program
                fails.append((key, {"flo": kernel.render_flo(p), "crash_at": ca, "why": why,
                                    "impl_trace_head": ob["trace"][:80],
                                    "contradicts": "%s.Props / statement %s" % (pid, pr)}))
    # known findings are printed, the others are violations with their concrete program
    unknown = [(k, r) for k, r in fails if not ctx.known_finding(k)]
    if not ctx.broken:
        for k, r in unknown:
            ctx.violation(r, True, k)

    def search():
        if extra_found:
            return extra_found[0]
        if unknown:
            k, r = unknown[0]
            return dict(r, key=k)
        for p, ca, ob, bad in allm:
            if "error" in ob and ob["error"] != "Hang":
                return {"key": "%s:impl-error:%s" % (pid, ob["error"]), "flo": kernel.render_flo(p),
                        "crash_at": ca, "error": ob, "contradicts": "%s.Props (kernel language left)" % pid}
        return None

    ctx.settle(search)
