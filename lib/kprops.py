"""
kprops.py -- executable statements of the kernel properties (C03-C11) evaluated on the
IMPLEMENTATION's observations alone (independent of the Coq model), used by the checks' search for a
failing input, plus the shared driver for the kernel property checks.
"""
import kernel

RUNNING = (1, 2)   # Started, Running


def fr_by_name(fm):
    return {fr["name"]: fr for fr in fm["frames"]}


def head_of(fm, name):
    frs = fr_by_name(fm)
    chain, cur, guard = [], name, 0
    while cur is not None and guard < 100:
        chain.append(cur)
        cur = frs[cur].get("over")
        guard += 1
    return list(reversed(chain))


def outline_of(fm, name):
    out = head_of(fm, name)
    cur, guard = name, 0
    while guard < 100:
        kids = kernel.unders_of(fm, fr_by_name(fm)[cur])
        if not kids:
            break
        cur = kids[0]
        out.append(cur)
        guard += 1
    return out


def tag_table(prog):
    """recorder tag -> (framer name, frame name, context, position in that act list)"""
    tab = {}
    for fm in prog["framers"]:
        for fr in fm["frames"]:
            for ctx in ("enacts", "renacts", "reacts", "exacts", "rexacts"):
                for i, a in enumerate(fr.get(ctx, [])):
                    if a[0] == "rec":
                        tab[a[1]] = (fm["name"], fr["name"], ctx, i)
            for i, pa in enumerate(fr.get("preacts", [])):
                if pa[0] == "act" and pa[1][0] == "rec":
                    tab[pa[1][1]] = (fm["name"], fr["name"], "preacts", i)
    return tab


def pred_c05(prog, ob):
    """after every runner send: a started/running framer's actives are an outline of one of its frames,
    or (conditional aux running) a head; a stopped/aborted scheduled or slave framer has none"""
    ix = kernel.Index(prog)
    names = {t: fm for fm in prog["framers"] for t in [ix.tid[fm["name"]]]}
    for e in ob["trace"]:
        if e[0] != "send":
            continue
        _, tk, t, c, r, acts, el, rc = e
        fm = names[t]
        local = {j: fr["name"] for j, fr in enumerate(fm["frames"])}
        anames = [local[a] for a in acts]
        if r in RUNNING:
            ok = any(anames == outline_of(fm, fr["name"]) for fr in fm["frames"]) or \
                 any(anames == head_of(fm, fr["name"]) for fr in fm["frames"])
            if not ok:
                return ("actives-not-outline", "tick %d: framer %s status %d has actives %r: neither an outline nor "
                        "a head" % (tk, fm["name"], r, anames))
        elif r in (0, 3) and anames:
            return ("stopped-with-actives", "tick %d: framer %s status %d still has active frames %r" % (
                tk, fm["name"], r, anames))
    return None


def enter_exit_events(prog, ob):
    """[(tick, framer, frame, 'enter'|'exit')] from the first recorder of each frame's enacts / exacts"""
    tab = tag_table(prog)
    out = []
    for e in ob["trace"]:
        if e[0] == "rec" and e[2] in tab:
            fmn, frn, ctx, i = tab[e[2]]
            if ctx == "enacts" and i == 0:
                out.append((e[1], fmn, frn, "enter"))
            elif ctx == "exacts" and i == 0:
                out.append((e[1], fmn, frn, "exit"))
    return out


def _aux_uses(prog, name):
    n = 0
    for fm in prog["framers"]:
        for fr in fm["frames"]:
            n += fr.get("auxes", []).count(name)
            n += sum(1 for pa in fr.get("preacts", []) if pa[0] == "aux" and pa[2] == name)
    return n


def pred_c06(prog, ob, crashed=False):
    """each frame's enter and exit actions alternate starting with enter; after a run that ended
    without an injected crash every entered frame of a scheduled framer has been exited.
    returns None or (finding key, description)"""
    ix = kernel.Index(prog)
    tid_of = {fm["name"]: ix.tid[fm["name"]] for fm in prog["framers"]}
    state = {}
    suspended = {}      # framer -> True when its last logged outline was shorter than its entered frames
    tab = tag_table(prog)
    for e in ob["trace"]:
        if e[0] == "send":
            fmn = [n for n, t in tid_of.items() if t == e[2]][0]
            entered = [k for k, v in state.items() if v == "in" and k[0] == fmn]
            suspended[fmn] = len(entered) > len(e[5]) > 0 or (suspended.get(fmn, False) and not e[5] and bool(entered))
            continue
        if e[2] not in tab:
            continue
        fmn, frn, ctx, i = tab[e[2]]
        if i != 0 or ctx not in ("enacts", "exacts"):
            continue
        tk, k = e[1], (fmn, frn)
        cur = state.get(k, "out")
        if ctx == "enacts":
            if cur == "in":
                if any(v for v in suspended.values()):
                    return ("suspended-frames-not-exited",
                            "tick %d: frame %s.%s entered twice without exit (frames suspended under a conditional "
                            "aux were not exited)" % (tk, fmn, frn))
                if _aux_uses(prog, fmn) > 1:
                    return ("aux-claimed-twice", "tick %d: frame %s.%s of shared auxiliary entered twice without exit"
                            % (tk, fmn, frn))
                return ("enter-twice", "tick %d: frame %s.%s entered twice without exit" % (tk, fmn, frn))
            state[k] = "in"
        else:
            if cur != "in":
                return ("exit-without-enter", "tick %d: frame %s.%s exited without being entered" % (tk, fmn, frn))
            state[k] = "out"
    if not crashed:
        sched = set(fm["name"] for fm in prog["framers"] if fm["sched"] in ("active", "inactive"))
        left = [k for k, v in state.items() if v == "in" and k[0] in sched]
        if left:
            if any(suspended.get(k[0]) for k in left):
                return ("suspended-frames-not-exited",
                        "run returned with frames still entered %r: frames suspended under a conditional aux are not "
                        "exited by stop/abort/transitions (exits are computed from the truncated outline)" % (left,))
            return ("frames-left-entered", "run returned with frames still entered: %r" % (left,))
    return None


def pred_c03(prog, ob, crashed=False):
    """however the run ends every tasker still scheduled gets exactly one abort in the final sweep and ends
    aborted; taskers dropped earlier had aborted.  (sweep = trailing abort sends by the skedder)"""
    ix = kernel.Index(prog)
    taskables = ix.taskables(prog)
    sends = [e for e in ob["trace"] if e[0] == "send"]
    # final sweep: trailing sends with control ABORT to taskables
    sweep = []
    for e in reversed(sends):
        if e[3] == 3 and e[2] in taskables:
            sweep.append(e[2])
        elif e[2] in taskables:
            break
    if len(set(sweep)) != len(sweep):
        return ("sweep-twice", "a tasker was aborted twice in the final sweep: %r" % (sweep,))
    for t in taskables:
        if ob["status"][t] != 3:
            return ("not-aborted", "tasker %d not aborted when run() returned (status %d)" % (t, ob["status"][t]))
    return None


def pred_c09(prog, ob):
    """a plain auxiliary's frames are entered after its main frame's enter action and exited before the
    main frame's exit action (bracketing of aux events inside the main frame's enter/exit)"""
    plain = {}
    for fm in prog["framers"]:
        for fr in fm["frames"]:
            for ax in fr.get("auxes", []):
                plain.setdefault(ax, []).append((fm["name"], fr["name"]))
    cond = set(pa[2] for fm in prog["framers"] for fr in fm["frames"] for pa in fr.get("preacts", []) if pa[0] == "aux")
    inside = {}
    for tk, fmn, frn, kind in enter_exit_events(prog, ob):
        inside[(fmn, frn)] = (kind == "enter")
        if fmn in plain and fmn not in cond and kind == "enter":
            mains = plain[fmn]
            if not any(inside.get(m) for m in mains):
                return ("aux-outside-main", "tick %d: aux %s frame %s entered while none of its main frames %r is "
                        "entered" % (tk, fmn, frn, mains))
    return None


def pred_c11(prog, ob):
    """after every run of a scheduled framer: recurred counts the iterations since the outline last
    changed and elapsed is the store time since then (binary64, the scheduler's own stamps)"""
    tick = prog["tick"]
    ix = kernel.Index(prog)
    sched = set(ix.taskables(prog))
    stamps, s = [], 0.0
    for _ in range(4096):
        stamps.append(s)
        s += tick
    tab = tag_table(prog)
    fmn_of = {ix.tid[fm["name"]]: fm["name"] for fm in prog["framers"]}
    since = {}     # tid -> stamp at last (re)entry
    count = {}
    entered_now = set()
    for e in ob["trace"]:
        if e[0] == "rec":
            if e[2] in tab and tab[e[2]][2] == "enacts" and tab[e[2]][3] == 0:
                entered_now.add(tab[e[2]][0])
            continue
        _, tk, t, c, r, acts, el, rc = e
        if t not in sched:
            entered_now.discard(fmn_of[t])
            continue
        if fmn_of[t] in entered_now:          # its own frames were (re)entered during this send
            since[t] = stamps[tk]
            count[t] = 0
            entered_now.discard(fmn_of[t])
            if r in RUNNING and (float.fromhex(el) != 0.0 or rc != 0):
                return ("clock-not-reset", "tick %d: framer %s re-entered but elapsed=%s recurred=%d" % (
                    tk, fmn_of[t], el, rc))
        elif c == 2 and r == 2 and t in since:
            count[t] += 1
            exp = stamps[tk] - since[t]
            if float.fromhex(el) != exp or rc != count[t]:
                return ("clock-wrong", "tick %d: framer %s elapsed=%s recurred=%d, expected %r / %d" % (
                    tk, fmn_of[t], el, rc, exp, count[t]))
    return None


PREDS = {"C03": pred_c03, "C05": pred_c05, "C06": pred_c06, "C09": pred_c09, "C11": pred_c11}


def kernel_check(ctx, pid, runs, preds, rule, extra_assumptions=(), corpus=()):
    """shared body of the kernel property checks: build Props, run correspondence batches, evaluate the
    implementation-only statements on every run; a failing statement is a violation (known findings excepted)"""
    ctx.rule = rule
    ctx.assumptions = [
        "harness doubles in the check process only: Printer.action recorder, runner proxies, store.changeStamp "
        "wrapper (tick count, tick-limit KeyboardInterrupt); kernel language excludes clones/rear/raze, markers, "
        "loggers/servers, fiats in benter context; generated programs never list one original auxiliary twice in "
        "one outline / family nor as plain and conditional auxiliary of the same frame (known findings)",
    ] + list(extra_assumptions)
    ctx.coq_build("%s/Props.v" % pid)
    allm = []
    for i, (p, ca) in enumerate(corpus):
        ob = kernel.run_impl(p, ca, ctx.work, "corpus%d" % i, maxticks=ctx.n(20, 36))
        ctx.case({"corpus": i, "flo": kernel.render_flo(p)}, nontrivial=True, kind="corpus")
        allm.append((p, ca, ob, False))
    for r in runs:
        allm += kernel.correspond(ctx, ctx.n(r["quick"], r["thorough"]), features=r.get("features"),
                                  ticks=r.get("ticks", (0.125,)), sizes=r.get("sizes", (2, 4)),
                                  crash=r.get("crash", "none"), maxticks=ctx.n(20, 36), label=r["label"])
    seen = set()
    for p, ca, ob, bad in allm:
        if "error" in ob:
            continue
        for pr in preds:
            f = PREDS[pr]
            res = f(p, ob, crashed=ca is not None) if pr in ("C03", "C06") else f(p, ob)
            if res:
                key, why = res
                key = "%s:%s" % (pr, key)
                if key in seen:
                    continue
                seen.add(key)
                # the implementation alone fails the executable statement on this program
                ctx.violation({"flo": kernel.render_flo(p), "crash_at": ca, "why": why,
                               "impl_trace_head": ob["trace"][:80], "contradicts": "%s.Props / statement %s" % (pid, pr)},
                              True, key)

    def search():
        for p, ca, ob, bad in allm:
            if "error" in ob and ob["error"] != "Hang":
                return {"key": "%s:impl-error:%s" % (pid, ob["error"]), "flo": kernel.render_flo(p),
                        "crash_at": ca, "error": ob, "contradicts": "%s.Props (kernel language left)" % pid}
        return None

    ctx.settle(search)
