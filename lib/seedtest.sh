#!/bin/sh
# usage: lib/seedtest.sh Cxx [srcdir]   -- evaluate a seeded change (srcdir default /tmp/mut-out/Cxx, else /verif/seeded/Cxx)
# 1. demo passes on /repo, fails on the changed tree   2. ./check Cxx on the changed tree must alarm
id="$1"; src="${2:-/tmp/mut-out/$id}"; chk="${3:-$id}"
wt="/tmp/seed-$id"
git -C /repo worktree remove --force "$wt" >/dev/null 2>&1
git -C /repo worktree add --detach "$wt" HEAD >/dev/null 2>&1 || { echo "$id: cannot create worktree"; exit 2; }
if ! git -C "$wt" apply "$src/patch.diff" 2>/tmp/seed-$id.err; then echo "$id: PATCH DOES NOT APPLY: $(head -2 /tmp/seed-$id.err)"; git -C /repo worktree remove --force "$wt"; exit 2; fi
( cd "$src" && PYTHONPATH=/repo PYTHONHASHSEED=0 timeout 120 /venv/bin/python demo.py >/tmp/seed-$id.demo0 2>&1 ); d0=$?
( cd "$src" && PYTHONPATH="$wt" PYTHONHASHSEED=0 timeout 120 /venv/bin/python demo.py >/tmp/seed-$id.demo1 2>&1 ); d1=$?
cd /verif
VERIF_REPO="$wt" VERIF_EVIDENCE_DIR="/tmp/seed-evidence" ./check "$chk" >/tmp/seed-$id.check 2>&1; c=$?
v=$(grep -c '^VIOLATION' /tmp/seed-$id.check)
nf=$(grep -c 'no-failing-input-found' /tmp/seed-$id.check)
echo "$id (check $chk): demo(repo)=$d0 demo(changed)=$d1 check_exit=$c violations=$v no_input=$nf $(tail -1 /tmp/seed-$id.check | cut -c1-100)"
git -C /repo worktree remove --force "$wt" >/dev/null 2>&1
