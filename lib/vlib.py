"""
vlib -- shared machinery for the per-property checks (see /verif/HOWTO.md).

One Ctx per check invocation.  It
  * knows where the implementation is   (ctx.repo, default /repo, env VERIF_REPO)
  * regenerates / builds Coq             (ctx.write_gen, ctx.coq_build, ctx.coq_cases, ctx.coq_run)
  * counts correspondence cases          (ctx.case)
  * records broken ties                  (ctx.tie_broken)
  * reports violations / known findings  (ctx.violation, ctx.known_finding)
  * writes evidence/<id>.json and exits  (ctx.finish)
"""
from __future__ import annotations

import collections.abc  # noqa: F401  (C01 defect guard: must precede any ioflo import)
import fcntl
import hashlib
import json
import os
import random
import re
import shutil
import subprocess
import sys
import time
from concurrent.futures import ThreadPoolExecutor

VERIF = os.path.dirname(os.path.dirname(os.path.abspath(__file__)))
COQ = os.path.join(VERIF, "coq")
REPO = os.environ.get("VERIF_REPO", "/repo")
PY = "/venv/bin/python"
NCPU = 16

FORBIDDEN = re.compile(
    r"\b(Admitted|admit|Axiom|Axioms|Parameter|Parameters|Conjecture|Conjectures|"
    r"Admit\s+Obligations|bypass_check|native_compute)\b|Unset\s+Guard|Unset\s+Positivity|"
    r"Unset\s+Universe\s+Checking|type-in-type|impredicative-set")

# axioms declared by the Coq standard library itself (or kernel primitives); anything
# else reported by Print Assumptions fails the obligation.
STD_AXIOM_PREFIXES = (
    "functional_extensionality_dep", "FunctionalExtensionality.functional_extensionality_dep",
    "Eqdep.Eq_rect_eq.eq_rect_eq", "Eq_rect_eq.eq_rect_eq", "JMeq_eq", "JMeq.JMeq_eq",
    "Classical_Prop.classic", "classic", "ProofIrrelevance.proof_irrelevance",
    "proof_irrelevance", "propositional_extensionality",
    "PrimFloat.", "Uint63.", "PrimInt63.", "Sint63.", "FloatAxioms.", "FloatOps.", "SpecFloat.",
    "PrimArray.", "Float64.", "float", "int", "array", "Uint63Axioms.", "PArray.",
    "ClassicalDedekindReals.", "sig_forall_dec", "sig_not_dec",
)


class BuildResult:
    def __init__(self, ok, log, failed=None, theorems=None):
        self.ok = ok
        self.log = log
        self.failed = failed          # file that failed (relative to coq/)
        self.theorems = theorems or []  # [(name, assumptions_text)]


def strip_coq_comments(text):
    out, depth, i, n = [], 0, 0, len(text)
    while i < n:
        if text.startswith("(*", i):
            depth += 1
            i += 2
        elif text.startswith("*)", i) and depth:
            depth -= 1
            i += 2
        else:
            if depth == 0:
                out.append(text[i])
            i += 1
    return "".join(out)


def sh(cmd, timeout=600, cwd=None, env=None, input=None):
    """run a command, return (rc, stdout+stderr). rc=124 on timeout."""
    try:
        p = subprocess.run(cmd, cwd=cwd, env=env, input=input, timeout=timeout,
                           stdout=subprocess.PIPE, stderr=subprocess.STDOUT,
                           shell=isinstance(cmd, str), text=True, errors="replace")
        return p.returncode, p.stdout
    except subprocess.TimeoutExpired as ex:
        out = ex.stdout or ""
        if isinstance(out, bytes):
            out = out.decode("utf8", "replace")
        return 124, out + "\n[TIMEOUT after %ss]" % timeout


def impl_env(repo=None):
    env = dict(os.environ)
    env["PYTHONPATH"] = repo or REPO
    env["PYTHONHASHSEED"] = "0"
    env["PYTHONDONTWRITEBYTECODE"] = "1"
    env["PYTHONWARNINGS"] = "ignore"
    return env


# ---------------------------------------------------------------------------
# Coq literal helpers
# ---------------------------------------------------------------------------

def cz(n):
    """Python int -> Coq Z literal"""
    n = int(n)
    return "(%d)%%Z" % n


def cnat(n):
    return "%d%%nat" % int(n)


def cbool(b):
    return "true" if b else "false"


def clist(items, ty=None):
    """items already rendered"""
    items = list(items)
    if not items:
        return "(@nil %s)" % ty if ty else "[]"
    return "[" + "; ".join(items) + "]"


def czlist(ns):
    return clist([cz(n) for n in ns], "Z")


def cbytes(bs):
    """bytes -> list Z"""
    return czlist(list(bs))


def cstr(s):
    """python str (code points < 256 each) -> list Z of code points"""
    return czlist([ord(c) for c in s])


def copt(x, render=lambda v: v):
    return "None" if x is None else "(Some %s)" % render(x)


def cpair(a, b):
    return "(%s, %s)" % (a, b)


def cq(fr):
    """fractions.Fraction -> Coq Q literal"""
    return "(%d # %d)%%Q" % (fr.numerator, fr.denominator)


# ---------------------------------------------------------------------------

class Ctx:
    def __init__(self, pid, tier="quick", seed=None, level="proof"):
        self.pid = pid
        self.tier = tier
        if seed is None:
            seed = int(os.environ.get("VERIF_SEED", "20260921"))
        self.seed = seed
        self.rng = random.Random(seed * 1000003 + int(pid[1:]))
        self.repo = REPO
        self.t0 = time.time()
        self.level = level
        self.work = os.path.join(VERIF, ".work", "%s-%d" % (pid, os.getpid()))
        os.makedirs(self.work, exist_ok=True)
        self.thorough = tier == "thorough"
        # evidence accumulators
        self.obligations = 0
        self.discharged = 0
        self.theorems = []        # names
        self.trusted = []         # strings
        self.assumptions = []
        self.evaluations = 0
        self.case_hashes = set()
        self.samples = []
        self.rule = ""
        self.checker_cmds = []
        self.extra = {}
        self.distribution = {}
        self.broken = []          # [(kind, name, detail)]
        self.violations = 0
        self.known_printed = set()
        self.exhaustive = None
        self._known = None

    # -- scaling -----------------------------------------------------------
    def n(self, quick, thorough):
        return thorough if self.thorough else quick

    # -- implementation side ----------------------------------------------
    def impl_python(self, script, inp=None, timeout=300, args=()):
        """run a python script (path or '-c' source) against the implementation in a
        fresh subprocess.  inp: JSON-serialisable, passed on stdin.  returns (rc, out)"""
        if os.path.exists(script):
            cmd = [PY, script] + list(args)
        else:
            cmd = [PY, "-c", script] + list(args)
        return sh(cmd, timeout=timeout, env=impl_env(self.repo), cwd=self.work,
                  input=None if inp is None else json.dumps(inp))

    # -- Coq ----------------------------------------------------------------
    def write_gen(self, relname, text):
        """write coq/gen/<relname> iff content changed (so make rebuilds dependents)"""
        path = os.path.join(COQ, "gen", relname)
        os.makedirs(os.path.dirname(path), exist_ok=True)
        old = None
        if os.path.exists(path):
            with open(path) as f:
                old = f.read()
        if old != text:
            with open(path, "w") as f:
                f.write(text)
        self.trusted.append("generated %s sha256=%s" % (
            relname, hashlib.sha256(text.encode()).hexdigest()[:16]))
        return path

    def _lock(self):
        os.makedirs(os.path.join(VERIF, ".work"), exist_ok=True)
        f = open(os.path.join(VERIF, ".work", "coq.lock"), "w")
        fcntl.flock(f, fcntl.LOCK_EX)
        return f

    def _refresh_makefile(self):
        files = []
        for root, _, names in os.walk(COQ):
            for nm in sorted(names):
                if nm.endswith(".v") and not nm.startswith("."):
                    files.append(os.path.relpath(os.path.join(root, nm), COQ))
        files.sort()
        proj = "-Q . V\n-arg -w -arg -all\n" + "\n".join(files) + "\n"
        pp = os.path.join(COQ, "_CoqProject")
        old = open(pp).read() if os.path.exists(pp) else None
        if old != proj or not os.path.exists(os.path.join(COQ, "Makefile")):
            with open(pp, "w") as f:
                f.write(proj)
            rc, out = sh(["coq_makefile", "-f", "_CoqProject", "-o", "Makefile"], cwd=COQ)
            if rc != 0:
                raise RuntimeError("coq_makefile failed:\n" + out)
        return files

    @staticmethod
    def coq_closure(files):
        """transitive closure of `Require ... V.Dir.File` dependencies (paths relative to coq/)"""
        seen, todo = [], list(files)
        while todo:
            f = todo.pop()
            if f in seen:
                continue
            seen.append(f)
            p = os.path.join(COQ, f)
            if not os.path.exists(p):
                continue
            txt = strip_coq_comments(open(p).read())
            for m in re.finditer(r"\bV\.((?:\w+\.)*\w+)", txt):
                parts = m.group(1).split(".")
                for k in range(len(parts), 0, -1):
                    cand = "/".join(parts[:k]) + ".v"
                    if os.path.exists(os.path.join(COQ, cand)):
                        todo.append(cand)
                        break
        return sorted(seen)

    def static_scan(self, files):
        """forbidden-construct scan over the dependency closure of the given files"""
        bad = []
        for f in self.coq_closure(files):
            p = os.path.join(COQ, f)
            if not os.path.exists(p):
                continue
            txt = strip_coq_comments(open(p).read())
            m = FORBIDDEN.search(txt)
            if m:
                bad.append("%s: %s" % (f, m.group(0)))
        return bad

    def _coqchk(self, pf):
        """independent re-check of the compiled closure (coqchk) + its own axiom listing (thorough tier)"""
        lib = "V." + pf[:-2].replace("/", ".")
        cmdk = "timeout 1500 coqchk -silent -o -Q . V %s" % lib
        self.checker_cmds.append("cd coq && " + cmdk)
        rck, outk = sh("ulimit -s unlimited; " + cmdk, cwd=COQ, timeout=1560)
        summary = " ".join(outk[outk.find("* Axioms"):].split())[:1500] if "* Axioms" in outk else outk[-400:]
        self.trusted.append("coqchk -o %s: rc=%d %s" % (lib, rck, summary))
        bad_modes = [k for k in ("type-in-type", "unsafe (co)fixpoints", "positivity is assumed")
                     if re.search(re.escape(k) + r":\s*(?!<none>)\S", outk)]
        if rck != 0 or bad_modes:
            self.tie_broken("proof", "coqchk " + lib, outk[-1500:])
            return False
        return True

    def coq_build(self, props_files, timeout=900):
        """Build the .vo closure of the given files (relative to coq/, e.g. 'C40/Props.v').
        The listed files themselves are ALWAYS recompiled (so their theorems are
        re-checked and Print Assumptions output is captured on every run); their
        dependencies are rebuilt by make when their sources or generated inputs changed.
        Counts obligations: every Theorem in the listed files."""
        if isinstance(props_files, str):
            props_files = [props_files]
        bad = self.static_scan(props_files)
        if bad:
            self.obligations += 1
            self.tie_broken("static", "forbidden construct", "; ".join(bad))
            return BuildResult(False, "forbidden constructs: " + "; ".join(bad))
        lock = self._lock()
        try:
            self._refresh_makefile()
            logs = []
            all_ok = True
            failed = None
            thms_all = []
            for pf in props_files:
                src = open(os.path.join(COQ, pf)).read()
                names = re.findall(r"^\s*(?:Theorem|Corollary)\s+(\w+)", strip_coq_comments(src), re.M)
                self.obligations += len(names)
                vo = pf[:-2] + ".vo"
                try:
                    os.remove(os.path.join(COQ, vo))
                except OSError:
                    pass
                cmd = "timeout %d make -j%d %s" % (timeout, NCPU, vo)
                self.checker_cmds.append("cd coq && coq_makefile -f _CoqProject -o Makefile && " + cmd)
                rc, out = sh(cmd, cwd=COQ, timeout=timeout + 30)
                logs.append(out)
                if rc != 0:
                    all_ok = False
                    m = re.search(r'File "\./([^"]+)", line (\d+)', out)
                    failed = m.group(1) if m else pf
                    self.tie_broken("proof", failed, out[-3000:])
                    continue
                blocks = self._parse_assumptions(out, src)
                okthis = True
                for nm, txt in blocks:
                    foreign = self._foreign_axioms(txt)
                    if foreign:
                        okthis = False
                        self.tie_broken("axiom", nm, "non-standard axioms: " + ", ".join(foreign))
                    self.trusted.append("Print Assumptions %s: %s" % (nm, " ".join(txt.split())[:400]))
                    thms_all.append((nm, txt))
                missing = [nm for nm in names if nm not in [b[0] for b in blocks]]
                if missing:
                    okthis = False
                    self.tie_broken("proof", pf, "theorems without Print Assumptions: %s" % missing)
                if okthis and self.thorough and os.environ.get("VERIF_NO_COQCHK") != "1":
                    lock.close()                 # do not hold the build lock during the re-check
                    okthis = self._coqchk(pf)
                    lock = self._lock()
                if okthis:
                    self.discharged += len(names)
                    self.theorems += names
                else:
                    all_ok = False
            return BuildResult(all_ok, "\n".join(logs), failed, thms_all)
        finally:
            lock.close()

    @staticmethod
    def _parse_assumptions(out, src):
        order = re.findall(r"Print\s+Assumptions\s+(\w+)\s*\.", strip_coq_comments(src))
        blocks, cur = [], None
        for line in out.splitlines():
            if line.startswith("Closed under the global context"):
                if cur is not None:
                    blocks.append(cur)
                blocks.append(["Closed under the global context"])
                cur = None
            elif line.startswith("Axioms:") or line.startswith("Section Variables:"):
                if cur is not None and line.startswith("Axioms:") and cur and cur[0].startswith("Section Variables:"):
                    cur.append(line)
                    continue
                if cur is not None:
                    blocks.append(cur)
                cur = [line]
            elif cur is not None:
                if line.startswith(" ") or re.match(r"^[\w.']+\s*:", line) or line.strip() == "":
                    cur.append(line)
                else:
                    blocks.append(cur)
                    cur = None
        if cur is not None:
            blocks.append(cur)
        res = []
        for nm, b in zip(order, blocks):
            res.append((nm, "\n".join(b)))
        return res

    @staticmethod
    def _foreign_axioms(txt):
        if txt.startswith("Closed under"):
            return []
        foreign = []
        for line in txt.splitlines():
            m = re.match(r"^([\w.']+)\s*:", line)
            if m and m.group(1) not in ("Axioms", "Variables"):
                nm = m.group(1)
                if not any(nm == p or nm.startswith(p) or nm.endswith("." + p) for p in STD_AXIOM_PREFIXES):
                    foreign.append(nm)
        return foreign

    def coq_run(self, text, name="run", timeout=600):
        """compile a scratch .v (in the work dir, with -Q coq V) and return (rc, stdout)"""
        path = os.path.join(self.work, name + ".v")
        with open(path, "w") as f:
            f.write(text)
        return sh("ulimit -s unlimited; ulimit -v 6291456; timeout %d coqc -w -all -Q %s V %s" % (timeout, COQ, path),
                  cwd=self.work, timeout=timeout + 30)

    def coq_cases(self, header, eqb, cases, shard=400, name="cases", timeout=900):
        """Correspondence inside Coq.
        header : Coq text (Require Imports, local Definitions)
        eqb    : Coq term of type  A -> A -> bool
        cases  : list of (model_expr, expected_literal) Coq terms of type A
        Every pair is evaluated with vm_compute; returns the sorted list of indices whose
        model value differs from the expected (implementation) value; raises on Coq error."""
        if not cases:
            return []
        shards = [cases[i:i + shard] for i in range(0, len(cases), shard)]
        self.checker_cmds.append("coqc %s_<shard>.v  (Eval vm_compute of model vs implementation literals, %d shards)"
                                 % (name, len(shards)))

        def one(k):
            lines = [header, "", "Definition cases_%d := [" % k]
            lines.append(";\n".join("  (%s, %s)" % (a, b) for a, b in shards[k]))
            lines.append("].")
            lines.append("Definition bad_%d := map fst (filter (fun p => negb (%s (fst (snd p)) (snd (snd p)))) "
                         "(combine (seq 0 (length cases_%d)) cases_%d))." % (k, eqb, k, k))
            lines.append("Definition res_%d := Eval vm_compute in bad_%d." % (k, k))
            lines.append("Print res_%d." % k)
            rc, out = self.coq_run("\n".join(lines), "%s_%d" % (name, k), timeout)
            if rc != 0:
                raise RuntimeError("coqc failed on %s_%d:\n%s" % (name, k, out[-3000:]))
            m = re.search(r"res_%d\s*=\s*(.*?)\s*:\s*list nat" % k, out, re.S)
            if not m:
                raise RuntimeError("cannot parse coq output for shard %d:\n%s" % (k, out[-2000:]))
            body = m.group(1)
            idx = [int(x) for x in re.findall(r"\d+", body.replace("%nat", ""))]
            return [k * shard + i for i in idx]

        with ThreadPoolExecutor(max_workers=NCPU) as ex:
            res = list(ex.map(one, range(len(shards))))
        return sorted(i for r in res for i in r)

    def coq_eval(self, header, exprs, name="eval", timeout=600):
        """evaluate Coq terms with vm_compute; returns list of result strings (one per expr,
        whitespace-normalised, type annotation removed)"""
        lines = [header, ""]
        for i, e in enumerate(exprs):
            lines.append("Definition ev_%d := Eval vm_compute in (%s)." % (i, e))
            lines.append("Print ev_%d." % i)
        rc, out = self.coq_run("\n".join(lines), name, timeout)
        if rc != 0:
            raise RuntimeError("coqc failed on %s:\n%s" % (name, out[-3000:]))
        res = []
        for i in range(len(exprs)):
            m = re.search(r"ev_%d\s*=\s*(.*?)\n\s*:\s" % i, out, re.S)
            if not m:
                raise RuntimeError("cannot parse ev_%d in:\n%s" % (i, out[-2000:]))
            res.append(" ".join(m.group(1).split()))
        return res

    # -- correspondence bookkeeping ------------------------------------------
    def case(self, canonical, nontrivial=True, kind=None):
        """count one explored case. canonical: any JSON-serialisable description."""
        self.evaluations += 1
        if nontrivial:
            h = hashlib.sha1(json.dumps(canonical, sort_keys=True, default=str).encode()).digest()[:8]
            self.case_hashes.add(h)
        if kind is not None:
            self.distribution[kind] = self.distribution.get(kind, 0) + 1
        if len(self.samples) < 5 or (self.evaluations % 997 == 0 and len(self.samples) < 12):
            self.samples.append(canonical)

    def tie_broken(self, kind, name, detail=""):
        """kind in proof|axiom|static|translator|correspondence"""
        self.broken.append((kind, name, detail))

    # -- known findings -------------------------------------------------------
    def known(self):
        if self._known is None:
            p = os.path.join(VERIF, "known_findings.json")
            self._known = json.load(open(p)) if os.path.exists(p) else {"findings": []}
        return [f for f in self._known.get("findings", [])
                if f.get("property") == self.pid or self.pid in f.get("also", [])]

    def known_finding(self, key):
        """True (and prints the KNOWN-FINDING line once) iff key is listed as an OPEN finding"""
        for f in self.known():
            if f.get("status") == "open" and f.get("key") == key:
                if key not in self.known_printed:
                    self.known_printed.add(key)
                    print("KNOWN-FINDING: property=%s %s" % (self.pid, f.get("what", key)))
                return True
        return False

    # -- verdicts -------------------------------------------------------------
    def violation(self, replay, found_input=True, key=None):
        """report a violation.  replay: dict (input/state/history + observed + expected + the
        theorem or correspondence it contradicts).  key: finding key for known_findings.json"""
        if key is not None and self.known_finding(key):
            return
        self.violations += 1
        d = os.path.join(VERIF, "replays", self.pid)
        os.makedirs(d, exist_ok=True)
        path = os.path.join(d, "%d-%d.json" % (int(time.time()), self.violations))
        replay = dict(replay)
        replay.setdefault("property", self.pid)
        replay["failing_input_found"] = bool(found_input)
        if key:
            replay["key"] = key
        with open(path, "w") as f:
            json.dump(replay, f, indent=1, default=str)
        line = "VIOLATION property=%s replay=%s" % (self.pid, path)
        if not found_input:
            line += " no-failing-input-found"
        print(line)
        sys.stdout.flush()

    def settle(self, search=None):
        """Call after proofs + correspondence.  If any tie is broken, run `search`
        (callable returning a replay dict for a concrete input on which the IMPLEMENTATION
        fails the property's statement, or None) and report accordingly."""
        if not self.broken:
            return
        found = None
        if search is not None:
            try:
                found = search()
            except Exception as ex:  # search itself must never mask the alarm
                found = None
                self.extra["search_error"] = repr(ex)
        ties = [{"kind": k, "name": n, "detail": d[-1500:]} for k, n, d in self.broken]
        if found:
            key = found.pop("key", None) if isinstance(found, dict) else None
            rep = {"broken_ties": ties, "failing_input": found}
            self.violation(rep, True, key)
        else:
            rep = {"broken_ties": ties,
                   "note": "theorem/correspondence no longer checks; search found no input on which the "
                           "implementation fails the property statement"}
            self.violation(rep, False)

    def finish(self):
        wall = time.time() - self.t0
        cov = {
            "obligations": self.obligations,
            "discharged": self.discharged,
            "checker_cmd": " ; ".join(dict.fromkeys(self.checker_cmds)) or "none",
            "trusted_base": list(dict.fromkeys(self.trusted)),
            "theorems": self.theorems,
            "evaluations": self.evaluations,
            "distinct_nontrivial": len(self.case_hashes),
            "rule": self.rule,
            "samples": self.samples[:12] or ["(no correspondence cases in this run)"],
            "distribution": self.distribution,
            "broken_ties": [{"kind": k, "name": n} for k, n, _ in self.broken],
        }
        if self.exhaustive is not None:
            cov["exhaustive"] = bool(self.exhaustive)
        if self.level == "translation_validation":
            cov["programs"] = self.evaluations
            cov["disagreements_checked"] = len([b for b in self.broken if b[0] == "correspondence"])
        if self.level == "other":
            cov["explanation"] = self.rule
        cov.update(self.extra)
        ev = {
            "property_id": self.pid, "tier": self.tier, "seed": self.seed, "level": self.level,
            "coverage": cov, "assumptions": self.assumptions, "wall_s": round(wall, 2),
            "violations": self.violations,
        }
        # evidence always describes a run against the tree named in it; runs against a scratch tree (seeded
        # changes, VERIF_REPO != /repo) must not overwrite the committed evidence of /repo
        evdir = os.environ.get("VERIF_EVIDENCE_DIR") or os.path.join(VERIF, "evidence")
        os.makedirs(evdir, exist_ok=True)
        with open(os.path.join(evdir, self.pid + ".json"), "w") as f:
            json.dump(ev, f, indent=1, default=str)
        shutil.rmtree(self.work, ignore_errors=True)
        print("%s %s: obligations %d/%d, cases %d (%d distinct non-trivial), violations %d, %.1fs" % (
            self.pid, self.tier, self.discharged, self.obligations, self.evaluations,
            len(self.case_hashes), self.violations, wall))
        sys.exit(1 if self.violations else 0)
