#!/bin/sh
# usage: lib/applyfix.sh <name> [pytest-path]   -- apply fixes/<name>.patch to /repo and commit with fixes/<name>.msg
set -e
n="$1"; t="${2:-}"
cd /repo
git apply --check "/verif/fixes/$n.patch"
git apply "/verif/fixes/$n.patch"
if [ -n "$t" ]; then /venv/bin/python -m pytest -q -p no:cacheprovider --timeout=300 $t 2>&1 | tail -2; fi
git add -A
git commit -q -F "/verif/fixes/$n.msg"
git log --oneline | head -1
