#!/usr/bin/env python3
"""regenerate the generated part of DESIGN.md (between the AS-BUILT markers): per property status table
from props/*/meta.json, evidence/*.json, known_findings.json and seeded/*/meta.json"""
import json, os, glob, re
V = os.path.dirname(os.path.dirname(os.path.abspath(__file__)))
props = [json.loads(l) for l in open(os.path.join(V, "properties.jsonl"))]
kf = json.load(open(os.path.join(V, "known_findings.json")))["findings"]
integ = set(open(os.path.join(V, "props", "integrated.txt")).read().split())
rows = []
for p in props:
    pid = p["id"]
    mp = os.path.join(V, "props", pid, "meta.json")
    ev = os.path.join(V, "evidence", pid + ".json")
    if pid not in integ or not os.path.exists(mp):
        rows.append("| %s | not claimed | | | | |" % pid)
        continue
    m = json.load(open(mp))
    e = json.load(open(ev)) if os.path.exists(ev) else {}
    cov = e.get("coverage", {})
    fixed = sorted(set(f.get("commit", "?") for f in kf if f["status"] == "fixed" and f["property"] == pid))
    opens = [f["key"] for f in kf if f["status"] == "open" and (f["property"] == pid or pid in f.get("also", []))]
    seeds = []
    for sm in sorted(glob.glob(os.path.join(V, "seeded", pid + "*", "meta.json"))):
        s = json.load(open(sm))
        seeds.append("%s:%s" % (os.path.basename(os.path.dirname(sm)), s.get("verdict", "?")))
    partial = "PARTIAL" if m["text"].startswith("PARTIAL") or "partial" in m["text"].lower()[:200] else ""
    rows.append("| %s | %s %s | %s/%s | %s (%s) | %s | %s | %s |" % (
        pid, m["category"], partial, cov.get("discharged", "?"), cov.get("obligations", "?"),
        cov.get("evaluations", "?"), cov.get("distinct_nontrivial", "?"),
        ", ".join(fixed) or "-", ", ".join(opens) or "-", ", ".join(seeds) or "-"))
table = ("| Prop | level | theorems discharged | quick-tier cases (distinct non-trivial) | fix commits in /repo | open findings | seeded changes |\n"
         "|---|---|---|---|---|---|---|\n" + "\n".join(rows))
path = os.path.join(V, "DESIGN.md")
s = open(path).read()
a, b = "<!-- AS-BUILT-TABLE-BEGIN -->", "<!-- AS-BUILT-TABLE-END -->"
if a in s:
    s = s[:s.index(a) + len(a)] + "\n" + table + "\n" + s[s.index(b):]
    open(path, "w").write(s)
print(table[:600])
