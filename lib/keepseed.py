#!/usr/bin/env python3
"""keepseed.py Cxx <verdict> [notes]  -- copy a confirmed seeded change from /tmp/mut-out/Cxx to seeded/Cxx
verdict: caught | caught-no-input | missed | caught-after-strengthening | caught-by:<other check>"""
import json, os, shutil, sys
V = os.path.dirname(os.path.dirname(os.path.abspath(__file__)))
pid, verdict = sys.argv[1], sys.argv[2]
notes = sys.argv[3] if len(sys.argv) > 3 else ""
src = "/tmp/mut-out/" + pid
dst = os.path.join(V, "seeded", pid)
os.makedirs(dst, exist_ok=True)
for f in ("patch.diff", "demo.py"):
    shutil.copy(os.path.join(src, f), os.path.join(dst, f))
m = json.load(open(os.path.join(src, "meta.json")))
m["property"] = pid
m["verdict"] = verdict
m["integrator_ran"] = [
    "lib/seedtest.sh %s : scratch worktree of /repo HEAD + patch.diff; demo.py exit 0 on /repo and non-zero on the changed tree; "
    "VERIF_REPO=<changed tree> ./check %s" % (pid, pid)]
res = "/tmp/seed-%s.check" % pid
if os.path.exists(res):
    m["check_output_tail"] = open(res).read().splitlines()[-4:]
if notes:
    m["integrator_notes"] = notes
json.dump(m, open(os.path.join(dst, "meta.json"), "w"), indent=1)
print("kept", pid, verdict)
