From Coq Require Import ZArith QArith Qabs List Bool Lia Lqa.
Import ListNotations.
Require Import V.Lib.C43_PyPrelude V.Lib.C43_PyPreludeFacts V.Lib.C46_XVal V.gen.Controlling V.gen.Navigating.
Require Import V.C43.Model V.C43.Proofs V.C46.Model.

(* ---------------- order facts on xv ---------------- *)
Lemma xle_refl_nonnan x : x <> XNaN -> xle x x = true.
Proof. destruct x; cbn; try congruence. intros _. apply Qleb_true. apply Qle_refl. Qed.

Lemma xle_left_nonnan a b : xle a b = true -> a <> XNaN /\ b <> XNaN.
Proof. destruct a, b; cbn; try discriminate; intros _; split; congruence. Qed.

Lemma xlt_false_le a b : a <> XNaN -> b <> XNaN -> xlt a b = false -> xle b a = true.
Proof.
  destruct a, b; cbn; try congruence; intros _ _ H.
  apply Qltb_false in H. apply Qleb_true. assumption.
Qed.

Lemma xlt_le a b : xlt a b = true -> xle a b = true.
Proof.
  destruct a, b; cbn; try congruence. intros H. apply Qltb_true in H. apply Qleb_true. apply Qlt_le_weak. assumption.
Qed.

Lemma xle_trans a b c : xle a b = true -> xle b c = true -> xle a c = true.
Proof.
  destruct a, b, c; cbn; try congruence. intros H1 H2.
  apply Qleb_true in H1. apply Qleb_true in H2. apply Qleb_true. eapply Qle_trans; eassumption.
Qed.

(* ---------------- the clamp  min(hi, max(lo, x)) ---------------- *)
Lemma clamp_within N lo hi x : std_cmp N -> xle lo hi = true ->
  within lo hi (py_min N hi (py_max N lo x)).
Proof.
  intros (Hlt & Hle & Heq) O. unfold within, py_min, py_max, vgt. rewrite !Hlt.
  destruct (xle_left_nonnan _ _ O) as [Nlo Nhi].
  destruct (xlt lo x) eqn:A.
  - (* max = x, x > lo so x is not NaN *)
    assert (Nx : x <> XNaN) by (destruct lo, x; cbn in A; congruence).
    destruct (xlt x hi) eqn:B.
    + split; [apply xlt_le; assumption|apply xlt_le; assumption].
    + split; [assumption|apply xle_refl_nonnan; assumption].
  - (* max = lo (also when x is NaN) *)
    destruct (xlt lo hi) eqn:B.
    + split; [apply xle_refl_nonnan; assumption|assumption].
    + split; [assumption|apply xle_refl_nonnan; assumption].
Qed.

(* the clamp returns lo on NaN: this is where the argument order max(lo, x) matters *)
Lemma clamp_nan N lo hi : std_cmp N -> xle lo hi = true -> py_min N hi (py_max N lo XNaN) = lo \/
                                                         py_min N hi (py_max N lo XNaN) = hi.
Proof.
  intros (Hlt & Hle & Heq) O. unfold py_min, py_max, vgt. rewrite !Hlt.
  replace (xlt lo XNaN) with false by (destruct lo; reflexivity).
  destruct (xlt lo hi); auto.
Qed.

(* with BOTH calls the other way round, min(max(x, lo), hi), a NaN input would escape the limits
   (CPython keeps the first argument unless the second compares smaller/greater) *)
Lemma swapped_clamp_leaks N lo hi : std_cmp N -> py_min N (py_max N XNaN lo) hi = XNaN.
Proof.
  intros (Hlt & Hle & Heq). unfold py_min, py_max, vgt. rewrite !Hlt.
  replace (xlt XNaN lo) with false by reflexivity.
  replace (xlt hi XNaN) with false by (destruct hi; reflexivity). reflexivity.
Qed.

(* ---------------- one update ---------------- *)
Lemma step_skip N P s i : computes N i = false ->
  step N P s i = mkSt (i_lapse i) (s_prsp s) (s_e s) (s_er s) (s_es s) (s_out s).
Proof.
  unfold computes, step, action. intros H. apply negb_false_iff in H.
  change (0 # 1) with 0. rewrite H. reflexivity.
Qed.

(* closed form of a computing update *)
Definition rsp_used N P s i := if rsp_changed N P s i then i_rsp i else s_prsp s.
Definition es_start N P s i := if rsp_changed N P s i then vlit N 0 else s_es s.
Definition err N P s i := wrap2_v N (vsub N (i_input i) (rsp_used N P s i)) (wrap P).
Definition err_rate N P s i :=
  if calcRate P then vdiv N (vsub N (err N P s i) (s_e s)) (i_lapse i) else vmul N (ger P) (i_rate i).
Definition avg_err N P s i := vdiv N (vmul N (i_lapse i) (vadd N (err N P s i) (s_e s))) (vlit N 2).
Definition es_raw N P s i :=
  vadd N (es_start N P s i)
       (vmul N (vmul N (avg_err N P s i) (blend0 N (avg_err N P s i) (vlit N 0) (vlit N 3)))
               (blend0 N (err_rate N P s i) (vlit N 0) (vlit N (3602879701896397 # 36028797018963968)))).
Definition es_new N P s i := py_min N (esmax P) (py_max N (esmin P) (es_raw N P s i)).
Definition out_raw N P s i :=
  vadd N (vadd N (vadd N (vmul N (gff P) (rsp_used N P s i)) (vmul N (gpe P) (err N P s i)))
                 (vmul N (gde P) (err_rate N P s i))) (vmul N (gie P) (es_new N P s i)).
Definition out_new N P s i := py_min N (ovmax P) (py_max N (ovmin P) (out_raw N P s i)).

Lemma step_compute N P s i : computes N i = true ->
  step N P s i = mkSt (i_lapse i) (rsp_used N P s i) (err N P s i) (err_rate N P s i)
                      (es_new N P s i) (out_new N P s i).
Proof.
  unfold computes. intros H. apply negb_true_iff in H.
  unfold step, action. change (0 # 1) with 0. rewrite H.
  unfold out_new, out_raw, es_new, es_raw, avg_err, err_rate, err, es_start, rsp_used, rsp_changed.
  change (2 # 1) with 2. change (3 # 1) with 3.
  destruct (vgt N (vabs N (vsub N (i_rsp i) (s_prsp s))) (drsp P)); destruct (calcRate P); reflexivity.
Qed.

Lemma step_limits N P s i : std_cmp N -> limits_ordered P -> computes N i = true -> in_limits P (step N P s i).
Proof.
  intros SC [O1 O2] C. rewrite step_compute by assumption. unfold in_limits. cbn [s_es s_out].
  split; apply clamp_within; assumption.
Qed.

Lemma step_keeps N P s i : in_limits P s -> computes N i = false -> in_limits P (step N P s i).
Proof. intros I C. rewrite step_skip by assumption. exact I. Qed.

Lemma step_inv N P s i : std_cmp N -> limits_ordered P ->
  in_limits P s \/ computes N i = true -> in_limits P (step N P s i).
Proof.
  intros SC O H. destruct (computes N i) eqn:C.
  - apply step_limits; assumption.
  - destruct H as [H|H]; [|discriminate]. apply step_keeps; assumption.
Qed.

Lemma run_inv N P : std_cmp N -> limits_ordered P ->
  forall is_ s, in_limits P s \/ existsb (computes N) is_ = true -> in_limits P (run N P s is_).
Proof.
  intros SC O. induction is_ as [|i r IH]; intros s H; cbn [run fold_left].
  - destruct H as [H|H]; [assumption|discriminate].
  - apply IH. cbn [existsb] in H. destruct (computes N i) eqn:C.
    + left. apply step_limits; assumption.
    + destruct H as [H|H]; [left; apply step_keeps; assumption|right; exact H].
Qed.

(* every intermediate state too *)
Lemma run_app N P s a b : run N P s (a ++ b) = run N P (run N P s a) b.
Proof. unfold run. apply fold_left_app. Qed.

(* ---------------- error = wrap2 of the difference; reset ---------------- *)
Lemma step_error N P s i : computes N i = true ->
  s_e (step N P s i) = wrap2_v N (vsub N (i_input i) (if rsp_changed N P s i then i_rsp i else s_prsp s)) (wrap P).
Proof. intros C. rewrite step_compute by assumption. reflexivity. Qed.

Lemma step_reset N P s i : computes N i = true -> rsp_changed N P s i = true ->
  s_prsp (step N P s i) = i_rsp i /\
  forall es', step N P s i = step N P (mkSt (s_elapsed s) (s_prsp s) (s_e s) (s_er s) es' (s_out s)) i.
Proof.
  intros C R. split.
  - rewrite step_compute by assumption. cbn [s_prsp]. unfold rsp_used. rewrite R. reflexivity.
  - intros es'. rewrite !step_compute by assumption.
    unfold out_new, out_raw, es_new, es_raw, avg_err, err_rate, err, es_start, rsp_used, rsp_changed in *.
    cbn [s_prsp s_e s_es s_elapsed s_er s_out] in *. rewrite R. reflexivity.
Qed.

Lemma step_no_reset N P s i : computes N i = true -> rsp_changed N P s i = false ->
  s_prsp (step N P s i) = s_prsp s /\
  s_e (step N P s i) = wrap2_v N (vsub N (i_input i) (s_prsp s)) (wrap P).
Proof.
  intros C R. rewrite step_compute by assumption. cbn [s_prsp s_e]. unfold err, rsp_used. rewrite R. split; reflexivity.
Qed.

(* ---------------- wrap2 over V, exact instance = the C43 function ---------------- *)
Lemma wrap2_v_exact a w : exists r, wrap2_v xnum_exact (XFin a) (XFin w) = XFin r /\ (r == wrap2 a w)%Q.
Proof.
  unfold wrap2_v, wrap2, vne, vgt. cbn [xnum_exact veq vlt vmod vmul vlit vabs vsub vneg xeq xlt xabs xmul xmod xsub xadd xneg].
  change (0 # 1)%Q with 0%Q. change (2 # 1)%Q with 2%Q.
  unfold Qneb, Qeqb.
  destruct (Qeq_bool w 0) eqn:W; cbn [negb].
  - exists a. split; reflexivity.
  - assert (W2 : Qeq_bool (w * 2) 0 = false).
    { destruct (Qeq_bool (w * 2) 0) eqn:E; [|reflexivity]. apply Qeq_bool_iff in E.
      assert (w == 0)%Q by lra. apply Qeq_bool_iff in H. congruence. }
    rewrite W2. cbn [xabs xlt xsub xadd xneg xmod]. unfold Qeqb.
    change (Qltb (Qabs w) (Qabs (pymodQ a (w * 2)))) with (Qgtb (Qabs (pymodQ a (w * 2))) (Qabs w)).
    destruct (Qgtb (Qabs (pymodQ a (w * 2))) (Qabs w)) eqn:G.
    + assert (W3 : Qeq_bool (- w) 0 = false).
      { destruct (Qeq_bool (- w) 0) eqn:E; [|reflexivity]. apply Qeq_bool_iff in E.
        assert (w == 0)%Q by lra. apply Qeq_bool_iff in H. congruence. }
      rewrite W3. eexists. split; [reflexivity|]. reflexivity.
    + eexists. split; reflexivity.
Qed.

Lemma wrap2_v_exact_range a w : ~ (w == 0)%Q ->
  exists r, wrap2_v xnum_exact (XFin a) (XFin w) = XFin r /\ (Qabs r <= Qabs w)%Q.
Proof.
  intros H. destruct (wrap2_v_exact a w) as (r & E & R). exists r. split; [assumption|].
  rewrite R. apply wrap2_abs. assumption.
Qed.

Lemma exact_std : std_cmp xnum_exact.
Proof. repeat split. Qed.
