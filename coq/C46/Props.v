(* C46 -- property theorems only, about the GENERATED `action` (ControllerPid.action), `blend0`
   and `wrap2_v` of coq/gen/Controlling.v.

   Value domain: xv = NaN | -inf | finite rational | +inf.  Every theorem holds for EVERY
   interpretation N of the arithmetic (+ - * / % abs float(), literals) -- hence in particular for
   IEEE-754 binary64 arithmetic with its rounding and overflow -- provided the three comparisons
   < <= == are CPython's float comparisons (std_cmp N).  The value of the PID sum is therefore
   not modelled at all: it is an arbitrary element of xv. *)
From Coq Require Import ZArith QArith Qabs List Bool.
Import ListNotations.
Require Import V.Lib.C43_PyPrelude V.Lib.C46_XVal V.gen.Controlling V.gen.Navigating.
Require Import V.C46.Model V.C46.Proofs V.C46.Lapse.

(* the clamp expression min(hi, max(lo, x)) as written in the source lands in [lo, hi] for EVERY x,
   including NaN and the infinities, whenever lo <= hi (which excludes NaN limits) *)
Theorem clamp_in_range : forall (N : Num xv) (lo hi x : xv),
  std_cmp N -> xle lo hi = true -> within lo hi (py_min N hi (py_max N lo x)).
Proof. exact clamp_within. Qed.
Print Assumptions clamp_in_range.

(* ... and this depends on the argument order: min(max(x, lo), hi) would return NaN for NaN *)
Theorem clamp_argument_order_matters : forall (N : Num xv) (lo hi : xv),
  std_cmp N -> py_min N (py_max N XNaN lo) hi = XNaN.
Proof. exact swapped_clamp_leaks. Qed.
Print Assumptions clamp_argument_order_matters.

(* one update: if the controller is evaluated (not lapse <= 0) the stored error sum and the output
   are within their limits, for any inputs, set points, rates, lapse, gains and prior state *)
Theorem es_and_output_clamped : forall (N : Num xv) (P : parm) (s : st) (i : inp),
  std_cmp N -> limits_ordered P -> computes N i = true ->
  within (esmin P) (esmax P) (s_es (step N P s i)) /\ within (ovmin P) (ovmax P) (s_out (step N P s i)).
Proof. exact step_limits. Qed.
Print Assumptions es_and_output_clamped.

(* histories: after any sequence of updates that contains at least one evaluated update, or that
   starts from shares within the limits, error sum and output are within the limits *)
Theorem limits_hold_over_histories : forall (N : Num xv) (P : parm),
  std_cmp N -> limits_ordered P ->
  forall (is_ : list inp) (s : st),
    in_limits P s \/ existsb (computes N) is_ = true -> in_limits P (run N P s is_).
Proof. exact run_inv. Qed.
Print Assumptions limits_hold_over_histories.

(* an update with lapse <= 0 changes nothing but the elapsed share *)
Theorem non_positive_lapse_is_noop : forall (N : Num xv) (P : parm) (s : st) (i : inp),
  computes N i = false ->
  step N P s i = mkSt (i_lapse i) (s_prsp s) (s_e s) (s_er s) (s_es s) (s_out s).
Proof. exact step_skip. Qed.
Print Assumptions non_positive_lapse_is_noop.

(* the stored error is the two-sided wrap of input - set point (the set point used is the new one
   if it moved by more than drsp, else the remembered one) *)
Theorem error_is_wrap2 : forall (N : Num xv) (P : parm) (s : st) (i : inp),
  computes N i = true ->
  s_e (step N P s i) =
  wrap2_v N (vsub N (i_input i) (if rsp_changed N P s i then i_rsp i else s_prsp s)) (wrap P).
Proof. exact step_error. Qed.
Print Assumptions error_is_wrap2.

(* wrap2_v under exact arithmetic on finite values IS the wrap2 of C43, hence the shortest
   wrapped difference: |e| <= |wrap| *)
Theorem error_wrap_is_shortest : forall a w : Q,
  (exists r, wrap2_v xnum_exact (XFin a) (XFin w) = XFin r /\ (r == wrap2 a w)%Q) /\
  (~ (w == 0)%Q -> exists r, wrap2_v xnum_exact (XFin a) (XFin w) = XFin r /\ (Qabs r <= Qabs w)%Q).
Proof. exact (fun a w => conj (wrap2_v_exact a w) (wrap2_v_exact_range a w)). Qed.
Print Assumptions error_wrap_is_shortest.

(* a set point change larger than the threshold resets the integrator: the new set point is
   remembered and the result of the update does not depend on the previous error sum at all
   (it is the result obtained from an error sum of 0) *)
Theorem integrator_reset : forall (N : Num xv) (P : parm) (s : st) (i : inp),
  computes N i = true -> rsp_changed N P s i = true ->
  s_prsp (step N P s i) = i_rsp i /\
  forall es', step N P s i = step N P (mkSt (s_elapsed s) (s_prsp s) (s_e s) (s_er s) es' (s_out s)) i.
Proof. exact step_reset. Qed.
Print Assumptions integrator_reset.

(* and a smaller change does not: the remembered set point is kept and used *)
Theorem small_change_keeps_set_point : forall (N : Num xv) (P : parm) (s : st) (i : inp),
  computes N i = true -> rsp_changed N P s i = false ->
  s_prsp (step N P s i) = s_prsp s /\
  s_e (step N P s i) = wrap2_v N (vsub N (i_input i) (s_prsp s)) (wrap P).
Proof. exact step_no_reset. Qed.
Print Assumptions small_change_keeps_set_point.

(* ---------- end to end, with the time lapse computed by the GENERATED DoerLapse.updateLapse ---------- *)
(* controller state = (its .stamp : None or number, its .lapse, its shares); one update = the store's
   stamp (None or number) and the three input shares; full_step = updateLapse ; action. *)

(* the lapse handed to the controller is 0.0 or strictly positive -- never negative, never NaN --
   and the controller's stamp always follows the store's stamp *)
Theorem lapse_is_zero_or_positive : forall (N : Num xv) (P : parm) (c : cst) (u : upd),
  std_cmp N -> vlit N 0%Q = XFin 0%Q ->
  (lapse_of N c u = XFin 0%Q \/ xlt (XFin 0%Q) (lapse_of N c u) = true) /\
  c_stamp (full_step N P c u) = u_stamp u.
Proof. exact (fun N P c u S Z => conj (lapse_sign N c u S Z) (stamp_follows N P c u)). Qed.
Print Assumptions lapse_is_zero_or_positive.

(* the controller is evaluated exactly when both stamps are numbers and store stamp - controller
   stamp > 0.0 (a NaN difference, a backward or standing clock, or a None stamp all skip it) *)
Theorem evaluated_iff_clock_advanced : forall (N : Num xv) (c : cst) (u : upd),
  std_cmp N -> vlit N 0%Q = XFin 0%Q ->
  (evaluated N c u = true <->
   exists a b, u_stamp u = Some a /\ c_stamp c = Some b /\ xlt (XFin 0%Q) (vsub N a b) = true).
Proof. exact evaluated_iff. Qed.
Print Assumptions evaluated_iff_clock_advanced.

(* output and error-sum limits over whole update sequences driven by store stamps: they hold at the
   end of every history that starts within the limits or contains one evaluated update; a skipped
   update changes no share but `elapsed` *)
Theorem limits_hold_end_to_end : forall (N : Num xv) (P : parm),
  std_cmp N -> limits_ordered P ->
  (forall (us : list upd) (c : cst),
     in_limits P (c_st c) \/ ever_evaluated N P c us = true -> in_limits P (c_st (full_run N P c us))) /\
  (forall (c : cst) (u : upd), evaluated N c u = false ->
     c_st (full_step N P c u) =
     mkSt (lapse_of N c u) (s_prsp (c_st c)) (s_e (c_st c)) (s_er (c_st c)) (s_es (c_st c)) (s_out (c_st c))).
Proof. exact (fun N P S O => conj (full_run_limits N P S O) (full_step_skip N P)). Qed.
Print Assumptions limits_hold_end_to_end.

(* non-vacuity: the exact instance has CPython comparisons; a NaN input ends inside the limits *)
Example c46_exact_std : std_cmp xnum_exact.
Proof. exact exact_std. Qed.
Example c46_nan_input :
  let P := mkParm (XFin (1#100)) (XFin 180) true (XFin 1) (XFin 0) (XFin 3) (XFin 0) (XFin 1)
                  (XFin 5) (XFin (-5)) (XFin 20) (XFin (-20)) in
  let s := run xnum_exact P (mkSt (XFin 0) (XFin 0) (XFin 0) (XFin 0) (XFin 0) (XFin 0))
               [mkInp (XFin (1#8)) (XFin (45#2)) (XFin 0) (XFin 0); mkInp (XFin (1#8)) XNaN (XFin 0) (XFin 0)] in
  s_es s = XFin (-5) /\ s_out s = XFin (-20) /\ s_e s = XNaN.
Proof. vm_compute. repeat split. Qed.
Example c46_first_update_skipped :
  let P := mkParm (XFin (1#100)) (XFin 0) true (XFin 1) (XFin 0) (XFin 3) (XFin 0) (XFin 1)
                  (XFin 5) (XFin (-5)) (XFin 20) (XFin (-20)) in
  let c0 := mkC None (XFin 0) (mkSt (XFin 0) (XFin 0) (XFin 0) (XFin 0) (XFin 0) (XFin 0)) in
  let u1 := mkU (Some (XFin 0)) (XFin 10) (XFin 0) (XFin 0) in
  let u2 := mkU (Some (XFin (1#8))) (XFin 10) (XFin 0) (XFin 0) in
  evaluated xnum_exact c0 u1 = false /\ ever_evaluated xnum_exact P c0 [u1; u2] = true /\
  s_out (c_st (full_run xnum_exact P c0 [u1; u2])) = XFin 20.
Proof. vm_compute. repeat split. Qed.
