(* C46, end to end with the time lapse: DoerLapse.updateLapse (generated) feeds ControllerPid.action
   (generated).  ControllerPid.action -> super().action -> DoerLapse.action -> self.updateLapse() is
   checked structurally on the source by the translator on every run. *)
From Coq Require Import ZArith QArith Qabs List Bool Lia Lqa.
Import ListNotations.
Require Import V.Lib.C43_PyPrelude V.Lib.C43_PyPreludeFacts V.Lib.C46_XVal V.gen.Controlling.
Require Import V.C46.Model V.C46.Proofs.
Open Scope Q_scope.

(* controller object: its own .stamp (None or a number), .lapse, and its shares *)
Record cst : Type := mkC { c_stamp : option xv; c_lapse : xv; c_st : st }.

(* one update as the environment sees it: the store's stamp (None or a number) and the input shares *)
Record upd : Type := mkU { u_stamp : option xv; u_input : xv; u_rate : xv; u_rsp : xv }.

Definition lapse_of (N : Num xv) (c : cst) (u : upd) : xv :=
  o_lapse (updateLapse N (c_stamp c) (u_stamp u) (c_lapse c)).

Definition full_step (N : Num xv) (P : parm) (c : cst) (u : upd) : cst :=
  let l := updateLapse N (c_stamp c) (u_stamp u) (c_lapse c) in
  mkC (o_stamp l) (o_lapse l) (step N P (c_st c) (mkInp (o_lapse l) (u_input u) (u_rate u) (u_rsp u))).

Definition full_run (N : Num xv) (P : parm) (c : cst) (us : list upd) : cst := fold_left (full_step N P) us c.

(* the update evaluates the controller (the `if self.lapse <= 0.0: return` is not taken) *)
Definition evaluated (N : Num xv) (c : cst) (u : upd) : bool :=
  computes N (mkInp (lapse_of N c u) (u_input u) (u_rate u) (u_rsp u)).

Fixpoint ever_evaluated (N : Num xv) (P : parm) (c : cst) (us : list upd) : bool :=
  match us with
  | [] => false
  | u :: r => evaluated N c u || ever_evaluated N P (full_step N P c u) r
  end.

Lemma xlt_not_ge a b : xlt a b = true -> xle b a = false.
Proof.
  destruct a, b; cbn; try congruence. intros H. apply Qltb_true in H.
  destruct (Qleb q0 q) eqn:E; [|reflexivity]. apply Qleb_true in E. exfalso. apply (Qlt_not_le _ _ H E).
Qed.

Lemma updateLapse_cases (N : Num xv) s0 s1 l :
  updateLapse N s0 s1 l =
  match s1, s0 with
  | Some a, Some b => mk_updateLapse_out s1 (py_max N (vlit N 0) (vsub N a b))
  | _, _ => mk_updateLapse_out s1 (vlit N 0)
  end.
Proof. unfold updateLapse. change (0 # 1) with 0. destruct s1, s0; reflexivity. Qed.

(* the controller's stamp always becomes the store's stamp *)
Lemma stamp_follows (N : Num xv) P c u : c_stamp (full_step N P c u) = u_stamp u.
Proof. unfold full_step. rewrite updateLapse_cases. destruct (u_stamp u), (c_stamp c); reflexivity. Qed.

(* the lapse is 0.0 or strictly positive: never negative, never NaN *)
Lemma lapse_sign (N : Num xv) c u : std_cmp N -> vlit N 0 = XFin 0 ->
  lapse_of N c u = XFin 0 \/ xlt (XFin 0) (lapse_of N c u) = true.
Proof.
  intros (Hlt & _ & _) Z. unfold lapse_of. rewrite updateLapse_cases.
  destruct (u_stamp u) as [a|], (c_stamp c) as [b|]; cbn [o_lapse]; rewrite ?Z; auto.
  unfold py_max, vgt. rewrite Hlt. destruct (xlt (XFin 0) (vsub N a b)) eqn:E; auto.
Qed.

(* the controller is evaluated exactly when both stamps are numbers and the store's stamp is ahead
   of the controller's (difference > 0.0 in the arithmetic at hand; a NaN difference does not count) *)
Lemma evaluated_iff (N : Num xv) c u : std_cmp N -> vlit N 0 = XFin 0 ->
  evaluated N c u = true <->
  exists a b, u_stamp u = Some a /\ c_stamp c = Some b /\ xlt (XFin 0) (vsub N a b) = true.
Proof.
  intros (Hlt & Hle & Heq) Z. unfold evaluated, computes, lapse_of. cbn [i_lapse].
  rewrite updateLapse_cases, Hle, Z.
  destruct (u_stamp u) as [a|], (c_stamp c) as [b|]; cbn [o_lapse].
  - unfold py_max, vgt. rewrite Hlt. destruct (xlt (XFin 0) (vsub N a b)) eqn:E.
    + rewrite (xlt_not_ge _ _ E). cbn. split; [intros _; exists a, b; auto|reflexivity].
    + replace (xle (XFin 0) (XFin 0)) with true by reflexivity. cbn. split; [discriminate|].
      intros (a' & b' & Ea & Eb & H). injection Ea as <-. injection Eb as <-. change (xlt (XFin 0) (vsub N a b) = true) in H. rewrite E in H. discriminate.
  - cbn. split; [discriminate|]. intros (a' & b' & _ & Eb & _). discriminate.
  - cbn. split; [discriminate|]. intros (a' & b' & Ea & _). discriminate.
  - cbn. split; [discriminate|]. intros (a' & b' & Ea & _). discriminate.
Qed.

Lemma full_step_limits (N : Num xv) P c u : std_cmp N -> limits_ordered P ->
  in_limits P (c_st c) \/ evaluated N c u = true -> in_limits P (c_st (full_step N P c u)).
Proof.
  intros SC O H. unfold full_step. cbn [c_st]. apply step_inv; assumption.
Qed.

Lemma full_run_limits (N : Num xv) P : std_cmp N -> limits_ordered P ->
  forall us c, in_limits P (c_st c) \/ ever_evaluated N P c us = true -> in_limits P (c_st (full_run N P c us)).
Proof.
  intros SC O. induction us as [|u r IH]; intros c H; cbn [full_run fold_left].
  - destruct H as [H|H]; [assumption|discriminate].
  - apply IH. cbn [ever_evaluated] in H. destruct (evaluated N c u) eqn:E.
    + left. apply full_step_limits; auto.
    + destruct H as [H|H]; [left; apply full_step_limits; auto|right; exact H].
Qed.

(* an update that is not evaluated leaves every share but `elapsed` alone *)
Lemma full_step_skip (N : Num xv) P c u : evaluated N c u = false ->
  c_st (full_step N P c u) =
  mkSt (lapse_of N c u) (s_prsp (c_st c)) (s_e (c_st c)) (s_er (c_st c)) (s_es (c_st c)) (s_out (c_st c)).
Proof. intros H. unfold full_step. cbn [c_st]. rewrite step_skip by exact H. reflexivity. Qed.
