(* C46 -- PID controller limits.  Tie T: coq/gen/Controlling.v (ControllerPid.action, blend0, wrap2
   translated over an abstract value type with a record of operations).  This file (definitions only)
   wraps the generated `action` as a step function on the controller's shares and names the
   predicates of the property.  Hand-modelled (H) slice: DoerLapse.updateLapse is NOT translated --
   the time lapse is an arbitrary input of every step. *)
From Coq Require Import ZArith QArith List Bool.
Import ListNotations.
Require Import V.Lib.C43_PyPrelude V.Lib.C46_XVal V.gen.Controlling.

(* lo <= x <= hi with CPython comparisons (false as soon as NaN is involved) *)
Definition within (lo hi x : xv) : Prop := xle lo x = true /\ xle x hi = true.

Record parm : Type := mkParm {
  drsp : xv; wrap : xv; calcRate : bool; ger : xv; gff : xv; gpe : xv; gde : xv; gie : xv;
  esmax : xv; esmin : xv; ovmax : xv; ovmin : xv }.

(* the controller's own shares *)
Record st : Type := mkSt { s_elapsed : xv; s_prsp : xv; s_e : xv; s_er : xv; s_es : xv; s_out : xv }.

(* what the environment supplies at one update: time lapse and the three input shares *)
Record inp : Type := mkInp { i_lapse : xv; i_input : xv; i_rate : xv; i_rsp : xv }.

Definition step (N : Num xv) (P : parm) (s : st) (i : inp) : st :=
  let o := action N (i_lapse i) (s_elapsed s) (i_input i) (i_rate i) (i_rsp i) (s_prsp s) (s_e s) (s_er s)
                  (s_es s) (s_out s) (drsp P) (wrap P) (calcRate P) (ger P) (gff P) (gpe P) (gde P) (gie P)
                  (esmax P) (esmin P) (ovmax P) (ovmin P) in
  mkSt (o_elapsed_value o) (o_prsp_value o) (o_e_value o) (o_er_value o) (o_es_value o) (o_output_value o).

Definition run (N : Num xv) (P : parm) (s : st) (is_ : list inp) : st := fold_left (step N P) is_ s.

(* the update really evaluates the controller: `if self.lapse <= 0.0: return` not taken *)
Definition computes (N : Num xv) (i : inp) : bool := negb (vle N (i_lapse i) (vlit N 0)).

(* the set point moved by more than the threshold *)
Definition rsp_changed (N : Num xv) (P : parm) (s : st) (i : inp) : bool :=
  vgt N (vabs N (vsub N (i_rsp i) (s_prsp s))) (drsp P).

Definition limits_ordered (P : parm) : Prop := xle (esmin P) (esmax P) = true /\ xle (ovmin P) (ovmax P) = true.

Definition in_limits (P : parm) (s : st) : Prop :=
  within (esmin P) (esmax P) (s_es s) /\ within (ovmin P) (ovmax P) (s_out s).

Definition is_fin (x : xv) : Prop := exists q, x = XFin q.
