From Coq Require Import List ZArith Bool Lia Permutation.
Import ListNotations.
Require Import V.C35.Model.
Open Scope Z_scope.

Lemma to_app d a b : to d (a ++ b) = to d a ++ to d b.
Proof. unfold to. apply filter_app. Qed.

Lemma memZ_true_iff x l : memZ x l = true <-> In x l.
Proof.
  unfold memZ. rewrite existsb_exists. split.
  - intros [y [Hy He]]. apply Z.eqb_eq in He. subst. exact Hy.
  - intros H. exists x. split; [exact H | apply Z.eqb_refl].
Qed.

Lemma memZ_app x a b : memZ x (a ++ b) = memZ x a || memZ x b.
Proof. unfold memZ. apply existsb_app. Qed.


Lemma to_nil_unblocked laters blk x :
  (forall p, In p laters -> memZ (dst p) blk = true) -> memZ x blk = false -> to x laters = [].
Proof.
  intros Hlb Hm. induction laters as [|y ys IH]; [reflexivity|]. cbn.
  destruct (Z.eqb (dst y) x) eqn:Hy.
  - apply Z.eqb_eq in Hy. pose proof (Hlb y (or_introl eq_refl)) as H. rewrite Hy in H. congruence.
  - apply IH. intros p Hp. apply Hlb. right. exact Hp.
Qed.

(* Invariant of a pass: every destination that has a packet in laters is blocked.
   Under it, per-destination order is preserved:  for every d,
     to d (sent' ++ q') = to d (sent ++ laters ++ q)   *)
Definition laters_blocked (laters : list pkt) (blk : list Z) : Prop :=
  forall p, In p laters -> memZ (dst p) blk = true.

Lemma pass_order q : forall laters blk orc sent q' s' b',
  laters_blocked laters blk ->
  pass q laters blk orc sent = (q', s', b') ->
  forall d, to d (s' ++ q') = to d (sent ++ laters ++ q) /\ (forall x, In x blk -> In x b').
Proof.
  induction q as [|p q IH]; intros laters blk orc sent q' s' b' Hlb Hp d.
  - cbn in Hp. inversion Hp; subst. rewrite app_nil_r. split; auto.
  - cbn [pass] in Hp. destruct (memZ (dst p) blk) eqn:Hm.
    + assert (Hlb' : laters_blocked (laters ++ [p]) blk).
      { intros x Hx. apply in_app_or in Hx. destruct Hx as [Hx|[Hx|[]]]; [auto|subst; exact Hm]. }
      destruct (IH _ _ _ _ _ _ _ Hlb' Hp d) as [H1 H2]. split; [|exact H2].
      rewrite H1. rewrite <- !app_assoc. reflexivity.
    + assert (Hfail : forall orc', pass q (laters ++ [p]) (blk ++ [dst p]) orc' sent = (q', s', b') ->
                to d (s' ++ q') = to d (sent ++ laters ++ p :: q) /\ (forall x, In x blk -> In x b')).
      { intros orc' Hp'.
        assert (Hlb' : laters_blocked (laters ++ [p]) (blk ++ [dst p])).
        { intros x Hx. rewrite memZ_app. apply in_app_or in Hx. destruct Hx as [Hx|[Hx|[]]].
          - rewrite (Hlb _ Hx). reflexivity.
          - subst. cbn. rewrite Z.eqb_refl. rewrite orb_true_r. reflexivity. }
        destruct (IH _ _ _ _ _ _ _ Hlb' Hp' d) as [H1 H2]. split.
        - rewrite H1. rewrite <- !app_assoc. reflexivity.
        - intros x Hx. apply H2. apply in_or_app. left. exact Hx. }
      assert (Hok : forall orc', pass q laters blk orc' (sent ++ [p]) = (q', s', b') ->
                to d (s' ++ q') = to d (sent ++ laters ++ p :: q) /\ (forall x, In x blk -> In x b')).
      { intros orc' Hp'.
        destruct (IH _ _ _ _ _ _ _ Hlb Hp' d) as [H1 H2]. split; [|exact H2].
        rewrite H1. rewrite !to_app. cbn [to filter].
        destruct (Z.eqb (dst p) d) eqn:Hd.
        - (* p goes to d: no packet of laters goes to d, since dst p is not blocked *)
          assert (Hnil : to d laters = []).
          { apply Z.eqb_eq in Hd. subst d. apply to_nil_unblocked with (blk := blk); assumption. }
          fold (to d laters). fold (to d q). fold (to d sent). rewrite Hnil. cbn.
          rewrite <- app_assoc. reflexivity.
        - fold (to d laters). fold (to d q). fold (to d sent). rewrite app_nil_r. reflexivity. }
      destruct orc as [|[|] orc']; eauto.
Qed.

Lemma service_order q orc q' s : service q orc = (q', s) ->
  forall d, to d (s ++ q') = to d q.
Proof.
  unfold service. destruct (pass q [] [] orc []) as [[a b] c] eqn:Hp. intros H. inversion H; subst.
  intros d. destruct (pass_order q [] [] orc [] _ _ _ (fun p (H : In p []) => match H with end) Hp d) as [H1 _].
  exact H1.
Qed.

(* multiset conservation for a pass *)
Lemma pass_perm q : forall laters blk orc sent q' s' b',
  pass q laters blk orc sent = (q', s', b') -> Permutation (s' ++ q') (sent ++ laters ++ q).
Proof.
  induction q as [|p q IH]; intros laters blk orc sent q' s' b' Hp.
  - cbn in Hp. inversion Hp; subst. rewrite app_nil_r. apply Permutation_refl.
  - cbn [pass] in Hp.
    assert (Hl : forall blk' orc', pass q (laters ++ [p]) blk' orc' sent = (q', s', b') ->
                 Permutation (s' ++ q') (sent ++ laters ++ p :: q)).
    { intros blk' orc' H. rewrite (IH _ _ _ _ _ _ _ H). rewrite <- !app_assoc. apply Permutation_refl. }
    assert (Hs : forall orc', pass q laters blk orc' (sent ++ [p]) = (q', s', b') ->
                 Permutation (s' ++ q') (sent ++ laters ++ p :: q)).
    { intros orc' H. rewrite (IH _ _ _ _ _ _ _ H). rewrite <- !app_assoc. apply Permutation_app_head.
      cbn. apply Permutation_middle. }
    destruct (memZ (dst p) blk); [eauto|]. destruct orc as [|[|] orc']; eauto.
Qed.

Lemma service_perm q orc q' s : service q orc = (q', s) -> Permutation (s ++ q') q.
Proof.
  unfold service. destruct (pass q [] [] orc []) as [[a b] c] eqn:Hp. intros H. inversion H; subst.
  apply (pass_perm _ _ _ _ _ _ _ _ Hp).
Qed.

(* a destination that is not blocked at the end of the pass had all its packets sent:
   nothing addressed to it remains queued *)
Lemma pass_unblocked q : forall laters blk orc sent q' s' b',
  laters_blocked laters blk ->
  pass q laters blk orc sent = (q', s', b') ->
  laters_blocked q' b'.
Proof.
  induction q as [|p q IH]; intros laters blk orc sent q' s' b' Hlb Hp.
  - cbn in Hp. inversion Hp; subst. exact Hlb.
  - cbn [pass] in Hp. destruct (memZ (dst p) blk) eqn:Hm.
    + eapply IH; [|exact Hp]. intros x Hx. apply in_app_or in Hx.
      destruct Hx as [Hx|[Hx|[]]]; [auto|subst; exact Hm].
    + assert (Hf : forall orc', pass q (laters ++ [p]) (blk ++ [dst p]) orc' sent = (q', s', b') ->
                   laters_blocked q' b').
      { intros orc' H. eapply IH; [|exact H]. intros x Hx. rewrite memZ_app.
        apply in_app_or in Hx. destruct Hx as [Hx|[Hx|[]]].
        - rewrite (Hlb _ Hx). reflexivity.
        - subst. cbn. rewrite Z.eqb_refl, orb_true_r. reflexivity. }
      destruct orc as [|[|] orc']; eauto.
Qed.

Lemma service_unblocked q orc q' s p : service q orc = (q', s) ->
  In p q' -> memZ (dst p) (blocked_of q orc) = true.
Proof.
  unfold service, blocked_of. destruct (pass q [] [] orc []) as [[a b] c] eqn:Hp.
  intros H Hin. inversion H; subst.
  exact (pass_unblocked _ _ _ _ _ _ _ _ (fun p (H : In p []) => match H with end) Hp p Hin).
Qed.

(* a destination is blocked only by a failing send to it: with an all-success oracle nothing remains *)
Lemma pass_noblock q : forall sent orc, forallb negb orc = true ->
  pass q [] [] orc sent = ([], sent ++ q, []).
Proof.
  induction q as [|p q IH]; intros sent orc Ho; cbn [pass].
  - rewrite app_nil_r. reflexivity.
  - cbn [memZ existsb]. destruct orc as [|[|] orc']; cbn in Ho; try discriminate;
    rewrite IH by assumption; rewrite <- app_assoc; reflexivity.
Qed.

(* histories *)
Definition hist_inv (s : st) : Prop :=
  (forall d, to d (log s ++ txq s) = to d (queued s)) /\ Permutation (log s ++ txq s) (queued s).

Lemma step_inv s o : hist_inv s -> hist_inv (step s o).
Proof.
  intros [Ho Hp]. destruct o as [p|orc|f]; cbn [step].
  - split; cbn [txq log queued].
    + intros d. rewrite app_assoc, to_app, Ho, <- to_app. reflexivity.
    + rewrite app_assoc. apply Permutation_app_tail. exact Hp.
  - destruct (service (txq s) orc) as [q' sent] eqn:Hs. split; cbn [txq log queued].
    + intros d. rewrite <- app_assoc, to_app, (service_order _ _ _ _ Hs d), <- to_app. apply Ho.
    + rewrite <- app_assoc. rewrite (service_perm _ _ _ _ Hs). exact Hp.
  - assert (E : forall q' sent, once (txq s) f = (q', sent) -> sent ++ q' = txq s).
    { unfold once. intros q' sent H. destruct (txq s) as [|p q]; [inversion H; reflexivity|].
      destruct f; inversion H; reflexivity. }
    destruct (once (txq s) f) as [q' sent] eqn:Hs. specialize (E _ _ eq_refl).
    split; cbn [txq log queued]; rewrite <- app_assoc, E; [exact Ho|exact Hp].
Qed.

(* the single-packet service never reorders the queue: what is sent is a prefix of the queue, the rest follows *)
Lemma once_prefix q f q' sent : once q f = (q', sent) -> sent ++ q' = q /\ (length sent <= 1)%nat.
Proof.
  unfold once. destruct q as [|p q]; intros H; [inversion H; split; [reflexivity|cbn; lia]|].
  destruct f; inversion H; split; try reflexivity; cbn; lia.
Qed.

Lemma run_inv_from ops : forall s, hist_inv s -> hist_inv (fold_left step ops s).
Proof. induction ops as [|o ops IH]; intros s H; cbn; [exact H|]. apply IH, step_inv, H. Qed.

Lemma run_inv ops : hist_inv (run ops).
Proof. apply run_inv_from. split; cbn; [reflexivity|apply Permutation_refl]. Qed.
