(* C35 -- property theorems only.  Each closed by [exact]; Print Assumptions beneath. *)
From Coq Require Import List ZArith Bool Permutation.
Import ListNotations.
Require Import V.C35.Model V.C35.Proofs.
Open Scope Z_scope.

(* Over every history of enqueues and service passes with arbitrary transient-failure
   oracles: for every destination d, the packets sent so far to d followed by those still
   queued for d are exactly the packets ever queued for d, in queue order (so nothing to
   d is sent twice, dropped, or overtaken), and overall sent + queued is a permutation of
   everything queued (each packet exactly once). *)
Theorem per_dest_order_and_once : forall ops,
  (forall d, to d (log (run ops) ++ txq (run ops)) = to d (queued (run ops))) /\
  Permutation (log (run ops) ++ txq (run ops)) (queued (run ops)).
Proof. exact run_inv. Qed.
Print Assumptions per_dest_order_and_once.

(* A failing destination never blocks another: after a pass, every packet still queued
   is addressed to a destination whose own send failed in this pass. *)
Theorem other_dests_not_blocked : forall q orc q' s p,
  service q orc = (q', s) -> In p q' -> memZ (dst p) (blocked_of q orc) = true.
Proof. exact service_unblocked. Qed.
Print Assumptions other_dests_not_blocked.

(* With no failure the whole queue is sent in order in one pass. *)
Theorem no_failure_sends_all : forall q sent orc, forallb negb orc = true ->
  pass q [] [] orc sent = ([], sent ++ q, []).
Proof. exact pass_noblock. Qed.
Print Assumptions no_failure_sends_all.

(* The single-shot entry point (serviceTxPktsOnce / serviceAllTxOnce) sends at most the head packet and
   otherwise leaves the queue exactly as it was: a transiently failed head packet stays at the head. *)
Theorem once_keeps_queue_order : forall q f q' sent,
  once q f = (q', sent) -> sent ++ q' = q /\ (length sent <= 1)%nat.
Proof. exact once_prefix. Qed.
Print Assumptions once_keeps_queue_order.

(* non-vacuity: a history with a failing destination in the middle *)
Example c35_nonvacuous :
  let s := run [Enq (1,10); Enq (2,20); Enq (3,10); Enq (4,10); Service [true;false]; Service []] in
  log s = [(2,20); (1,10); (3,10); (4,10)] /\ txq s = [].
Proof. vm_compute. split; reflexivity. Qed.

Example c35_once_nonvacuous :
  let s := run [Enq (1,10); Enq (2,10); Once true; Once false; Once false] in
  log s = [(1,10); (2,10)] /\ txq s = [].
Proof. vm_compute. split; reflexivity. Qed.
