(* C35 -- property theorems only.  Each closed by [exact]; Print Assumptions beneath. *)
From Coq Require Import List ZArith Bool Permutation.
Import ListNotations.
Require Import V.C35.Model V.C35.Proofs.
Open Scope Z_scope.

(* Over every history of enqueues and service passes with arbitrary transient-failure
   oracles: for every destination d, the packets sent so far to d followed by those still
   queued for d are exactly the packets ever queued for d, in queue order (so nothing to
   d is sent twice, dropped, or overtaken), and overall sent + queued is a permutation of
   everything queued (each packet exactly once). *)
Theorem per_dest_order_and_once : forall ops,
  (forall d, to d (log (run ops) ++ txq (run ops)) = to d (queued (run ops))) /\
  Permutation (log (run ops) ++ txq (run ops)) (queued (run ops)).
Proof. exact run_inv. Qed.
Print Assumptions per_dest_order_and_once.

(* A failing destination never blocks another: after a pass, every packet still queued
   is addressed to a destination whose own send failed in this pass. *)
Theorem other_dests_not_blocked : forall q orc q' s p,
  service q orc = (q', s) -> In p q' -> memZ (dst p) (blocked_of q orc) = true.
Proof. exact service_unblocked. Qed.
Print Assumptions other_dests_not_blocked.

(* With no failure the whole queue is sent in order in one pass. *)
Theorem no_failure_sends_all : forall q sent orc, forallb negb orc = true ->
  pass q [] [] orc sent = ([], sent ++ q, []).
Proof. exact pass_noblock. Qed.
Print Assumptions no_failure_sends_all.

(* The single-shot entry point (serviceTxPktsOnce / serviceAllTxOnce) sends at most the head packet and
   otherwise leaves the queue exactly as it was: a transiently failed head packet stays at the head. *)
Theorem once_keeps_queue_order : forall q f q' sent,
  once q f = (q', sent) -> sent ++ q' = q /\ (length sent <= 1)%nat.
Proof. exact once_prefix. Qed.
Print Assumptions once_keeps_queue_order.

(* non-vacuity: a history with a failing destination in the middle *)
Example c35_nonvacuous :
  let s := run [Enq (1,10); Enq (2,20); Enq (3,10); Enq (4,10); Service [true;false]; Service []] in
  log s = [(2,20); (1,10); (3,10); (4,10)] /\ txq s = [].
Proof. vm_compute. split; reflexivity. Qed.

Example c35_once_nonvacuous :
  let s := run [Enq (1,10); Enq (2,10); Once true; Once false; Once false] in
  log s = [(1,10); (2,10)] /\ txq s = [].
Proof. vm_compute. split; reflexivity. Qed.

(* ---- non-transient send errors (a socket.error that is not in the transient list propagates) ---- *)
Require Import V.C35.Fatal.

(* A pass ended by an exception on the send of packet p loses p and nothing else: the queue was pre ++ p :: post,
   and sent ++ queue-after is, destination by destination and in queue order, exactly pre ++ post; in particular
   the packets deferred by transient failures earlier in the pass are still queued, in front of the rest. *)
Theorem exception_loses_only_its_packet : forall q orc q' s p,
  servicex q orc = (q', s, Some p) ->
  exists pre post, q = pre ++ p :: post /\
    (forall d, to d (s ++ q') = to d (pre ++ post)) /\ Permutation (s ++ q') (pre ++ post).
Proof. exact servicex_fatal. Qed.
Print Assumptions exception_loses_only_its_packet.

Theorem exception_keeps_untouched_rest_behind_deferred : forall q orc q' s p,
  servicex q orc = (q', s, Some p) ->
  exists pre post l1, q = pre ++ p :: post /\ q' = l1 ++ post /\ Permutation (s ++ l1) pre.
Proof. exact servicex_fatal_rest. Qed.
Print Assumptions exception_keeps_untouched_rest_behind_deferred.

(* every history with exceptions: sent + queued + dropped-by-exception is exactly what was ever queued *)
Theorem nothing_lost_but_raising_packets : forall ops,
  Permutation (xlog (runx ops) ++ xq (runx ops) ++ xdropped (runx ops)) (xqueued (runx ops)).
Proof. exact runx_inv. Qed.
Print Assumptions nothing_lost_but_raising_packets.

(* and a history without non-transient errors is a history of the basic machine above *)
Theorem no_exception_is_basic_machine : forall ops, forallb fatal_free ops = true ->
  xq (runx ops) = txq (run (map op_of ops)) /\ xlog (runx ops) = log (run (map op_of ops)) /\
  xqueued (runx ops) = queued (run (map op_of ops)) /\ xdropped (runx ops) = [].
Proof. exact runx_run. Qed.
Print Assumptions no_exception_is_basic_machine.

(* non-vacuity: a1 deferred (transient), b1 raises, a2 and c1 not yet attempted *)
Example c35_exception_nonvacuous :
  servicex [(1,10); (2,20); (3,10); (4,30)] [OTrans; OFatal] = ([(1,10); (3,10); (4,30)], [], Some (2,20)).
Proof. vm_compute. reflexivity. Qed.

(* ---- histories with exceptions: per-destination FIFO departure ---- *)
Require Import V.C35.FatalOrder.

(* Over EVERY history of enqueues, full passes and single-shot calls with sent / transient / non-transient outcomes:
   for each destination d, the packets to d that have LEFT the queue so far (sent, or lost with the exception their
   own send raised), in the order they left, followed by the packets to d still queued, are exactly the packets
   ever queued for d in queue order.  So also with exceptions no packet to d is sent twice, overtaken, or silently
   skipped: the only packets never sent are those whose own send raised. *)
Theorem departures_in_queue_order : forall ops d,
  to d (leftsx ops initx) ++ to d (xq (runx ops)) = to d (xqueued (runx ops)).
Proof. exact runx_fifo. Qed.
Print Assumptions departures_in_queue_order.

(* and what left the queue is exactly what was sent plus what was lost with its own exception *)
Theorem departures_are_sent_or_raised : forall ops,
  Permutation (xlog (runx ops) ++ xdropped (runx ops)) (leftsx ops initx).
Proof. exact runx_left_perm. Qed.
Print Assumptions departures_are_sent_or_raised.

Example c35_departures_nonvacuous :
  let ops := [XEnq (1,10); XEnq (2,20); XEnq (3,10); XEnq (4,30); XService [OTrans; OFatal]; XService []] in
  leftsx ops initx = [(2,20); (1,10); (3,10); (4,30)] /\ xlog (runx ops) = [(1,10); (3,10); (4,30)] /\
  xdropped (runx ops) = [(2,20)] /\ xq (runx ops) = [].
Proof. vm_compute. repeat split; reflexivity. Qed.

(* what stays queued after a pass ended by an exception on p0: the packets deferred because THEIR destination failed
   transiently earlier in this pass, followed by the untouched rest; p0's own destination is not blocked and
   has no deferred packet (every earlier packet to it was sent) *)
Theorem exception_leaves_deferred_then_rest : forall q orc q' s p0,
  servicex q orc = (q', s, Some p0) ->
  exists pre post l1 ob,
    q = pre ++ p0 :: post /\ q' = l1 ++ post /\ service pre ob = (l1, s) /\
    (forall x, In x l1 -> memZ (dst x) (blocked_of pre ob) = true) /\
    memZ (dst p0) (blocked_of pre ob) = false /\ to (dst p0) l1 = [].
Proof. exact servicex_fatal_remaining. Qed.
Print Assumptions exception_leaves_deferred_then_rest.
