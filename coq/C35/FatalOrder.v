(* C35 -- histories with non-transient errors: per destination, packets LEAVE the queue (sent, or lost with the
   exception their own send raised) exactly in the order they were queued; nothing is skipped or overtaken. *)
From Coq Require Import List ZArith Bool Lia Permutation.
Import ListNotations.
Require Import V.C35.Model V.C35.Proofs V.C35.Fatal.
Open Scope Z_scope.

(* packets that leave the queue in one step, in the order they leave *)
Definition leftx (s : stx) (o : opx) : list pkt :=
  match o with
  | XEnq _ => []
  | XService orc => let '(_, sent, r) := servicex (xq s) orc in sent ++ optl r
  | XOnce o => let '(_, sent, r) := oncex (xq s) o in sent ++ optl r
  end.

Definition enqx (o : opx) : list pkt := match o with XEnq p => [p] | _ => [] end.

Fixpoint leftsx (ops : list opx) (s : stx) : list pkt :=
  match ops with
  | [] => []
  | o :: ops' => leftx s o ++ leftsx ops' (stepx s o)
  end.

Fixpoint enqsx (ops : list opx) : list pkt :=
  match ops with [] => [] | o :: ops' => enqx o ++ enqsx ops' end.

Lemma servicex_left q orc q' s r d : servicex q orc = (q', s, r) ->
  to d ((s ++ optl r) ++ q') = to d q.
Proof.
  intros H. destruct r as [p|].
  - unfold servicex in H. destruct (passx q [] [] orc []) as [[[a b] c] r0] eqn:Hp. inversion H; subst.
    destruct (passx_pass _ _ _ _ _ _ _ _ _ Hp) as (pre & post & ob & l1 & E & P & Q & M). subst q q'.
    assert (S : service pre ob = (l1, s)) by (unfold service; rewrite P; reflexivity).
    pose proof (service_order _ _ _ _ S d) as O.
    assert (LB : laters_blocked l1 c).
    { apply (pass_unblocked pre [] [] ob [] l1 s c); [intros x []|exact P]. }
    cbn [optl]. rewrite !to_app in *. rewrite <- O. cbn [to filter].
    destruct (Z.eqb (dst p) d) eqn:Hd.
    + apply Z.eqb_eq in Hd. subst d.
      rewrite (to_nil_unblocked l1 c (dst p) LB M). cbn. rewrite !app_nil_r. rewrite <- !app_assoc. reflexivity.
    + cbn. rewrite !app_nil_r. rewrite <- !app_assoc. reflexivity.
  - destruct (servicex_clean _ _ _ _ H) as [O _]. cbn [optl]. rewrite app_nil_r. apply O.
Qed.

Lemma oncex_left q o q' s r : oncex q o = (q', s, r) -> (s ++ optl r) ++ q' = q.
Proof.
  unfold oncex. destruct q as [|p q]; intros H; [inversion H; reflexivity|].
  destruct o; inversion H; reflexivity.
Qed.

Lemma stepx_fifo s o d :
  to d (leftx s o) ++ to d (xq (stepx s o)) = to d (xq s) ++ to d (enqx o).
Proof.
  destruct o as [p|orc|o]; cbn [leftx stepx enqx].
  - cbn [xq]. rewrite to_app. reflexivity.
  - destruct (servicex (xq s) orc) as [[q' sent] r] eqn:Hs. cbn [xq].
    rewrite <- to_app, (servicex_left _ _ _ _ _ d Hs). cbn. rewrite app_nil_r. reflexivity.
  - destruct (oncex (xq s) o) as [[q' sent] r] eqn:Hs. cbn [xq].
    rewrite <- to_app, (oncex_left _ _ _ _ _ Hs). cbn. rewrite app_nil_r. reflexivity.
Qed.

Lemma stepx_queued s o : xqueued (stepx s o) = xqueued s ++ enqx o.
Proof.
  destruct o as [p|orc|o]; cbn [stepx enqx].
  - reflexivity.
  - destruct (servicex (xq s) orc) as [[q' sent] r]. cbn. rewrite app_nil_r. reflexivity.
  - destruct (oncex (xq s) o) as [[q' sent] r]. cbn. rewrite app_nil_r. reflexivity.
Qed.

Lemma runx_fifo_from ops : forall s d,
  to d (leftsx ops s) ++ to d (xq (fold_left stepx ops s)) = to d (xq s) ++ to d (enqsx ops).
Proof.
  induction ops as [|o ops IH]; intros s d; cbn [leftsx fold_left enqsx].
  - cbn. rewrite app_nil_r. reflexivity.
  - rewrite !to_app. rewrite <- app_assoc. rewrite IH. rewrite app_assoc, stepx_fifo. rewrite <- app_assoc. reflexivity.
Qed.

Lemma runx_queued_from ops : forall s, xqueued (fold_left stepx ops s) = xqueued s ++ enqsx ops.
Proof.
  induction ops as [|o ops IH]; intros s; cbn [fold_left enqsx]; [rewrite app_nil_r; reflexivity|].
  rewrite IH, stepx_queued, <- app_assoc. reflexivity.
Qed.

Lemma runx_fifo ops d :
  to d (leftsx ops initx) ++ to d (xq (runx ops)) = to d (xqueued (runx ops)).
Proof.
  unfold runx. rewrite runx_fifo_from, runx_queued_from. reflexivity.
Qed.

(* what left the queue is what was sent plus what was lost with its own exception *)
Lemma stepx_left_perm s o :
  Permutation (xlog (stepx s o) ++ xdropped (stepx s o)) ((xlog s ++ xdropped s) ++ leftx s o).
Proof.
  destruct o as [p|orc|o]; cbn [leftx stepx].
  - cbn. rewrite app_nil_r. apply Permutation_refl.
  - destruct (servicex (xq s) orc) as [[q' sent] r]. cbn [xlog xdropped].
    repeat rewrite <- app_assoc. apply Permutation_app_head.
    rewrite (app_assoc sent). rewrite (app_assoc (xdropped s)). apply Permutation_app_tail, Permutation_app_comm.
  - destruct (oncex (xq s) o) as [[q' sent] r]. cbn [xlog xdropped].
    repeat rewrite <- app_assoc. apply Permutation_app_head.
    rewrite (app_assoc sent). rewrite (app_assoc (xdropped s)). apply Permutation_app_tail, Permutation_app_comm.
Qed.

Lemma runx_left_perm_from ops : forall s,
  Permutation (xlog (fold_left stepx ops s) ++ xdropped (fold_left stepx ops s))
              ((xlog s ++ xdropped s) ++ leftsx ops s).
Proof.
  induction ops as [|o ops IH]; intros s; cbn [fold_left leftsx].
  - rewrite app_nil_r. apply Permutation_refl.
  - eapply Permutation_trans; [apply IH|]. rewrite app_assoc. apply Permutation_app_tail, stepx_left_perm.
Qed.

Lemma runx_left_perm ops :
  Permutation (xlog (runx ops) ++ xdropped (runx ops)) (leftsx ops initx).
Proof. unfold runx. eapply Permutation_trans; [apply runx_left_perm_from|]. cbn. apply Permutation_refl. Qed.

(* what stays queued after a pass ended by an exception on p0: packets deferred because their destination failed
   transiently earlier in this pass (p0's own destination is not among those: its earlier packets were all sent),
   followed by the untouched rest *)
Lemma servicex_fatal_remaining q orc q' s p0 : servicex q orc = (q', s, Some p0) ->
  exists pre post l1 ob,
    q = pre ++ p0 :: post /\ q' = l1 ++ post /\ service pre ob = (l1, s) /\
    (forall x, In x l1 -> memZ (dst x) (blocked_of pre ob) = true) /\
    memZ (dst p0) (blocked_of pre ob) = false /\ to (dst p0) l1 = [].
Proof.
  unfold servicex. destruct (passx q [] [] orc []) as [[[a b] c] r] eqn:Hp. intros H. inversion H; subst.
  destruct (passx_pass _ _ _ _ _ _ _ _ _ Hp) as (pre & post & ob & l1 & E & P & Q & M).
  exists pre, post, l1, ob.
  assert (S : service pre ob = (l1, s)) by (unfold service; rewrite P; reflexivity).
  assert (B : blocked_of pre ob = c) by (unfold blocked_of; rewrite P; reflexivity).
  assert (LB : laters_blocked l1 c).
  { apply (pass_unblocked pre [] [] ob [] l1 s c); [intros x []|exact P]. }
  rewrite B. repeat split; try assumption.
  apply (to_nil_unblocked l1 c (dst p0) LB M).
Qed.
