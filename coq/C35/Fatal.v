(* C35 -- non-transient send errors: passx refines pass on the part of the queue before the raising packet,
   so every theorem of a clean pass carries over to what is left after an exception. *)
From Coq Require Import List ZArith Bool Lia Permutation.
Import ListNotations.
Require Import V.C35.Model V.C35.Proofs.
Open Scope Z_scope.

Lemma passx_pass q : forall laters blk orc sent q' s' b' r,
  passx q laters blk orc sent = (q', s', b', r) ->
  match r with
  | None => exists ob, pass q laters blk ob sent = (q', s', b')
  | Some p => exists pre post ob l1,
      q = pre ++ p :: post /\ pass pre laters blk ob sent = (l1, s', b') /\ q' = l1 ++ post /\
      memZ (dst p) b' = false
  end.
Proof.
  induction q as [|p q IH]; intros laters blk orc sent q' s' b' r H.
  - cbn in H. inversion H; subst. exists []. reflexivity.
  - cbn [passx] in H. destruct (memZ (dst p) blk) eqn:Hm.
    + specialize (IH _ _ _ _ _ _ _ _ H). destruct r as [p0|].
      * destruct IH as (pre & post & ob & l1 & E & P & Q & M).
        exists (p :: pre), post, ob, l1. repeat split; try assumption.
        -- rewrite E. reflexivity.
        -- cbn [pass]. rewrite Hm. exact P.
      * destruct IH as [ob P]. exists ob. cbn [pass]. rewrite Hm. exact P.
    + destruct orc as [|[| |] orc'].
      * specialize (IH _ _ _ _ _ _ _ _ H). destruct r as [p0|].
        -- destruct IH as (pre & post & ob & l1 & E & P & Q & M).
           exists (p :: pre), post, (false :: ob), l1. repeat split; try assumption.
           ++ rewrite E. reflexivity.
           ++ cbn [pass]. rewrite Hm. exact P.
        -- destruct IH as [ob P]. exists (false :: ob). cbn [pass]. rewrite Hm. exact P.
      * specialize (IH _ _ _ _ _ _ _ _ H). destruct r as [p0|].
        -- destruct IH as (pre & post & ob & l1 & E & P & Q & M).
           exists (p :: pre), post, (false :: ob), l1. repeat split; try assumption.
           ++ rewrite E. reflexivity.
           ++ cbn [pass]. rewrite Hm. exact P.
        -- destruct IH as [ob P]. exists (false :: ob). cbn [pass]. rewrite Hm. exact P.
      * specialize (IH _ _ _ _ _ _ _ _ H). destruct r as [p0|].
        -- destruct IH as (pre & post & ob & l1 & E & P & Q & M).
           exists (p :: pre), post, (true :: ob), l1. repeat split; try assumption.
           ++ rewrite E. reflexivity.
           ++ cbn [pass]. rewrite Hm. exact P.
        -- destruct IH as [ob P]. exists (true :: ob). cbn [pass]. rewrite Hm. exact P.
      * inversion H; subst. exists [], q, [], laters. repeat split; try reflexivity. exact Hm.
Qed.

(* a pass that ends without an exception is a pass of the basic model *)
Lemma servicex_clean q orc q' s : servicex q orc = (q', s, None) ->
  (forall d, to d (s ++ q') = to d q) /\ Permutation (s ++ q') q.
Proof.
  unfold servicex. destruct (passx q [] [] orc []) as [[[a b] c] r] eqn:Hp. intros H. inversion H; subst.
  destruct (passx_pass _ _ _ _ _ _ _ _ _ Hp) as [ob P].
  assert (S : service q ob = (q', s)) by (unfold service; rewrite P; reflexivity).
  split; [exact (service_order _ _ _ _ S) | exact (service_perm _ _ _ _ S)].
Qed.

(* a pass ended by a non-transient error on packet p: the queue was pre ++ p :: post, p was the first packet of
   this pass to its destination that was attempted and not deferred, and everything else is either sent or
   still queued, every destination's packets in their queue order *)
Lemma servicex_fatal q orc q' s p : servicex q orc = (q', s, Some p) ->
  exists pre post, q = pre ++ p :: post /\
    (forall d, to d (s ++ q') = to d (pre ++ post)) /\ Permutation (s ++ q') (pre ++ post).
Proof.
  unfold servicex. destruct (passx q [] [] orc []) as [[[a b] c] r] eqn:Hp. intros H. inversion H; subst.
  destruct (passx_pass _ _ _ _ _ _ _ _ _ Hp) as (pre & post & ob & l1 & E & P & Q & _).
  exists pre, post. split; [exact E|]. subst q'.
  assert (S : service pre ob = (l1, s)) by (unfold service; rewrite P; reflexivity).
  split.
  - intros d. rewrite app_assoc, !to_app, <- to_app, (service_order _ _ _ _ S d). reflexivity.
  - rewrite app_assoc. apply Permutation_app_tail. exact (service_perm _ _ _ _ S).
Qed.

(* in particular nothing that was deferred before the exception is lost: the queue after the exception still
   holds, in order, every packet of pre that was not sent, followed by the whole untouched rest *)
Lemma servicex_fatal_rest q orc q' s p : servicex q orc = (q', s, Some p) ->
  exists pre post l1, q = pre ++ p :: post /\ q' = l1 ++ post /\ Permutation (s ++ l1) pre.
Proof.
  unfold servicex. destruct (passx q [] [] orc []) as [[[a b] c] r] eqn:Hp. intros H. inversion H; subst.
  destruct (passx_pass _ _ _ _ _ _ _ _ _ Hp) as (pre & post & ob & l1 & E & P & Q & _).
  exists pre, post, l1. repeat split; try assumption.
  assert (S : service pre ob = (l1, s)) by (unfold service; rewrite P; reflexivity).
  exact (service_perm _ _ _ _ S).
Qed.

Lemma oncex_acct q o q' s r : oncex q o = (q', s, r) ->
  exists pre, q = pre ++ optl r ++ q' /\ s = pre /\ (length (s ++ optl r) <= 1)%nat.
Proof.
  unfold oncex. destruct q as [|p q]; intros H.
  - inversion H; subst. exists []. cbn. repeat split; lia.
  - destruct o; inversion H; subst; cbn.
    + exists [p]. repeat split; cbn; lia.
    + exists []. repeat split; cbn; lia.
    + exists []. repeat split; cbn; lia.
Qed.

(* histories with exceptions: sent + queued + dropped is exactly what was ever queued *)
Definition histx_inv (s : stx) : Prop := Permutation (xlog s ++ xq s ++ xdropped s) (xqueued s).

Lemma stepx_inv s o : histx_inv s -> histx_inv (stepx s o).
Proof.
  unfold histx_inv. intros Hp. destruct o as [p|orc|o]; cbn [stepx].
  - cbn [xq xlog xqueued xdropped].
    apply Permutation_trans with (l' := (xlog s ++ xq s ++ xdropped s) ++ [p]).
    + repeat rewrite <- app_assoc. do 2 apply Permutation_app_head. apply Permutation_app_comm.
    + apply Permutation_app_tail. exact Hp.
  - destruct (servicex (xq s) orc) as [[q' sent] r] eqn:Hs. cbn [xq xlog xqueued xdropped].
    eapply Permutation_trans; [|exact Hp]. destruct r as [p|].
    + destruct (servicex_fatal _ _ _ _ _ Hs) as (pre & post & E & _ & P). rewrite E. cbn [optl].
      repeat rewrite <- app_assoc. apply Permutation_app_head.
      apply Permutation_trans with (l' := (pre ++ post) ++ xdropped s ++ [p]).
      * rewrite (app_assoc sent q'). apply Permutation_app_tail. exact P.
      * repeat rewrite <- app_assoc. apply Permutation_app_head. cbn [app].
        rewrite app_assoc. apply Permutation_sym, Permutation_cons_append.
    + destruct (servicex_clean _ _ _ _ Hs) as [_ P]. cbn [optl]. rewrite app_nil_r.
      repeat rewrite <- app_assoc. apply Permutation_app_head.
      rewrite (app_assoc sent q'). apply Permutation_app_tail. exact P.
  - destruct (oncex (xq s) o) as [[q' sent] r] eqn:Hs. cbn [xq xlog xqueued xdropped].
    eapply Permutation_trans; [|exact Hp]. destruct (oncex_acct _ _ _ _ _ Hs) as (pre & E & S & _). subst pre. rewrite E.
    repeat rewrite <- app_assoc. do 2 apply Permutation_app_head.
    rewrite (app_assoc q'). apply Permutation_app_comm.
Qed.

Lemma runx_inv_from ops : forall s, histx_inv s -> histx_inv (fold_left stepx ops s).
Proof. induction ops as [|o ops IH]; intros s H; cbn; [exact H|]. apply IH, stepx_inv, H. Qed.

Lemma runx_inv ops : histx_inv (runx ops).
Proof. apply runx_inv_from. unfold histx_inv. cbn. apply Permutation_refl. Qed.

(* without non-transient errors the extended machine IS the basic machine *)
Lemma passx_nofatal q : forall laters blk orc sent, existsb is_fatal orc = false ->
  passx q laters blk orc sent =
  (let '(a, b, c) := pass q laters blk (map is_trans orc) sent in (a, b, c, None)).
Proof.
  induction q as [|p q IH]; intros laters blk orc sent Hf; cbn [passx pass]; [reflexivity|].
  destruct (memZ (dst p) blk); [apply IH; exact Hf|].
  destruct orc as [|[| |] orc']; cbn [map is_trans]; cbn in Hf; try discriminate; try (apply IH; exact Hf).
Qed.

Definition same (x : stx) (s : st) : Prop :=
  xq x = txq s /\ xlog x = log s /\ xqueued x = queued s /\ xdropped x = [].

Lemma stepx_step x s o : same x s -> fatal_free o = true -> same (stepx x o) (step s (op_of o)).
Proof.
  intros (A & B & C & D) Hf. destruct o as [p|orc|o]; cbn [stepx step op_of].
  - unfold same; cbn. rewrite A, B, C, D. auto.
  - cbn in Hf. apply negb_true_iff in Hf.
    unfold servicex, service. rewrite (passx_nofatal _ _ _ _ _ Hf). rewrite A.
    destruct (pass (txq s) [] [] (map is_trans orc) []) as [[a b] c].
    unfold same; cbn. rewrite B, C, D. auto.
  - cbn in Hf. rewrite A. unfold oncex, once. destruct (txq s) as [|p q].
    + unfold same; cbn. rewrite B, C, D. auto.
    + destruct o; cbn in Hf; try discriminate; unfold same; cbn; rewrite B, C, D; auto.
Qed.

Lemma runx_run_from ops : forall x s, same x s -> forallb fatal_free ops = true ->
  same (fold_left stepx ops x) (fold_left step (map op_of ops) s).
Proof.
  induction ops as [|o ops IH]; intros x s H Hf; cbn; [exact H|].
  cbn in Hf. apply andb_true_iff in Hf. destruct Hf as [H1 H2].
  apply IH; [apply stepx_step; assumption | exact H2].
Qed.

Lemma runx_run ops : forallb fatal_free ops = true -> same (runx ops) (run (map op_of ops)).
Proof. apply runx_run_from. unfold same; cbn; auto. Qed.
