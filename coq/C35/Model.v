(* C35 -- GramStack.serviceTxPkts / serviceTxPktsOnce / _serviceOneTxPkt (ioflo/aio/proto/stacking.py)
   Hand model (tie H).  Definitions only.

   packet   = (id, destination)           ids/destinations interned as Z by the harness
   oracle   = one bool per handler.send call of the pass: true = the send raises a
              transient destination error (ECONNREFUSED, ...), false = datagram sent.
              An exhausted oracle means "sent".
   One service pass pops packets left to right:
     - destination already blocked in this pass  -> packet goes to laters, pass CONTINUES
     - send fails transiently                    -> packet goes to laters, destination blocked
     - send succeeds                             -> packet appended to the send log
   and finally txPkts := laters (in order).                                      *)
From Coq Require Import List ZArith Bool.
Import ListNotations.
Open Scope Z_scope.

Definition pkt := (Z * Z)%type.
Definition dst (p : pkt) : Z := snd p.

Definition memZ (x : Z) (l : list Z) : bool := existsb (Z.eqb x) l.

(* returns (remaining queue after the pass, packets sent in this pass, blocked dests) *)
Fixpoint pass (q laters : list pkt) (blk : list Z) (orc : list bool) (sent : list pkt)
  : list pkt * list pkt * list Z :=
  match q with
  | [] => (laters, sent, blk)
  | p :: q' =>
      if memZ (dst p) blk then pass q' (laters ++ [p]) blk orc sent
      else match orc with
           | true :: orc' => pass q' (laters ++ [p]) (blk ++ [dst p]) orc' sent
           | false :: orc' => pass q' laters blk orc' (sent ++ [p])
           | [] => pass q' laters blk [] (sent ++ [p])
           end
  end.

Definition service (q : list pkt) (orc : list bool) : list pkt * list pkt :=
  let '(q', s, _) := pass q [] [] orc [] in (q', s).

Definition blocked_of (q : list pkt) (orc : list bool) : list Z :=
  let '(_, _, b) := pass q [] [] orc [] in b.

(* GramStack.serviceTxPktsOnce: the head packet only; a transient failure leaves it at the HEAD of the queue
   (it must not fall behind later packets to its own destination) *)
Definition once (q : list pkt) (fail : bool) : list pkt * list pkt :=
  match q with
  | [] => ([], [])
  | p :: q' => if fail then (p :: q', []) else (q', [p])
  end.

(* stack history: enqueue a packet, run one service pass with a failure oracle, or service one packet *)
Inductive op := Enq (p : pkt) | Service (orc : list bool) | Once (fail : bool).

Record st := { txq : list pkt; log : list pkt; queued : list pkt }.
Definition init : st := {| txq := []; log := []; queued := [] |}.

Definition step (s : st) (o : op) : st :=
  match o with
  | Enq p => {| txq := txq s ++ [p]; log := log s; queued := queued s ++ [p] |}
  | Service orc => let '(q', sent) := service (txq s) orc in
                   {| txq := q'; log := log s ++ sent; queued := queued s |}
  | Once f => let '(q', sent) := once (txq s) f in
              {| txq := q'; log := log s ++ sent; queued := queued s |}
  end.

Definition run (ops : list op) : st := fold_left step ops init.

Definition to (d : Z) (l : list pkt) : list pkt := filter (fun p => Z.eqb (dst p) d) l.
