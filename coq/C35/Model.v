(* C35 -- GramStack.serviceTxPkts / serviceTxPktsOnce / _serviceOneTxPkt (ioflo/aio/proto/stacking.py)
   Hand model (tie H).  Definitions only.

   packet   = (id, destination)           ids/destinations interned as Z by the harness
   oracle   = one bool per handler.send call of the pass: true = the send raises a
              transient destination error (ECONNREFUSED, ...), false = datagram sent.
              An exhausted oracle means "sent".
   One service pass pops packets left to right:
     - destination already blocked in this pass  -> packet goes to laters, pass CONTINUES
     - send fails transiently                    -> packet goes to laters, destination blocked
     - send succeeds                             -> packet appended to the send log
   and finally txPkts := laters (in order).                                      *)
From Coq Require Import List ZArith Bool.
Import ListNotations.
Open Scope Z_scope.

Definition pkt := (Z * Z)%type.
Definition dst (p : pkt) : Z := snd p.

Definition memZ (x : Z) (l : list Z) : bool := existsb (Z.eqb x) l.

(* returns (remaining queue after the pass, packets sent in this pass, blocked dests) *)
Fixpoint pass (q laters : list pkt) (blk : list Z) (orc : list bool) (sent : list pkt)
  : list pkt * list pkt * list Z :=
  match q with
  | [] => (laters, sent, blk)
  | p :: q' =>
      if memZ (dst p) blk then pass q' (laters ++ [p]) blk orc sent
      else match orc with
           | true :: orc' => pass q' (laters ++ [p]) (blk ++ [dst p]) orc' sent
           | false :: orc' => pass q' laters blk orc' (sent ++ [p])
           | [] => pass q' laters blk [] (sent ++ [p])
           end
  end.

Definition service (q : list pkt) (orc : list bool) : list pkt * list pkt :=
  let '(q', s, _) := pass q [] [] orc [] in (q', s).

Definition blocked_of (q : list pkt) (orc : list bool) : list Z :=
  let '(_, _, b) := pass q [] [] orc [] in b.

(* GramStack.serviceTxPktsOnce: the head packet only; a transient failure leaves it at the HEAD of the queue
   (it must not fall behind later packets to its own destination) *)
Definition once (q : list pkt) (fail : bool) : list pkt * list pkt :=
  match q with
  | [] => ([], [])
  | p :: q' => if fail then (p :: q', []) else (q', [p])
  end.

(* stack history: enqueue a packet, run one service pass with a failure oracle, or service one packet *)
Inductive op := Enq (p : pkt) | Service (orc : list bool) | Once (fail : bool).

Record st := { txq : list pkt; log : list pkt; queued : list pkt }.
Definition init : st := {| txq := []; log := []; queued := [] |}.

Definition step (s : st) (o : op) : st :=
  match o with
  | Enq p => {| txq := txq s ++ [p]; log := log s; queued := queued s ++ [p] |}
  | Service orc => let '(q', sent) := service (txq s) orc in
                   {| txq := q'; log := log s ++ sent; queued := queued s |}
  | Once f => let '(q', sent) := once (txq s) f in
              {| txq := q'; log := log s ++ sent; queued := queued s |}
  end.

Definition run (ops : list op) : st := fold_left step ops init.

Definition to (d : Z) (l : list pkt) : list pkt := filter (fun p => Z.eqb (dst p) d) l.

(* ---- non-transient send errors (they propagate out of serviceTxPkts) ------------------------------
   outcome of one handler.send: sent, transient destination error, or a NON-transient socket.error
   (EMSGSIZE, EPERM, ...) which _serviceOneTxPkt re-raises.  The packet whose send raised is gone with the
   exception (it was popped); serviceTxPkts' finally clause puts the packets deferred so far back IN FRONT of
   the not yet attempted rest of the queue, so nothing else is lost or overtaken. *)
Inductive outcome := OSent | OTrans | OFatal.

(* returns (queue after the pass, sent in this pass, blocked dests, Some p when the send of p raised) *)
Fixpoint passx (q laters : list pkt) (blk : list Z) (orc : list outcome) (sent : list pkt)
  : list pkt * list pkt * list Z * option pkt :=
  match q with
  | [] => (laters, sent, blk, None)
  | p :: q' =>
      if memZ (dst p) blk then passx q' (laters ++ [p]) blk orc sent
      else match orc with
           | OTrans :: orc' => passx q' (laters ++ [p]) (blk ++ [dst p]) orc' sent
           | OSent :: orc' => passx q' laters blk orc' (sent ++ [p])
           | OFatal :: _ => (laters ++ q', sent, blk, Some p)
           | [] => passx q' laters blk [] (sent ++ [p])
           end
  end.

Definition servicex (q : list pkt) (orc : list outcome) : list pkt * list pkt * option pkt :=
  let '(q', s, _, r) := passx q [] [] orc [] in (q', s, r).

Definition oncex (q : list pkt) (o : outcome) : list pkt * list pkt * option pkt :=
  match q with
  | [] => ([], [], None)
  | p :: q' => match o with
               | OSent => (q', [p], None)
               | OTrans => (p :: q', [], None)
               | OFatal => (q', [], Some p)
               end
  end.

Definition is_trans (o : outcome) : bool := match o with OTrans => true | _ => false end.
Definition is_fatal (o : outcome) : bool := match o with OFatal => true | _ => false end.

Inductive opx := XEnq (p : pkt) | XService (orc : list outcome) | XOnce (o : outcome).

(* xdropped: packets whose send raised a non-transient error, in the order that happened *)
Record stx := { xq : list pkt; xlog : list pkt; xqueued : list pkt; xdropped : list pkt }.
Definition initx : stx := {| xq := []; xlog := []; xqueued := []; xdropped := [] |}.

Definition optl (r : option pkt) : list pkt := match r with Some p => [p] | None => [] end.

Definition stepx (s : stx) (o : opx) : stx :=
  match o with
  | XEnq p => {| xq := xq s ++ [p]; xlog := xlog s; xqueued := xqueued s ++ [p]; xdropped := xdropped s |}
  | XService orc => let '(q', sent, r) := servicex (xq s) orc in
                    {| xq := q'; xlog := xlog s ++ sent; xqueued := xqueued s; xdropped := xdropped s ++ optl r |}
  | XOnce o => let '(q', sent, r) := oncex (xq s) o in
               {| xq := q'; xlog := xlog s ++ sent; xqueued := xqueued s; xdropped := xdropped s ++ optl r |}
  end.

Definition runx (ops : list opx) : stx := fold_left stepx ops initx.

(* an extended history without non-transient errors, seen as a history of the basic machine *)
Definition op_of (o : opx) : op :=
  match o with
  | XEnq p => Enq p
  | XService orc => Service (map is_trans orc)
  | XOnce o => Once (is_trans o)
  end.
Definition fatal_free (o : opx) : bool :=
  match o with
  | XEnq _ => true
  | XService orc => negb (existsb is_fatal orc)
  | XOnce o => negb (is_fatal o)
  end.
