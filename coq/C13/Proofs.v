(* C13 -- proofs: the generic resolvePath algorithm commutes with every segment map that
   preserves the keyword class; hence the string-level result factors through the tagged one. *)
From Coq Require Import List NArith Bool.
Import ListNotations.
Require Import V.C13.Model.
Open Scope N_scope.

Section Commute.
  Variables (A B : Type).
  Variables (clsA : A -> kwc) (kwA : kwc -> A) (clsB : B -> kwc) (kwB : kwc -> B).
  Variable h : A -> B.
  Hypothesis Hcls : forall t, clsB (h t) = clsA t.
  Hypothesis Hkw : forall k, h (kwA k) = kwB k.

  Lemma is_h : forall k t, is B clsB k (h t) = is A clsA k t.
  Proof. intros. unfold is. rewrite Hcls. reflexivity. Qed.

  Lemma aof_h : forall l, abs_or_framer B clsB (map h l) = abs_or_framer A clsA l.
  Proof. destruct l; simpl; auto. rewrite !is_h. reflexivity. Qed.

  Lemma sme_h : forall l, starts_me B clsB (map h l) = starts_me A clsA l.
  Proof. destruct l; simpl; auto. apply is_h. Qed.

  Lemma tl_h : forall l : list A, tl (map h l) = map h (tl l).
  Proof. destruct l; reflexivity. Qed.

  Lemma nonempty_h : forall l, nonempty B (map h l) = nonempty A l.
  Proof. destruct l; reflexivity. Qed.

  Lemma inner_h : forall inodes f,
    inner B clsB (map (map h) inodes) (map h f) = map h (inner A clsA inodes f).
  Proof.
    induction inodes as [|ino rest IH]; intros f; simpl; auto.
    rewrite aof_h. destruct (abs_or_framer A clsA f); auto.
    destruct ino as [|a ino]; simpl.
    - apply IH.
    - rewrite is_h. destruct (is A clsA KMe a).
      + rewrite map_app. reflexivity.
      + specialize (IH ((a :: ino) ++ f)). simpl in IH. rewrite map_app in IH. exact IH.
  Qed.

  Lemma outer_h : forall lv f,
    outer B clsB (map (fun l => (map (map h) (fst l), map h (snd l))) lv) (map h f)
    = map h (outer A clsA lv f).
  Proof.
    induction lv as [|[mi mr] rest IH]; intros f; simpl; auto.
    rewrite aof_h. destruct (abs_or_framer A clsA f); auto.
    rewrite sme_h. destruct (starts_me A clsA f).
    - rewrite tl_h, <- map_app. apply IH.
    - rewrite inner_h. rewrite aof_h. destruct (abs_or_framer A clsA (inner A clsA mi f)); auto.
      rewrite <- map_app. apply IH.
  Qed.

  Lemma owalk_h : forall overs o,
    owalk B clsB (map (map h) overs) (map h o) = map h (owalk A clsA overs o).
  Proof.
    induction overs as [|ino rest IH]; intros o; simpl.
    - rewrite aof_h, sme_h, tl_h. destruct (abs_or_framer A clsA o); auto.
      destruct (starts_me A clsA o); auto.
    - rewrite aof_h, sme_h, tl_h. destruct (abs_or_framer A clsA o); auto.
      destruct (starts_me A clsA o); auto. rewrite <- map_app. apply IH.
  Qed.

  Lemma fparts_h : forall c, fparts_of B clsB (map_ctx h c) = map h (fparts_of A clsA c).
  Proof.
    intros c. unfold fparts_of, map_ctx. simpl. rewrite outer_h, sme_h, tl_h.
    destruct (starts_me A clsA (outer A clsA (levels c) (framer_inode c))); reflexivity.
  Qed.

  Lemma oparts_h : forall c, oparts_of B clsB (map_ctx h c) = map h (oparts_of A clsA c).
  Proof. intros c. unfold oparts_of, map_ctx. simpl. apply owalk_h. Qed.

  Lemma default_h : default_inode B kwB = map h (default_inode A kwA).
  Proof. unfold default_inode. simpl. rewrite !Hkw. reflexivity. Qed.

  Lemma prefix_h : forall c p,
    prefix clsB kwB (map_ctx h c) (map h p) = map h (prefix clsA kwA c p).
  Proof.
    intros c p. unfold prefix. rewrite fparts_h, oparts_h.
    set (fp := fparts_of A clsA c). set (op := oparts_of A clsA c).
    assert (E1 : (match act_inode (map_ctx h c) with
                  | Some ino =>
                    if match map h p with [] => true | q :: _ => negb (is B clsB KFramer q || is B clsB KMe q) end
                    then (if nonempty B ino || nonempty B (map h op) || nonempty B (map h fp) then ino
                          else default_inode B kwB) ++ map h p
                    else map h p
                  | None => map h p end)
                 = map h (match act_inode c with
                  | Some ino =>
                    if match p with [] => true | q :: _ => negb (is A clsA KFramer q || is A clsA KMe q) end
                    then (if nonempty A ino || nonempty A op || nonempty A fp then ino
                          else default_inode A kwA) ++ p
                    else p
                  | None => p end)).
    { unfold map_ctx; simpl. destruct (act_inode c) as [ino|]; simpl; auto.
      assert (E0 : match map h p with [] => true | q :: _ => negb (is B clsB KFramer q || is B clsB KMe q) end
                   = match p with [] => true | q :: _ => negb (is A clsA KFramer q || is A clsA KMe q) end).
      { destruct p; simpl; auto. rewrite !is_h. reflexivity. }
      rewrite E0. destruct (match p with [] => true | q :: _ => negb (is A clsA KFramer q || is A clsA KMe q) end); auto.
      rewrite !nonempty_h. rewrite map_app.
      destruct (nonempty A ino || nonempty A op || nonempty A fp); auto.
      rewrite default_h. reflexivity. }
    rewrite E1. clear E1.
    match goal with |- context [map h ?X] => set (p1 := X) end.
    rewrite aof_h. destruct (abs_or_framer A clsA p1); auto.
    rewrite sme_h, tl_h, <- map_app.
    destruct (starts_me A clsA p1).
    - rewrite aof_h. destruct (abs_or_framer A clsA (tl p1)); auto. rewrite <- map_app. reflexivity.
    - rewrite aof_h. destruct (abs_or_framer A clsA (op ++ p1)); auto. rewrite <- map_app. reflexivity.
  Qed.

  Definition mo := @map_out A B h.

  Lemma keep_h : forall l, keep B (map h l) = map mo (keep A l).
  Proof. intros l. unfold keep. rewrite !map_map. reflexivity. Qed.

  Lemma sub_name_h : forall c me main p,
    sub_name B clsB (map_ctx h c) me main (h p) = map_res mo (sub_name A clsA c me main p).
  Proof.
    intros. unfold sub_name. rewrite !is_h. simpl.
    destruct (is A clsA KMe p); auto. destruct (is A clsA KMain p); auto.
    destruct (has_main c); auto.
  Qed.

  Lemma sub_actor_h : forall c p,
    sub_actor B clsB (map_ctx h c) (h p) = map_res mo (sub_actor A clsA c p).
  Proof.
    intros. unfold sub_actor. rewrite !is_h. simpl.
    destruct (is A clsA KMe p); auto. destruct (actor_ok c); auto.
  Qed.

  Lemma subst_h : forall c p,
    subst clsB (map_ctx h c) (map h p) = map_res (map mo) (subst clsA c p).
  Proof.
    intros c p. unfold subst.
    destruct p as [|p0 r0]; simpl; auto.
    rewrite is_h. destruct (is A clsA KFramer p0).
    2:{ simpl. f_equal. f_equal. apply keep_h. }
    destruct r0 as [|p1 r1]; simpl; auto.
    rewrite sub_name_h. destruct (sub_name A clsA c RFramer RMainFramer p1) as [o1| |]; simpl; auto.
    destruct r1 as [|p2 r2]; simpl; auto.
    rewrite !is_h. destruct (is A clsA KFrame p2).
    - destruct r2 as [|p3 r3]; simpl; auto.
      rewrite sub_name_h. destruct (sub_name A clsA c RFrame RMainFrame p3) as [o3| |]; simpl; auto.
      destruct r3 as [|p4 r4]; simpl; auto.
      rewrite is_h. destruct (is A clsA KActor p4).
      + destruct r4 as [|p5 r5]; simpl; auto.
        rewrite sub_actor_h. destruct (sub_actor A clsA c p5) as [o5| |]; simpl; auto.
        rewrite keep_h. reflexivity.
      + simpl. rewrite keep_h. reflexivity.
    - destruct (is A clsA KActor p2).
      + destruct r2 as [|p3 r3]; simpl; auto.
        rewrite sub_actor_h. destruct (sub_actor A clsA c p3) as [o3| |]; simpl; auto.
        rewrite keep_h. reflexivity.
      + simpl. rewrite keep_h. reflexivity.
  Qed.

  Theorem resolve_h : forall c p,
    resolve clsB kwB (map_ctx h c) (map h p) = map_res (map mo) (resolve clsA kwA c p).
  Proof.
    intros c p. unfold resolve. destruct p as [|p0 r]; simpl.
    - pose proof (prefix_h c []) as E. simpl in E. rewrite E.
      destruct (prefix clsA kwA c []) as [|q qs] eqn:Eq; simpl; auto.
      rewrite is_h. destruct (is A clsA KEmpty q).
      + simpl. f_equal. pose proof (keep_h (q :: qs)) as K. simpl in K. exact K.
      + pose proof (subst_h c (q :: qs)) as S. simpl in S. exact S.
    - rewrite is_h. destruct (is A clsA KEmpty p0).
      + simpl. f_equal. pose proof (keep_h (p0 :: r)) as K. simpl in K. exact K.
      + pose proof (prefix_h c (p0 :: r)) as E. simpl in E. rewrite E. apply subst_h.
  Qed.
End Commute.

(* ---- strings vs tagged --------------------------------------------------------------------- *)

Definition not_keyword (s : N) : Prop := clsN s = KOther.

Lemma text_cls : forall nameof, (forall e, not_keyword (nameof e)) ->
  forall t, clsN (text nameof t) = clsS t.
Proof. intros nameof H [s|e]; simpl; auto. apply H. Qed.

Lemma text_kw : forall nameof k, text nameof (kwS k) = kwN k.
Proof. reflexivity. Qed.

(* FACTORISATION: running the string algorithm on the text of a tagged context/path gives the
   text of the tagged result, for every naming that avoids the six keywords *)
Lemma resolve_factor : forall nameof nm, (forall e, not_keyword (nameof e)) ->
  forall (c : ctx seg) (p : list seg),
  resolve_str nm (map_ctx (text nameof) c) (map (text nameof) p)
  = map_res (render_tagged nameof nm) (resolve clsS kwS c p).
Proof.
  intros nameof nm H c p. unfold resolve_str.
  rewrite (resolve_h seg N clsS kwS clsN kwN (text nameof) (text_cls nameof H) (text_kw nameof)).
  destruct (resolve clsS kwS c p) as [l| |]; simpl; auto.
  f_equal. unfold render_tagged, mo. rewrite flat_map_concat_map, map_map, <- flat_map_concat_map.
  reflexivity.
Qed.

(* EQUIVARIANCE: two namings (e.g. before / after a consistent renaming of any set of framers,
   frames, actors) resolve to the SAME tagged result; the two final paths are its two renderings:
   they differ exactly in the segments tagged as names (R e in the script text, NM r substituted
   by resolvePath) and in no literal segment *)
Lemma resolve_equivariant_l : forall nameof nameof' nm nm',
  (forall e, not_keyword (nameof e)) -> (forall e, not_keyword (nameof' e)) ->
  forall (c : ctx seg) (p : list seg),
  exists t : res (list (out seg)),
    resolve_str nm (map_ctx (text nameof) c) (map (text nameof) p) = map_res (render_tagged nameof nm) t /\
    resolve_str nm' (map_ctx (text nameof') c) (map (text nameof') p) = map_res (render_tagged nameof' nm') t.
Proof.
  intros. exists (resolve clsS kwS c p). split; apply resolve_factor; assumption.
Qed.

(* a literal segment of the tagged result renders as itself under every naming *)
Lemma literal_unchanged : forall nameof nameof' nm nm' s,
  render_tagged nameof nm [P (L s)] = render_tagged nameof' nm' [P (L s)].
Proof. reflexivity. Qed.

(* the error class does not depend on names at all *)
Lemma error_independent : forall nameof nameof' nm nm',
  (forall e, not_keyword (nameof e)) -> (forall e, not_keyword (nameof' e)) ->
  forall c p,
  match resolve_str nm (map_ctx (text nameof) c) (map (text nameof) p),
        resolve_str nm' (map_ctx (text nameof') c) (map (text nameof') p) with
  | Ok _, Ok _ | ErrResolve, ErrResolve | ErrIndex, ErrIndex => True
  | _, _ => False
  end.
Proof.
  intros. rewrite !resolve_factor by assumption.
  destruct (resolve clsS kwS c p); simpl; exact I.
Qed.

(* ABSOLUTE paths: never depend on the context or the names *)
Lemma absolute_independent_l : forall nm (c : ctx N) p r,
  clsN p = KEmpty -> resolve_str nm c (p :: r) = Ok (p :: r).
Proof.
  intros nm c p r H. unfold resolve_str, resolve, is. rewrite H. simpl.
  f_equal. f_equal. unfold keep. rewrite flat_map_concat_map, map_map. simpl.
  induction r; simpl; auto. f_equal. exact IHr.
Qed.

