(* C13 -- model of Act.resolvePath (ioflo/base/acting.py), definitions only.

   The algorithm is written ONCE, generically in the type T of path segments: it inspects a
   segment only through [cls] (is it one of the keywords '' framer me main frame actor) and
   creates segments only through [kw] (the default inode).  Two instances:
     * strings   T = N  (interned strings; ids 0..5 are the keywords)  = what the Python does;
     * tagged    T = seg (L s = literal text of the script, R e = the NAME of script entity e),
       whose result records the provenance of every output segment.
   Inode / path strings are given as their part lists  s.rstrip('.').split('.')  ([] for the
   empty string); the over-frame chain and the aux-main chain are given as lists (nearest
   first), so every loop of the Python is a structural recursion here. *)
From Coq Require Import List NArith Bool.
Import ListNotations.
Open Scope N_scope.

Inductive kwc := KEmpty | KFramer | KMe | KMain | KFrame | KActor | KOther.

Definition kwc_eqb (a b : kwc) : bool :=
  match a, b with
  | KEmpty, KEmpty | KFramer, KFramer | KMe, KMe | KMain, KMain | KFrame, KFrame
  | KActor, KActor | KOther, KOther => true
  | _, _ => false
  end.

(* names substituted by resolvePath *)
Inductive role := RFramer | RMainFramer | RFrame | RMainFrame | RActor.

Inductive out (T : Type) := P (t : T) | NM (r : role).
Arguments P {T} t.
Arguments NM {T} r.

Inductive res (A : Type) := Ok (a : A) | ErrResolve | ErrIndex.
Arguments Ok {A} a.
Arguments ErrResolve {A}.
Arguments ErrIndex {A}.

Record ctx (T : Type) := mkctx {
  has_main : bool;                     (* framer.main is set (the framer runs as an aux) *)
  actor_ok : bool;                     (* act.actor is a resolved Actor with a name *)
  act_inode : option (list T);         (* act.inode: None = not an ioinit *)
  frame_inode : list T;                (* act.frame.inode *)
  over_inodes : list (list T);         (* inodes of frame.over, frame.over.over, ... *)
  framer_inode : list T;               (* act.frame.framer.inode *)
  levels : list (list (list T) * list T)
     (* aux nesting, innermost first: (inodes of the main frame and of its overs, inode of the
        main frame's framer) *)
}.
Arguments mkctx {T}.
Arguments has_main {T}.
Arguments actor_ok {T}.
Arguments act_inode {T}.
Arguments frame_inode {T}.
Arguments over_inodes {T}.
Arguments framer_inode {T}.
Arguments levels {T}.

Section Generic.
  Variable T : Type.
  Variable cls : T -> kwc.
  Variable kw : kwc -> T.

  Definition is (k : kwc) (t : T) : bool := kwc_eqb (cls t) k.

  (* fparts and fparts[0] in ("", "framer") *)
  Definition abs_or_framer (ps : list T) : bool :=
    match ps with p :: _ => is KEmpty p || is KFramer p | [] => false end.

  Definition starts_me (ps : list T) : bool :=
    match ps with p :: _ => is KMe p | [] => false end.

  (* inner while: climb the over frames of an aux's main frame *)
  Fixpoint inner (inodes : list (list T)) (f : list T) : list T :=
    match inodes with
    | [] => f
    | ino :: rest =>
      if abs_or_framer f then f else
      match ino with
      | [] => inner rest f
      | _ => let f' := ino ++ f in if starts_me f' then tl f' else inner rest f'
      end
    end.

  (* outer while: climb the aux mains *)
  Fixpoint outer (lv : list (list (list T) * list T)) (f : list T) : list T :=
    match lv with
    | [] => f
    | (main_inodes, mainer_inode) :: rest =>
      if abs_or_framer f then f else
      if starts_me f then outer rest (mainer_inode ++ tl f)
      else let f' := inner main_inodes f in
           if abs_or_framer f' then f' else outer rest (mainer_inode ++ f')
    end.

  Definition fparts_of (c : ctx T) : list T :=
    let f := outer (levels c) (framer_inode c) in
    if starts_me f then tl f else f.

  (* over frame inode processing *)
  Fixpoint owalk (overs : list (list T)) (o : list T) : list T :=
    if abs_or_framer o then o else
    if starts_me o then tl o else
    match overs with
    | [] => o
    | ino :: rest => owalk rest (ino ++ o)
    end.

  Definition oparts_of (c : ctx T) : list T := owalk (over_inodes c) (frame_inode c).

  Definition nonempty (l : list T) : bool := match l with [] => false | _ => true end.

  Definition default_inode : list T := [kw KFramer; kw KMe; kw KFrame; kw KMe; kw KActor; kw KMe].

  (* phase 1: inode prefixes (only for a path that is not absolute) *)
  Definition prefix (c : ctx T) (parts : list T) : list T :=
    let fparts := fparts_of c in
    let oparts := oparts_of c in
    let parts1 :=
      match act_inode c with
      | Some ino =>
        if match parts with [] => true | p :: _ => negb (is KFramer p || is KMe p) end then
          let iparts := if nonempty ino || nonempty oparts || nonempty fparts then ino else default_inode in
          iparts ++ parts
        else parts
      | None => parts
      end in
    if abs_or_framer parts1 then parts1 else
    let parts2 := if starts_me parts1 then tl parts1 else oparts ++ parts1 in
    if abs_or_framer parts2 then parts2 else fparts ++ parts2.

  (* phase 2: substitution of me / main *)
  Definition sub_name (c : ctx T) (me main : role) (p : T) : res (out T) :=
    if is KMe p then Ok (NM me)
    else if is KMain p then (if has_main c then Ok (NM main) else ErrResolve)
    else Ok (P p).

  Definition sub_actor (c : ctx T) (p : T) : res (out T) :=
    if is KMe p then (if actor_ok c then Ok (NM RActor) else ErrResolve) else Ok (P p).

  Definition keep (l : list T) : list (out T) := map P l.

  Definition bind {A B} (r : res A) (f : A -> res B) : res B :=
    match r with Ok a => f a | ErrResolve => ErrResolve | ErrIndex => ErrIndex end.

  Definition subst (c : ctx T) (parts : list T) : res (list (out T)) :=
    match parts with
    | p0 :: rest0 =>
      if is KFramer p0 then
        match rest0 with
        | [] => ErrIndex                                           (* parts[1] *)
        | p1 :: rest1 =>
          bind (sub_name c RFramer RMainFramer p1) (fun o1 =>
          match rest1 with
          | [] => Ok [P p0; o1]
          | p2 :: rest2 =>
            if is KFrame p2 then
              match rest2 with
              | [] => ErrIndex                                     (* parts[3] *)
              | p3 :: rest3 =>
                bind (sub_name c RFrame RMainFrame p3) (fun o3 =>
                match rest3 with
                | p4 :: rest4 =>
                  if is KActor p4 then
                    match rest4 with
                    | [] => ErrIndex                               (* parts[5] *)
                    | p5 :: rest5 =>
                      bind (sub_actor c p5) (fun o5 =>
                      Ok ([P p0; o1; P p2; o3; P p4; o5] ++ keep rest5))
                    end
                  else Ok ([P p0; o1; P p2; o3] ++ keep rest3)
                | [] => Ok [P p0; o1; P p2; o3]
                end)
              end
            else if is KActor p2 then
              match rest2 with
              | [] => ErrIndex                                     (* parts[3] *)
              | p3 :: rest3 =>
                bind (sub_actor c p3) (fun o3 => Ok ([P p0; o1; P p2; o3] ++ keep rest3))
              end
            else Ok ([P p0; o1] ++ keep rest1)
          end)
        end
      else Ok (keep parts)
    | [] => Ok []
    end.

  (* resolvePath up to  '.'.join(parts) : the resolved part list *)
  Definition resolve (c : ctx T) (ipath : list T) : res (list (out T)) :=
    match ipath with
    | p :: _ => if is KEmpty p then Ok (keep ipath)              (* absolute: untouched *)
                else subst c (prefix c ipath)
    | [] =>
      match prefix c ipath with
      | p :: r => if is KEmpty p then Ok (keep (p :: r)) else subst c (p :: r)
      | [] => Ok []
      end
    end.
End Generic.

Arguments resolve {T}.
Arguments prefix {T}.
Arguments subst {T}.

(* ---- instance 1: strings (what Python does) ---------------------------------------------- *)
Definition kwN (k : kwc) : N :=
  match k with KEmpty => 0 | KFramer => 1 | KMe => 2 | KMain => 3 | KFrame => 4 | KActor => 5
             | KOther => 6 end.
Definition clsN (s : N) : kwc :=
  match s with 0 => KEmpty | 1 => KFramer | 2 => KMe | 3 => KMain | 4 => KFrame | 5 => KActor
             | _ => KOther end.

(* the names of the context, as strings; the actor name contributes the parts of
   nameToPath(actor.name).strip('.').split('.') *)
Record names := mknames {
  n_framer : N; n_mainframer : N; n_frame : N; n_mainframe : N; n_actor : list N }.

Definition render_role (nm : names) (r : role) : list N :=
  match r with
  | RFramer => [n_framer nm] | RMainFramer => [n_mainframer nm]
  | RFrame => [n_frame nm] | RMainFrame => [n_mainframe nm] | RActor => n_actor nm
  end.

Definition render_out (nm : names) (o : out N) : list N :=
  match o with P s => [s] | NM r => render_role nm r end.

Definition map_res {A B} (f : A -> B) (r : res A) : res B :=
  match r with Ok a => Ok (f a) | ErrResolve => ErrResolve | ErrIndex => ErrIndex end.

(* the model of resolvePath on strings: the final parts *)
Definition resolve_str (nm : names) (c : ctx N) (ipath : list N) : res (list N) :=
  map_res (fun l => flat_map (render_out nm) l) (resolve clsN kwN c ipath).

(* ---- instance 2: tagged segments ------------------------------------------------------------ *)
Inductive seg := L (s : N) | R (e : N).

Definition clsS (t : seg) : kwc := match t with L s => clsN s | R _ => KOther end.
Definition kwS (k : kwc) : seg := L (kwN k).

(* an assignment of strings to the script entities *)
Definition text (nameof : N -> N) (t : seg) : N := match t with L s => s | R e => nameof e end.

Definition map_ctx {A B} (h : A -> B) (c : ctx A) : ctx B :=
  mkctx (has_main c) (actor_ok c) (option_map (map h) (act_inode c)) (map h (frame_inode c))
        (map (map h) (over_inodes c)) (map h (framer_inode c))
        (map (fun lv => (map (map h) (fst lv), map h (snd lv))) (levels c)).

Definition map_out {A B} (h : A -> B) (o : out A) : out B :=
  match o with P t => P (h t) | NM r => NM r end.

(* final text of a tagged result under a naming *)
Definition render_tagged (nameof : N -> N) (nm : names) (l : list (out seg)) : list N :=
  flat_map (fun o => render_out nm (map_out (text nameof) o)) l.
