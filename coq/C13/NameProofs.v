(* C13 -- the generated nameToPath is the documented rule, and the rule is injective *)
From Coq Require Import List NArith Bool Lia.
Import ListNotations.
Require Import V.C13.NameModel V.gen.NameToPath.
Open Scope N_scope.

Lemma generated_is_documented_l : forall name, name_to_path name = ref_name_to_path name.
Proof. intros name. reflexivity. Qed.

Lemma upper_not_dot : forall c, is_upper c = true -> c <> 46 /\ to_lower c <> 46.
Proof.
  intros c H. unfold to_lower. rewrite H. unfold is_upper in H. apply andb_prop in H. destruct H as [A B].
  apply N.leb_le in A. apply N.leb_le in B. lia.
Qed.

Lemma lower_inj : forall a b, is_upper a = true -> is_upper b = true -> to_lower a = to_lower b -> a = b.
Proof. intros a b A B. unfold to_lower. rewrite A, B. lia. Qed.

Ltac absurd_eq H :=
  exfalso; inversion H; subst;
  try congruence;
  try (match goal with HH : [] = flat_map ref_step ?l ++ _ |- _ => destruct (flat_map ref_step l); simpl in HH; discriminate end);
  try (match goal with HH : flat_map ref_step ?l ++ _ = [] |- _ => destruct (flat_map ref_step l); simpl in HH; discriminate end).

Lemma ref_inj : forall a b, no_dot a -> no_dot b ->
  flat_map ref_step a ++ [46] = flat_map ref_step b ++ [46] -> a = b.
Proof.
  induction a as [|x a IH]; intros b Ha Hb H.
  - destruct b as [|y b]; auto. simpl in H. unfold ref_step in H. inversion Hb; subst.
    destruct (is_upper y) eqn:Ey; simpl in H; absurd_eq H.
  - inversion Ha; subst. destruct b as [|y b].
    + simpl in H. unfold ref_step in H. destruct (is_upper x) eqn:Ex; simpl in H; absurd_eq H.
    + inversion Hb; subst. simpl in H. unfold ref_step at 1 3 in H.
      destruct (is_upper x) eqn:Ex; destruct (is_upper y) eqn:Ey; simpl in H.
      * inversion H. f_equal; [apply lower_inj; auto | apply IH; auto].
      * absurd_eq H.
      * absurd_eq H.
      * inversion H. f_equal. apply IH; auto.
Qed.

Lemma name_to_path_injective_l : forall a b, no_dot a -> no_dot b ->
  name_to_path a = name_to_path b -> a = b.
Proof. intros a b Ha Hb H. rewrite !generated_is_documented_l in H. apply ref_inj; assumption. Qed.
