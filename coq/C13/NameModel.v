(* C13 -- characters of names (ASCII identifiers) and the actor path parts; definitions only *)
From Coq Require Import List NArith Bool.
Import ListNotations.
Open Scope N_scope.

Definition is_upper (c : N) : bool := (65 <=? c) && (c <=? 90).      (* str.isupper on one ASCII char *)
Definition to_lower (c : N) : N := if is_upper c then c + 32 else c.  (* str.lower *)

(* the documented rule: every upper case letter opens a new node; the path ends in a dot *)
Definition ref_step (c : N) : list N := if is_upper c then [46; to_lower c] else [c].
Definition ref_name_to_path (name : list N) : list N := flat_map ref_step name ++ [46].

(* s.split('.') *)
Fixpoint split_dots (s : list N) (cur : list N) : list (list N) :=
  match s with
  | [] => [rev cur]
  | c :: r => if c =? 46 then rev cur :: split_dots r [] else split_dots r (c :: cur)
  end.

Fixpoint lstrip_dots (s : list N) : list N :=
  match s with c :: r => if c =? 46 then lstrip_dots r else s | [] => [] end.

Definition rstrip_dots (s : list N) : list N := rev (lstrip_dots (rev s)).

(* nameToPath(name).lstrip('.').rstrip('.').split('.')  -- what Act.resolvePath splices for actor me *)
Definition actor_parts_of (path : list N) : list (list N) := split_dots (rstrip_dots (lstrip_dots path)) [].

Definition no_dot (s : list N) : Prop := Forall (fun c => c <> 46) s.
