(* C13 -- facts about the relation model and its composition with resolvePath *)
From Coq Require Import List NArith Bool.
Import ListNotations.
Require Import V.C13.Model V.C13.RelModel.
Open Scope N_scope.

(* parseRelation's default-framer rule: a frame relation without an `of framer` clause addresses
   the MAIN framer when the frame named is `main`, the current framer otherwise; an `of framer`
   clause without a name follows the same default *)
Lemma frame_default_framer : forall o,
  relation_parts (RelFrame o None)
  = [1; (if is_main o then 3 else 2); 4; match o with Some f => fname_part f | None => 2 end]
  /\ relation_parts (RelFrame o (Some None)) = relation_parts (RelFrame o None).
Proof. intros o. split; reflexivity. Qed.

(* hence `x of frame main` (and inline frame.main.x) written anywhere in an auxiliary -- clone or
   not -- resolves under the MAIN framer and MAIN frame: the current framer's name (for a clone:
   <main framer>_<tag>), the current frame's name, every inode and the actor are irrelevant *)
Lemma frame_main_under_main_framer : forall nm (c : ctx N) x rest,
  has_main c = true -> clsN x = KOther ->
  resolve_str nm c (indirect_parts (x :: rest) (RelFrame (Some FMain) None))
  = Ok ([1; n_mainframer nm; 4; n_mainframe nm; x] ++ rest).
Proof.
  intros nm c x rest Hm Hx. unfold indirect_parts.
  assert (Hx0 : match x with 0 => False | _ => True end).
  { destruct x; simpl in *; [discriminate|exact I]. }
  destruct x as [|px]; [contradiction|].
  cbn [relation_parts frame_parts is_main fname_part app].
  unfold resolve_str, resolve. cbn [is clsN kwc_eqb].
  unfold prefix. destruct (act_inode c); cbn [is clsN kwc_eqb orb negb abs_or_framer];
  unfold subst; cbn [is clsN kwc_eqb bind sub_name]; rewrite Hm; cbn [bind];
  unfold is; rewrite Hx; cbn [kwc_eqb map_res flat_map render_out render_role app keep map];
  f_equal; f_equal; f_equal; f_equal; f_equal; f_equal;
  induction rest; simpl; auto; f_equal; auto.
Qed.

Lemma inline_frame_main_same : forall x rest,
  indirect_parts (4 :: 3 :: x :: rest) RelNone = indirect_parts (x :: rest) (RelFrame (Some FMain) None)
  \/ x = 0.
Proof.
  intros x rest. destruct x as [|p]; [right; reflexivity|left]. reflexivity.
Qed.

(* with no inode contribution from act, frames and framers a root relative path is left alone: it
   depends on no framer / frame / actor / clone tag name *)
Lemma no_inode_root_relative : forall nm (c : ctx N) x rest,
  act_inode c = None -> fparts_of N clsN c = [] -> oparts_of N clsN c = [] -> clsN x = KOther ->
  resolve_str nm c (x :: rest) = Ok (x :: rest).
Proof.
  intros nm c x rest Ha Hf Ho Hx.
  assert (E : forall k, is N clsN k x = kwc_eqb KOther k). { intros k. unfold is. rewrite Hx. reflexivity. }
  unfold resolve_str, resolve. rewrite E. cbn [kwc_eqb].
  unfold prefix. rewrite Ha, Hf, Ho. cbn [app abs_or_framer starts_me]. rewrite (E KEmpty), (E KFramer), (E KMe). cbn [kwc_eqb orb app abs_or_framer]. rewrite (E KEmpty), (E KFramer). cbn [kwc_eqb orb].
  unfold subst. rewrite E. cbn [kwc_eqb map_res]. f_equal.
  unfold keep. rewrite flat_map_concat_map, map_map. simpl. f_equal.
  induction rest; simpl; auto. f_equal. exact IHrest.
Qed.

(* a clone made by an aux verb WITHOUT a via clause has the empty inode whatever via the moot carries *)
Lemma clone_without_via : forall moot_via, clone_inode moot_via ViaAbsent = [] /\
  clone_inode moot_via ViaMine = moot_via /\ forall p, clone_inode moot_via (ViaGiven p) = p.
Proof. intros. repeat split. Qed.
