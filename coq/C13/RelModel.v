(* C13 -- model of Builder.parseRelation / parseIndirect (ioflo/base/building.py): from the
   `of ...` clause and the written path to the relative path handed to Act.resolvePath.
   Definitions only.  Strings are interned (N); ids 0..5 are the keywords of Model.v. *)
From Coq Require Import List NArith Bool.
Import ListNotations.
Require Import V.C13.Model.
Open Scope N_scope.

Inductive fname := FMe | FMain | FName (s : N).

Definition fname_part (f : fname) : N := match f with FMe => 2 | FMain => 3 | FName s => s end.

Definition is_main (o : option fname) : bool := match o with Some FMain => true | _ => false end.

(* `of framer [name]` nested under a frame relation; None = clause absent *)
Inductive relation :=
| RelNone                                             (* no `of` clause *)
| RelRoot                                             (* of root *)
| RelMe                                               (* of me *)
| RelFramer (o : option fname)                        (* of framer [me|main|name] *)
| RelFrame (o : option fname) (fr : option (option fname))
                                                      (* of frame [..] [of framer [..]] *)
| RelActor (o : option fname) (fm : option (option fname * option (option fname))).
                                                      (* of actor [..] [of frame [..] [of framer [..]]] *)

(* parseRelation's framer part: the name given, else the default [dflt] ('main' when the frame
   relation named main, else 'me') *)
Definition framer_parts (o : option fname) (dflt : N) : list N :=
  [1; match o with Some f => fname_part f | None => dflt end].

Definition frame_parts (o : option fname) (fr : option (option fname)) : list N :=
  let dflt := if is_main o then 3 else 2 in
  let name := match o with Some f => fname_part f | None => 2 end in
  match fr with
  | Some fo => framer_parts fo dflt           (* explicit `of framer [name]`: default still follows frame main *)
  | None => [1; dflt]                          (* default framer: framername or 'me' *)
  end ++ [4; name].

Definition relation_parts (r : relation) : list N :=
  match r with
  | RelNone | RelRoot => []
  | RelMe => [2]
  | RelFramer o => framer_parts o 2
  | RelFrame o fr => frame_parts o fr
  | RelActor o fm =>
    match fm with
    | Some (fo, fr) => frame_parts fo fr
    | None => [1; 2; 4; 2]
    end ++ [5; match o with Some f => fname_part f | None => 2 end]
  end.

(* parseIndirect for a path that passes its syntax checks and has no relation conflict:
   [path] = path.split('.') *)
Definition indirect_parts (path : list N) (r : relation) : list N :=
  match path with
  | 0 :: rest =>                               (* dotpath: relation + path, no dot added *)
    match relation_parts r with
    | [] => path
    | rp => rp ++ rest
    end
  | c0 :: rest =>
    match r with
    | RelNone =>                               (* implied relations of an inline partial path *)
      if c0 =? 5 then [1; 2; 4; 2] ++ path
      else if c0 =? 4 then [1; match rest with c1 :: _ => if c1 =? 3 then 3 else 2 | [] => 2 end] ++ path
      else path
    | _ => relation_parts r ++ path
    end
  | [] => relation_parts r
  end.

(* the inode of an auxiliary CLONE (Builder.buildAux + Framer.resolveMoots): the `via` of the aux verb
   replaces the moot framer's own via -- also when the aux verb has no via clause (empty inode) --
   except `via mine`, which keeps the moot's *)
Inductive auxvia := ViaAbsent | ViaMine | ViaGiven (p : list N).

Definition clone_inode (moot_via : list N) (v : auxvia) : list N :=
  match v with ViaAbsent => [] | ViaMine => moot_via | ViaGiven p => p end.
