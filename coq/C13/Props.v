(* C13 -- property theorems only.  Each closed by [exact]; Print Assumptions beneath. *)
From Coq Require Import List NArith Bool.
Import ListNotations.
Require Import V.C13.Model V.C13.Proofs V.C13.RelModel V.C13.RelProofs.
Require Import V.C13.NameModel V.C13.NameProofs V.gen.NameToPath.
Open Scope N_scope.

(* Consistent renaming.  A script context c and a reference p are given as TAGGED segments:
   L s = literal text, R e = "the name of script entity e" (a framer / frame / actor named in an
   `of framer X` style relation or in an inode).  [nameof]/[nm] give the names before, [nameof']/
   [nm'] after ANY consistent renaming (of one or of many entities); names must not be one of the
   six words resolvePath gives a meaning to ('' framer me main frame actor).
   Then the string-level resolvePath model, run on the two texts, yields the two renderings of ONE
   tagged result t: the resolved paths differ exactly in the segments of t tagged as a name (R e
   from the script, NM role substituted for me/main) and every literal segment is unchanged. *)
Theorem resolve_equivariant : forall nameof nameof' nm nm',
  (forall e, not_keyword (nameof e)) -> (forall e, not_keyword (nameof' e)) ->
  forall (c : ctx seg) (p : list seg),
  exists t : res (list (out seg)),
    resolve_str nm (map_ctx (text nameof) c) (map (text nameof) p) = map_res (render_tagged nameof nm) t /\
    resolve_str nm' (map_ctx (text nameof') c) (map (text nameof') p) = map_res (render_tagged nameof' nm') t.
Proof. exact resolve_equivariant_l. Qed.
Print Assumptions resolve_equivariant.

(* The tagged result itself: the text of the tagged resolution IS the resolution of the text. *)
Theorem resolve_factorises : forall nameof nm, (forall e, not_keyword (nameof e)) ->
  forall (c : ctx seg) (p : list seg),
  resolve_str nm (map_ctx (text nameof) c) (map (text nameof) p)
  = map_res (render_tagged nameof nm) (resolve clsS kwS c p).
Proof. exact resolve_factor. Qed.
Print Assumptions resolve_factorises.

(* Whether resolution succeeds, and with which error, never depends on names. *)
Theorem resolve_error_independent : forall nameof nameof' nm nm',
  (forall e, not_keyword (nameof e)) -> (forall e, not_keyword (nameof' e)) ->
  forall c p,
  match resolve_str nm (map_ctx (text nameof) c) (map (text nameof) p),
        resolve_str nm' (map_ctx (text nameof') c) (map (text nameof') p) with
  | Ok _, Ok _ | ErrResolve, ErrResolve | ErrIndex, ErrIndex => True
  | _, _ => False
  end.
Proof. exact error_independent. Qed.
Print Assumptions resolve_error_independent.

(* Absolute references (first part is the empty string, i.e. the path starts with '.') resolve
   to themselves in EVERY context and under EVERY naming. *)
Theorem absolute_independent : forall nm (c : ctx N) p r,
  clsN p = KEmpty -> resolve_str nm c (p :: r) = Ok (p :: r).
Proof. exact absolute_independent_l. Qed.
Print Assumptions absolute_independent.

(* The generic commutation the above rest on: for ANY two segment types and any map preserving
   the keyword class, the algorithm commutes with the map. *)
Theorem resolve_commutes : forall (A B : Type) clsA kwA clsB kwB (h : A -> B),
  (forall t, clsB (h t) = clsA t) -> (forall k, h (kwA k) = kwB k) ->
  forall c p, resolve clsB kwB (map_ctx h c) (map h p)
              = map_res (map (map_out h)) (resolve clsA kwA c p).
Proof. exact resolve_h. Qed.
Print Assumptions resolve_commutes.

(* Builder.parseRelation's default-framer rule (model RelModel.v): a frame relation without an
   `of framer` clause addresses the MAIN framer iff the frame named is `main`; an `of framer`
   clause without a name follows the same default. *)
Theorem relation_frame_default_framer : forall o,
  relation_parts (RelFrame o None)
  = [1; (if is_main o then 3 else 2); 4; match o with Some f => fname_part f | None => 2 end]
  /\ relation_parts (RelFrame o (Some None)) = relation_parts (RelFrame o None).
Proof. exact frame_default_framer. Qed.
Print Assumptions relation_frame_default_framer.

(* parseIndirect + resolvePath: `x... of frame main` written in ANY auxiliary context (original
   or clone, any inodes, any actor) resolves to framer.<main framer>.frame.<main frame>.x... :
   it does not depend on the auxiliary's own (clone) name, tag or frame names. *)
Theorem frame_main_resolves_under_main_framer : forall nm (c : ctx N) x rest,
  has_main c = true -> clsN x = KOther ->
  resolve_str nm c (indirect_parts (x :: rest) (RelFrame (Some FMain) None))
  = Ok ([1; n_mainframer nm; 4; n_mainframe nm; x] ++ rest).
Proof. exact frame_main_under_main_framer. Qed.
Print Assumptions frame_main_resolves_under_main_framer.

(* Clone inode rule (buildAux / resolveMoots) and its consequence: the aux verb's via replaces the moot's
   own via, an absent via clause gives the EMPTY inode (only `via mine` keeps the moot's); and when no
   inode is contributed by act, frames or framers a root relative reference resolves to itself, i.e.
   independently of every framer, frame, actor and clone tag name. *)
Theorem clone_inode_rule : forall moot_via, clone_inode moot_via ViaAbsent = [] /\
  clone_inode moot_via ViaMine = moot_via /\ forall p, clone_inode moot_via (ViaGiven p) = p.
Proof. exact clone_without_via. Qed.
Print Assumptions clone_inode_rule.

Theorem root_relative_without_inodes_is_name_independent : forall nm (c : ctx N) x rest,
  act_inode c = None -> fparts_of N clsN c = [] -> oparts_of N clsN c = [] -> clsN x = KOther ->
  resolve_str nm c (x :: rest) = Ok (x :: rest).
Proof. exact no_inode_root_relative. Qed.
Print Assumptions root_relative_without_inodes_is_name_independent.

(* aiding.nameToPath as TRANSLATED from the source (gen/NameToPath.v) is the documented rule: every
   upper case letter opens a new node (a dot and its lower case), the path ends in a dot. *)
Theorem name_to_path_is_documented_rule : forall name, name_to_path name = ref_name_to_path name.
Proof. exact generated_is_documented_l. Qed.
Print Assumptions name_to_path_is_documented_rule.

(* Distinct names give distinct actor paths: renaming an actor to any other (dot-free) name changes the
   segments nameToPath contributes -- ABc, Abc, AbC, PID, Pid all differ. *)
Theorem name_to_path_injective : forall a b, no_dot a -> no_dot b ->
  name_to_path a = name_to_path b -> a = b.
Proof. exact name_to_path_injective_l. Qed.
Print Assumptions name_to_path_injective.

(* non-vacuity: testNestedVia.flo -- `do doer param via testnest per color red` in frame nest of
   framer test (inode top): ioinit inode [testnest], path [red]  ->  top.testnest.red ;
   strings: 10=top 11=testnest 12=red *)
Example c13_nested_via :
  resolve_str (mknames 20 21 22 23 [24]) (mkctx false true (Some [11]) [] [[]] [10] []) [12]
  = Ok [10; 11; 12].
Proof. vm_compute. reflexivity. Qed.

(* non-vacuity: `stuff of frame` = framer.me.frame.me.stuff in framer 20 / frame 22, and the
   keyword hypothesis matters: a framer NAMED 'me' (id 2) written explicitly in the path is
   taken for the keyword, so renaming to a keyword is not equivariant *)
Example c13_me_substitution :
  resolve_str (mknames 20 21 22 23 [24]) (mkctx false true None [] [] [] []) [1; 2; 4; 2; 30]
  = Ok [1; 20; 4; 22; 30] /\
  resolve_str (mknames 20 21 22 23 [24]) (mkctx false true None [] [] [] []) [1; 3; 30] = ErrResolve /\
  resolve_str (mknames 20 21 22 23 [24]) (mkctx false true None [] [] [] []) [1] = ErrIndex.
Proof. vm_compute. repeat split; reflexivity. Qed.

(* non-vacuity: ABc -> a.bc (parts a, bc), PID -> p.i.d, Abc -> abc *)
Example c13_name_to_path_runs :
  actor_parts_of (name_to_path [65; 66; 99]) = [[97]; [98; 99]] /\
  actor_parts_of (name_to_path [80; 73; 68]) = [[112]; [105]; [100]] /\
  actor_parts_of (name_to_path [65; 98; 99]) = [[97; 98; 99]].
Proof. vm_compute. repeat split; reflexivity. Qed.
