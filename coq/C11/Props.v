(* C11 -- framer elapsed/recurred clocks drive timeout and repeat. *)
From Coq Require Import List ZArith Bool Arith.
Import ListNotations.
Require Import V.Kernel.Model V.Kernel.GenInd V.Kernel.Basics V.Kernel.ActInv V.Kernel.PrecurProofs V.Kernel.MoreProofs V.Kernel.ClockProofs.

(* 'timeout T' / 'repeat N' / 'if elapsed op T' / 'if recurred op N' are exactly the written comparison on
   the framer's own clocks *)
Theorem elapsed_need_is_comparison : forall (O : TimeOps) (P : prog O) me w c g,
  eval_need P me w (NElapsed c g) = cmpT O c (elapsed (gett w me)) g.
Proof. exact elapsed_need. Qed.
Print Assumptions elapsed_need_is_comparison.
Theorem recurred_need_is_comparison : forall (O : TimeOps) (P : prog O) me w c g,
  eval_need P me w (NRecurred c g) = cmpZ c (recurred (gett w me)) g.
Proof. exact recurred_need. Qed.
Print Assumptions recurred_need_is_comparison.

(* a refused transition (timeout reached but the target's guards fail) leaves elapsed and recurred, like
   everything else, unchanged: the clocks keep counting from the last outline change *)
Theorem refused_transition_keeps_clocks : forall (O : TimeOps) (P : prog O) sub t ns far w,
  (forallb (eval_need P t w) ns = false \/
   let '(ex, en, re) := ExEn P t (actives (gett w t)) far in framer_checkEnter P sub t en ex w = false) ->
  transit P sub t ns far w = (w, false).
Proof. exact transit_refused_noop. Qed.
Print Assumptions refused_transition_keeps_clocks.

(* the frame is left at the FIRST clause that fires: a timeout/repeat clause that holds (with passing guards)
   ends evaluation, earlier clauses that did not fire had no effect *)
Theorem first_firing_clause_leaves_frame : forall (O : TimeOps) (P : prog O) sub l1 t f pa l2 w w1 w2,
  precur P sub t f l1 w = (w1, false) -> crashed w1 = None ->
  pact_step O P sub t f pa w1 = (w2, true) ->
  precur P sub t f (l1 ++ pa :: l2) w = (w2, true).
Proof. exact precur_first_wins. Qed.
Print Assumptions first_firing_clause_leaves_frame.

(* clocks of a framer are core state: nothing outside its own family can write them *)
Theorem clocks_have_a_footprint : forall (O : TimeOps) (P : prog O) n,
  ops_R O (footprint O P) (lvl P n).
Proof. exact footprint_ops. Qed.
Print Assumptions clocks_have_a_footprint.

(* The clocks change in exactly two places.  For every acyclic program, every auxiliary depth, any time type:
   (i) entering a non-empty list of frames -- any outline change, including forced re-entry -- restarts them at
       the current store stamp: fstamp := stamp, elapsed := 0, recurred := 0 (and whatever the entered frames'
       actions and auxiliaries do afterwards cannot change that) *)
Theorem outline_change_restarts_clocks : forall (O : TimeOps) (P : prog O), acyclic O P ->
  forall n a e l w, crashed w = None -> a < length (tss w) ->
  clock O (gett (framer_enter P (lvl P n) a (e :: l) w) a) = (stamp w, tzero O, 0%Z).
Proof. exact lvl_enter_restarts_clock. Qed.
Print Assumptions outline_change_restarts_clocks.

(* (ii) each run of the framer starts (Framer.segue) by setting elapsed := store stamp - fstamp and
       recurred := recurred + 1, fstamp unchanged; that is the state the first transition clause is evaluated
       in, after the auxiliaries' own transitions *)
Theorem clocks_at_first_evaluation : forall (O : TimeOps) (P : prog O), acyclic O P ->
  forall n a w, a < length (tss w) ->
  clock O (gett (segue_world O P (lvl P n) a w) a) =
  (fstamp (gett w a), tsub O (stamp w) (fstamp (gett w a)), (recurred (gett w a) + 1)%Z).
Proof. exact lvl_segue_sets_clock. Qed.
Print Assumptions clocks_at_first_evaluation.

(* ... and every later clause of the tick is evaluated against the same clocks: clauses that do not fire
   (plain precur actions, refused transitions, conditional auxiliaries whatever they do) keep them *)
Theorem clocks_constant_during_evaluation : forall (O : TimeOps) (P : prog O), acyclic O P ->
  forall n a f w,
  let '(w', r) := precur P (lvl P n) a f (preacts (getf P a f)) w in r = false -> ckeeps O a w w'.
Proof. exact lvl_precur_keeps_clock. Qed.
Print Assumptions clocks_constant_during_evaluation.

(* (iii) nothing else writes them: recur actions and exiting keep the framer's clocks *)
Theorem recur_and_exit_keep_clocks : forall (O : TimeOps) (P : prog O), acyclic O P ->
  forall n a w, ckeeps O a w (framer_recur P (lvl P n) a w) /\
                forall b, ckeeps O a w (framer_exitAll P (lvl P n) b a w).
Proof.
  intros O P Hac n a w. split; [apply recur_keeps_clock|intros b; apply exitAll_keeps_clock]; auto; apply footprint_ops.
Qed.
Print Assumptions recur_and_exit_keep_clocks.
