(* C11 -- framer elapsed/recurred clocks drive timeout and repeat.  PARTIAL (see meta.json). *)
From Coq Require Import List ZArith Bool Arith.
Import ListNotations.
Require Import V.Kernel.Model V.Kernel.GenInd V.Kernel.Basics V.Kernel.PrecurProofs V.Kernel.MoreProofs.

(* 'timeout T' / 'repeat N' / 'if elapsed op T' / 'if recurred op N' are exactly the written comparison on
   the framer's own clocks *)
Theorem elapsed_need_is_comparison : forall (O : TimeOps) (P : prog O) me w c g,
  eval_need P me w (NElapsed c g) = cmpT O c (elapsed (gett w me)) g.
Proof. exact elapsed_need. Qed.
Print Assumptions elapsed_need_is_comparison.
Theorem recurred_need_is_comparison : forall (O : TimeOps) (P : prog O) me w c g,
  eval_need P me w (NRecurred c g) = cmpZ c (recurred (gett w me)) g.
Proof. exact recurred_need. Qed.
Print Assumptions recurred_need_is_comparison.

(* a refused transition (timeout reached but the target's guards fail) leaves elapsed and recurred, like
   everything else, unchanged: the clocks keep counting from the last outline change *)
Theorem refused_transition_keeps_clocks : forall (O : TimeOps) (P : prog O) sub t ns far w,
  (forallb (eval_need P t w) ns = false \/
   let '(ex, en, re) := ExEn P t (actives (gett w t)) far in framer_checkEnter P sub t en ex w = false) ->
  transit P sub t ns far w = (w, false).
Proof. exact transit_refused_noop. Qed.
Print Assumptions refused_transition_keeps_clocks.

(* the frame is left at the FIRST clause that fires: a timeout/repeat clause that holds (with passing guards)
   ends evaluation, earlier clauses that did not fire had no effect *)
Theorem first_firing_clause_leaves_frame : forall (O : TimeOps) (P : prog O) sub l1 t f pa l2 w w1 w2,
  precur P sub t f l1 w = (w1, false) -> crashed w1 = None ->
  pact_step O P sub t f pa w1 = (w2, true) ->
  precur P sub t f (l1 ++ pa :: l2) w = (w2, true).
Proof. exact precur_first_wins. Qed.
Print Assumptions first_firing_clause_leaves_frame.

(* clocks of a framer are core state: nothing outside its own family can write them *)
Theorem clocks_have_a_footprint : forall (O : TimeOps) (P : prog O) n,
  ops_R O (footprint O P) (lvl P n).
Proof. exact footprint_ops. Qed.
Print Assumptions clocks_have_a_footprint.
