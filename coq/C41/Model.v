(* C41 -- specification side (definitions only).  The model of checking.py is coq/gen/Checking.v. *)
From Coq Require Import ZArith List Bool.
Import ListNotations.
Open Scope Z_scope.

(* MSB-first CRC as polynomial division over GF(2), one message bit at a time:
   the register holds the running remainder (degree < width); feeding a bit multiplies by x,
   adds the bit at x^width, and reduces by the generator  x^width + poly. *)
Definition crc_step (poly width : Z) (reg : Z) (bit : bool) : Z :=
  let top := Z.testbit reg (width - 1) in
  let reg' := (Z.shiftl reg 1) mod 2 ^ width in
  if xorb top bit then Z.lxor reg' poly else reg'.

(* the 8 bits of a byte, most significant first *)
Definition byte_bits (b : Z) : list bool := map (fun i => Z.testbit b (7 - Z.of_nat i)) (seq 0 8).

Definition crc_spec (poly width init xorout : Z) (data : list Z) : Z :=
  Z.lxor (fold_left (crc_step poly width) (flat_map byte_bits data) init) xorout.

Definition crc16_genibus := crc_spec 4129 (* 0x1021 *) 16 65535 65535.
Definition crc64_we := crc_spec 4823603603198064275 (* 0x42F0E1EBA9EA3693 *) 64 (2 ^ 64 - 1) (2 ^ 64 - 1).

(* crc64 keeps the 64-bit register as two 32-bit halves *)
Definition join64 (r : Z * Z) : Z := fst r * 2 ^ 32 + snd r.
Definition split64 (x : Z) : Z * Z := (x / 2 ^ 32, x mod 2 ^ 32).
Definition poly64 : Z := 4823603603198064275.
Definition step64 (r : Z * Z) (bit : bool) : Z * Z := split64 (crc_step poly64 64 (join64 r) bit).
Definition Inv64 (r : Z * Z) : Prop := 0 <= fst r < 2 ^ 32 /\ 0 <= snd r < 2 ^ 32.

(* ---- polynomials over GF(2) as bit vectors: bit i of z = coefficient of x^i;
        addition is lxor, multiplication by x^k is shiftl k ------------------------------------ *)
(* m is a polynomial multiple of G: a finite sum of shifted copies of G *)
Inductive multG (G : Z) : Z -> Prop :=
| multG_0 : multG G 0
| multG_add : forall m k, 0 <= k -> multG G m -> multG G (Z.lxor m (Z.shiftl G k)).
(* a = b modulo G *)
Definition congG (G a b : Z) : Prop := multG G (Z.lxor a b).
(* the message polynomial: first bit = highest coefficient *)
Fixpoint msg_poly (bits : list bool) : Z :=
  match bits with
  | [] => 0
  | b :: r => Z.lxor (Z.shiftl (Z.b2z b) (Z.of_nat (length r))) (msg_poly r)
  end.

(* ---- the byte-at-a-time table algorithm (what the harness's references implement) ---------- *)
(* table entry: the byte b placed in the top 8 bits, then 8 zero-data steps *)
Definition crc_table (poly w b : Z) : Z :=
  Nat.iter 8 (fun r => crc_step poly w r false) (Z.shiftl b (w - 8)).
Definition crc_byte_table (poly w r e : Z) : Z :=
  Z.lxor ((Z.shiftl r 8) mod 2 ^ w) (crc_table poly w (Z.lxor (Z.shiftr r (w - 8)) e)).
Definition crc_table_driven (poly w init xorout : Z) (data : list Z) : Z :=
  Z.lxor (fold_left (crc_byte_table poly w) data init) xorout.
