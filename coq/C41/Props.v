(* C41 -- property theorems only; each closed by [exact]; Print Assumptions beneath.
   Statements are about coq/gen/Checking.v = the translation of the CURRENT ioflo/aid/checking.py
   (leading [fuel] : the 8-iteration `while i < 8` loops; 9 units suffice for any input). *)
From Coq Require Import ZArith List Bool.
Import ListNotations.
Require Import V.Lib.C40_PyRt V.gen.Checking V.C41.Model V.C41.Proofs.
Open Scope Z_scope.

(* For ANY byte string: crc16 returns the two big-endian bytes of CRC-16/GENIBUS
   (poly 0x1021, init 0xFFFF, not reflected, xorout 0xFFFF) = MSB-first polynomial division. *)
Theorem crc16_is_genibus : forall fuel data, bytes_ok data = true -> (8 < fuel)%nat ->
  crc16 fuel data = Ok [crc16_genibus data / 256; crc16_genibus data mod 256] /\
  0 <= crc16_genibus data < 65536.
Proof. exact crc16_spec_l. Qed.
Print Assumptions crc16_is_genibus.

(* For ANY byte string: crc64's (top, bottom) pair is the 64-bit CRC-64/WE value
   (poly 0x42F0E1EBA9EA3693, init and xorout all ones, not reflected) split into 32-bit halves:
   the two-register implementation with carry equals ONE 64-bit register. *)
Theorem crc64_is_we : forall fuel data, bytes_ok data = true -> (8 < fuel)%nat ->
  crc64 fuel data = Ok (crc64_we data / 2 ^ 32, crc64_we data mod 2 ^ 32) /\
  0 <= crc64_we data < 2 ^ 64.
Proof. exact crc64_spec_l. Qed.
Print Assumptions crc64_is_we.

(* one step of the split register = one step of the 64-bit register *)
Theorem crc64_split_step : forall bits r, Inv64 r ->
  fold_left step64 bits r = split64 (fold_left (crc_step poly64 64) bits (join64 r)).
Proof. exact fold_step64. Qed.
Print Assumptions crc64_split_step.

(* The specification itself is polynomial division over GF(2) (bit i = coefficient of x^i, + = xor,
   * x^k = shiftl k): for ANY width/generator/init, the register R that crc_spec xors with xorout
   has degree < w and is congruent to  init * x^n + M(x) * x^w  modulo  G = x^w + poly,  where M is
   the message polynomial (first bit = highest coefficient) and n the number of message bits.
   (congG G a b: a + b is a finite sum of shifted copies of G.) *)
Theorem crc_spec_is_remainder : forall poly w init xorout data,
  0 < w -> 0 <= poly < 2 ^ w -> 0 <= init < 2 ^ w ->
  let bits := flat_map byte_bits data in
  exists R, crc_spec poly w init xorout data = Z.lxor R xorout /\ 0 <= R < 2 ^ w /\
    congG (2 ^ w + poly) R (Z.lxor (Z.shiftl init (Z.of_nat (length bits))) (Z.shiftl (msg_poly bits) w)).
Proof. exact crc_spec_remainder_l. Qed.
Print Assumptions crc_spec_is_remainder.

(* UNIQUENESS: two residues of degree < w congruent to the same polynomial modulo G are equal
   (a polynomial multiple of G of degree < w is zero), so the register of crc_spec is THE remainder
   of  init * x^n + M(x) * x^w  by G -- the catalogue definition of a non-reflected CRC. *)
Theorem crc_residue_unique : forall poly w, 0 < w -> 0 <= poly < 2 ^ w -> forall a b x,
  0 <= a < 2 ^ w -> 0 <= b < 2 ^ w ->
  congG (2 ^ w + poly) a x -> congG (2 ^ w + poly) b x -> a = b.
Proof. exact residue_unique_l. Qed.
Print Assumptions crc_residue_unique.

Theorem crc_spec_characterised : forall poly w init xorout data R',
  0 < w -> 0 <= poly < 2 ^ w -> 0 <= init < 2 ^ w ->
  let bits := flat_map byte_bits data in
  0 <= R' < 2 ^ w ->
  congG (2 ^ w + poly) R' (Z.lxor (Z.shiftl init (Z.of_nat (length bits))) (Z.shiftl (msg_poly bits) w)) ->
  crc_spec poly w init xorout data = Z.lxor R' xorout.
Proof. exact crc_spec_characterised_l. Qed.
Print Assumptions crc_spec_characterised.

(* TABLE-DRIVEN: the byte-at-a-time algorithm  r' = ((r << 8) mod 2^w) xor table[(r >> (w-8)) xor byte]
   (table[b] = 8 zero-data steps from b << (w-8)) equals the bit-serial specification, any w >= 8 *)
Theorem table_driven_equiv : forall poly w, 8 <= w -> 0 <= poly < 2 ^ w -> forall init xorout data,
  0 <= init < 2 ^ w -> bytes_ok data = true ->
  crc_table_driven poly w init xorout data = crc_spec poly w init xorout data.
Proof. exact table_driven_equiv_l. Qed.
Print Assumptions table_driven_equiv.

Theorem crc_catalogue_tables : forall data, bytes_ok data = true ->
  crc16_genibus data = crc_table_driven 4129 16 65535 65535 data /\
  crc64_we data = crc_table_driven 4823603603198064275 64 (2 ^ 64 - 1) (2 ^ 64 - 1) data.
Proof. exact tables_l. Qed.
Print Assumptions crc_catalogue_tables.

(* catalogue check values: "123456789" |-> 0xD64E (CRC-16/GENIBUS), 0x62EC59E3F1A4F00A (CRC-64/WE) *)
Example crc16_check_value : crc16 9 [49;50;51;52;53;54;55;56;57] = Ok [214; 78] /\
  crc16_genibus [49;50;51;52;53;54;55;56;57] = 54862.
Proof. vm_compute. split; reflexivity. Qed.
Example crc64_check_value : crc64 9 [49;50;51;52;53;54;55;56;57] = Ok (1659656675, 4054118410) /\
  crc64_we [49;50;51;52;53;54;55;56;57] = 7128171145767219210.
Proof. vm_compute. split; reflexivity. Qed.
