(* C41 -- lemmas about coq/gen/Checking.v (the translated checking.py).
   The loops are handled by generic lemmas parametrised by a specification of the loop body;
   the body specifications are proved against the generated lambdas, so every mask, shift and
   polynomial constant of the source is an obligation here. *)
From Coq Require Import ZArith List Bool Lia ZifyBool.
Import ListNotations.
Require Import V.Lib.C40_PyRt V.Lib.C40_Bits V.gen.Checking V.C41.Model.
Open Scope Z_scope.
Ltac Zify.zify_post_hook ::= Z.to_euclidean_division_equations.

(* ---- bit facts ---- *)
Lemma land_pow2_truth : forall x k, 0 <= k -> py_truthZ (Z.land x (2 ^ k)) = Z.testbit x k.
Proof.
  intros x k Hk. assert (E: Z.land x (2 ^ k) = if Z.testbit x k then 2 ^ k else 0).
  { apply Z.bits_inj'; intros i Hi. rewrite Z.land_spec, Z.pow2_bits_eqb by lia.
    destruct (Z.testbit x k) eqn:T.
    - rewrite Z.pow2_bits_eqb by lia. destruct (Z.eqb_spec k i); [subst; rewrite T; reflexivity|apply andb_false_r].
    - rewrite Z.bits_0. destruct (Z.eqb_spec k i); [subst; rewrite T; reflexivity|apply andb_false_r]. }
  rewrite E. unfold py_truthZ. destruct (Z.testbit x k); [|reflexivity].
  pose proof (pow2_pos k Hk). destruct (2 ^ k =? 0) eqn:E2; [lia|reflexivity].
Qed.

Lemma lxor_lt_pow2 : forall a b k, 0 <= k -> 0 <= a < 2 ^ k -> 0 <= b < 2 ^ k -> 0 <= Z.lxor a b < 2 ^ k.
Proof.
  intros a b k Hk Ha Hb. split; [apply Z.lxor_nonneg; lia|].
  assert (E: (Z.lxor a b) mod 2 ^ k = Z.lxor a b).
  { apply Z.bits_inj'; intros i Hi. destruct (Z.ltb_spec i k).
    - apply Z.mod_pow2_bits_low; lia.
    - rewrite Z.mod_pow2_bits_high by lia.
      rewrite Z.lxor_spec, (testbit_small a k i), (testbit_small b k i) by lia. reflexivity. }
  rewrite <- E. apply Z.mod_pos_bound, pow2_pos; lia.
Qed.

Lemma crc_step_range : forall poly w reg bit, 0 <= w -> 0 <= poly < 2 ^ w -> 0 <= crc_step poly w reg bit < 2 ^ w.
Proof.
  intros. unfold crc_step.
  assert (0 <= (Z.shiftl reg 1) mod 2 ^ w < 2 ^ w) by (apply Z.mod_pos_bound, pow2_pos; lia).
  destruct (xorb _ _); [apply lxor_lt_pow2; lia|lia].
Qed.

Lemma b2z_neq_xorb : forall a b : bool,
  negb ((if a then 1 else 0) =? (if b then 1 else 0)) = xorb a b.
Proof. destruct a, b; reflexivity. Qed.

Lemma iter_r : forall A (f : A -> A) k x, Nat.iter k f (f x) = Nat.iter (S k) f x.
Proof. induction k; intros; [reflexivity|]. simpl. f_equal. apply IHk. Qed.

(* ---- the 8-iteration bit loop and the per-byte loop, generic in the register ---- *)
Section BitLoop.
Variable R : Type.
Variable Inv : R -> Prop.
Variable step : R -> bool -> R.
Variable cond : (R * Z * Z) -> bool.
Variable body : (R * Z * Z) -> res (R * Z * Z).
Hypothesis Hcond : forall r b i, cond (r, b, i) = (i <? 8).
Hypothesis Hbody : forall r b i, Inv r -> body (r, b, i) = Ok (step r (Z.testbit b 7), (2 * b) mod 2 ^ 8, i + 1).
Hypothesis Hinv : forall r bit, Inv r -> Inv (step r bit).

Lemma bit_loop : forall k fuel r b, (k <= 8)%nat -> (k < fuel)%nat -> Inv r ->
  while_res fuel cond body (r, b, 8 - Z.of_nat k) =
  Ok (fold_left step (map (fun j => Z.testbit b (7 - Z.of_nat j)) (seq 0 k)) r,
      Nat.iter k (fun x => (2 * x) mod 2 ^ 8) b, 8).
Proof.
  induction k; intros fuel r b Hk Hf Hr; destruct fuel; try lia.
  - cbn [while_res]. rewrite Hcond. reflexivity.
  - cbn [while_res]. rewrite Hcond.
    destruct (8 - Z.of_nat (S k) <? 8) eqn:E; [|lia].
    rewrite Hbody by assumption. cbn [bind].
    replace (8 - Z.of_nat (S k) + 1) with (8 - Z.of_nat k) by lia.
    rewrite IHk; try lia; [|apply Hinv; assumption].
    rewrite <- (iter_r Z (fun x => (2 * x) mod 2 ^ 8) k b). cbv beta. do 3 f_equal. cbn [seq map fold_left]. change (7 - Z.of_nat 0) with 7. f_equal.
    rewrite <- seq_shift, map_map. apply map_ext_in. intros j Hj. apply in_seq in Hj.
    rewrite Z.mod_pow2_bits_low by lia.
    replace (7 - Z.of_nat j) with (Z.succ (7 - Z.of_nat (S j))) by lia. apply Z.double_bits_succ.
Qed.

Lemma bit_loop8 : forall fuel r b, (8 < fuel)%nat -> Inv r ->
  while_res fuel cond body (r, b, 0) =
  Ok (fold_left step (byte_bits b) r, Nat.iter 8 (fun x => (2 * x) mod 2 ^ 8) b, 8).
Proof. intros fuel r b Hf Hr. exact (bit_loop 8 fuel r b (le_n 8) Hf Hr). Qed.

Lemma fold_inv : forall bits r, Inv r -> Inv (fold_left step bits r).
Proof. induction bits; intros; cbn [fold_left]; auto. Qed.

Variable F : R -> Z -> res R.
Hypothesis HF : forall r e, Inv r -> F r e = Ok (fold_left step (byte_bits e) r).
Lemma byte_loop : forall data r, Inv r -> for_res data r F = Ok (fold_left step (flat_map byte_bits data) r).
Proof.
  induction data as [|e data IH]; intros r Hr; [reflexivity|].
  cbn [for_res flat_map]. rewrite HF by assumption. cbn [bind]. rewrite fold_left_app.
  apply IH. apply fold_inv. assumption.
Qed.
End BitLoop.

(* ---- crc16 ---- *)
Lemma crc16_spec_l : forall fuel data, bytes_ok data = true -> (8 < fuel)%nat ->
  crc16 fuel data = Ok [crc16_genibus data / 256; crc16_genibus data mod 256] /\
  0 <= crc16_genibus data < 65536.
Proof.
  intros fuel data Hd Hf.
  assert (Hrange: 0 <= crc16_genibus data < 65536).
  { unfold crc16_genibus, crc_spec. change 65536 with (2 ^ 16). apply lxor_lt_pow2; try lia.
    apply (fold_inv Z (fun r => 0 <= r < 2 ^ 16) (crc_step 4129 16)); [|lia].
    intros. apply crc_step_range; lia. }
  split; [|exact Hrange].
  unfold crc16, py_bytearray. rewrite Hd. cbn [bind].
  erewrite (byte_loop Z (fun _ => True) (crc_step 4129 16)); [ | intros; exact I | | exact I].
  - cbn [bind]. fold (crc_spec 4129 16 65535 65535 data). fold (crc16_genibus data).
    unfold py_pack_H. destruct (0 <=? crc16_genibus data) eqn:E1; destruct (crc16_genibus data <? 65536) eqn:E2; try lia.
    reflexivity.
  - intros r e _. cbv beta zeta.
    erewrite (bit_loop8 Z (fun _ => True) (crc_step 4129 16)); [reflexivity | | | | exact Hf | exact I].
    + intros r0 b i. reflexivity.
    + intros r0 b i _. cbv beta iota zeta.
      change 32768 with (2 ^ 15). change 128 with (2 ^ 7). rewrite !land_pow2_truth by lia.
      rewrite b2z_neq_xorb. unfold crc_step. change (16 - 1) with 15.
      change 65535 with (Z.ones 16). change 255 with (Z.ones 8). rewrite !Z.land_ones by lia.
      rewrite (Z.shiftl_mul_pow2 b 1) by lia. change (2 ^ 1) with 2. rewrite (Z.mul_comm b 2).
      destruct (xorb (Z.testbit r0 15) (Z.testbit b 7)); reflexivity.
    + intros. exact I.
Qed.
(* ---- crc64: the split register ---- *)
Lemma testbit_join : forall hi lo k i, 0 <= k -> 0 <= lo < 2 ^ k -> 0 <= i ->
  Z.testbit (hi * 2 ^ k + lo) i = if i <? k then Z.testbit lo i else Z.testbit hi (i - k).
Proof.
  intros hi lo k i Hk Hlo Hi.
  assert (E: hi * 2 ^ k + lo = Z.lor (Z.shiftl hi k) lo).
  { rewrite lor_disjoint_add; [rewrite Z.shiftl_mul_pow2 by lia; reflexivity|].
    apply Z.bits_inj'; intros j Hj. rewrite Z.land_spec, Z.bits_0.
    destruct (Z.ltb_spec j k); [rewrite Z.shiftl_spec_low by lia; reflexivity|].
    rewrite (testbit_small lo k j) by lia. apply andb_false_r. }
  rewrite E, Z.lor_spec, Z.shiftl_spec by lia.
  destruct (Z.ltb_spec i k).
  - rewrite (Z.testbit_neg_r hi) by lia. reflexivity.
  - rewrite (testbit_small lo k i) by lia. apply orb_false_r.
Qed.

Lemma lxor_join : forall a1 b1 a2 b2 k, 0 <= k -> 0 <= b1 < 2 ^ k -> 0 <= b2 < 2 ^ k ->
  Z.lxor (a1 * 2 ^ k + b1) (a2 * 2 ^ k + b2) = Z.lxor a1 a2 * 2 ^ k + Z.lxor b1 b2.
Proof.
  intros. pose proof (lxor_lt_pow2 b1 b2 k). apply Z.bits_inj'; intros i Hi.
  rewrite Z.lxor_spec, !testbit_join by lia.
  destruct (i <? k); rewrite Z.lxor_spec; reflexivity.
Qed.

Lemma split_join : forall a b, 0 <= b < 2 ^ 32 -> split64 (a * 2 ^ 32 + b) = (a, b).
Proof.
  intros. unfold split64. change (2 ^ 32) with 4294967296 in *. f_equal; lia.
Qed.
Lemma join_split : forall x, join64 (split64 x) = x.
Proof. intros. unfold join64, split64. cbn [fst snd]. change (2 ^ 32) with 4294967296. lia. Qed.
Lemma split64_inv : forall x, 0 <= x < 2 ^ 64 -> Inv64 (split64 x).
Proof.
  intros. unfold Inv64, split64. cbn [fst snd]. change (2 ^ 64) with 18446744073709551616 in *.
  change (2 ^ 32) with 4294967296. lia.
Qed.
Lemma step64_inv : forall r bit, Inv64 (step64 r bit).
Proof. intros. unfold step64. apply split64_inv. apply crc_step_range; [lia|]. unfold poly64. lia. Qed.

Lemma b2z_testbit31 : forall B, 0 <= B < 2 ^ 32 -> (if Z.testbit B 31 then 1 else 0) = B / 2 ^ 31.
Proof.
  intros B HB. pose proof (Z.testbit_spec' B 31 ltac:(lia)) as E.
  change (2 ^ 32) with 4294967296 in *. change (2 ^ 31) with 2147483648 in *.
  destruct (Z.testbit B 31); cbn [Z.b2z] in E; lia.
Qed.

Lemma crc64_body : forall t b byte,
  Inv64 (t, b) ->
  (let topbit := if py_truthZ (Z.land t 2147483648) then 1 else 0 in
   let databit := if py_truthZ (Z.land byte 128) then 1 else 0 in
   let crctop := Z.land (Z.shiftl t 1) 4294967295 in
   let botbit := if py_truthZ (Z.land b 2147483648) then 1 else 0 in
   let crctop := Z.lor crctop botbit in
   let crcbot := Z.land (Z.shiftl b 1) 4294967295 in
   if negb (topbit =? databit)
   then (Z.lxor crctop 1123082731, Z.lxor crcbot 2850698899)
   else (crctop, crcbot)) = step64 (t, b) (Z.testbit byte 7).
Proof.
  intros t b byte [Ht Hb]. cbn [fst snd] in *. cbv zeta.
  change 2147483648 with (2 ^ 31). change 128 with (2 ^ 7). rewrite !land_pow2_truth by lia.
  rewrite b2z_neq_xorb. change 4294967295 with (Z.ones 32). rewrite !Z.land_ones by lia.
  rewrite !Z.shiftl_mul_pow2 by lia. change (2 ^ 1) with 2.
  rewrite (b2z_testbit31 b Hb).
  unfold step64, crc_step, join64. cbn [fst snd]. change (64 - 1) with 63.
  rewrite (testbit_join t b 32 63) by lia. change (63 <? 32) with false. cbv iota. change (63 - 32) with 31.
  rewrite Z.shiftl_mul_pow2 by lia. change (2 ^ 1) with 2.
  set (c := b / 2 ^ 31). set (t1 := (t * 2) mod 2 ^ 32). set (b1 := (b * 2) mod 2 ^ 32).
  assert (Hc: 0 <= c <= 1) by (unfold c; change (2 ^ 32) with 4294967296 in *; change (2 ^ 31) with 2147483648; lia).
  assert (Ht1: 0 <= t1 < 2 ^ 32 /\ t1 mod 2 = 0) by (unfold t1; change (2 ^ 32) with 4294967296 in *; lia).
  assert (Hb1: 0 <= b1 < 2 ^ 32) by (unfold b1; change (2 ^ 32) with 4294967296 in *; lia).
  assert (Hlor: Z.lor t1 c = t1 + c).
  { apply lor_disjoint_add. assert (c = 0 \/ c = 1) as [-> | ->] by lia; [apply Z.land_0_r|].
    change 1 with (Z.ones 1). rewrite Z.land_ones by lia. change (2 ^ 1) with 2. lia. }
  rewrite Hlor.
  assert (Hreg: ((t * 2 ^ 32 + b) * 2) mod 2 ^ 64 = (t1 + c) * 2 ^ 32 + b1).
  { unfold t1, b1, c. change (2 ^ 64) with 18446744073709551616. change (2 ^ 32) with 4294967296 in *.
    change (2 ^ 31) with 2147483648. lia. }
  rewrite Hreg.
  destruct (xorb (Z.testbit t 31) (Z.testbit byte 7)).
  - change poly64 with (1123082731 * 2 ^ 32 + 2850698899).
    rewrite lxor_join by (change (2 ^ 32) with 4294967296 in *; lia).
    rewrite split_join; [reflexivity|]. apply lxor_lt_pow2; change (2 ^ 32) with 4294967296 in *; lia.
  - rewrite split_join by lia. reflexivity.
Qed.

Lemma fold_step64 : forall bits r, Inv64 r ->
  fold_left step64 bits r = split64 (fold_left (crc_step poly64 64) bits (join64 r)).
Proof.
  induction bits as [|bit bits IH]; intros r Hr.
  - cbn [fold_left]. destruct r as [t b]. destruct Hr as [Ht Hb]. cbn [fst snd] in *.
    unfold join64. cbn [fst snd]. rewrite split_join by lia. reflexivity.
  - cbn [fold_left]. rewrite IH by apply step64_inv. unfold step64 at 1. rewrite join_split. reflexivity.
Qed.

Lemma crc64_spec_l : forall fuel data, bytes_ok data = true -> (8 < fuel)%nat ->
  crc64 fuel data = Ok (split64 (crc64_we data)) /\ 0 <= crc64_we data < 2 ^ 64.
Proof.
  intros fuel data Hd Hf.
  assert (Hfold: 0 <= fold_left (crc_step poly64 64) (flat_map byte_bits data) (2 ^ 64 - 1) < 2 ^ 64).
  { apply (fold_inv Z (fun r => 0 <= r < 2 ^ 64) (crc_step poly64 64)).
    - intros. apply crc_step_range; [lia|]. unfold poly64. lia.
    - change (2 ^ 64) with 18446744073709551616. lia. }
  assert (Hrange: 0 <= crc64_we data < 2 ^ 64).
  { unfold crc64_we, crc_spec. apply lxor_lt_pow2; try lia. exact Hfold. }
  split; [|exact Hrange].
  unfold crc64, py_bytearray. rewrite Hd. cbn [bind].
  erewrite (byte_loop (Z * Z) Inv64 step64); [ | intros; apply step64_inv | | ].
  - cbn [bind]. rewrite fold_step64 by (unfold Inv64; cbn [fst snd]; change (2 ^ 32) with 4294967296; lia).
    change (join64 (4294967295, 4294967295)) with (2 ^ 64 - 1).
    set (x := fold_left (crc_step poly64 64) (flat_map byte_bits data) (2 ^ 64 - 1)) in *.
    unfold split64 at 1. cbv beta iota zeta. f_equal.
    unfold crc64_we, crc_spec. fold poly64. fold x.
    change (2 ^ 64 - 1) with (4294967295 * 2 ^ 32 + 4294967295).
    rewrite <- (join_split x) at 3. unfold join64. cbn [fst snd split64].
    rewrite lxor_join; [ | lia | change (2 ^ 32) with 4294967296; lia | change (2 ^ 32) with 4294967296; lia].
    rewrite split_join; [reflexivity|].
    apply lxor_lt_pow2; change (2 ^ 32) with 4294967296; lia.
  - intros [t b] e Hr. cbv beta zeta.
    erewrite (bit_loop8 (Z * Z) Inv64 step64); [reflexivity | | | | exact Hf | exact Hr].
    + intros [t0 b0] by0 i. reflexivity.
    + intros [t0 b0] by0 i Hr0. cbv beta iota.
      pose proof (crc64_body t0 b0 by0 Hr0) as Hbody. cbv zeta in Hbody.
      change 255 with (Z.ones 8). rewrite Z.land_ones by lia. rewrite (Z.shiftl_mul_pow2 by0 1) by lia.
      change (2 ^ 1) with 2. rewrite (Z.mul_comm by0 2).
      rewrite <- Hbody. destruct (negb _); reflexivity.
    + intros. apply step64_inv.
  - unfold Inv64. cbn [fst snd]. change (2 ^ 32) with 4294967296. lia.
Qed.
(* ---- the bit-serial register computes a polynomial remainder ---- *)
Lemma multG_xor : forall G a b, multG G a -> multG G b -> multG G (Z.lxor a b).
Proof.
  intros G a b Ha Hb. induction Hb as [|m k Hk Hm IH].
  - rewrite Z.lxor_0_r. exact Ha.
  - rewrite <- Z.lxor_assoc. apply multG_add; assumption.
Qed.
Lemma multG_shift : forall G m j, 0 <= j -> multG G m -> multG G (Z.shiftl m j).
Proof.
  intros G m j Hj Hm. induction Hm as [|m k Hk Hm IH].
  - rewrite Z.shiftl_0_l. constructor.
  - rewrite Z.shiftl_lxor, Z.shiftl_shiftl by lia. apply multG_add; [lia|exact IH].
Qed.

Lemma step_residue : forall w r b, 0 < w -> 0 <= r < 2 ^ w ->
  Z.lxor ((Z.shiftl r 1) mod 2 ^ w) (Z.lxor (Z.shiftl r 1) (Z.shiftl (Z.b2z b) w)) =
  if xorb (Z.testbit r (w - 1)) b then 2 ^ w else 0.
Proof.
  intros w r b Hw Hr. apply Z.bits_inj'; intros i Hi.
  rewrite !Z.lxor_spec.
  assert (RHS: Z.testbit (if xorb (Z.testbit r (w - 1)) b then 2 ^ w else 0) i =
               (xorb (Z.testbit r (w - 1)) b && (w =? i))).
  { destruct (xorb (Z.testbit r (w - 1)) b); [rewrite Z.pow2_bits_eqb by lia; reflexivity|apply Z.bits_0]. }
  rewrite RHS. clear RHS.
  destruct (Z.ltb_spec i w) as [Hlt|Hge].
  - rewrite Z.mod_pow2_bits_low by lia. rewrite (Z.shiftl_spec_low (Z.b2z b)) by lia.
    replace (w =? i) with false by lia. rewrite andb_false_r. destruct (Z.testbit (Z.shiftl r 1) i); reflexivity.
  - rewrite Z.mod_pow2_bits_high by lia. rewrite !Z.shiftl_spec by lia. rewrite xorb_false_l.
    destruct (Z.eqb_spec w i) as [->|Hne].
    + rewrite Z.sub_diag, Z.b2z_bit0, andb_true_r. reflexivity.
    + rewrite (testbit_small r w (i - 1)) by lia.
      rewrite (testbit_small (Z.b2z b) 1 (i - w)) by (destruct b; cbn; lia). rewrite andb_false_r. reflexivity.
Qed.

Lemma step_cong : forall poly w r b, 0 < w -> 0 <= poly < 2 ^ w -> 0 <= r < 2 ^ w ->
  congG (2 ^ w + poly) (crc_step poly w r b) (Z.lxor (Z.shiftl r 1) (Z.shiftl (Z.b2z b) w)).
Proof.
  intros poly w r b Hw Hp Hr. unfold congG, crc_step.
  pose proof (step_residue w r b Hw Hr) as E.
  destruct (xorb (Z.testbit r (w - 1)) b).
  - rewrite (Z.lxor_comm _ poly), Z.lxor_assoc, E.
    rewrite lxor_pow2_clear by lia.
    rewrite <- (Z.lxor_0_l (poly + 2 ^ w)), <- (Z.shiftl_0_r (poly + 2 ^ w)), (Z.add_comm poly).
    apply multG_add; [lia|constructor].
  - rewrite E. constructor.
Qed.

Lemma lxor_rearrange : forall R A B C D,
  Z.lxor (Z.lxor R (Z.lxor A B)) (Z.lxor A (Z.lxor C D)) = Z.lxor R (Z.lxor C (Z.lxor D B)).
Proof.
  intros. apply Z.bits_inj'; intros i _. rewrite !Z.lxor_spec.
  destruct (Z.testbit R i), (Z.testbit A i), (Z.testbit B i), (Z.testbit C i), (Z.testbit D i); reflexivity.
Qed.

Lemma crc_remainder_l : forall poly w bits r0, 0 < w -> 0 <= poly < 2 ^ w -> 0 <= r0 < 2 ^ w ->
  let R := fold_left (crc_step poly w) bits r0 in
  0 <= R < 2 ^ w /\
  congG (2 ^ w + poly) R
        (Z.lxor (Z.shiftl r0 (Z.of_nat (length bits))) (Z.shiftl (msg_poly bits) w)).
Proof.
  intros poly w bits. induction bits as [|b bits IH]; intros r0 Hw Hp Hr; cbv zeta.
  - cbn [fold_left length msg_poly]. split; [exact Hr|]. unfold congG.
    change (Z.of_nat 0) with 0. rewrite Z.shiftl_0_r, Z.shiftl_0_l, Z.lxor_0_r, Z.lxor_nilpotent. constructor.
  - cbn [fold_left].
    assert (Hr1: 0 <= crc_step poly w r0 b < 2 ^ w) by (apply crc_step_range; lia).
    destruct (IH (crc_step poly w r0 b) Hw Hp Hr1) as [HR HC]. split; [exact HR|].
    set (R := fold_left (crc_step poly w) bits (crc_step poly w r0 b)) in *.
    set (r1 := crc_step poly w r0 b) in *. set (n := Z.of_nat (length bits)) in *.
    pose proof (step_cong poly w r0 b Hw Hp Hr) as HS. fold r1 in HS. unfold congG in *.
    pose proof (multG_shift _ _ n ltac:(lia) HS) as HS'.
    pose proof (multG_xor _ _ _ HC HS') as HX.
    rewrite !Z.shiftl_lxor, !Z.shiftl_shiftl in HX by lia.
    rewrite lxor_rearrange in HX.
    cbn [length msg_poly]. fold n. rewrite Z.shiftl_lxor, Z.shiftl_shiftl by lia.
    replace (Z.of_nat (S (length bits))) with (1 + n) by lia.
    replace (n + w) with (w + n) by lia. exact HX.
Qed.
Lemma crc_spec_remainder_l : forall poly w init xorout data, 0 < w -> 0 <= poly < 2 ^ w -> 0 <= init < 2 ^ w ->
  let bits := flat_map byte_bits data in
  exists R, crc_spec poly w init xorout data = Z.lxor R xorout /\ 0 <= R < 2 ^ w /\
    congG (2 ^ w + poly) R (Z.lxor (Z.shiftl init (Z.of_nat (length bits))) (Z.shiftl (msg_poly bits) w)).
Proof.
  intros poly w init xorout data Hw Hp Hi bits.
  exists (fold_left (crc_step poly w) bits init). split; [reflexivity|].
  exact (crc_remainder_l poly w bits init Hw Hp Hi).
Qed.

(* ---- uniqueness of the residue: the quotient ring GF(2)[x]/(G) realised by the register ---- *)
Ltac xbits :=
  apply Z.bits_inj'; let i := fresh "i" in intros i _; rewrite ?Z.lxor_spec;
  repeat (match goal with |- context [Z.testbit ?x i] => destruct (Z.testbit x i) end); reflexivity.

Lemma mod_lxor_pow2 : forall a b k, 0 <= k -> (Z.lxor a b) mod 2 ^ k = Z.lxor (a mod 2 ^ k) (b mod 2 ^ k).
Proof.
  intros a b k Hk. apply Z.bits_inj'; intros i Hi. rewrite Z.lxor_spec.
  destruct (Z.ltb_spec i k).
  - rewrite !Z.mod_pow2_bits_low by lia. apply Z.lxor_spec.
  - rewrite !Z.mod_pow2_bits_high by lia. reflexivity.
Qed.
Lemma lxor_bit_add : forall r c, 0 <= c <= 1 -> Z.lxor (2 * r) c = 2 * r + c.
Proof.
  intros r c Hc. symmetry. apply Z.add_nocarry_lxor.
  assert (c = 0 \/ c = 1) as [-> | ->] by lia; [apply Z.land_0_r|].
  change 1 with (Z.ones 1). rewrite Z.land_ones by lia. change (2 ^ 1) with 2. lia.
Qed.

Section Quot.
Variables poly w : Z.
Hypothesis Hw : 0 < w.
Hypothesis Hp : 0 <= poly < 2 ^ w.
Let T (r : Z) : Z := crc_step poly w r false.
Let n0 : nat := Z.to_nat w.

Lemma T_range : forall r, 0 <= T r < 2 ^ w.
Proof. intros. apply crc_step_range; lia. Qed.
Lemma T_0 : T 0 = 0.
Proof. unfold T, crc_step. rewrite Z.testbit_0_l, Z.shiftl_0_l, Z.mod_0_l; [reflexivity|]. pose proof (pow2_pos w). lia. Qed.
Lemma T_linear : forall a b, T (Z.lxor a b) = Z.lxor (T a) (T b).
Proof.
  intros a b. unfold T, crc_step. rewrite Z.lxor_spec, !xorb_false_r, Z.shiftl_lxor, mod_lxor_pow2 by lia.
  set (A := Z.shiftl a 1 mod 2 ^ w). set (B := Z.shiftl b 1 mod 2 ^ w).
  destruct (Z.testbit a (w - 1)), (Z.testbit b (w - 1)); cbn [xorb]; xbits.
Qed.
Lemma T_small : forall r, 0 <= r < 2 ^ (w - 1) -> T r = 2 * r.
Proof.
  intros r Hr. unfold T, crc_step. rewrite (testbit_small r (w - 1) (w - 1)) by lia. cbn [xorb].
  rewrite Z.shiftl_mul_pow2 by lia. change (2 ^ 1) with 2.
  assert (2 ^ w = 2 * 2 ^ (w - 1)) by (rewrite <- Z.pow_succ_r by lia; f_equal; lia).
  rewrite Z.mod_small by lia. lia.
Qed.

(* Horner evaluation of the polynomial m (its low n coefficients) in the quotient ring *)
Fixpoint horner (n : nat) (m : Z) : Z :=
  match n with O => 0 | S n' => Z.lxor (T (horner n' (Z.div2 m))) (Z.b2z (Z.odd m)) end.

Lemma horner_range : forall n m, 0 <= horner n m < 2 ^ w.
Proof.
  induction n; intros m; cbn [horner]. { pose proof (pow2_pos w). lia. }
  apply lxor_lt_pow2; [lia|apply T_range|].
  assert (2 ^ 1 <= 2 ^ w) by (apply Z.pow_le_mono_r; lia). destruct (Z.odd m); cbn; lia.
Qed.
Lemma horner_lxor : forall n a b, horner n (Z.lxor a b) = Z.lxor (horner n a) (horner n b).
Proof.
  induction n; intros a b; cbn [horner]; [reflexivity|].
  rewrite !Z.div2_spec, Z.shiftr_lxor, <- !Z.div2_spec, IHn, T_linear.
  rewrite <- !Z.bit0_odd, Z.lxor_spec.
  assert (E: forall x y : bool, Z.b2z (xorb x y) = Z.lxor (Z.b2z x) (Z.b2z y)) by (destruct x, y; reflexivity).
  rewrite E. xbits.
Qed.
Lemma horner_double : forall n m, horner (S n) (2 * m) = T (horner n m).
Proof.
  intros. cbn [horner]. rewrite Z.div2_div, Z.mul_comm, Z.div_mul by lia.
  rewrite Z.odd_mul. cbn [Z.odd andb Z.b2z]. rewrite andb_false_r. apply Z.lxor_0_r.
Qed.
Lemma horner_small : forall n m, Z.of_nat n <= w -> horner n m = m mod 2 ^ Z.of_nat n.
Proof.
  induction n; intros m Hn. { cbn. rewrite Z.mod_1_r. reflexivity. }
  cbn [horner]. rewrite IHn by lia. rewrite Z.div2_div.
  assert (Hr: 0 <= (m / 2) mod 2 ^ Z.of_nat n < 2 ^ Z.of_nat n) by (apply Z.mod_pos_bound, pow2_pos; lia).
  assert (2 ^ Z.of_nat n <= 2 ^ (w - 1)) by (apply Z.pow_le_mono_r; lia).
  rewrite T_small by lia. rewrite lxor_bit_add by (destruct (Z.odd m); cbn; lia).
  rewrite <- Z.bit0_odd, Z.bit0_mod.
  replace (Z.of_nat (S n)) with (1 + Z.of_nat n) by lia. rewrite Z.pow_add_r by lia. change (2 ^ 1) with 2.
  rewrite Z.rem_mul_r by (try lia; apply pow2_pos; lia). lia.
Qed.
Lemma horner_lead : forall n m, 0 <= m < 2 ^ Z.of_nat n -> horner (S n) m = horner n m.
Proof.
  induction n; intros m Hm.
  - change (2 ^ Z.of_nat 0) with 1 in Hm. assert (m = 0) by lia. subst. cbn. rewrite Z.lxor_0_r. apply T_0.
  - cbn [horner]. f_equal. f_equal. fold (horner (S n) (Z.div2 m)). apply IHn.
    rewrite Z.div2_div. replace (Z.of_nat (S n)) with (1 + Z.of_nat n) in Hm by lia.
    rewrite Z.pow_add_r in Hm by lia. change (2 ^ 1) with 2 in Hm. lia.
Qed.
Lemma horner_lead_ge : forall d n m, 0 <= m < 2 ^ Z.of_nat n -> horner (d + n) m = horner n m.
Proof.
  induction d; intros n m Hm; [reflexivity|]. cbn [plus]. rewrite horner_lead; [apply IHd; assumption|].
  assert (2 ^ Z.of_nat n <= 2 ^ Z.of_nat (d + n)) by (apply Z.pow_le_mono_r; lia). lia.
Qed.
Lemma horner_0 : forall n, horner n 0 = 0.
Proof. intros. rewrite <- (Nat.add_0_r n). rewrite horner_lead_ge; [reflexivity|]. cbn. lia. Qed.

Lemma horner_G : horner (S n0) (2 ^ w + poly) = 0.
Proof.
  assert (Hn0: Z.of_nat n0 = w) by (unfold n0; lia).
  rewrite Z.add_comm, <- lxor_pow2_clear by lia. rewrite horner_lxor.
  rewrite horner_lead by (rewrite Hn0; lia). rewrite horner_small by lia. rewrite Hn0, Z.mod_small by lia.
  replace (2 ^ w) with (2 * 2 ^ (w - 1)) by (rewrite <- Z.pow_succ_r by lia; f_equal; lia).
  rewrite horner_double, horner_small by lia. rewrite Hn0.
  assert (Hlt: 0 <= 2 ^ (w - 1) < 2 ^ w).
  { split; [apply Z.pow_nonneg; lia|]. apply Z.pow_lt_mono_r; lia. }
  rewrite Z.mod_small by exact Hlt.
  assert (HT: T (2 ^ (w - 1)) = poly).
  { unfold T, crc_step. rewrite Z.pow2_bits_true by lia. cbn [xorb].
    rewrite Z.shiftl_mul_pow2 by lia. change (2 ^ 1) with 2.
    replace (2 ^ (w - 1) * 2) with (2 ^ w) by (rewrite Z.mul_comm, <- Z.pow_succ_r by lia; f_equal; lia).
    rewrite Z.mod_same by (pose proof (pow2_pos w); lia). apply Z.lxor_0_l. }
  rewrite HT. apply Z.lxor_nilpotent.
Qed.
Lemma horner_Gshift : forall k : nat, horner (k + S n0) (Z.shiftl (2 ^ w + poly) (Z.of_nat k)) = 0.
Proof.
  induction k.
  - cbn [plus Z.of_nat]. rewrite Z.shiftl_0_r. apply horner_G.
  - replace (Z.shiftl (2 ^ w + poly) (Z.of_nat (S k))) with (2 * Z.shiftl (2 ^ w + poly) (Z.of_nat k)).
    + cbn [plus]. rewrite horner_double, IHk. apply T_0.
    + rewrite !Z.shiftl_mul_pow2 by lia. replace (Z.of_nat (S k)) with (Z.succ (Z.of_nat k)) by lia.
      rewrite Z.pow_succ_r by lia. ring.
Qed.

Lemma mult_horner : forall m, multG (2 ^ w + poly) m ->
  exists N0 : nat, forall N : nat, (N0 <= N)%nat -> horner N m = 0.
Proof.
  intros m Hm. induction Hm as [|m k Hk Hm [N0 IH]].
  - exists 0%nat. intros. apply horner_0.
  - exists (Nat.max N0 (Z.to_nat k + S n0)). intros N HN. rewrite horner_lxor, IH by lia.
    rewrite Z.lxor_0_l. replace N with ((N - (Z.to_nat k + S n0)) + (Z.to_nat k + S n0))%nat by lia.
    rewrite horner_lead_ge.
    + rewrite <- (Z2Nat.id k) at 2 by lia. apply horner_Gshift.
    + assert (Hn0: Z.of_nat n0 = w) by (unfold n0; lia).
      rewrite Z.shiftl_mul_pow2 by lia.
      replace (Z.of_nat (Z.to_nat k + S n0)) with ((w + 1) + k) by lia.
      rewrite Z.pow_add_r, Z.pow_add_r by lia. change (2 ^ 1) with 2.
      pose proof (pow2_pos k Hk). pose proof (pow2_pos w). nia.
Qed.

Lemma residue_zero : forall m, multG (2 ^ w + poly) m -> 0 <= m < 2 ^ w -> m = 0.
Proof.
  intros m Hm Hr. destruct (mult_horner m Hm) as [N0 HN].
  assert (Hn0: Z.of_nat n0 = w) by (unfold n0; lia).
  specialize (HN (N0 + n0)%nat ltac:(lia)).
  rewrite horner_lead_ge in HN by (rewrite Hn0; exact Hr).
  rewrite horner_small, Hn0, Z.mod_small in HN by lia. exact HN.
Qed.

Lemma residue_unique_l : forall a b x, 0 <= a < 2 ^ w -> 0 <= b < 2 ^ w ->
  congG (2 ^ w + poly) a x -> congG (2 ^ w + poly) b x -> a = b.
Proof.
  intros a b x Ha Hb Ca Cb. unfold congG in *.
  pose proof (multG_xor _ _ _ Ca Cb) as H.
  replace (Z.lxor (Z.lxor a x) (Z.lxor b x)) with (Z.lxor a b) in H by xbits.
  apply Z.lxor_eq. apply residue_zero; [exact H|]. apply lxor_lt_pow2; lia.
Qed.
End Quot.

(* ---- the table-driven algorithm equals the bit-serial specification ---- *)
Lemma testbit_b2z : forall b k, Z.testbit (Z.b2z b) k = b && (k =? 0).
Proof.
  intros b k. destruct (Z.ltb_spec k 0); [rewrite Z.testbit_neg_r by lia; destruct b; cbn; lia|].
  destruct (Z.eqb_spec k 0) as [->|]; [rewrite Z.b2z_bit0, andb_true_r; reflexivity|].
  rewrite (testbit_small (Z.b2z b) 1 k) by (destruct b; cbn; lia). rewrite andb_false_r. reflexivity.
Qed.
Lemma msg_poly_byte : forall e, 0 <= e < 256 -> msg_poly (byte_bits e) = e.
Proof.
  intros e He. unfold byte_bits. cbn [seq map msg_poly length Z.of_nat Pos.of_succ_nat Pos.succ].
  apply Z.bits_inj'; intros i Hi. rewrite !Z.lxor_spec, !Z.shiftl_spec, !testbit_b2z, Z.bits_0 by lia.
  assert (i = 0 \/ i = 1 \/ i = 2 \/ i = 3 \/ i = 4 \/ i = 5 \/ i = 6 \/ i = 7 \/ 8 <= i) as H by lia.
  repeat (destruct H as [-> | H]; [cbn; rewrite ?andb_true_r, ?andb_false_r, ?xorb_false_r, ?xorb_false_l; reflexivity|]).
  rewrite (testbit_small e 8 i) by (change (2 ^ 8) with 256; lia).
  repeat match goal with |- context [?a - ?b =? 0] => replace (a - b =? 0) with false by lia end.
  rewrite !andb_false_r. reflexivity.
Qed.
Lemma msg_poly_range : forall bs, 0 <= msg_poly bs < 2 ^ Z.of_nat (length bs).
Proof.
  induction bs as [|b bs IH]; [cbn; lia|]. cbn [msg_poly length].
  replace (Z.of_nat (S (length bs))) with (1 + Z.of_nat (length bs)) by lia. rewrite Z.pow_add_r by lia.
  change (2 ^ 1) with 2. pose proof (pow2_pos (Z.of_nat (length bs))).
  replace (2 * 2 ^ Z.of_nat (length bs)) with (2 ^ (1 + Z.of_nat (length bs))) by (rewrite Z.pow_add_r by lia; reflexivity).
  apply lxor_lt_pow2; [lia| |rewrite Z.pow_add_r by lia; change (2 ^ 1) with 2; lia].
  rewrite Z.shiftl_mul_pow2, Z.pow_add_r by lia. change (2 ^ 1) with 2. destruct b; cbn [Z.b2z]; lia.
Qed.

Section Table.
Variables poly w : Z.
Hypothesis Hw : 8 <= w.
Hypothesis Hp : 0 <= poly < 2 ^ w.
Let T (r : Z) : Z := crc_step poly w r false.
Let Tk (k : nat) (r : Z) : Z := Nat.iter k T r.

Lemma step_as_T : forall r bit, crc_step poly w r bit = T (Z.lxor r (Z.shiftl (Z.b2z bit) (w - 1))).
Proof.
  intros r bit. unfold T, crc_step.
  rewrite Z.lxor_spec, Z.shiftl_spec, Z.sub_diag, Z.b2z_bit0, xorb_false_r by lia.
  rewrite Z.shiftl_lxor, mod_lxor_pow2, Z.shiftl_shiftl by lia.
  replace (w - 1 + 1) with w by lia.
  replace (Z.shiftl (Z.b2z bit) w mod 2 ^ w) with 0.
  - rewrite Z.lxor_0_r. reflexivity.
  - rewrite Z.shiftl_mul_pow2 by lia. rewrite Z.mod_mul; [reflexivity|]. pose proof (pow2_pos w). lia.
Qed.
Lemma Tk_S : forall k r, Tk (S k) r = Tk k (T r).
Proof. intros. unfold Tk. symmetry. apply iter_r. Qed.
Lemma Tk_linear : forall k a b, Tk k (Z.lxor a b) = Z.lxor (Tk k a) (Tk k b).
Proof.
  induction k; intros a b; [reflexivity|]. rewrite !Tk_S. unfold T at 1. fold (T (Z.lxor a b)).
  unfold T. rewrite (T_linear poly w ltac:(lia)). apply IHk.
Qed.
Lemma Tk_small : forall k x, 0 <= x < 2 ^ (w - Z.of_nat k) -> Z.of_nat k <= w -> Tk k x = x * 2 ^ Z.of_nat k.
Proof.
  induction k; intros x Hx Hk. { cbn. lia. }
  rewrite Tk_S. unfold T. rewrite (T_small poly w ltac:(lia)).
  - rewrite IHk.
    + replace (Z.of_nat (S k)) with (1 + Z.of_nat k) by lia. rewrite Z.pow_add_r by lia. change (2 ^ 1) with 2. lia.
    + replace (w - Z.of_nat k) with (1 + (w - Z.of_nat (S k))) by lia. rewrite Z.pow_add_r by lia. change (2 ^ 1) with 2. lia.
    + lia.
  - assert (2 ^ (w - Z.of_nat (S k)) <= 2 ^ (w - 1)) by (apply Z.pow_le_mono_r; lia). lia.
Qed.

(* feeding k message bits = preloading them at the top of the register, then k zero steps *)
Lemma bits_preload : forall bs r, Z.of_nat (length bs) <= w ->
  fold_left (crc_step poly w) bs r =
  Tk (length bs) (Z.lxor r (Z.shiftl (msg_poly bs) (w - Z.of_nat (length bs)))).
Proof.
  induction bs as [|b bs IH]; intros r Hl.
  - cbn [fold_left length msg_poly Tk Nat.iter]. unfold Tk. cbn [Nat.iter]. rewrite Z.shiftl_0_l, Z.lxor_0_r. reflexivity.
  - cbn [fold_left length msg_poly] in *. rewrite IH by lia. rewrite Tk_S. f_equal.
    set (k := Z.of_nat (length bs)) in *. replace (Z.of_nat (S (length bs))) with (k + 1) in * by lia.
    rewrite step_as_T. rewrite Z.shiftl_lxor, Z.shiftl_shiftl by lia. replace (k + (w - (k + 1))) with (w - 1) by lia.
    pose proof (msg_poly_range bs) as Hm. fold k in Hm.
    rewrite <- Z.lxor_assoc. unfold T at 2. rewrite (T_linear poly w ltac:(lia)). fold (T (Z.lxor r (Z.shiftl (Z.b2z b) (w - 1)))).
    f_equal. unfold T. rewrite (T_small poly w ltac:(lia)).
    + rewrite !Z.shiftl_mul_pow2 by lia. replace (w - k) with (1 + (w - (k + 1))) by lia.
      rewrite Z.pow_add_r by lia. change (2 ^ 1) with 2. lia.
    + rewrite Z.shiftl_mul_pow2 by lia. split; [pose proof (pow2_pos (w - (k + 1))); nia|].
      replace (w - 1) with (k + (w - (k + 1))) by lia. rewrite Z.pow_add_r by lia.
      pose proof (pow2_pos (w - (k + 1))). nia.
Qed.

Lemma byte_step_table : forall r e, 0 <= r < 2 ^ w -> 0 <= e < 256 ->
  fold_left (crc_step poly w) (byte_bits e) r = crc_byte_table poly w r e.
Proof.
  intros r e Hr He. rewrite bits_preload by (cbn; lia).
  replace (length (byte_bits e)) with 8%nat by reflexivity. rewrite msg_poly_byte by assumption.
  change (Z.of_nat 8) with 8.
  set (P := 2 ^ (w - 8)). assert (HP: 0 < P) by (apply pow2_pos; lia).
  assert (Hw2: 2 ^ w = P * 256) by (unfold P; change 256 with (2 ^ 8); rewrite <- Z.pow_add_r by lia; f_equal; lia).
  set (H := Z.shiftr r (w - 8)). set (L := r mod P).
  assert (HH: H = r / P) by (unfold H, P; apply Z.shiftr_div_pow2; lia).
  assert (HL: 0 <= L < P) by (apply Z.mod_pos_bound; lia).
  assert (Hdec: r = Z.lxor (Z.shiftl H (w - 8)) L).
  { assert (Hdis: Z.land (Z.shiftl H (w - 8)) L = 0).
    { apply Z.bits_inj'; intros j Hj. rewrite Z.land_spec, Z.bits_0.
      destruct (Z.ltb_spec j (w - 8)); [rewrite Z.shiftl_spec_low by lia; reflexivity|].
      rewrite (testbit_small L (w - 8) j) by (fold P; lia). apply andb_false_r. }
    rewrite Z.lxor_lor, lor_disjoint_add by exact Hdis.
    rewrite Z.shiftl_mul_pow2 by lia. fold P. rewrite HH. unfold L. pose proof (Z.div_mod r P). lia. }
  assert (E1: Z.lxor r (Z.shiftl e (w - 8)) = Z.lxor (Z.shiftl (Z.lxor H e) (w - 8)) L).
  { rewrite Z.shiftl_lxor. set (X := Z.shiftl H (w - 8)) in *. clearbody X. rewrite Hdec. xbits. }
  rewrite E1.
  rewrite Tk_linear. unfold crc_byte_table, crc_table. fold T. fold (Tk 8 (Z.shiftl (Z.lxor H e) (w - 8))).
  rewrite Z.lxor_comm. f_equal.
  rewrite Tk_small by (change (Z.of_nat 8) with 8; fold P; lia). change (2 ^ Z.of_nat 8) with 256.
  rewrite Z.shiftl_mul_pow2 by lia. change (2 ^ 8) with 256. rewrite Hw2.
  pose proof (Z.div_mod r P). unfold L. rewrite HH in *. clear Hdec. 
  assert (E: r * 256 = (r / P) * (P * 256) + (r mod P) * 256) by nia.
  rewrite E. rewrite Z.add_comm, Z.mod_add by lia. symmetry. apply Z.mod_small. fold L. nia.
Qed.

Lemma table_driven_equiv_l : forall init xorout data, 0 <= init < 2 ^ w -> bytes_ok data = true ->
  crc_table_driven poly w init xorout data = crc_spec poly w init xorout data.
Proof.
  intros init xorout data Hi Hd. unfold crc_table_driven, crc_spec. f_equal.
  revert init Hi. induction data as [|e data IH]; intros init Hi; [reflexivity|].
  cbn in Hd. apply andb_prop in Hd. destruct Hd as [He Hd]. unfold is_byte in He.
  cbn [fold_left flat_map]. rewrite fold_left_app. rewrite <- byte_step_table by lia.
  apply IH; [assumption|].
  apply (fold_inv Z (fun r => 0 <= r < 2 ^ w) (crc_step poly w)); [|exact Hi].
  intros. apply crc_step_range; lia.
Qed.
End Table.

(* crc_spec IS the remainder: any residue of degree < w congruent to init*x^n + M*x^w is the register *)
Lemma crc_spec_characterised_l : forall poly w init xorout data R', 0 < w -> 0 <= poly < 2 ^ w -> 0 <= init < 2 ^ w ->
  let bits := flat_map byte_bits data in
  0 <= R' < 2 ^ w ->
  congG (2 ^ w + poly) R' (Z.lxor (Z.shiftl init (Z.of_nat (length bits))) (Z.shiftl (msg_poly bits) w)) ->
  crc_spec poly w init xorout data = Z.lxor R' xorout.
Proof.
  intros poly w init xorout data R' Hw Hp Hi bits HR HC.
  destruct (crc_spec_remainder_l poly w init xorout data Hw Hp Hi) as [R [-> [HRr HRc]]].
  f_equal. exact (residue_unique_l poly w Hw Hp R R' _ HRr HR HRc HC).
Qed.
Lemma tables_l : forall data, bytes_ok data = true ->
  crc16_genibus data = crc_table_driven 4129 16 65535 65535 data /\
  crc64_we data = crc_table_driven 4823603603198064275 64 (2 ^ 64 - 1) (2 ^ 64 - 1) data.
Proof.
  intros data Hd. split; symmetry; apply table_driven_equiv_l; try assumption; try lia.
Qed.
