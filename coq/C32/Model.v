(* C32 -- malformed HTTP input only affects its own connection.
   The parser model with its failure sites ([err]) is V.Lib.C29_Http.  Here: the class of the
   exception raised at each failure site of the (fixed) code, the catch sets of
   Parsent.parseMessage / Valet.serviceReqs / Patron.serviceResponse, the outcome of a parse
   as the service loop sees it, and a server with several connections.  Definitions only. *)
From Coq Require Import List ZArith Bool.
Import ListNotations.
Require Export V.Lib.C29_Http.
Require V.Lib.C29_HttpObs.   (* observation functions of the correspondence runs: keep in the build closure *)
Open Scope Z_scope.

(* root class (for `except`) of what each failure site raises *)
Inductive pyclass := PyHTTPException | PyValueError | PyTypeError | PyRuntimeError.

Definition pyclass_eqb (a b : pyclass) : bool :=
  match a, b with
  | PyHTTPException, PyHTTPException | PyValueError, PyValueError
  | PyTypeError, PyTypeError | PyRuntimeError, PyRuntimeError => true
  | _, _ => false
  end.

Definition raised (e : err) : pyclass :=
  match e with
  | ELineTooLong => PyHTTPException      (* httping.LineTooLong(HTTPException)                  *)
  | EBadStartLine => PyHTTPException     (* BadRequestLine / BadStatusLine(HTTPException)       *)
  | EUnknownProtocol => PyHTTPException  (* UnknownProtocol(HTTPException)                      *)
  | EBadMethod => PyHTTPException        (* BadMethod(HTTPException)                            *)
  | EInvalidURL => PyHTTPException       (* InvalidURL(HTTPException)   [was ValueError]        *)
  | EBadHeader => PyHTTPException        (* HTTPException               [was ValueError]        *)
  | ETooManyHeaders => PyHTTPException   (* HTTPException                                       *)
  | EBadChunkSize => PyHTTPException     (* HTTPException               [was ValueError]        *)
  | EBadChunkEnd => PyHTTPException      (* HTTPException               [was ValueError]        *)
  | ENoLength => PyHTTPException         (* HTTPException                                       *)
  | EPremature => PyHTTPException        (* PrematureClosure(HTTPException)                     *)
  end.

(* `except` clauses (checked against the source AST by props/C32/check.py on every run) *)
Definition parse_message_catch : list pyclass := [PyHTTPException].   (* Parsent.parseMessage   *)
Definition valet_catch : list pyclass := [PyHTTPException].           (* Valet.serviceReqs      *)
Definition patron_catch : list pyclass := [PyHTTPException].          (* Patron.serviceResponse *)

Definition caught (catch : list pyclass) (c : pyclass) : bool := existsb (pyclass_eqb c) catch.

(* what the service loop sees after a parse() call *)
Inductive outcome :=
| OMessage        (* request / response complete: .ended, not .errored                       *)
| ONeedMore       (* parser waits for more bytes                                              *)
| OFailed         (* failure recorded (.errored/.error) -> Valet closes THAT connection,
                     Patron appends an errored response                                       *)
| OEscapes.       (* exception propagates out of serviceAll                                   *)

Definition outcome_of (outer_catch : list pyclass) (k : pst * bytes) : outcome :=
  match p_stage (fst k) with
  | SDone => OMessage
  | SFail e => if caught parse_message_catch (raised e) || caught outer_catch (raised e)
               then OFailed else OEscapes
  | _ => ONeedMore
  end.

(* ---- a server with several connections (up to the first outcome of each) ---- *)
Record conn := { c_k : pst * bytes; c_alive : bool }.
Definition fresh : conn := {| c_k := (init_pst false false, []); c_alive := true |}.

Definition conn_deliver (cf : cfg) (c : conn) (piece : bytes) : conn :=
  if c_alive c then
    let k' := http_feed cf (c_k c) piece in
    {| c_k := k';
       c_alive := match outcome_of valet_catch k' with OFailed => false | _ => true end |}
  else c.                                         (* closed: bytes never reach a parser *)

Fixpoint deliver (cf : cfg) (i : nat) (piece : bytes) (srv : list conn) : list conn :=
  match srv, i with
  | [], _ => []
  | c :: t, O => conn_deliver cf c piece :: t
  | c :: t, S i' => c :: deliver cf i' piece t
  end.

Definition run_sched (cf : cfg) (sched : list (nat * bytes)) (srv : list conn) : list conn :=
  fold_left (fun s ip => deliver cf (fst ip) (snd ip) s) sched srv.

Definition pieces_for (j : nat) (sched : list (nat * bytes)) : list bytes :=
  map snd (filter (fun ip => Nat.eqb (fst ip) j) sched).

(* ------------------------------------------------------------------ *)
(* keep-alive: a server connection over ALL its requests               *)
(* ------------------------------------------------------------------ *)
(* Valet: when a request is complete it is answered and, if .persisted, serviceReps calls
   makeParser() so that the bytes behind it are parsed as the next request; otherwise the
   connection is closed after the response.  State = (parser state, requests answered). *)
Definition is_done (s : pst) : bool := match p_stage s with SDone => true | _ => false end.

Definition ka_step (cf : cfg) (st : pst * nat) (b : bytes) : sres (pst * nat) :=
  match http_step cf false (fst st) b with
  | Adv s' r => if is_done s' && req_persisted s'
                then Adv (init_pst false false, S (snd st)) r      (* answered, parser re-made *)
                else Adv (s', snd st) r
  | Wait => Wait
  | Halt => Halt
  end.

Definition ka_rank (s : pst) : nat :=
  match p_stage s with SDone | SFail _ => 0 | SStart _ => 1 | _ => 2 end%nat.
Definition ka_mu (st : pst * nat) (b : bytes) : nat := (3 * length b + ka_rank (fst st))%nat.

Definition ka_feed (cf : cfg) := feed (pst * nat) (ka_step cf) ka_mu.
Definition ka_feed_all (cf : cfg) := feed_all (pst * nat) (ka_step cf) ka_mu.
Definition ka_init : (pst * nat) * bytes := ((init_pst false false, O), []).

(* what the peer sees: number of responses, and whether the server closed the connection *)
Definition ka_responses (k : (pst * nat) * bytes) : nat :=
  (snd (fst k) + if is_done (fst (fst k)) then 1 else 0)%nat.
Definition ka_closed (k : (pst * nat) * bytes) : bool := terminal (p_stage (fst (fst k))).
Definition ka_outcome (k : (pst * nat) * bytes) : outcome := outcome_of valet_catch (fst (fst k), snd k).

(* ------------------------------------------------------------------ *)
(* generic multi-connection server: per-connection state C, events E    *)
(* ------------------------------------------------------------------ *)
Section Server.
  Variables C E : Type.
  Variable f : C -> E -> C.
  Fixpoint gdeliver (i : nat) (e : E) (srv : list C) : list C :=
    match srv, i with
    | [], _ => []
    | c :: t, O => f c e :: t
    | c :: t, S i' => c :: gdeliver i' e t
    end.
  Definition grun (sched : list (nat * E)) (srv : list C) : list C :=
    fold_left (fun s ie => gdeliver (fst ie) (snd ie) s) sched srv.
  Definition events_for (j : nat) (sched : list (nat * E)) : list E :=
    map snd (filter (fun ie => Nat.eqb (fst ie) j) sched).
End Server.

(* keep-alive connections: event = received piece *)
Definition ka_conn := ((pst * nat) * bytes)%type.
Definition ka_deliver (cf : cfg) (c : ka_conn) (piece : bytes) : ka_conn := ka_feed cf c piece.

(* https: a connection first has to complete the TLS handshake (ServerTls.serviceCxes); the
   handshake attempt's result comes from the ssl library: an oracle *)
Inductive hs_result := HsWant | HsDone | HsFail.
Inductive tls_event := TlsHandshake (r : hs_result) | TlsBytes (piece : bytes).
Inductive tls_phase := Handshaking | Established | Dropped.
Definition tls_conn := (tls_phase * ka_conn)%type.
Definition tls_deliver (cf : cfg) (c : tls_conn) (e : tls_event) : tls_conn :=
  match fst c, e with
  | Handshaking, TlsHandshake HsDone => (Established, snd c)
  | Handshaking, TlsHandshake HsFail => (Dropped, snd c)       (* removed from .cxes, socket shut *)
  | Established, TlsBytes p => (Established, ka_deliver cf (snd c) p)
  | _, _ => c
  end.
