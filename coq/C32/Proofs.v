From Coq Require Import List ZArith Bool Lia.
Import ListNotations.
Require Import V.Lib.C29_Http V.Lib.C29_HttpProofs V.Lib.C29_HttpMachine V.C32.Model.
Open Scope Z_scope.

Lemma raised_http : forall e, raised e = PyHTTPException.
Proof. destruct e; reflexivity. Qed.

Lemma outcome_never_escapes outer : forall k, outcome_of outer k <> OEscapes.
Proof.
  intros k. unfold outcome_of. destruct (p_stage (fst k)); try discriminate.
  rewrite raised_http. cbn. discriminate.
Qed.

Lemma outcome_cases outer : forall k,
  outcome_of outer k = OMessage \/ outcome_of outer k = ONeedMore \/ outcome_of outer k = OFailed.
Proof.
  intros k. pose proof (outcome_never_escapes outer k).
  destruct (outcome_of outer k); auto. congruence.
Qed.

(* failure is recorded exactly when the parser stopped in a failure stage, a message exactly
   when it stopped in SDone *)
Lemma outcome_failed_iff outer k : outcome_of outer k = OFailed <-> exists e, p_stage (fst k) = SFail e.
Proof.
  unfold outcome_of. split.
  - destruct (p_stage (fst k)); try discriminate. eauto.
  - intros [e ->]. rewrite raised_http. reflexivity.
Qed.

(* ---- frame and projection ---- *)
Lemma deliver_other cf : forall srv i j p, i <> j -> nth_error (deliver cf i p srv) j = nth_error srv j.
Proof.
  induction srv as [|c t IH]; intros i j p Hij; [destruct i; reflexivity|].
  destruct i, j; cbn; try reflexivity; try congruence.
  apply IH. congruence.
Qed.

Lemma deliver_same cf : forall srv i p c, nth_error srv i = Some c ->
  nth_error (deliver cf i p srv) i = Some (conn_deliver cf c p).
Proof.
  induction srv as [|c0 t IH]; intros i p c H; [destruct i; discriminate|].
  destruct i; cbn in *.
  - inversion H; reflexivity.
  - apply IH. exact H.
Qed.

Lemma deliver_length cf : forall srv i p, length (deliver cf i p srv) = length srv.
Proof. induction srv as [|c t IH]; intros [|i] p; cbn; auto. Qed.

Lemma run_sched_projection cf : forall sched srv j c, nth_error srv j = Some c ->
  nth_error (run_sched cf sched srv) j = Some (fold_left (conn_deliver cf) (pieces_for j sched) c).
Proof.
  induction sched as [|[i p] t IH]; intros srv j c H; [exact H|].
  unfold run_sched in *. cbn [fold_left fst snd].
  unfold pieces_for. cbn [filter fst]. destruct (Nat.eqb i j) eqn:E.
  - apply Nat.eqb_eq in E. subst i. cbn [map snd fold_left].
    apply IH. apply deliver_same. exact H.
  - apply Nat.eqb_neq in E. apply IH. rewrite deliver_other by exact E. exact H.
Qed.

(* a connection's parser state is a function of ITS OWN bytes only, however they were cut
   into receives and interleaved with the traffic (well or ill formed) of the others *)
Lemma feed_terminal cf s b p : terminal (p_stage s) = true -> http_feed cf (s, b) p = (s, b ++ p).
Proof.
  intros T. unfold http_feed, feed. cbn [fst snd run].
  rewrite (http_terminal_halts cf false s T). reflexivity.
Qed.

Definition conn_inv (c : conn) : Prop :=
  c_alive c = false -> terminal (p_stage (fst (c_k c))) = true.

Lemma conn_deliver_inv cf c p : conn_inv c -> conn_inv (conn_deliver cf c p).
Proof.
  unfold conn_inv, conn_deliver. intros I. destruct (c_alive c) eqn:A.
  - cbn [c_k c_alive]. destruct (outcome_of valet_catch (http_feed cf (c_k c) p)) eqn:O; intros H; try discriminate H.
    apply outcome_failed_iff in O. destruct O as [e ->]. reflexivity.
  - rewrite A. exact I.
Qed.

Lemma conn_state_own_bytes cf : forall pieces c k0, conn_inv c ->
  fst (c_k c) = fst k0 -> (c_alive c = true -> c_k c = k0) ->
  fst (c_k (fold_left (conn_deliver cf) pieces c)) = fst (http_feed_all cf k0 pieces).
Proof.
  induction pieces as [|p ps IH]; intros c k0 I E A; [exact E|].
  cbn [fold_left]. unfold http_feed_all, feed_all in *. cbn [fold_left].
  apply IH.
  - apply conn_deliver_inv. exact I.
  - unfold conn_deliver. destruct (c_alive c) eqn:Al.
    + cbn. rewrite (A eq_refl). reflexivity.
    + specialize (I Al). destruct (c_k c) as [s b]. destruct k0 as [s0 b0]. cbn in E. subst s0.
      cbn in I. change (feed pst (http_step cf false) http_mu (s, b0) p) with (http_feed cf (s, b0) p).
      rewrite feed_terminal by exact I. reflexivity.
  - unfold conn_deliver. destruct (c_alive c) eqn:Al.
    + cbn. intros _. rewrite (A eq_refl). reflexivity.
    + rewrite Al. discriminate.
Qed.

Lemma fresh_inv : conn_inv fresh.
Proof. unfold conn_inv, fresh. cbn. discriminate. Qed.

Lemma server_conn_own_bytes cf : forall sched srv j,
  nth_error srv j = Some fresh ->
  exists c, nth_error (run_sched cf sched srv) j = Some c /\
    fst (c_k c) = fst (http_feed cf (init_pst false false, []) (concat (pieces_for j sched))).
Proof.
  intros sched srv j H. eexists. split.
  - apply run_sched_projection. exact H.
  - rewrite (conn_state_own_bytes cf _ fresh (init_pst false false, [])).
    + rewrite http_split_independent_init. reflexivity.
    + apply fresh_inv.
    + reflexivity.
    + reflexivity.
Qed.

(* the two `raise ValueError("Invalid content length")` in parseBody are dead code *)
Lemma content_length_nonneg h n : content_length h = Some (Some n) -> 0 <= n.
Proof.
  unfold content_length. destruct (aget _ h) as [v|]; [|discriminate].
  destruct (is_nil v); [discriminate|]. destruct (py_int 10 v) as [m|]; [|discriminate].
  destruct (m <? 0) eqn:E; [discriminate|]. intros H. inversion H; subst. apply Z.ltb_ge in E. exact E.
Qed.

Lemma request_length_nonneg h n : request_length h = Some n -> 0 <= n.
Proof.
  unfold request_length. destruct (is_chunked h); [discriminate|].
  destruct (content_length h) as [[m|]|] eqn:E; intros H; inversion H; subst.
  - eapply content_length_nonneg; eauto.
  - lia.
Qed.

Lemma response_length_nonneg hm st h n : response_length hm st h = Some n -> 0 <= n.
Proof.
  unfold response_length. destruct (_ || hm); [intros H; inversion H; lia|].
  destruct (is_chunked h); [discriminate|].
  destruct (content_length h) as [[m|]|] eqn:E; intros H; inversion H; subst.
  eapply content_length_nonneg; eauto.
Qed.

(* ------------------------------------------------------------------ *)
(* keep-alive connection machine                                       *)
(* ------------------------------------------------------------------ *)
Lemma start_never_done cf cl s b s' r f0 : p_stage s = SStart f0 ->
  http_step cf cl s b = Adv s' r -> is_done s' = false.
Proof.
  intros Hs H. unfold http_step, fail in H. rewrite Hs in H.
  repeat match type of H with
         | context [match ?x with _ => _ end] => destruct x eqn:?
         | context [if ?x then _ else _] => destruct x eqn:?
         end; try discriminate; inversion H; subst; reflexivity.
Qed.

Lemma ka_rank_le s : (ka_rank s <= 2)%nat.
Proof. unfold ka_rank. destruct (p_stage s); lia. Qed.

Lemma ka_step_dec cf : forall st b st' r, ka_step cf st b = Adv st' r -> (ka_mu st' r < ka_mu st b)%nat.
Proof.
  intros [s n] b [s2 n2] r H. unfold ka_step in H. cbn [fst snd] in H.
  destruct (http_step cf false s b) as [s' r'| |] eqn:E; try discriminate.
  pose proof (http_step_dec cf false _ _ _ _ E) as D. unfold http_mu in D.
  unfold ka_mu. cbn [fst].
  pose proof (ka_rank_le s2). pose proof (ka_rank_le s).
  destruct (Nat.lt_ge_cases (length r') (length b)) as [Hlt|Hge].
  - destruct (is_done s' && req_persisted s'); inversion H; subst; lia.
  - (* nothing consumed: the step went from a non-terminal to a terminal stage *)
    assert (T' : terminal (p_stage s') = true) by (destruct (terminal (p_stage s')); [reflexivity|destruct (terminal (p_stage s)); lia]).
    assert (T : terminal (p_stage s) = false) by (destruct (terminal (p_stage s)); [rewrite T' in D; lia|reflexivity]).
    assert (L : length r' = length b) by (rewrite T', T in D; lia).
    destruct (is_done s' && req_persisted s') eqn:R; inversion H; subst.
    + apply andb_true_iff in R. destruct R as [Rd _].
      assert (K : ka_rank s = 2%nat).
      { unfold ka_rank. destruct (p_stage s) eqn:Hs; try reflexivity; try discriminate T.
        rewrite (start_never_done cf false s b s' r first Hs E) in Rd. discriminate. }
      rewrite K, L. cbn. lia.
    + assert (K' : ka_rank s2 = 0%nat) by (unfold ka_rank; destruct (p_stage s2); try discriminate T'; reflexivity).
      assert (K : (1 <= ka_rank s)%nat) by (unfold ka_rank; destruct (p_stage s); try discriminate T; lia).
      rewrite K', L. lia.
Qed.

Lemma ka_step_stable cf : forall st b st' r c,
  ka_step cf st b = Adv st' r -> ka_step cf st (b ++ c) = Adv st' (r ++ c).
Proof.
  intros [s n] b st' r c H. unfold ka_step in *. cbn [fst snd] in *.
  destruct (http_step cf false s b) as [s' r'| |] eqn:E; try discriminate.
  rewrite (http_step_stable cf _ _ _ _ c E).
  destruct (is_done s' && req_persisted s'); inversion H; reflexivity.
Qed.

Lemma ka_init_quiescent cf : quiescent (pst * nat) (ka_step cf) ka_init.
Proof. intros s' r. cbn. discriminate. Qed.

(* a whole keep-alive connection (any number of pipelined / successive requests, valid or not)
   is split independent *)
Lemma ka_split_independent cf : forall pieces,
  ka_feed_all cf ka_init pieces = ka_feed cf ka_init (concat pieces).
Proof.
  intros. unfold ka_feed_all, ka_feed.
  apply feed_all_concat; [apply ka_step_dec | apply ka_step_stable | apply ka_init_quiescent].
Qed.

Lemma ka_never_escapes k : ka_outcome k <> OEscapes.
Proof. apply outcome_never_escapes. Qed.

(* the connection is closed by the server exactly when its parser stopped for good: a failed
   request, or a complete request that does not ask to keep the connection *)
Lemma ka_closed_iff k : ka_closed k = true <->
  (exists e, p_stage (fst (fst k)) = SFail e) \/ p_stage (fst (fst k)) = SDone.
Proof.
  unfold ka_closed, terminal. destruct (p_stage (fst (fst k))); split; intros H; try discriminate; eauto;
    destruct H as [[e H]|H]; discriminate.
Qed.

(* ------------------------------------------------------------------ *)
(* generic frame / projection                                          *)
(* ------------------------------------------------------------------ *)
Section ServerProofs.
  Variables C E : Type.
  Variable f : C -> E -> C.

  Lemma gdeliver_other : forall srv i j e, i <> j ->
    nth_error (gdeliver C E f i e srv) j = nth_error srv j.
  Proof.
    induction srv as [|c t IH]; intros i j e Hij; [destruct i; reflexivity|].
    destruct i, j; cbn; try reflexivity; try congruence. apply IH. congruence.
  Qed.

  Lemma gdeliver_same : forall srv i e c, nth_error srv i = Some c ->
    nth_error (gdeliver C E f i e srv) i = Some (f c e).
  Proof.
    induction srv as [|c0 t IH]; intros i e c H; [destruct i; discriminate|].
    destruct i; cbn in *; [inversion H; reflexivity|apply IH; exact H].
  Qed.

  Lemma grun_projection : forall sched srv j c, nth_error srv j = Some c ->
    nth_error (grun C E f sched srv) j = Some (fold_left f (events_for E j sched) c).
  Proof.
    induction sched as [|[i e] t IH]; intros srv j c H; [exact H|].
    unfold grun in *. cbn [fold_left fst snd].
    unfold events_for. cbn [filter fst]. destruct (Nat.eqb i j) eqn:Eq.
    - apply Nat.eqb_eq in Eq. subst i. cbn [map snd fold_left]. apply IH. apply gdeliver_same. exact H.
    - apply Nat.eqb_neq in Eq. apply IH. rewrite gdeliver_other by exact Eq. exact H.
  Qed.
End ServerProofs.

(* keep-alive server: connection j's final state is the keep-alive parse of the concatenation of
   its own receives, whatever the other connections did *)
Lemma ka_server_own_bytes cf : forall sched srv j, nth_error srv j = Some ka_init ->
  nth_error (grun ka_conn bytes (ka_deliver cf) sched srv) j
  = Some (ka_feed cf ka_init (concat (events_for bytes j sched))).
Proof.
  intros sched srv j H. rewrite (grun_projection _ _ _ sched srv j ka_init H).
  f_equal. apply (ka_split_independent cf).
Qed.

(* TLS: a failed handshake (or anything else) on connection i leaves every other connection as it was;
   the failing connection itself is dropped and ignores whatever follows *)
Lemma tls_dropped_stays cf : forall es c, fst c = Dropped -> fold_left (tls_deliver cf) es c = c.
Proof.
  induction es as [|e es IH]; intros c H; [reflexivity|]. cbn [fold_left].
  assert (S : tls_deliver cf c e = c) by (unfold tls_deliver; rewrite H; reflexivity).
  rewrite S. apply IH. exact H.
Qed.

Lemma tls_fail_drops cf c : fst c = Handshaking -> fst (tls_deliver cf c (TlsHandshake HsFail)) = Dropped.
Proof. intros H. unfold tls_deliver. rewrite H. reflexivity. Qed.

Lemma tls_fail_fold cf c es : fst c = Handshaking ->
  fold_left (tls_deliver cf) (TlsHandshake HsFail :: es) c = (Dropped, snd c).
Proof.
  intros H. destruct c as [ph k]. cbn in H. subst ph. cbn [fold_left].
  change (tls_deliver cf (Handshaking, k) (TlsHandshake HsFail)) with (Dropped, k).
  apply tls_dropped_stays. reflexivity.
Qed.
