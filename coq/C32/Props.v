(* C32 -- property theorems only.  Each closed by [exact]; Print Assumptions beneath. *)
From Coq Require Import String.
From Coq Require Import List ZArith Bool.
Import ListNotations.
Require Import V.Lib.C29_Http V.Lib.C29_HttpProofs V.Lib.C29_HttpMachine V.Lib.C29_HttpObs V.C32.Model V.C32.Proofs.
Open Scope Z_scope.

(* TOTALITY (server).  For ANY bytes, cut into ANY receives, with any limits / url verdicts, the
   outcome of request parsing as Valet.serviceReqs sees it is a request, need-more, or a
   recorded failure (-> closeConnection of that connection).  It is never an exception
   propagating out of the service loop. *)
Theorem server_parse_total : forall cf pieces,
  let o := outcome_of valet_catch (http_feed_all cf (init_pst false false, []) pieces) in
  (o = OMessage \/ o = ONeedMore \/ o = OFailed) /\ o <> OEscapes.
Proof. exact (fun cf pieces => conj (outcome_cases _ _) (outcome_never_escapes _ _)). Qed.
Print Assumptions server_parse_total.

(* TOTALITY (client), also after the server closed the connection *)
Theorem client_records_error : forall cf headreq pieces close,
  let k := http_feed_all cf (init_pst true headreq, []) pieces in
  outcome_of patron_catch (if close : bool then http_close cf k else k) <> OEscapes.
Proof. exact (fun cf headreq pieces close => outcome_never_escapes _ _). Qed.
Print Assumptions client_records_error.

(* every failure site raises inside the HTTPException family, which parseMessage catches *)
Theorem every_failure_site_is_caught : forall e, caught parse_message_catch (raised e) = true.
Proof. exact (fun e => match e with ELineTooLong => eq_refl | _ => eq_refl end). Qed.
Print Assumptions every_failure_site_is_caught.

(* FRAME.  A receive on connection i leaves every other connection exactly as it was. *)
Theorem other_conns_untouched : forall cf srv i j p, i <> j ->
  nth_error (deliver cf i p srv) j = nth_error srv j.
Proof. exact deliver_other. Qed.
Print Assumptions other_conns_untouched.

(* PROJECTION.  Under any interleaving of receives on any number of connections -- whatever
   the others send -- connection j ends as if it had been served alone with its own receives. *)
Theorem conn_sees_only_its_own_receives : forall cf sched srv j c, nth_error srv j = Some c ->
  nth_error (run_sched cf sched srv) j = Some (fold_left (conn_deliver cf) (pieces_for j sched) c).
Proof. exact run_sched_projection. Qed.
Print Assumptions conn_sees_only_its_own_receives.

(* ... and (with C29's split independence) its parser state -- hence request / need-more /
   failed-and-closed -- is a function of the concatenation of its own bytes only. *)
Theorem conn_state_is_function_of_own_bytes : forall cf sched srv j,
  nth_error srv j = Some fresh ->
  exists c, nth_error (run_sched cf sched srv) j = Some c /\
    fst (c_k c) = fst (http_feed cf (init_pst false false, []) (concat (pieces_for j sched))).
Proof. exact server_conn_own_bytes. Qed.
Print Assumptions conn_state_is_function_of_own_bytes.

(* KEEP-ALIVE.  The whole life of a server connection -- any number of successive / pipelined
   requests, each answered and the parser re-made when the request asked to persist, until a
   failed request or a non-persistent one closes it -- is split independent: responses sent,
   closed-or-open, parser state and unconsumed bytes depend on the concatenation only. *)
Theorem keepalive_connection_split_independent : forall cf pieces,
  ka_feed_all cf ka_init pieces = ka_feed cf ka_init (concat pieces).
Proof. exact ka_split_independent. Qed.
Print Assumptions keepalive_connection_split_independent.

(* at every moment of that life the outcome is a request, need-more or failed-and-closed *)
Theorem keepalive_never_escapes : forall cf pieces, ka_outcome (ka_feed_all cf ka_init pieces) <> OEscapes.
Proof. exact (fun cf pieces => ka_never_escapes _). Qed.
Print Assumptions keepalive_never_escapes.

Theorem keepalive_closed_iff_failed_or_final : forall k, ka_closed k = true <->
  (exists e, p_stage (fst (fst k)) = SFail e) \/ p_stage (fst (fst k)) = SDone.
Proof. exact ka_closed_iff. Qed.
Print Assumptions keepalive_closed_iff_failed_or_final.

(* several keep-alive connections, any interleaving, any garbage on the others: connection j
   ends exactly as the keep-alive parse of its own bytes *)
Theorem keepalive_server_conn_own_bytes : forall cf sched srv j, nth_error srv j = Some ka_init ->
  nth_error (grun ka_conn bytes (ka_deliver cf) sched srv) j
  = Some (ka_feed cf ka_init (concat (events_for bytes j sched))).
Proof. exact ka_server_own_bytes. Qed.
Print Assumptions keepalive_server_conn_own_bytes.

(* TLS (https Valet).  Whatever happens on connection i -- handshake failure included -- every
   other connection is untouched; the connection whose handshake failed is dropped for good. *)
Theorem tls_other_conns_untouched : forall cf srv i j e, i <> j ->
  nth_error (gdeliver tls_conn tls_event (tls_deliver cf) i e srv) j = nth_error srv j.
Proof. exact (fun cf => gdeliver_other tls_conn tls_event (tls_deliver cf)). Qed.
Print Assumptions tls_other_conns_untouched.

Theorem tls_conn_sees_only_its_own_events : forall cf sched srv j c, nth_error srv j = Some c ->
  nth_error (grun tls_conn tls_event (tls_deliver cf) sched srv) j
  = Some (fold_left (tls_deliver cf) (events_for tls_event j sched) c).
Proof. exact (fun cf => grun_projection tls_conn tls_event (tls_deliver cf)). Qed.
Print Assumptions tls_conn_sees_only_its_own_events.

Theorem tls_failed_handshake_drops_only_itself : forall cf c es, fst c = Handshaking ->
  fold_left (tls_deliver cf) (TlsHandshake HsFail :: es) c = (Dropped, snd c).
Proof. exact tls_fail_fold. Qed.
Print Assumptions tls_failed_handshake_drops_only_itself.

(* non-vacuity: the failure sites are reachable, and a bad neighbour changes nothing *)
Definition cf0 := mkcfg 65536 100 [bz "http://a:b/"].
Definition nl : bytes := [13; 10].
Example c32_failure_sites_reachable :
  map (fun m => http_case cf0 false false false [m])
      [bz "POST / HTTP/1.1" ++ nl ++ bz "Transfer-Encoding: chunked" ++ nl ++ nl ++ bz "zz" ++ nl;
       bz "GET / HTTP/1.1" ++ nl ++ bz "Host" ++ nl;
       bz "GET http://a:b/ HTTP/1.1" ++ nl;
       bz "BREW / HTTP/1.1" ++ nl]
  = [[108; 0]; [106; 0]; [105; 0]; [104; 0]].
Proof. vm_compute. reflexivity. Qed.

Example c32_bad_neighbour :
  let good := bz "GET / HTTP/1.1" ++ nl ++ nl in
  let bad := bz "GET / HTTP/1.1" ++ nl ++ bz "Host" ++ nl in
  map (fun c => (outcome_of valet_catch (c_k c), c_alive c))
      (run_sched cf0 [(0%nat, firstn 5 good); (1%nat, bad); (2%nat, good); (0%nat, skipn 5 good)]
                 [fresh; fresh; fresh])
  = [(OMessage, true); (OFailed, false); (OMessage, true)].
Proof. vm_compute. reflexivity. Qed.
