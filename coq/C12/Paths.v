(* C12 -- framer-/frame-relative store paths of distinct clones are distinct.
   Stated on the model of Act.resolvePath of V.C13.Model (string instance: what Python does).
   A framer-relative path is one whose text starts with  framer.me  (FloScript `x of framer`,
   `framer.me.x`); a frame-relative one starts with  framer.me.frame.me ; a main-framer relative
   one with  framer.main . *)
From Coq Require Import List NArith Bool.
Import ListNotations.
Require Import V.C13.Model.
Open Scope N_scope.

Definition kF := kwN KFramer.
Definition kM := kwN KMe.
Definition kFr := kwN KFrame.
Definition kMain := kwN KMain.

Ltac crush H :=
  repeat (match type of H with
          | context [if ?b then _ else _] => destruct b eqn:?
          | context [match ?x with _ => _ end] => destruct x eqn:?
          end; try discriminate);
  inversion H; subst; clear H.

Lemma prefix_framer : forall c x rest, prefix clsN kwN c (kF :: x :: rest) = kF :: x :: rest.
Proof. intros. unfold prefix. destruct (act_inode c); reflexivity. Qed.

Lemma subst_framer_me : forall c rest l,
  subst clsN c (kF :: kM :: rest) = Ok l -> exists tl, l = P kF :: NM RFramer :: tl.
Proof.
  intros c rest l H. unfold subst, sub_name, sub_actor, bind in H.
  change (is N clsN KFramer kF) with true in H. change (is N clsN KMe kM) with true in H. cbv iota in H.
  crush H; eexists; reflexivity.
Qed.

Lemma subst_frame_me : forall c rest l,
  subst clsN c (kF :: kM :: kFr :: kM :: rest) = Ok l ->
  exists tl, l = P kF :: NM RFramer :: P kFr :: NM RFrame :: tl.
Proof.
  intros c rest l H. unfold subst, sub_name, sub_actor, bind in H.
  change (is N clsN KFramer kF) with true in H. change (is N clsN KMe kM) with true in H.
  change (is N clsN KFrame kFr) with true in H. cbv iota in H.
  crush H; eexists; reflexivity.
Qed.

Lemma subst_framer_main : forall c rest l,
  subst clsN c (kF :: kMain :: rest) = Ok l -> exists tl, l = P kF :: NM RMainFramer :: tl.
Proof.
  intros c rest l H. unfold subst, sub_name, sub_actor, bind in H.
  change (is N clsN KFramer kF) with true in H. change (is N clsN KMe kMain) with false in H.
  change (is N clsN KMain kMain) with true in H. cbv iota in H.
  crush H; eexists; reflexivity.
Qed.

Lemma resolve_framer_kw : forall nm c x rest p,
  resolve_str nm c (kF :: x :: rest) = Ok p ->
  exists l, subst clsN c (kF :: x :: rest) = Ok l /\ p = flat_map (render_out nm) l.
Proof.
  intros nm c x rest p H. unfold resolve_str, resolve in H.
  change (is N clsN KEmpty kF) with false in H. cbv iota in H. rewrite prefix_framer in H.
  destruct (subst clsN c (kF :: x :: rest)); simpl in H; try discriminate.
  inversion H. eauto.
Qed.

(* resolvePath leaves the leading  framer  and replaces  me  by the executing framer's name *)
Lemma framer_me_resolves : forall nm c rest p,
  resolve_str nm c (kF :: kM :: rest) = Ok p -> exists tl, p = kF :: n_framer nm :: tl.
Proof.
  intros nm c rest p H. apply resolve_framer_kw in H. destruct H as [l [S ->]].
  apply subst_framer_me in S. destruct S as [tl ->]. simpl. eauto.
Qed.

Lemma frame_me_resolves : forall nm c rest p,
  resolve_str nm c (kF :: kM :: kFr :: kM :: rest) = Ok p ->
  exists tl, p = kF :: n_framer nm :: kFr :: n_frame nm :: tl.
Proof.
  intros nm c rest p H. apply resolve_framer_kw in H. destruct H as [l [S ->]].
  apply subst_frame_me in S. destruct S as [tl ->]. simpl. eauto.
Qed.

Lemma framer_main_resolves : forall nm c rest p,
  resolve_str nm c (kF :: kMain :: rest) = Ok p -> exists tl, p = kF :: n_mainframer nm :: tl.
Proof.
  intros nm c rest p H. apply resolve_framer_kw in H. destruct H as [l [S ->]].
  apply subst_framer_main in S. destruct S as [tl ->]. simpl. eauto.
Qed.

Lemma framer_relative_paths_distinct_l : forall nm1 nm2 c1 c2 rest1 rest2 p1 p2,
  n_framer nm1 <> n_framer nm2 ->
  resolve_str nm1 c1 (kF :: kM :: rest1) = Ok p1 ->
  resolve_str nm2 c2 (kF :: kM :: rest2) = Ok p2 ->
  p1 <> p2.
Proof.
  intros nm1 nm2 c1 c2 rest1 rest2 p1 p2 N H1 H2 E.
  apply framer_me_resolves in H1. apply framer_me_resolves in H2.
  destruct H1 as [t1 ->]. destruct H2 as [t2 E2]. rewrite E2 in E. inversion E. contradiction.
Qed.

Lemma frame_relative_paths_distinct_l : forall nm1 nm2 c1 c2 rest1 rest2 p1 p2,
  (n_framer nm1 <> n_framer nm2 \/ n_frame nm1 <> n_frame nm2) ->
  resolve_str nm1 c1 (kF :: kM :: kFr :: kM :: rest1) = Ok p1 ->
  resolve_str nm2 c2 (kF :: kM :: kFr :: kM :: rest2) = Ok p2 ->
  p1 <> p2.
Proof.
  intros nm1 nm2 c1 c2 rest1 rest2 p1 p2 N H1 H2 E.
  apply frame_me_resolves in H1. apply frame_me_resolves in H2.
  destruct H1 as [t1 ->]. destruct H2 as [t2 E2]. rewrite E2 in E. inversion E.
  destruct N; contradiction.
Qed.

(* a clone's main-framer relative data is its parent's framer-relative data: clones with distinct
   parents never meet there, and it never is a sibling's own relative data *)
Lemma main_relative_paths_distinct_l : forall nm1 nm2 c1 c2 rest1 rest2 p1 p2,
  n_mainframer nm1 <> n_framer nm2 ->
  resolve_str nm1 c1 (kF :: kMain :: rest1) = Ok p1 ->
  resolve_str nm2 c2 (kF :: kM :: rest2) = Ok p2 ->
  p1 <> p2.
Proof.
  intros nm1 nm2 c1 c2 rest1 rest2 p1 p2 N H1 H2 E.
  apply framer_main_resolves in H1. apply framer_me_resolves in H2.
  destruct H1 as [t1 ->]. destruct H2 as [t2 E2]. rewrite E2 in E. inversion E. contradiction.
Qed.
