(* C12 -- cloned framers: property theorems (statements in full; proofs in Proofs.v / Paths.v).
   What is a theorem and what is only correspondence is listed in props/C12/meta.json. *)
From Coq Require Import List ZArith NArith QArith Bool Arith String.
Import ListNotations.
Require Import V.Kernel.Model V.Kernel.Inst V.C12.Model V.C12.Proofs V.C12.Paths.
Require V.C13.Model.
Close Scope N_scope.
Open Scope nat_scope.

(* ---- expansion: a clone is its moot's frames, renamed; same outlines; fixed main ---- *)
Theorem clone_expansion_preserves_frames :
  forall (O : TimeOps) (P : prog O) (specs : list spec) i, i < List.length specs ->
  let s := nth i specs dspec in
  let c := getm (expand P specs) (List.length (framers P) + i) in
  let m := getm P (sp_moot s) in
  fm_frames c = map (ren_frame (sp_ren s)) (fm_frames m)
  /\ (sp_ren s = id_ren -> fm_frames c = fm_frames m)
  /\ List.length (fm_frames c) = List.length (fm_frames m)
  /\ fm_first c = fm_first m
  /\ fm_original c = false /\ fm_main0 c = Some (sp_main s) /\ fm_sched c = Aux
  /\ (forall f, fr_over (getf (expand P specs) (List.length (framers P) + i) f) = fr_over (getf P (sp_moot s) f)
             /\ fr_unders (getf (expand P specs) (List.length (framers P) + i) f) = fr_unders (getf P (sp_moot s) f)
             /\ outline (expand P specs) (List.length (framers P) + i) f = outline P (sp_moot s) f).
Proof. exact clone_expansion_preserves_frames_l. Qed.
Print Assumptions clone_expansion_preserves_frames.

Theorem expansion_keeps_source_framers :
  forall (O : TimeOps) (P : prog O) (specs : list spec) t, t < List.length (framers P) ->
  getm (expand P specs) t = getm P t.
Proof. exact expand_original. Qed.
Print Assumptions expansion_keeps_source_framers.

(* ---- tags: newMootTag / newAuxTag terminate (fuel S |used| suffices) with a fresh, least tag ---- *)
Theorem tag_fresh_generic :
  forall (tag : Type) (tag_eqb : tag -> tag -> bool) (render : nat -> tag),
  (forall a b, tag_eqb a b = true <-> a = b) -> (forall a b, render a = render b -> a = b) ->
  forall count used,
  exists n, new_tag_count tag_eqb render count used = Some n
            /\ count < n <= count + S (List.length used)
            /\ ~ In (render n) used
            /\ (forall k, count < k < n -> In (render k) used).
Proof.
  intros tag tag_eqb render He Hi count used.
  destruct (new_tag_total_l tag tag_eqb render He Hi count used) as [n E].
  exists n. split; [exact E|]. exact (new_tag_spec_l tag tag_eqb render He count used n E).
Qed.
Print Assumptions tag_fresh_generic.

Theorem tag_fresh :
  forall (base : string) count (used : list string),
  exists t, new_tag_str base count used = Some t /\ ~ In t used
            /\ exists n, t = render_str base n /\ count < n
                         /\ forall k, count < k < n -> In (render_str base k) used.
Proof.
  intros. destruct (new_tag_str_total base count used) as [t E]. exists t. split; [exact E|].
  exact (new_tag_str_fresh base count used t E).
Qed.
Print Assumptions tag_fresh.

Theorem tag_rendering_injective :
  forall base a b, render_str base a = render_str base b -> a = b.
Proof. exact render_str_inj. Qed.
Print Assumptions tag_rendering_injective.

Theorem clone_name_injective_in_tag :
  forall surname t1 t2, surname_tag surname t1 = surname_tag surname t2 -> t1 = t2.
Proof. exact surname_tag_inj. Qed.
Print Assumptions clone_name_injective_in_tag.

(* ---- relative store paths of distinct clones are distinct (on the resolvePath model of C13) ---- *)
Theorem clone_paths_disjoint_framer :
  forall nm1 nm2 c1 c2 rest1 rest2 p1 p2,
  V.C13.Model.n_framer nm1 <> V.C13.Model.n_framer nm2 ->
  V.C13.Model.resolve_str nm1 c1 (kF :: kM :: rest1) = V.C13.Model.Ok p1 ->
  V.C13.Model.resolve_str nm2 c2 (kF :: kM :: rest2) = V.C13.Model.Ok p2 ->
  p1 <> p2.
Proof. exact framer_relative_paths_distinct_l. Qed.
Print Assumptions clone_paths_disjoint_framer.

Theorem clone_paths_disjoint_frame :
  forall nm1 nm2 c1 c2 rest1 rest2 p1 p2,
  (V.C13.Model.n_framer nm1 <> V.C13.Model.n_framer nm2 \/ V.C13.Model.n_frame nm1 <> V.C13.Model.n_frame nm2) ->
  V.C13.Model.resolve_str nm1 c1 (kF :: kM :: kFr :: kM :: rest1) = V.C13.Model.Ok p1 ->
  V.C13.Model.resolve_str nm2 c2 (kF :: kM :: kFr :: kM :: rest2) = V.C13.Model.Ok p2 ->
  p1 <> p2.
Proof. exact frame_relative_paths_distinct_l. Qed.
Print Assumptions clone_paths_disjoint_frame.

Theorem clone_paths_main_is_parent :
  forall nm1 nm2 c1 c2 rest1 rest2 p1 p2,
  V.C13.Model.n_mainframer nm1 <> V.C13.Model.n_framer nm2 ->
  V.C13.Model.resolve_str nm1 c1 (kF :: kMain :: rest1) = V.C13.Model.Ok p1 ->
  V.C13.Model.resolve_str nm2 c2 (kF :: kM :: rest2) = V.C13.Model.Ok p2 ->
  p1 <> p2.
Proof. exact main_relative_paths_distinct_l. Qed.
Print Assumptions clone_paths_main_is_parent.

(* registered framer names stay pairwise distinct over every sequence of rear / raze *)
Theorem registry_names_distinct :
  forall ops g, NoDup (names g) -> forall g', In g' (run_ops g ops) -> NoDup (names g').
Proof. exact run_ops_nodup. Qed.
Print Assumptions registry_names_distinct.

Theorem rear_uses_fresh_tag_and_name :
  forall g h f base t g', rear g h f base t = ROk g' ->
  exists tg, new_tag_str base 0 (aux_tags g h) = Some tg /\ ~ In tg (aux_tags g h)
             /\ ~ In (surname_tag h tg) (names g) /\ In (surname_tag h tg) (names g').
Proof. exact rear_fresh_l. Qed.
Print Assumptions rear_uses_fresh_tag_and_name.

(* ---- raze ---- *)
Theorem raze_only_razeable_insular :
  forall g w h f c, In c (clones g) -> ~ In c (clones (raze g w h f)) ->
  exists t, In t (clones g) /\ c_holder t = h /\ c_frame t = f /\ c_insular t = true /\ c_razeable t = true
            /\ In t (raze_targets g w h f) /\ desc (clones g) (c_name t) (c_name c).
Proof. exact raze_only_l. Qed.
Print Assumptions raze_only_razeable_insular.

Theorem raze_keeps_everything_else :
  forall g w h f,
  (forall c, In c (clones g) ->
     (forall t, In t (raze_targets g w h f) -> ~ desc (clones g) (c_name t) (c_name c)) ->
     In c (clones (raze g w h f)))
  /\ (forall h' f', frame_auxes (raze g w h f) h' f'
        = filter (fun c => negb (str_mem (c_name c) (dead_of (fun _ => true) g w h f))) (frame_auxes g h' f')).
Proof. intros. split; [exact (raze_keeps_l g w h f) | exact (raze_frame_auxes_l g w h f)]. Qed.
Print Assumptions raze_keeps_everything_else.

Theorem razed_never_runs_and_name_free :
  forall g w h f t x, In t (raze_targets g w h f) ->
  In x (prune_names (fun _ => true) (List.length (clones g)) (clones g) (c_name t)) ->
  (~ In x (names (raze g w h f)) /\ ~ In x (runnable (raze g w h f)))
  /\ (forall ops, forallb is_raze ops = true -> forall g', In g' (run_ops (raze g w h f) ops) ->
        ~ In x (names g') /\ ~ In x (runnable g')).
Proof.
  intros g w h f t x Ht Hx. pose proof (razed_dead_l g w h f t x Ht Hx) as [A B].
  split; [split; assumption|]. intros ops F g' I. exact (dead_stays_dead_l ops _ x F A B g' I).
Qed.
Print Assumptions razed_never_runs_and_name_free.

Theorem razed_target_itself_is_pruned :
  forall which fuel g r, In r (prune_names which fuel g r).
Proof. exact prune_names_self. Qed.
Print Assumptions razed_target_itself_is_pruned.

(* ---- witnesses ---- *)
Open Scope string_scope.

(* a moot `mo` whose frame 0 lists the NAMED nested clone `aux mi as x1` *)
Definition t_mo : tmpl := Tmpl [("x1", 0, false, Tmpl [])].
Definition g0 : reg := {| names := ["m0"; "mo"; "mi"]; clones := [] |}.
Definition ops_w : list rop := [ORear "m0" 2 "mo" t_mo; ORear "m0" 2 "mo" t_mo; ORaze WFirst "m0" 2; ORear "m0" 2 "mo" t_mo].

Example rear_raze_rear_reuses_name :
  map (fun g => (names g, map c_name (frame_auxes g "m0" 2))) (run_ops g0 ops_w)
  = [ (["m0"; "mo"; "mi"; "m0_mo1"; "m0_mo1_x1"], ["m0_mo1"]);
      (["m0"; "mo"; "mi"; "m0_mo1"; "m0_mo1_x1"; "m0_mo2"; "m0_mo2_x1"], ["m0_mo1"; "m0_mo2"]);
      (["m0"; "mo"; "mi"; "m0_mo2"; "m0_mo2_x1"], ["m0_mo2"]);
      (["m0"; "mo"; "mi"; "m0_mo2"; "m0_mo2_x1"; "m0_mo1"; "m0_mo1_x1"], ["m0_mo2"; "m0_mo1"]) ].
Proof. vm_compute. reflexivity. Qed.

(* the code BEFORE fixes/C12-prune-nested-named.patch (prune recursing into insular clones only): the named
   nested clone keeps its registration and the rear that reuses the freed tag fails with CloneError *)
Example name_not_free_before_fix :
  let g2 := raze_insular_only (nth 1 (run_ops g0 ops_w) g0) WFirst "m0" 2 in
  In "m0_mo1_x1" (names g2) /\ ~ In "m0_mo1" (names g2)
  /\ match rear g2 "m0" 2 "mo" t_mo with RCloneError _ => True | _ => False end.
Proof. vm_compute. repeat split; auto. intros [H|[H|[H|[H|[H|[H|[]]]]]]]; discriminate. Qed.

Example tags_skip_used : new_tag_str "mo" 0 ["mo1"; "c7"; "mo2"; "mo4"] = Some "mo3".
Proof. vm_compute. reflexivity. Qed.

(* expansion witness: a two-frame moot cloned twice with different renamings *)
Definition w_moot : framer QOps :=
  {| fm_frames := [ {| fr_over := None; fr_unders := [1]; beacts := []; enacts := [ARec 5; APut 7 1%Z];
                       renacts := []; preacts := [PGo [NVar 7 CGe 2%Z] 1]; reacts := [AInc 7 1%Z]; exacts := [];
                       rexacts := []; fr_auxes := [] |};
                    {| fr_over := Some 0; fr_unders := []; beacts := []; enacts := [ADone [1]];
                       renacts := []; preacts := []; reacts := []; exacts := []; rexacts := []; fr_auxes := [] |} ];
     fm_first := 0; fm_sched := Moot; fm_period := tzero QOps; fm_original := true; fm_main0 := None |}.
Definition w_prog : prog QOps :=
  {| framers := [dframer QOps; w_moot]; taskables := [0]; tick := tzero QOps; stamp0 := tzero QOps |}.
Definition w_specs : list spec :=
  [ {| sp_moot := 1; sp_ren := {| rt := [(1, 2)]; rv := [(7, 8)]; roff := 2000; rm := [] |}; sp_main := (0, 0) |};
    {| sp_moot := 1; sp_ren := {| rt := [(1, 3)]; rv := [(7, 9)]; roff := 3000; rm := [] |}; sp_main := (0, 0) |} ].

Example expansion_witness :
  map (fun t => (enacts (getf (expand w_prog w_specs) t 0), enacts (getf (expand w_prog w_specs) t 1),
                 outline (expand w_prog w_specs) t 0)) [2; 3]
  = [ ([ARec 2005; APut 8 1%Z], [ADone [2]], [0; 1]); ([ARec 3005; APut 9 1%Z], [ADone [3]], [0; 1]) ].
Proof. vm_compute. reflexivity. Qed.
