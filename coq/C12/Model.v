(* C12 -- clones: definitions only.

   Part 1 (kernel side).  A clone is an ordinary auxiliary framer of the kernel model
   (V.Kernel.Model) with fm_original = false and a fixed main frame.  [expand P specs] appends to
   the source framers of P one framer per clone instance: the frame list of the MOOT it is cloned
   from with its references renamed -- framer ids (the moot's own id |-> the clone's id, the
   placeholder ids of the clone uses inside the moot |-> the ids of the nested instances), the
   indices of the relative store variables (each instance owns its own) and the recorder tags
   (offset identifying the executing instance in the trace).  Frame ids are local to a framer, so
   over/unders/first/transition targets are copied verbatim.  This is Framer.clone / Frame.clone /
   Act.clone (copies of the UNRESOLVED text) followed by resolution in the clone's own context.

   Part 2: Framer.newMootTag / newAuxTag (tag search).
   Part 3: registry model of Rearer.action / Razer.action / Framer.prune.
   Part 4: clone names  surname_tag  and framer-/frame-relative paths (on V.C13.Model). *)
From Coq Require Import List ZArith Bool Arith String Ascii DecimalString.
Import ListNotations.
Require Import V.Kernel.Model.

Set Implicit Arguments.

(* ------------------------------------------------------------------------------------------ *)
(* Part 1: expansion                                                                          *)
(* ------------------------------------------------------------------------------------------ *)
Definition lk (r : list (nat * nat)) (x : nat) : nat :=
  match find (fun p => Nat.eqb (fst p) x) r with Some p => snd p | None => x end.

Record ren := {
  rt : list (nat * nat);     (* framer ids *)
  rv : list (nat * nat);     (* store variable indices *)
  roff : nat;                (* recorder tag offset *)
  rm : list (nat * nat);     (* mark ids: every instance owns its marks (Mark key = framer NAME < marker|frame) *)
}.

Definition id_ren : ren := {| rt := []; rv := []; roff := 0; rm := [] |}.

Section Expand.
Variable O : TimeOps.

Definition ren_sel (r : ren) (k : auxsel) : auxsel :=
  match k with AuxNamed t => AuxNamed (lk (rt r) t) | _ => k end.

Fixpoint ren_need (r : ren) (n : need O) : need O :=
  match n with
  | NAlways => NAlways
  | NVar v c g => NVar (lk (rv r) v) c g
  | NElapsed c g => NElapsed c g
  | NRecurred c g => NRecurred c g
  | NDone t => NDone (lk (rt r) t)
  | NDoneAux k f => NDoneAux (ren_sel r k) f
  | NStatus t s => NStatus (lk (rt r) t) s
  | NUpdated v mk => NUpdated (lk (rv r) v) (lk (rm r) mk)
  | NChanged v mk => NChanged (lk (rv r) v) (lk (rm r) mk)
  | NNot n' => NNot (ren_need r n')
  end.

Definition ren_act (r : ren) (a : act O) : act O :=
  match a with
  | ARec tag => ARec (tag + roff r)
  | APut v z => APut (lk (rv r) v) z
  | AInc v z => AInc (lk (rv r) v) z
  | ACopy s d => ACopy (lk (rv r) s) (lk (rv r) d)
  | ABid c ts p => ABid c (map (lk (rt r)) ts) p
  | AFiat c t => AFiat c (lk (rt r) t)
  | ADone ts => ADone (map (lk (rt r)) ts)
  | ADeactivize x => ADeactivize (lk (rt r) x)
  | AMarkU mk tr => AMarkU (lk (rm r) mk) tr
  | AMarkC v mk => AMarkC (lk (rv r) v) (lk (rm r) mk)
  end.

Definition ren_pact (r : ren) (p : pact O) : pact O :=
  match p with
  | PAct a => PAct (ren_act r a)
  | PGo ns far => PGo (map (ren_need r) ns) far
  | PAux ns x => PAux (map (ren_need r) ns) (lk (rt r) x)
  end.

Definition ren_frame (r : ren) (f : frame O) : frame O :=
  {| fr_over := fr_over f;
     fr_unders := fr_unders f;
     beacts := map (ren_need r) (beacts f);
     enacts := map (ren_act r) (enacts f);
     renacts := map (ren_act r) (renacts f);
     preacts := map (ren_pact r) (preacts f);
     reacts := map (ren_act r) (reacts f);
     exacts := map (ren_act r) (exacts f);
     rexacts := map (ren_act r) (rexacts f);
     fr_auxes := map (lk (rt r)) (fr_auxes f) |}.

(* Framer.clone(name, tag, schedule=AUX) + resolveMoots: original = False, main fixed *)
Definition clone_of (r : ren) (mainf : tid * fid) (m : framer O) : framer O :=
  {| fm_frames := map (ren_frame r) (fm_frames m);
     fm_first := fm_first m;
     fm_sched := Aux;
     fm_period := tzero O;
     fm_original := false;
     fm_main0 := Some mainf |}.

Record spec := {
  sp_moot : tid;
  sp_ren : ren;
  sp_main : tid * fid;
}.

Definition clone_spec (P : prog O) (s : spec) : framer O :=
  clone_of (sp_ren s) (sp_main s) (nth (sp_moot s) (framers P) (dframer O)).

Definition expand (P : prog O) (specs : list spec) : prog O :=
  {| framers := framers P ++ map (clone_spec P) specs;
     taskables := taskables P;
     tick := tick P;
     stamp0 := stamp0 P |}.

End Expand.

(* ------------------------------------------------------------------------------------------ *)
(* Part 2: Framer.newMootTag / Framer.newAuxTag                                               *)
(*    count += 1; tag = base + str(count); while tag in used: count += 1; tag = ...           *)
(* ------------------------------------------------------------------------------------------ *)
Section Tags.
Variable tag : Type.
Variable tag_eqb : tag -> tag -> bool.
Variable render : nat -> tag.          (* "{0}{1}".format(base, count) for the fixed base *)

Definition tmem (t : tag) (used : list tag) : bool := existsb (tag_eqb t) used.

(* the while loop with fuel; returns the final count *)
Fixpoint tag_loop (fuel count : nat) (used : list tag) : option nat :=
  match fuel with
  | 0 => None
  | S f => if tmem (render count) used then tag_loop f (S count) used else Some count
  end.

(* fuel S (length used) is always enough (theorem new_tag_total) *)
Definition new_tag_count (count : nat) (used : list tag) : option nat :=
  tag_loop (S (List.length used)) (S count) used.

Definition new_tag (count : nat) (used : list tag) : option tag :=
  option_map render (new_tag_count count used).
End Tags.

(* concrete instance: strings, decimal rendering of the count (Python str(int) for count >= 0) *)
Definition decimal (n : nat) : string := NilEmpty.string_of_uint (Nat.to_uint n).

Definition render_str (base : string) (n : nat) : string := append base (decimal n).

Definition new_tag_str (base : string) (count : nat) (used : list string) : option string :=
  new_tag String.eqb (render_str base) count used.

(* ------------------------------------------------------------------------------------------ *)
(* Part 3: registry of clones -- Rearer.action, Razer.action, Framer.prune                    *)
(*   Framers are identified by name (Framer.Names is keyed by name).  A clone record says in  *)
(*   which frame of which framer it is listed (Frame.auxes; order = order of the list).       *)
(* ------------------------------------------------------------------------------------------ *)
Record crec := {
  c_name : string;
  c_tag : string;
  c_holder : string;     (* name of the framer whose frame lists this clone *)
  c_frame : nat;         (* index of that frame *)
  c_insular : bool;
  c_razeable : bool;
}.

Record reg := {
  names : list string;          (* Framer.Names (framers of the house) *)
  clones : list crec;           (* every clone listed in some Frame.auxes, per frame in list order *)
}.

Definition str_mem (s : string) (l : list string) : bool := existsb (String.eqb s) l.

Definition in_frame (h : string) (f : nat) (c : crec) : bool :=
  String.eqb (c_holder c) h && Nat.eqb (c_frame c) f.

(* Frame.auxes of frame f of framer h (clones only) *)
Definition frame_auxes (g : reg) (h : string) (f : nat) : list crec := filter (in_frame h f) (clones g).

(* Framer.auxes keys of framer h: tags of the clones it holds *)
Definition aux_tags (g : reg) (h : string) : list string :=
  map c_tag (filter (fun c => String.eqb (c_holder c) h) (clones g)).

Definition surname_tag (surname tg : string) : string := append surname (String "_"%char tg).

(* nested clone uses of a moot, as Framer.clone + resolveMoots create them:
   (tag, frame index, insular) ; named nested clones are not insular.  Nesting is given by levels:
   a template is a list of uses, each with the uses of ITS moot (finite depth by construction). *)
Inductive tmpl := Tmpl (uses : list (string * nat * bool * tmpl)).

(* all records created when template t is instantiated as framer [name] (recursively) *)
Fixpoint inst_tmpl (name : string) (t : tmpl) : list crec :=
  match t with
  | Tmpl uses =>
    flat_map (fun u =>
      match u with
      | (tg, f, ins, sub) =>
        let nm := surname_tag name tg in
        {| c_name := nm; c_tag := tg; c_holder := name; c_frame := f; c_insular := ins; c_razeable := false |}
        :: inst_tmpl nm sub
      end) uses
  end.

Inductive rres := ROk (g : reg) | RCloneError (g : reg) | RNoTag.

(* Rearer.action for an auxiliary clone in frame f of framer h (surname = h's name: the rearing
   framer's own registered name), moot base tag [base], nested uses [t].
   Framer.clone raises CloneError when the name is already registered -- for the reared clone or,
   during its presolve, for a nested clone; by then the earlier ones are registered. *)
Fixpoint register_all (g : reg) (cs : list crec) : rres :=
  match cs with
  | [] => ROk g
  | c :: rest =>
    if str_mem (c_name c) (names g) then RCloneError g
    else register_all {| names := names g ++ [c_name c]; clones := clones g ++ [c] |} rest
  end.

Definition rear (g : reg) (h : string) (f : nat) (base : string) (t : tmpl) : rres :=
  match new_tag_str base 0 (aux_tags g h) with
  | None => RNoTag
  | Some tg =>
    let nm := surname_tag h tg in
    let top := {| c_name := nm; c_tag := tg; c_holder := h; c_frame := f;
                  c_insular := true; c_razeable := true |} in
    register_all g (top :: inst_tmpl nm t)
  end.

(* Framer.prune of framer [x] (fixed version, see fixes/C12-prune-nested-named.patch: every clone
   listed in a frame of a pruned clone is pruned with it).  [which c] selects the auxes of a pruned
   framer that are pruned recursively.  Fuel = number of clone records (depth of nesting). *)
Fixpoint prune_names (which : crec -> bool) (fuel : nat) (g : list crec) (x : string) : list string :=
  match fuel with
  | 0 => [x]
  | S k =>
    x :: flat_map (fun c => if String.eqb (c_holder c) x && which c then prune_names which k g (c_name c) else [])
                  g
  end.

Inductive who := WAll | WFirst | WLast.

Definition razeable_in (g : reg) (h : string) (f : nat) : list crec :=
  filter (fun c => c_insular c && c_razeable c) (frame_auxes g h f).

Definition raze_targets (g : reg) (w : who) (h : string) (f : nat) : list crec :=
  match w with
  | WAll => razeable_in g h f
  | WFirst => match razeable_in g h f with c :: _ => [c] | [] => [] end
  | WLast => match rev (razeable_in g h f) with c :: _ => [c] | [] => [] end
  end.

Definition remove_names (dead : list string) (g : reg) : reg :=
  {| names := filter (fun n => negb (str_mem n dead)) (names g);
     clones := filter (fun c => negb (str_mem (c_name c) dead)) (clones g) |}.

(* Razer.action; [which] = the recursion policy of Framer.prune *)
Definition raze_with (which : crec -> bool) (g : reg) (w : who) (h : string) (f : nat) : reg :=
  let dead := flat_map (fun c => prune_names which (List.length (clones g)) (clones g) (c_name c))
                       (raze_targets g w h f) in
  remove_names dead g.

(* the repaired implementation prunes every clone nested in a razed clone *)
Definition raze := raze_with (fun _ => true).
(* the code before the repair: only insular nested clones *)
Definition raze_insular_only := raze_with c_insular.

(* the clones that can ever be run again: those reachable from Frame.auxes lists *)
Definition runnable (g : reg) : list string := map c_name (clones g).

(* ---- op sequences and snapshots (correspondence with the doubles around Rearer/Razer.action) ---- *)
Inductive rop :=
| ORear (h : string) (f : nat) (base : string) (t : tmpl)
| ORaze (w : who) (h : string) (f : nat).

Definition step_op (g : reg) (o : rop) : reg :=
  match o with
  | ORear h f b t => match rear g h f b t with ROk g' => g' | RCloneError g' => g' | RNoTag => g end
  | ORaze w h f => raze g w h f
  end.

Fixpoint run_ops (g : reg) (ops : list rop) : list reg :=
  match ops with
  | [] => []
  | o :: rest => let g' := step_op g o in g' :: run_ops g' rest
  end.

Definition snap := (list string * list (string * nat * list string))%type.

Fixpoint strl_eqb (a b : list string) : bool :=
  match a, b with
  | [], [] => true
  | x :: a', y :: b' => String.eqb x y && strl_eqb a' b'
  | _, _ => false
  end.

Definition snap_eqb (g : reg) (s : snap) : bool :=
  forallb (fun n => str_mem n (fst s)) (names g) && forallb (fun n => str_mem n (names g)) (fst s)
  && Nat.eqb (List.length (names g)) (List.length (fst s))
  && forallb (fun e => match e with (h, f, l) => strl_eqb (map c_name (frame_auxes g h f)) l end) (snd s)
  && Nat.eqb (List.length (clones g)) (fold_left (fun n e => n + List.length (snd e)) (snd s) 0).

Fixpoint snaps_eqb (gs : list reg) (ss : list snap) : bool :=
  match gs, ss with
  | [], [] => true
  | g :: gs', s :: ss' => snap_eqb g s && snaps_eqb gs' ss'
  | _, _ => false
  end.
