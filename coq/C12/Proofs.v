(* C12 -- proofs *)
From Coq Require Import List ZArith Bool Arith String Ascii DecimalString DecimalNat Lia FinFun.
Import ListNotations.
Require Import V.Kernel.Model V.C12.Model.


(* ------------------------------------------------------------------------------------------ *)
(* Part 1: expansion                                                                          *)
(* ------------------------------------------------------------------------------------------ *)
Section ExpandFacts.
Variable O : TimeOps.

Lemma ren_need_id : forall n : need O, ren_need id_ren n = n.
Proof.
  induction n; simpl; try reflexivity.
  - destruct k; reflexivity.
  - now rewrite IHn.
Qed.

Lemma map_lk_nil : forall l, map (lk []) l = l.
Proof. induction l; simpl; [reflexivity|]. now rewrite IHl. Qed.

Lemma ren_act_id : forall a : act O, ren_act id_ren a = a.
Proof.
  destruct a; simpl; rewrite ?map_lk_nil, ?Nat.add_0_r; reflexivity.
Qed.

Lemma map_id_ext : forall A (f : A -> A) l, (forall x, f x = x) -> map f l = l.
Proof. induction l; simpl; intros; [reflexivity|]. now rewrite H, IHl. Qed.

Lemma ren_pact_id : forall p : pact O, ren_pact id_ren p = p.
Proof.
  destruct p; simpl.
  - now rewrite ren_act_id.
  - now rewrite (map_id_ext _ _ ns ren_need_id).
  - now rewrite (map_id_ext _ _ ns ren_need_id).
Qed.

Lemma ren_frame_id : forall f : frame O, ren_frame id_ren f = f.
Proof.
  destruct f; unfold ren_frame; simpl.
  rewrite (map_id_ext _ _ beacts ren_need_id).
  rewrite !(map_id_ext _ _ _ ren_act_id).
  rewrite (map_id_ext _ _ preacts ren_pact_id).
  now rewrite (map_lk_nil fr_auxes).
Qed.

Variable P : prog O.
Variable specs : list spec.

Lemma expand_original : forall t, t < List.length (framers P) -> getm (expand P specs) t = getm P t.
Proof. intros. unfold getm, expand; simpl. now apply app_nth1. Qed.

Definition dspec : spec := {| sp_moot := 0; sp_ren := id_ren; sp_main := (0, 0) |}.

Lemma expand_clone : forall i, i < List.length specs ->
  getm (expand P specs) (List.length (framers P) + i) = clone_spec P (nth i specs dspec).
Proof.
  intros. unfold getm, expand; simpl.
  rewrite app_nth2 by lia.
  replace (List.length (framers P) + i - List.length (framers P)) with i by lia.
  rewrite (nth_indep _ (dframer O) (clone_spec P dspec)) by (now rewrite map_length).
  apply (map_nth (clone_spec P)).
Qed.

Lemma ren_frame_dframe : forall r, ren_frame r (dframe O) = dframe O.
Proof. reflexivity. Qed.

Lemma getf_clone : forall i f, i < List.length specs ->
  getf (expand P specs) (List.length (framers P) + i) f
  = ren_frame (sp_ren (nth i specs dspec)) (getf P (sp_moot (nth i specs dspec)) f).
Proof.
  intros. unfold getf. rewrite expand_clone by assumption.
  unfold clone_spec, clone_of; simpl.
  rewrite <- (ren_frame_dframe (sp_ren (nth i specs dspec))) at 1.
  rewrite map_nth. reflexivity.
Qed.

Lemma nfr_clone : forall i, i < List.length specs ->
  nfr (expand P specs) (List.length (framers P) + i) = nfr P (sp_moot (nth i specs dspec)).
Proof.
  intros. unfold nfr. rewrite expand_clone by assumption.
  unfold clone_spec, clone_of; simpl. now rewrite map_length.
Qed.

Lemma ups_clone : forall i, i < List.length specs -> forall n f,
  ups (expand P specs) (List.length (framers P) + i) n f = ups P (sp_moot (nth i specs dspec)) n f.
Proof.
  intros i Hi. induction n; intros; simpl; [reflexivity|].
  rewrite getf_clone by assumption. simpl.
  destruct (fr_over (getf P (sp_moot (nth i specs dspec)) f)); [now rewrite IHn | reflexivity].
Qed.

Lemma downs_clone : forall i, i < List.length specs -> forall n f,
  downs (expand P specs) (List.length (framers P) + i) n f = downs P (sp_moot (nth i specs dspec)) n f.
Proof.
  intros i Hi. induction n; intros; simpl; [reflexivity|].
  rewrite getf_clone by assumption. simpl.
  destruct (fr_unders (getf P (sp_moot (nth i specs dspec)) f)); [reflexivity | now rewrite IHn].
Qed.

Lemma outline_clone : forall i f, i < List.length specs ->
  outline (expand P specs) (List.length (framers P) + i) f = outline P (sp_moot (nth i specs dspec)) f.
Proof.
  intros. unfold outline, head. rewrite nfr_clone, ups_clone, downs_clone by assumption. reflexivity.
Qed.

(* the full statement *)
Lemma clone_expansion_preserves_frames_l : forall i, i < List.length specs ->
  let s := nth i specs dspec in
  let c := getm (expand P specs) (List.length (framers P) + i) in
  let m := getm P (sp_moot s) in
  fm_frames c = map (ren_frame (sp_ren s)) (fm_frames m)
  /\ (sp_ren s = id_ren -> fm_frames c = fm_frames m)
  /\ List.length (fm_frames c) = List.length (fm_frames m)
  /\ fm_first c = fm_first m
  /\ fm_original c = false /\ fm_main0 c = Some (sp_main s) /\ fm_sched c = Aux
  /\ (forall f, fr_over (getf (expand P specs) (List.length (framers P) + i) f) = fr_over (getf P (sp_moot s) f)
             /\ fr_unders (getf (expand P specs) (List.length (framers P) + i) f) = fr_unders (getf P (sp_moot s) f)
             /\ outline (expand P specs) (List.length (framers P) + i) f = outline P (sp_moot s) f).
Proof.
  intros i Hi s c m. subst c. rewrite expand_clone by assumption. fold s.
  unfold clone_spec, clone_of; simpl. fold (getm P (sp_moot s)). fold m.
  repeat split.
  - intros E. rewrite E. apply map_id_ext. apply ren_frame_id.
  - now rewrite map_length.
  - rewrite getf_clone by assumption. reflexivity.
  - rewrite getf_clone by assumption. reflexivity.
  - now apply outline_clone.
Qed.

End ExpandFacts.

(* ------------------------------------------------------------------------------------------ *)
(* Part 2: tags                                                                               *)
(* ------------------------------------------------------------------------------------------ *)
Section TagFacts.
Variable tag : Type.
Variable tag_eqb : tag -> tag -> bool.
Variable render : nat -> tag.
Hypothesis tag_eqb_eq : forall a b, tag_eqb a b = true <-> a = b.
Hypothesis render_inj : forall a b, render a = render b -> a = b.

Lemma tmem_in : forall t used, tmem tag_eqb t used = true <-> In t used.
Proof.
  intros. unfold tmem. rewrite existsb_exists. split.
  - intros [x [Hx E]]. apply tag_eqb_eq in E. now subst.
  - intros. exists t. split; [assumption | now apply tag_eqb_eq].
Qed.

Lemma tag_loop_none : forall fuel c used,
  tag_loop tag_eqb render fuel c used = None -> forall k, c <= k < c + fuel -> In (render k) used.
Proof.
  induction fuel; intros c used H k Hk; simpl in *; [lia|].
  destruct (tmem tag_eqb (render c) used) eqn:E; [|discriminate].
  destruct (Nat.eq_dec k c) as [->|].
  - now apply tmem_in.
  - apply (IHfuel (S c) used H). lia.
Qed.

Lemma tag_loop_some : forall fuel c used n,
  tag_loop tag_eqb render fuel c used = Some n ->
  c <= n < c + fuel /\ ~ In (render n) used /\ forall k, c <= k < n -> In (render k) used.
Proof.
  induction fuel; intros c used n H; simpl in *; [discriminate|].
  destruct (tmem tag_eqb (render c) used) eqn:E.
  - destruct (IHfuel _ _ _ H) as [A [B C]]. repeat split; try lia; try assumption.
    intros k Hk. destruct (Nat.eq_dec k c) as [->|]; [now apply tmem_in | apply C; lia].
  - injection H as <-. repeat split; try lia.
    + intro I. apply tmem_in in I. congruence.
Qed.

Lemma map_render_nodup : forall c n, NoDup (map render (seq c n)).
Proof.
  intros. apply FinFun.Injective_map_NoDup; [exact render_inj | apply seq_NoDup].
Qed.

(* pigeonhole: S (length used) iterations always suffice *)
Lemma new_tag_total_l : forall count used, exists n, new_tag_count tag_eqb render count used = Some n.
Proof.
  intros. unfold new_tag_count.
  destruct (tag_loop tag_eqb render (S (List.length used)) (S count) used) eqn:E; [eauto|].
  exfalso.
  pose proof (tag_loop_none _ _ _ E) as H.
  assert (I : incl (map render (seq (S count) (S (List.length used)))) used).
  { intros t Ht. apply in_map_iff in Ht. destruct Ht as [k [<- Hk]]. apply in_seq in Hk. apply H. lia. }
  pose proof (NoDup_incl_length (map_render_nodup (S count) (S (List.length used))) I) as L.
  rewrite map_length, seq_length in L. lia.
Qed.

Lemma new_tag_spec_l : forall count used n,
  new_tag_count tag_eqb render count used = Some n ->
  count < n <= count + S (List.length used) /\ ~ In (render n) used /\ forall k, count < k < n -> In (render k) used.
Proof.
  intros count used n H. unfold new_tag_count in H. apply tag_loop_some in H.
  destruct H as [A [B C]]. split; [lia|]. split; [assumption|]. intros. apply C. lia.
Qed.

(* more fuel never changes the answer: the fuelled loop IS the while loop *)
Lemma tag_loop_more : forall fuel c used n, tag_loop tag_eqb render fuel c used = Some n ->
  forall extra, tag_loop tag_eqb render (fuel + extra) c used = Some n.
Proof.
  induction fuel; intros; simpl in *; [discriminate|].
  destruct (tmem tag_eqb (render c) used); [now apply IHfuel | assumption].
Qed.
End TagFacts.

(* strings *)
Lemma append_inj_l : forall b s1 s2, append b s1 = append b s2 -> s1 = s2.
Proof. induction b; simpl; intros; [assumption|]. injection H. apply IHb. Qed.

Lemma decimal_inj : forall a b, decimal a = decimal b -> a = b.
Proof.
  unfold decimal. intros a b H.
  assert (E : Nat.to_uint a = Nat.to_uint b).
  { pose proof (NilEmpty.usu (Nat.to_uint a)) as A. pose proof (NilEmpty.usu (Nat.to_uint b)) as B.
    rewrite H in A. rewrite A in B. now injection B. }
  rewrite <- (DecimalNat.Unsigned.of_to a), <- (DecimalNat.Unsigned.of_to b). now rewrite E.
Qed.

Lemma render_str_inj : forall base a b, render_str base a = render_str base b -> a = b.
Proof. unfold render_str. intros. apply decimal_inj. eapply append_inj_l; eassumption. Qed.

Lemma surname_tag_inj : forall s t1 t2, surname_tag s t1 = surname_tag s t2 -> t1 = t2.
Proof. unfold surname_tag. intros. apply append_inj_l in H. now injection H. Qed.

Lemma new_tag_str_total : forall base count used, exists t, new_tag_str base count used = Some t.
Proof.
  intros. unfold new_tag_str, new_tag.
  destruct (new_tag_total_l string String.eqb (render_str base) String.eqb_eq (render_str_inj base) count used) as [n E].
  rewrite E. simpl. eauto.
Qed.

Lemma new_tag_str_fresh : forall base count used t, new_tag_str base count used = Some t ->
  ~ In t used /\ exists n, t = render_str base n /\ count < n /\ forall k, count < k < n -> In (render_str base k) used.
Proof.
  intros base count used t H. unfold new_tag_str, new_tag in H.
  destruct (new_tag_count String.eqb (render_str base) count used) eqn:E; [|discriminate].
  injection H as <-.
  destruct (new_tag_spec_l string String.eqb (render_str base) String.eqb_eq _ _ _ E) as [A [B C]].
  split; [assumption|]. exists n. repeat split; try lia. assumption.
Qed.

(* ------------------------------------------------------------------------------------------ *)
(* Part 3: registry                                                                           *)
(* ------------------------------------------------------------------------------------------ *)
Lemma str_mem_in : forall s l, str_mem s l = true <-> In s l.
Proof.
  intros. unfold str_mem. rewrite existsb_exists. split.
  - intros [x [Hx E]]. apply String.eqb_eq in E. now subst.
  - intros. exists s. split; [assumption | apply String.eqb_refl].
Qed.

(* holder chain: x is the framer r or a clone held (transitively) by r *)
Inductive desc (g : list crec) (r : string) : string -> Prop :=
| desc_self : desc g r r
| desc_step : forall c, In c g -> desc g r (c_holder c) -> desc g r (c_name c).

Lemma prune_names_desc : forall which fuel g r x, In x (prune_names which fuel g r) -> desc g r x.
Proof.
  induction fuel; intros g r x H; simpl in H.
  - destruct H as [<-|[]]. constructor.
  - destruct H as [<-|H]; [constructor|].
    apply in_flat_map in H. destruct H as [c [Hc Hx]].
    destruct (String.eqb (c_holder c) r && which c)%bool eqn:E; [|destruct Hx].
    apply andb_prop in E. destruct E as [E _]. apply String.eqb_eq in E.
    specialize (IHfuel _ _ _ Hx).
    clear Hx. induction IHfuel.
    + rewrite <- E. now apply desc_step; [|constructor].
    + now apply desc_step.
Qed.

Lemma prune_names_self : forall which fuel g r, In r (prune_names which fuel g r).
Proof. destruct fuel; simpl; auto. Qed.

Lemma raze_targets_spec : forall g w h f t, In t (raze_targets g w h f) ->
  In t (clones g) /\ c_holder t = h /\ c_frame t = f /\ c_insular t = true /\ c_razeable t = true.
Proof.
  intros g w h f t H.
  assert (R : In t (razeable_in g h f)).
  { destruct w; simpl in H; [assumption| |].
    - destruct (razeable_in g h f); [destruct H|]. destruct H as [<-|[]]. now left.
    - destruct (rev (razeable_in g h f)) eqn:E; [destruct H|]. destruct H as [<-|[]].
      apply in_rev. rewrite E. now left. }
  unfold razeable_in, frame_auxes in R. apply filter_In in R. destruct R as [R1 R2].
  apply filter_In in R1. destruct R1 as [R0 R1]. unfold in_frame in R1.
  apply andb_prop in R1. destruct R1 as [A B]. apply andb_prop in R2. destruct R2 as [C D].
  apply String.eqb_eq in A. apply Nat.eqb_eq in B. auto.
Qed.

Definition dead_of (which : crec -> bool) (g : reg) (w : who) (h : string) (f : nat) : list string :=
  flat_map (fun c => prune_names which (List.length (clones g)) (clones g) (c_name c)) (raze_targets g w h f).

Lemma raze_with_clones : forall which g w h f,
  clones (raze_with which g w h f) = filter (fun c => negb (str_mem (c_name c) (dead_of which g w h f))) (clones g).
Proof. reflexivity. Qed.

Lemma raze_with_names : forall which g w h f,
  names (raze_with which g w h f) = filter (fun n => negb (str_mem n (dead_of which g w h f))) (names g).
Proof. reflexivity. Qed.

(* everything a raze removes from any Frame.auxes is a razeable insular clone of the named frame or is
   held (transitively) by one *)
Lemma raze_only_l : forall g w h f c, In c (clones g) -> ~ In c (clones (raze g w h f)) ->
  exists t, In t (clones g) /\ c_holder t = h /\ c_frame t = f /\ c_insular t = true /\ c_razeable t = true
            /\ In t (raze_targets g w h f) /\ desc (clones g) (c_name t) (c_name c).
Proof.
  intros g w h f c Hc Hn. unfold raze in Hn. rewrite raze_with_clones in Hn.
  destruct (str_mem (c_name c) (dead_of (fun _ => true) g w h f)) eqn:E.
  - apply str_mem_in in E. unfold dead_of in E. apply in_flat_map in E. destruct E as [t [Ht Hx]].
    exists t. destruct (raze_targets_spec _ _ _ _ _ Ht) as [A [B [C [D F]]]].
    repeat split; try assumption. eapply prune_names_desc; eassumption.
  - exfalso. apply Hn. apply filter_In. split; [assumption|]. now rewrite E.
Qed.

Lemma crec_eq_dec : forall a b : crec, {a = b} + {a <> b}.
Proof. decide equality; try apply Bool.bool_dec; try apply Nat.eq_dec; apply string_dec. Qed.

(* a clone that is not held (transitively) by a razed target stays, in the same relative order *)
Lemma raze_keeps_l : forall g w h f c, In c (clones g) ->
  (forall t, In t (raze_targets g w h f) -> ~ desc (clones g) (c_name t) (c_name c)) ->
  In c (clones (raze g w h f)).
Proof.
  intros g w h f c Hc H. destruct (in_dec crec_eq_dec c (clones (raze g w h f))) as [I|N]; [assumption|].
  exfalso. destruct (raze_only_l _ _ _ _ _ Hc N) as [t [_ [_ [_ [_ [_ [T D]]]]]]]. exact (H t T D).
Qed.

Lemma filter_filter_comm : forall A (p q : A -> bool) l, filter p (filter q l) = filter q (filter p l).
Proof.
  induction l; simpl; [reflexivity|].
  destruct (q a) eqn:Q, (p a) eqn:Pa; simpl; rewrite ?Q, ?Pa, IHl; reflexivity.
Qed.

Lemma raze_frame_auxes_l : forall g w h f h' f',
  frame_auxes (raze g w h f) h' f'
  = filter (fun c => negb (str_mem (c_name c) (dead_of (fun _ => true) g w h f))) (frame_auxes g h' f').
Proof. intros. unfold frame_auxes, raze. rewrite raze_with_clones. apply filter_filter_comm. Qed.

(* a razed clone is not runnable and its name is free -- and so is every clone nested in it *)
Lemma razed_dead_l : forall g w h f t x, In t (raze_targets g w h f) ->
  In x (prune_names (fun _ => true) (List.length (clones g)) (clones g) (c_name t)) ->
  ~ In x (names (raze g w h f)) /\ ~ In x (runnable (raze g w h f)).
Proof.
  intros g w h f t x Ht Hx.
  assert (D : In x (dead_of (fun _ => true) g w h f)).
  { unfold dead_of. apply in_flat_map. eauto. }
  split.
  - unfold raze. rewrite raze_with_names. intro I. apply filter_In in I. destruct I as [_ I].
    apply str_mem_in in D. now rewrite D in I.
  - unfold runnable, raze. rewrite raze_with_clones. intro I. apply in_map_iff in I.
    destruct I as [c [<- I]]. apply filter_In in I. destruct I as [_ I].
    apply str_mem_in in D. now rewrite D in I.
Qed.

Lemma raze_runnable_incl : forall g w h f, incl (runnable (raze g w h f)) (runnable g).
Proof.
  intros g w h f x I. unfold runnable, raze in *. rewrite raze_with_clones in I.
  apply in_map_iff in I. destruct I as [c [<- I]]. apply filter_In in I. apply in_map. tauto.
Qed.

Lemma raze_names_incl : forall g w h f, incl (names (raze g w h f)) (names g).
Proof.
  intros g w h f x I. unfold raze in I. rewrite raze_with_names in I. apply filter_In in I. tauto.
Qed.

Definition is_raze (o : rop) : bool := match o with ORaze _ _ _ => true | _ => false end.

(* never again: until some rear registers a (new) framer under that name, no sequence of razes makes it
   runnable or registered again *)
Lemma dead_stays_dead_l : forall ops g x, forallb is_raze ops = true ->
  ~ In x (names g) -> ~ In x (runnable g) ->
  forall g', In g' (run_ops g ops) -> ~ In x (names g') /\ ~ In x (runnable g').
Proof.
  induction ops; intros g x F N R g' I; simpl in *; [destruct I|].
  apply andb_prop in F. destruct F as [Fa F].
  destruct a; [discriminate|]. simpl in I.
  assert (N' : ~ In x (names (raze g w h f))) by (intro; apply N; eapply raze_names_incl; eassumption).
  assert (R' : ~ In x (runnable (raze g w h f))) by (intro; apply R; eapply raze_runnable_incl; eassumption).
  destruct I as [<-|I]; [tauto|]. eapply IHops; eassumption.
Qed.

Lemma nodup_snoc : forall (l : list string) x, NoDup l -> ~ In x l -> NoDup (l ++ [x]).
Proof.
  induction l; intros x N I; simpl.
  - constructor; [intros []|constructor].
  - inversion N; subst. constructor.
    + intro J. apply in_app_or in J. destruct J as [J|[<-|[]]]; [contradiction|]. apply I. now left.
    + apply IHl; [assumption|]. intro J. apply I. now right.
Qed.

(* names of registered framers stay pairwise distinct *)
Lemma register_all_nodup : forall cs g g', NoDup (names g) -> register_all g cs = ROk g' -> NoDup (names g').
Proof.
  induction cs; intros g g' N H; simpl in H.
  - now injection H as <-.
  - destruct (str_mem (c_name a) (names g)) eqn:E; [discriminate|].
    eapply IHcs; [|eassumption]. simpl.
    apply nodup_snoc; [assumption|]. intro I. apply str_mem_in in I. congruence.
Qed.

Lemma register_all_nodup_any : forall cs g g', NoDup (names g) ->
  (register_all g cs = ROk g' \/ register_all g cs = RCloneError g') -> NoDup (names g').
Proof.
  induction cs; intros g g' N H; simpl in H.
  - destruct H as [H|H]; [now injection H as <- | discriminate].
  - destruct (str_mem (c_name a) (names g)) eqn:E.
    + destruct H as [H|H]; [discriminate | now injection H as <-].
    + eapply IHcs; [|eassumption]. simpl.
      apply nodup_snoc; [assumption|]. intro I. apply str_mem_in in I. congruence.
Qed.

Lemma step_op_nodup : forall g o, NoDup (names g) -> NoDup (names (step_op g o)).
Proof.
  intros g o N. destruct o; simpl.
  - unfold rear. destruct (new_tag_str base 0 (aux_tags g h)); [|assumption].
    match goal with |- context [register_all ?a ?b] => destruct (register_all a b) eqn:E end;
      try assumption; eapply register_all_nodup_any; eauto.
  - unfold raze. change (names (raze_with (fun _ => true) g w h f)) with (filter (fun n => negb (str_mem n (dead_of (fun _ => true) g w h f))) (names g)). now apply NoDup_filter.
Qed.

Lemma run_ops_nodup : forall ops g, NoDup (names g) -> forall g', In g' (run_ops g ops) -> NoDup (names g').
Proof.
  induction ops; intros g N g' I; simpl in I; [destruct I|].
  destruct I as [<-|I]; [now apply step_op_nodup|].
  eapply IHops; [|eassumption]. now apply step_op_nodup.
Qed.

(* a successful rear registers the new clone under a name that was free, with a tag that was free *)
Lemma rear_fresh_l : forall g h f base t g', rear g h f base t = ROk g' ->
  exists tg, new_tag_str base 0 (aux_tags g h) = Some tg /\ ~ In tg (aux_tags g h)
             /\ ~ In (surname_tag h tg) (names g) /\ In (surname_tag h tg) (names g').
Proof.
  intros g h f base t g' H. unfold rear in H.
  destruct (new_tag_str base 0 (aux_tags g h)) as [tg|] eqn:E; [|discriminate].
  exists tg. split; [reflexivity|]. split; [apply (new_tag_str_fresh _ _ _ _ E)|].
  simpl in H. destruct (str_mem (surname_tag h tg) (names g)) eqn:M; [discriminate|].
  split.
  - intro I. apply str_mem_in in I. congruence.
  - clear E M.
    assert (K : forall cs g1 g2, register_all g1 cs = ROk g2 -> incl (names g1) (names g2)).
    { induction cs; intros g1 g2 R; simpl in R; [injection R as <-; apply incl_refl|].
      destruct (str_mem (c_name a) (names g1)); [discriminate|].
      apply IHcs in R. simpl in R. intros x Hx. apply R. apply in_or_app. now left. }
    apply (K _ _ _ H). simpl. apply in_or_app. right. now left.
Qed.
