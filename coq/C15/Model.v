(* C15 -- the option loops of the build methods (ioflo/base/building.py): one generic clause-loop
   interpreter driven by the GENERATED tables (coq/gen/C15_Tables.v, tie T).  Hand model (tie H)
   of how each clause kind CONSUMES tokens (the helper parsers parseDirect / parseFields /
   parseIndirect / parseRelation / parsePath and the inline token eaters).  Definitions only.

   What is modelled: which tokens each clause takes (its span) and the structural errors (not
   enough tokens, missing keyword, unknown connective, empty name).  What is NOT modelled: the
   validity of a clause's content (path regexes, identifier format, registry look-ups, option
   values) and what the builder does with it -- both are functions of the clause's own tokens.
   All errors are one class (ParseError): None.                                             *)
From Coq Require Import String.
From Coq Require Import List ZArith Bool.
Import ListNotations.
Require Import V.Lib.C16_Str V.C15.Kinds.
Open Scope Z_scope.

Fixpoint str_eqb (a b : str) : bool :=
  match a, b with
  | [], [] => true
  | x :: a', y :: b' => (x =? y) && str_eqb a' b'
  | _, _ => false
  end.
Definition in_words (w : str) (l : list str) : bool := existsb (str_eqb w) l.
Definition nullb {A} (l : list A) : bool := match l with [] => true | _ => false end.

Definition w_of : str := zs "of"%string.
Definition w_in : str := zs "in"%string.
Definition w_frame : str := zs "frame"%string.
Definition w_framer : str := zs "framer"%string.
Definition w_actor : str := zs "actor"%string.
Definition w_root : str := zs "root"%string.
Definition w_me : str := zs "me"%string.

Definition cons_fst (t : str) (o : option (list str * list str)) : option (list str * list str) :=
  match o with Some (a, b) => Some (t :: a, b) | None => None end.

Fixpoint span (p : str -> bool) (l : list str) : list str * list str :=
  match l with
  | x :: r => if p x then (x :: fst (span p r), snd (span p r)) else ([], l)
  | [] => ([], [])
  end.

Section Clauses.
Variable res : list str.                       (* Reserved *)
Definition reserved (t : str) : bool := in_words t res.

(* optional name: eaten unless Reserved *)
Definition optname (l : list str) : list str * list str :=
  match l with n :: r => if reserved n then ([], l) else ([n], r) | [] => ([], []) end.

(* parseRelation: [of (root|me)] | [of framer [name]] | [of (frame|actor) [name] [relation]] *)
Inductive rst := RStart | ROf | RName (nest : bool).
Fixpoint relS (st : rst) (l : list str) : option (list str * list str) :=
  match l with
  | [] => match st with ROf => None | _ => Some ([], []) end
  | t :: r =>
      match st with
      | RStart => if str_eqb t w_of then cons_fst t (relS ROf r) else Some ([], l)
      | ROf =>
          if str_eqb t w_root || str_eqb t w_me then Some ([t], r)
          else if str_eqb t w_framer then cons_fst t (relS (RName false) r)
          else if str_eqb t w_frame || str_eqb t w_actor then cons_fst t (relS (RName true) r)
          else None
      | RName nest =>
          if reserved t then
            (if nest && str_eqb t w_of then cons_fst t (relS ROf r) else Some ([], l))
          else cons_fst t (if nest then relS RStart r else Some ([], r))
      end
  end.

(* parseIndirect: a path token that is not Reserved, then the optional relation *)
Definition c_indirect (l : list str) : option (list str * list str) :=
  match l with p :: r => if reserved p then None else cons_fst p (relS RStart r) | [] => None end.

(* parseFields: tokens up to 'in' are fields; a Reserved token or the end first: no fields *)
Definition fields (l : list str) : list str * list str :=
  let f := fst (span (fun t => negb (str_eqb t w_in) && negb (reserved t)) l) in
  let r := snd (span (fun t => negb (str_eqb t w_in) && negb (reserved t)) l) in
  match r with t :: r' => if str_eqb t w_in then (f ++ [t], r') else ([], l) | [] => ([], l) end.

Definition direct_len_ok (n : nat) : bool := Nat.eqb n 1 || (Nat.even n && Nat.leb 2 n).

Definition consume (k : ckind) (l : list str) : option (list str * list str) :=
  match k with
  | KFix n => if Nat.leb n (length l) then Some (firstn n l, skipn n l) else None
  | KInFrame =>
      match l with
      | f :: r => if str_eqb f w_frame then
                    match r with x :: r' => Some ([f; x], r') | [] => Some ([f], []) end
                  else None
      | [] => None
      end
  | KInFrameOpt =>
      match l with
      | f :: r => if str_eqb f w_frame then Some (f :: fst (optname r), snd (optname r)) else None
      | [] => None
      end
  | KIndirect => c_indirect l
  | KDirect =>
      let b := fst (span (fun t => negb (reserved t)) l) in
      if direct_len_ok (length b) then Some (b, snd (span (fun t => negb (reserved t)) l)) else None
  | KSourceInd =>
      match c_indirect (snd (fields l)) with
      | Some (b, r) => Some (fst (fields l) ++ b, r)
      | None => None
      end
  | KSourcePath =>
      match snd (fields l) with
      | p :: r => Some (fst (fields l) ++ [p], r)
      | [] => None
      end
  | KNameParts T =>
      let b := fst (span (fun t => negb (in_words t T)) l) in
      if nullb b then None else Some (b, snd (span (fun t => negb (in_words t T)) l))
  | KTrailing => Some (l, [])
  end.

Fixpoint lookup {A} (c : str) (l : list (str * A)) : option A :=
  match l with (k, v) :: r => if str_eqb c k then Some v else lookup c r | [] => None end.

Definition clause := (str * list str)%type.     (* connective, the tokens it consumed *)

(* the option loop: one unit of fuel per clause *)
Fixpoint parse_opts (V : verb) (fuel : nat) (l : list str) : option (list clause * list str) :=
  match l with
  | [] => Some ([], [])
  | c :: rest =>
      match fuel with
      | O => None
      | S f =>
          match lookup c (vclauses V) with
          | None => if vstrict V then None else Some ([], l)
          | Some k =>
              match consume k rest with
              | None => None
              | Some (b, rest') =>
                  match parse_opts V f rest' with
                  | Some (acc, r) => Some ((c, b) :: acc, r)
                  | None => None
                  end
              end
          end
      end
  end.

Definition take_head (h : head) (l : list str) : option (list str * list str) :=
  match h with
  | HPos n => if Nat.leb n (length l) then Some (firstn n l, skipn n l) else None
  | HParts T => let b := fst (span (fun t => negb (in_words t T)) l) in
                if nullb b then None else Some (b, snd (span (fun t => negb (in_words t T)) l))
  | HNeed => Some ([], l)
  end.

(* head tokens, clauses in the order written, unparsed rest (lenient loops only) *)
Definition parse_cmd (V : verb) (l : list str) : option (list str * list clause * list str) :=
  match take_head (vhead V) l with
  | None => None
  | Some (h, r) =>
      match parse_opts V (length r) r with
      | Some (acc, r') => Some (h, acc, r')
      | None => None
      end
  end.

(* what the command MEANS: for every connective of the verb, the tokens of its clause *)
Definition clause_map (V : verb) (cs : list clause) : list (option (list str)) :=
  map (fun ck => lookup (fst ck) cs) (vclauses V).
Definition result (V : verb) (o : option (list str * list clause * list str))
  : option (list str * list (option (list str)) * list str) :=
  match o with Some (h, cs, r) => Some (h, clause_map V cs, r) | None => None end.

Definition flatten (cs : list clause) : list str := concat (map (fun cb => fst cb :: snd cb) cs).

(* ---- well-formedness ---- *)
(* a token that ends a clause of kind k exactly where the clause ends *)
Definition stop_ok (k : ckind) (c : str) : bool :=
  match k with
  | KFix _ | KInFrame => true
  | KInFrameOpt | KDirect => reserved c
  | KIndirect => reserved c && negb (str_eqb c w_of)
  | KSourceInd => reserved c && negb (str_eqb c w_of) && negb (str_eqb c w_in)
  | KSourcePath => reserved c && negb (str_eqb c w_in)
  | KNameParts T => in_words c T
  | KTrailing => false
  end.
Definition head_stop_ok (h : head) (c : str) : bool :=
  match h with HParts T => in_words c T | _ => true end.

(* c ends every clause of the sub-table S (and the head) *)
Definition stops_all (V : verb) (S : list str) (c : str) : bool :=
  head_stop_ok (vhead V) c &&
  forallb (fun s => match lookup s (vclauses V) with Some k => stop_ok k c | None => false end) S.

(* the sub-table S of verb V can be permuted: every connective of S ends every clause of S *)
Definition wf_sub (V : verb) (S : list str) : bool :=
  forallb (stops_all V S) S.

(* a clause body that parses completely when it stands last *)
Definition body_ok (k : ckind) (b : list str) : bool :=
  match consume k b with
  | Some (b', r) => nullb r && Nat.eqb (length b') (length b)
                    && match k with KInFrame => Nat.eqb (length b) 2 | KTrailing => false | _ => true end
  | None => false
  end.
Definition clause_ok (V : verb) (S : list str) (cb : clause) : bool :=
  in_words (fst cb) S &&
  match lookup (fst cb) (vclauses V) with Some k => body_ok k (snd cb) | None => false end.
Definition head_ok (h : head) (hd : list str) : bool :=
  match take_head h hd with Some (b, r) => nullb r && Nat.eqb (length b) (length hd) | None => false end.
Definition tail_ok (V : verb) (S : list str) (rest : list str) : bool :=
  match rest with [] => true | c :: _ => stops_all V S c end.

(* ---- content validity of one-token clauses (tables extracted from the branches) ---- *)
Definition is_upper (c : Z) : bool := (65 <=? c) && (c <=? 90).
Definition is_lower (c : Z) : bool := (97 <=? c) && (c <=? 122).
Definition is_digit (c : Z) : bool := (48 <=? c) && (c <=? 57).
(* str.capitalize() on ASCII: first letter upper, the others lower *)
Definition capitalize (w : str) : str :=
  match w with
  | [] => []
  | c :: r => (if is_lower c then c - 32 else c) :: map (fun x => if is_upper x then x + 32 else x) r
  end.
(* REO_IdentPub  [a-zA-Z] then word characters, ASCII *)
Definition ident_pub (w : str) : bool :=
  match w with
  | [] => false
  | c :: r => (is_upper c || is_lower c)
              && forallb (fun x => is_upper x || is_lower x || is_digit x || (x =? 95)) r
  end.
Definition valid_body (v : vkind) (b : list str) : bool :=
  match v with
  | VAny | VNum => true
  | VOneOf l => match b with [t] => in_words t l | _ => false end
  | VOneOfCap l => match b with [t] => in_words (capitalize t) l | _ => false end
  | VName => match b with [t] => ident_pub t && negb (reserved t) | _ => false end
  end.
Definition valid_clause (vt : list (str * vkind)) (cb : clause) : bool :=
  match lookup (fst cb) vt with Some v => valid_body v (snd cb) | None => true end.

(* the command with an arbitrary per-clause content check: any failing clause is a ParseError *)
Definition checked (valid : clause -> bool) (o : option (list str * list clause * list str))
  : option (list str * list clause * list str) :=
  match o with
  | Some (h, cs, r) => if forallb valid cs then Some (h, cs, r) else None
  | None => None
  end.

End Clauses.
