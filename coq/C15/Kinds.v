(* C15 -- types of the generated clause tables (definitions only). *)
From Coq Require Import List ZArith.
Import ListNotations.
Open Scope Z_scope.

Definition str := list Z.          (* a token / word: code points *)

(* how the branch of a connective consumes the tokens that follow it *)
Inductive ckind :=
| KFix (n : nat)                 (* exactly n tokens, whatever they are *)
| KInFrame                       (* keyword frame, then one more token whenever there is one *)
| KInFrameOpt                    (* keyword frame, then a name unless the next token is Reserved *)
| KIndirect                      (* parseIndirect: path [of relation [name] [of ...]] *)
| KDirect                        (* parseDirect: value | field value ... up to a Reserved token *)
| KSourceInd                     (* parseFields ([fields in]) then parseIndirect *)
| KSourcePath                    (* parseFields ([fields in]) then parsePath (one token) *)
| KNameParts (terms : list str)  (* name parts up to a token of the literal list *)
| KTrailing.                     (* the rest of the command (aux ... if needs) *)

Inductive head :=
| HPos (n : nat)                 (* n positional tokens *)
| HParts (terms : list str)      (* name parts up to a token of the literal list (do kind ...) *)
| HNeed.                         (* clauses embedded in a need: what precedes is not modelled *)

Record verb := mkverb { vname : str; vhead : head; vstrict : bool; vclauses : list (str * ckind) }.

(* content check of a one-token clause, as extracted from the branch *)
Inductive vkind :=
| VAny                           (* no check in the branch (or not a one-token clause) *)
| VNum                           (* Convert2Num must accept it: C17's converters, not modelled here *)
| VOneOf (l : list str)          (* the token must be one of the list / a key of the option table *)
| VOneOfCap (l : list str)       (* ... after str.capitalize() *)
| VName.                         (* verifyName: REO_IdentPub and not Reserved *)
