(* C15 -- lemmas: every clause kind takes exactly its own tokens when followed by a stopper
   (no_absorb), the option loop recovers the clause list, the clause map is permutation
   invariant; well-formedness of the GENERATED tables by computation. *)
From Coq Require Import String.
From Coq Require Import List ZArith Bool Lia Permutation.
Import ListNotations.
Require Import V.Lib.C16_Str V.C15.Kinds V.C15.Model V.gen.C15_Tables.
Open Scope Z_scope.

Lemma str_eqb_refl : forall a, str_eqb a a = true.
Proof. induction a; simpl; auto. rewrite Z.eqb_refl. auto. Qed.

Lemma str_eqb_eq : forall a b, str_eqb a b = true -> a = b.
Proof.
  induction a; destruct b; simpl; intros; try discriminate; auto.
  apply andb_true_iff in H as [H1 H2]. apply Z.eqb_eq in H1. subst. f_equal. auto.
Qed.

Lemma str_eqb_sym : forall a b, str_eqb a b = str_eqb b a.
Proof.
  induction a; destruct b; simpl; auto. rewrite Z.eqb_sym. rewrite IHa. reflexivity.
Qed.

(* ---------- span ---------- *)
Lemma span_split : forall p l, fst (span p l) ++ snd (span p l) = l.
Proof. induction l; simpl; auto. destruct (p a); simpl; auto. f_equal. auto. Qed.

Lemma span_all : forall p l, snd (span p l) = [] -> forallb p l = true.
Proof.
  induction l; simpl; intros; auto. destruct (p a) eqn:E; simpl in *; auto. discriminate.
Qed.

Lemma span_stop : forall p b c rest, forallb p b = true -> p c = false ->
  span p (b ++ c :: rest) = (b, c :: rest).
Proof.
  induction b; simpl; intros. { rewrite H0. reflexivity. }
  apply andb_true_iff in H as [H1 H2]. rewrite H1. rewrite IHb by auto. reflexivity.
Qed.

Lemma span_full : forall p b, forallb p b = true -> span p b = (b, []).
Proof.
  induction b; simpl; intros; auto. apply andb_true_iff in H as [H1 H2]. rewrite H1, IHb by auto. reflexivity.
Qed.

(* the scan stopped inside b: appending does not change where *)
Lemma span_app_stopped : forall p b x, snd (span p b) <> [] ->
  span p (b ++ x) = (fst (span p b), snd (span p b) ++ x).
Proof.
  induction b; simpl; intros. { contradiction. }
  destruct (p a) eqn:E; simpl in *.
  - rewrite IHb by auto. reflexivity.
  - reflexivity.
Qed.

Section WithRes.
Variable res : list str.
Notation reserved := (reserved res).
Notation consume := (consume res).
Notation relS := (relS res).
Notation c_indirect := (c_indirect res).
Notation fields := (fields res).
Notation optname := (optname res).
Notation stop_ok := (stop_ok res).

(* ---------- consume returns a split of its input ---------- *)
Lemma relS_split : forall l st b r, relS st l = Some (b, r) -> b ++ r = l.
Proof.
  induction l as [|t l IH]; intros st b r H; simpl in H.
  - destruct st; inversion H; reflexivity.
  - destruct st.
    + destruct (str_eqb t w_of).
      * destruct (relS ROf l) as [[a c]|] eqn:E; simpl in H; inversion H; subst. simpl. f_equal. eauto.
      * inversion H. reflexivity.
    + destruct (str_eqb t w_root || str_eqb t w_me). { inversion H. reflexivity. }
      destruct (str_eqb t w_framer).
      { destruct (relS (RName false) l) as [[a c]|] eqn:E; simpl in H; inversion H; subst. simpl. f_equal. eauto. }
      destruct (str_eqb t w_frame || str_eqb t w_actor); [|discriminate].
      destruct (relS (RName true) l) as [[a c]|] eqn:E; simpl in H; inversion H; subst. simpl. f_equal. eauto.
    + destruct (reserved t).
      * destruct (nest && str_eqb t w_of).
        -- destruct (relS ROf l) as [[a c]|] eqn:E; simpl in H; inversion H; subst. simpl. f_equal. eauto.
        -- inversion H. reflexivity.
      * destruct nest.
        -- destruct (relS RStart l) as [[a c]|] eqn:E; simpl in H; inversion H; subst. simpl. f_equal. eauto.
        -- simpl in H. inversion H. reflexivity.
Qed.

Lemma c_indirect_split : forall l b r, c_indirect l = Some (b, r) -> b ++ r = l.
Proof.
  intros [|p l] b r H; simpl in H; [discriminate|]. destruct (reserved p); [discriminate|].
  destruct (relS RStart l) as [[a c]|] eqn:E; simpl in H; inversion H; subst. simpl. f_equal.
  eapply relS_split; eauto.
Qed.

Lemma fields_split : forall l, fst (fields l) ++ snd (fields l) = l.
Proof.
  intros l. unfold fields.
  pose proof (span_split (fun t => negb (str_eqb t w_in) && negb (reserved t)) l) as Hs.
  destruct (snd (span (fun t => negb (str_eqb t w_in) && negb (reserved t)) l)) as [|t r'] eqn:E; simpl; auto.
  destruct (str_eqb t w_in); simpl; auto. rewrite <- app_assoc. simpl. exact Hs.
Qed.

Lemma optname_split : forall l, fst (optname l) ++ snd (optname l) = l.
Proof. intros [|n r]; simpl; auto. destruct (reserved n); reflexivity. Qed.

Lemma consume_split : forall k l b r, consume k l = Some (b, r) -> b ++ r = l.
Proof.
  intros k l b r H. destruct k; simpl in H.
  - destruct (Nat.leb n (length l)); inversion H. apply firstn_skipn.
  - destruct l as [|f l]; [discriminate|]. destruct (str_eqb f w_frame); [|discriminate].
    destruct l; inversion H; reflexivity.
  - destruct l as [|f l]; [discriminate|]. destruct (str_eqb f w_frame); [|discriminate].
    inversion H. simpl. f_equal. apply optname_split.
  - apply c_indirect_split; auto.
  - destruct (direct_len_ok _); inversion H. apply span_split.
  - destruct (c_indirect (snd (fields l))) as [[a c]|] eqn:E; inversion H; subst.
    apply c_indirect_split in E. rewrite <- app_assoc, E. apply fields_split.
  - destruct (snd (fields l)) as [|p r'] eqn:E; inversion H; subst.
    rewrite <- app_assoc. simpl. rewrite <- E. apply fields_split.
  - destruct (nullb _); inversion H. apply span_split.
  - inversion H. apply app_nil_r.
Qed.

Lemma body_ok_consume : forall k b, body_ok res k b = true -> consume k b = Some (b, []).
Proof.
  intros k b H. unfold body_ok in H. destruct (consume k b) as [[b' r]|] eqn:E; [|discriminate].
  apply andb_true_iff in H as [H _]. apply andb_true_iff in H as [H _].
  destruct r; [|discriminate]. apply consume_split in E. rewrite app_nil_r in E. subst. reflexivity.
Qed.

(* ---------- no_absorb, kind by kind ---------- *)
Lemma relS_exact : forall b st c rest, relS st b = Some (b, []) ->
  reserved c = true -> str_eqb c w_of = false ->
  relS st (b ++ c :: rest) = Some (b, c :: rest).
Proof.
  induction b as [|t b IH]; intros st c rest H Hc Ho.
  - simpl in *. destruct st; try discriminate.
    + rewrite Ho. reflexivity.
    + rewrite Hc. rewrite Ho. rewrite andb_false_r. reflexivity.
  - simpl in *. destruct st.
    + destruct (str_eqb t w_of); [|discriminate].
      destruct (relS ROf b) as [[a d]|] eqn:E; simpl in H; [|discriminate]. inversion H; subst.
      rewrite IH; auto.
    + destruct (str_eqb t w_root || str_eqb t w_me). { inversion H; subst. reflexivity. }
      destruct (str_eqb t w_framer).
      { destruct (relS (RName false) b) as [[a d]|] eqn:E; simpl in H; [|discriminate]. inversion H; subst.
        rewrite IH; auto. }
      destruct (str_eqb t w_frame || str_eqb t w_actor); [|discriminate].
      destruct (relS (RName true) b) as [[a d]|] eqn:E; simpl in H; [|discriminate]. inversion H; subst.
      rewrite IH; auto.
    + destruct (reserved t).
      * destruct (nest && str_eqb t w_of); [|discriminate].
        destruct (relS ROf b) as [[a d]|] eqn:E; simpl in H; [|discriminate]. inversion H; subst.
        rewrite IH; auto.
      * destruct nest.
        -- destruct (relS RStart b) as [[a d]|] eqn:E; simpl in H; [|discriminate]. inversion H; subst.
           rewrite IH; auto.
        -- simpl in H. inversion H; subst. reflexivity.
Qed.

Lemma c_indirect_exact : forall b c rest, c_indirect b = Some (b, []) ->
  reserved c = true -> str_eqb c w_of = false ->
  c_indirect (b ++ c :: rest) = Some (b, c :: rest).
Proof.
  intros [|p b] c rest H Hc Ho; simpl in *; [discriminate|].
  destruct (reserved p); [discriminate|].
  destruct (relS RStart b) as [[a d]|] eqn:E; simpl in H; [|discriminate]. inversion H; subst.
  rewrite relS_exact; auto.
Qed.

Definition fp := fun t => negb (str_eqb t w_in) && negb (Model.reserved res t).

Lemma fields_exact : forall b c rest, reserved c = true -> str_eqb c w_in = false ->
  fields (b ++ c :: rest) = (fst (fields b), snd (fields b) ++ c :: rest).
Proof.
  intros b c rest Hc Hi. unfold fields. fold fp.
  destruct (snd (span fp b)) as [|t r'] eqn:E.
  - (* the scan ran to the end of b: it stops at c *)
    pose proof (span_all fp b E) as Hall.
    rewrite span_stop; auto. 2:{ unfold fp. rewrite Hc. apply andb_false_r. }
    simpl. rewrite Hi. reflexivity.
  - rewrite span_app_stopped by (rewrite E; discriminate). rewrite E. simpl.
    destruct (str_eqb t w_in); reflexivity.
Qed.

Lemma firstn_exact : forall (b : list str) x, firstn (length b) (b ++ x) = b.
Proof. intros. rewrite firstn_app, Nat.sub_diag, firstn_all. simpl. apply app_nil_r. Qed.
Lemma skipn_exact : forall (b : list str) x, skipn (length b) (b ++ x) = x.
Proof. intros. rewrite skipn_app, Nat.sub_diag, skipn_all. reflexivity. Qed.

Lemma optname_exact : forall b c rest, optname b = (b, []) -> reserved c = true ->
  optname (b ++ c :: rest) = (b, c :: rest).
Proof.
  intros [|n r] c rest H Hc; simpl in *.
  - rewrite Hc. reflexivity.
  - destruct (reserved n); inversion H; subst. reflexivity.
Qed.

Theorem no_absorb_clause : forall k b c rest,
  body_ok res k b = true -> stop_ok k c = true ->
  consume k (b ++ c :: rest) = Some (b, c :: rest).
Proof.
  intros k b c rest Hb Hs. pose proof (body_ok_consume k b Hb) as H.
  destruct k; simpl in *.
  - (* KFix *)
    destruct (Nat.leb n (length b)) eqn:L; [|discriminate]. injection H as H1 H2.
    assert (length b = n).
    { apply Nat.leb_le in L. assert (HL : length (skipn n b) = 0%nat) by (rewrite H2; reflexivity).
      rewrite skipn_length in HL. lia. }
    subst n. rewrite app_length. replace (Nat.leb (length b) (length b + length (c :: rest))) with true
      by (symmetry; apply Nat.leb_le; lia).
    rewrite firstn_exact, skipn_exact. reflexivity.
  - (* KInFrame: body has exactly two tokens *)
    unfold body_ok in Hb. simpl in Hb.
    destruct b as [|f b]; [discriminate|]. destruct (str_eqb f w_frame) eqn:F; [|discriminate].
    destruct b as [|x b]; simpl in Hb; [discriminate|].
    inversion H; subst. simpl. rewrite F. reflexivity.
  - (* KInFrameOpt *)
    destruct b as [|f b]; [discriminate|]. destruct (str_eqb f w_frame) eqn:F; [|discriminate].
    injection H as H1 H2. simpl. rewrite F.
    assert (optname b = (b, [])) by (rewrite (surjective_pairing (optname b)), H1, H2; reflexivity).
    rewrite optname_exact; auto.
  - (* KIndirect *)
    apply andb_true_iff in Hs as [Hr Ho]. apply negb_true_iff in Ho. apply c_indirect_exact; auto.
  - (* KDirect *)
    destruct (direct_len_ok _) eqn:D; [|discriminate]. injection H as H1 H2.
    pose proof (span_all _ _ H2) as Hall.
    rewrite span_stop; auto. 2:{ rewrite Hs. reflexivity. } simpl.
    rewrite H1 in D. rewrite D. reflexivity.
  - (* KSourceInd *)
    apply andb_true_iff in Hs as [Hs Hi]. apply andb_true_iff in Hs as [Hr Ho].
    apply negb_true_iff in Ho, Hi.
    rewrite fields_exact by auto. simpl.
    destruct (c_indirect (snd (fields b))) as [[a d]|] eqn:E; [|discriminate]. injection H as H1 H2. subst d.
    pose proof (c_indirect_split _ _ _ E) as Hsp. rewrite app_nil_r in Hsp. subst a.
    rewrite c_indirect_exact; auto. rewrite H1. reflexivity.
  - (* KSourcePath *)
    apply andb_true_iff in Hs as [Hr Hi]. apply negb_true_iff in Hi.
    rewrite fields_exact by auto. simpl.
    destruct (snd (fields b)) as [|p r'] eqn:E; [discriminate|]. injection H as H1 H2. subst r'.
    simpl. rewrite H1. reflexivity.
  - (* KNameParts *)
    destruct (nullb _) eqn:N; [discriminate|]. injection H as H1 H2.
    pose proof (span_all _ _ H2) as Hall.
    rewrite span_stop; auto. 2:{ rewrite Hs. reflexivity. } simpl.
    rewrite H1 in N. rewrite N. reflexivity.
  - discriminate.
Qed.

(* ---------- the option loop recovers the clauses ---------- *)
Notation parse_opts := (parse_opts res).
Notation clause_ok := (clause_ok res).
Notation stops_all := (stops_all res).
Notation wf_sub := (wf_sub res).
Notation tail_ok := (tail_ok res).

Lemma in_words_In : forall w l, in_words w l = true -> In w l.
Proof.
  induction l; simpl; intros; [discriminate|]. apply orb_true_iff in H as [H | H]; auto.
  left. symmetry. apply str_eqb_eq. auto.
Qed.

Lemma stops_all_stop : forall V S c s k, stops_all V S c = true -> In s S ->
  lookup s (vclauses V) = Some k -> stop_ok k c = true.
Proof.
  intros V S c s k H Hin Hl. unfold Model.stops_all in H. apply andb_true_iff in H as [_ H].
  rewrite forallb_forall in H. specialize (H s Hin). rewrite Hl in H. exact H.
Qed.

Definition next_ok (V : verb) (S : list str) (l : list str) : Prop :=
  match l with [] => True | c :: _ => stops_all V S c = true end.

Lemma parse_flatten : forall V S cs rest f,
  forallb (clause_ok V S) cs = true -> next_ok V S rest ->
  wf_sub V S = true ->
  parse_opts V (length cs + f) (flatten cs ++ rest) =
  match parse_opts V f rest with Some (acc, r) => Some (cs ++ acc, r) | None => None end.
Proof.
  induction cs as [|[c b] cs IH]; intros rest f Hcs Hn Hwf.
  - simpl. destruct (parse_opts V f rest) as [[acc r]|]; reflexivity.
  - simpl in Hcs. apply andb_true_iff in Hcs as [Hc Hcs]. unfold Model.clause_ok in Hc. simpl in Hc.
    apply andb_true_iff in Hc as [HinS Hk].
    destruct (lookup c (vclauses V)) as [k|] eqn:L; [|discriminate].
    unfold flatten. simpl. fold (flatten cs). rewrite L.
    (* what follows the body: the next clause's connective, or the tail *)
    assert (Hnext : consume k ((b ++ flatten cs) ++ rest) = Some (b, flatten cs ++ rest)).
    { rewrite <- app_assoc. destruct (flatten cs ++ rest) as [|c' more] eqn:E.
      - rewrite app_nil_r. apply body_ok_consume. auto.
      - apply no_absorb_clause; auto.
        assert (Hs : stops_all V S c' = true).
        { destruct cs as [|[c2 b2] cs'].
          - simpl in E. subst rest. exact Hn.
          - unfold flatten in E. simpl in E. inversion E; subst.
            simpl in Hcs. apply andb_true_iff in Hcs as [Hc2 _]. unfold Model.clause_ok in Hc2.
            apply andb_true_iff in Hc2 as [Hin2 _]. simpl in Hin2.
            unfold Model.wf_sub in Hwf. rewrite forallb_forall in Hwf. apply Hwf. apply in_words_In. auto. }
        eapply stops_all_stop; eauto. apply in_words_In; auto. }
    rewrite <- app_assoc in Hnext. rewrite <- app_assoc. rewrite Hnext.
    rewrite IH by auto. destruct (parse_opts V f rest) as [[acc r]|]; reflexivity.
Qed.

(* ---------- the clause map does not depend on the order ---------- *)
Lemma lookup_swap : forall (x y : clause) l c, fst x <> fst y ->
  lookup c (x :: y :: l) = lookup c (y :: x :: l).
Proof.
  intros [kx vx] [ky vy] l c Hne. simpl in *.
  destruct (str_eqb c kx) eqn:E1; destruct (str_eqb c ky) eqn:E2; auto.
  apply str_eqb_eq in E1, E2. subst. contradiction.
Qed.

Lemma lookup_perm : forall (l1 l2 : list clause), Permutation l1 l2 -> NoDup (map fst l1) ->
  forall c, lookup c l1 = lookup c l2.
Proof.
  induction 1; intros Hnd c.
  - reflexivity.
  - destruct x as [k v]. simpl. destruct (str_eqb c k); auto. apply IHPermutation. inversion Hnd; auto.
  - apply lookup_swap. simpl in Hnd. inversion Hnd as [|? ? Hnin _]; subst.
    intro E. apply Hnin. left. auto.
  - rewrite IHPermutation1 by auto. apply IHPermutation2.
    eapply Permutation_NoDup; [|exact Hnd]. apply Permutation_map. auto.
Qed.

Lemma lookup_app : forall (a b : list clause) c,
  lookup c (a ++ b) = match lookup c a with Some v => Some v | None => lookup c b end.
Proof.
  induction a as [|[k v] a IH]; intros; simpl; auto. destruct (str_eqb c k); auto.
Qed.

Lemma clause_map_perm : forall V cs1 cs2 acc, Permutation cs1 cs2 -> NoDup (map fst cs1) ->
  clause_map V (cs1 ++ acc) = clause_map V (cs2 ++ acc).
Proof.
  intros. unfold clause_map. apply map_ext. intros ck. rewrite !lookup_app.
  rewrite (lookup_perm cs1 cs2) by auto. reflexivity.
Qed.

Definition bodies_len (cs : list clause) : nat := fold_right (fun cb n => (length (snd cb) + n)%nat) 0%nat cs.

Lemma flatten_length : forall cs, length (flatten cs) = (length cs + bodies_len cs)%nat.
Proof.
  induction cs as [|[c b] cs IH]; simpl; auto. unfold flatten in *. simpl.
  rewrite app_length. simpl in IH. rewrite IH. lia.
Qed.

Lemma bodies_len_perm : forall cs1 cs2, Permutation cs1 cs2 -> bodies_len cs1 = bodies_len cs2.
Proof. induction 1; simpl; try lia. Qed.

Lemma forallb_perm : forall (f : clause -> bool) l1 l2, Permutation l1 l2 -> forallb f l1 = true -> forallb f l2 = true.
Proof.
  intros f l1 l2 HP H. rewrite forallb_forall in *. intros x Hx. apply H.
  eapply Permutation_in; [apply Permutation_sym; exact HP | exact Hx].
Qed.

Notation parse_cmd := (parse_cmd res).

(* parse of  head ++ clauses ++ rest  =  head, the clauses as written, then whatever the
   loop makes of rest *)
Theorem no_absorb_proof : forall V S hd cs rest,
  wf_sub V S = true -> head_ok (vhead V) hd = true ->
  forallb (clause_ok V S) cs = true -> tail_ok V S rest = true ->
  (cs <> [] -> True) ->
  parse_cmd V (hd ++ flatten cs ++ rest) =
  match parse_opts V (bodies_len cs + length rest) rest with
  | Some (acc, r) => Some (hd, cs ++ acc, r)
  | None => None
  end.
Proof.
  intros V S hd cs rest Hwf Hh Hcs Ht _.
  assert (Hnext : next_ok V S rest). { destruct rest; simpl in *; auto. }
  (* the head takes exactly hd *)
  assert (Hhead : take_head (vhead V) (hd ++ flatten cs ++ rest) = Some (hd, flatten cs ++ rest)).
  { unfold head_ok in Hh. destruct (take_head (vhead V) hd) as [[b r]|] eqn:E; [|discriminate].
    apply andb_true_iff in Hh as [Hr _]. destruct r; [|discriminate].
    destruct (vhead V) as [n | T |] eqn:HV; simpl in *.
    - destruct (Nat.leb n (length hd)) eqn:L; [|discriminate]. injection E as E1 E2.
      assert (length hd = n).
      { apply Nat.leb_le in L. assert (HL : length (skipn n hd) = 0%nat) by (rewrite E2; reflexivity).
        rewrite skipn_length in HL. lia. }
      subst n. rewrite app_length.
      replace (Nat.leb (length hd) (length hd + length (flatten cs ++ rest))) with true
        by (symmetry; apply Nat.leb_le; lia).
      rewrite firstn_exact, skipn_exact. reflexivity.
    - destruct (nullb _) eqn:N; [discriminate|]. injection E as E1 E2.
      pose proof (span_all _ _ E2) as Hall.
      pose proof (span_split (fun t => negb (in_words t T)) hd) as Hsp. rewrite E1, E2, app_nil_r in Hsp.
      assert (E1' : fst (span (fun t => negb (in_words t T)) hd) = hd) by congruence.
      subst b. rewrite E1' in N.
      destruct (flatten cs ++ rest) as [|c' more] eqn:F.
      + rewrite app_nil_r. rewrite span_full by auto. simpl. rewrite N. reflexivity.
      + assert (Hs : stops_all V S c' = true).
        { destruct cs as [|[c2 b2] cs'].
          - simpl in F. subst rest. exact Hnext.
          - unfold flatten in F. simpl in F. inversion F; subst.
            simpl in Hcs. apply andb_true_iff in Hcs as [Hc2 _]. unfold Model.clause_ok in Hc2.
            apply andb_true_iff in Hc2 as [Hin2 _]. simpl in Hin2.
            unfold Model.wf_sub in Hwf. rewrite forallb_forall in Hwf. apply Hwf. apply in_words_In. auto. }
        unfold Model.stops_all in Hs. apply andb_true_iff in Hs as [Hs _]. rewrite HV in Hs. simpl in Hs.
        rewrite span_stop; auto. 2:{ rewrite Hs. reflexivity. }
        simpl. rewrite N. reflexivity.
    - inversion E; subst. simpl. reflexivity. }
  unfold Model.parse_cmd. rewrite Hhead.
  rewrite app_length, flatten_length.
  replace (length cs + bodies_len cs + length rest)%nat with (length cs + (bodies_len cs + length rest))%nat by lia.
  rewrite (parse_flatten V S) by auto.
  destruct (parse_opts V (bodies_len cs + length rest) rest) as [[acc r]|]; reflexivity.
Qed.

Theorem clause_perm_invariant_proof : forall V S hd cs1 cs2 rest,
  wf_sub V S = true -> head_ok (vhead V) hd = true ->
  forallb (clause_ok V S) cs1 = true -> NoDup (map fst cs1) ->
  Permutation cs1 cs2 -> tail_ok V S rest = true ->
  result V (parse_cmd V (hd ++ flatten cs1 ++ rest)) = result V (parse_cmd V (hd ++ flatten cs2 ++ rest)).
Proof.
  intros V S hd cs1 cs2 rest Hwf Hh Hcs Hnd HP Ht.
  rewrite (no_absorb_proof V S hd cs1 rest) by auto.
  rewrite (no_absorb_proof V S hd cs2 rest) by (eauto using forallb_perm).
  rewrite (bodies_len_perm cs1 cs2 HP).
  destruct (parse_opts V (bodies_len cs2 + length rest) rest) as [[acc r]|]; [|reflexivity].
  unfold result. do 3 f_equal. apply clause_map_perm; auto.
Qed.

Lemma forallb_perm_eq : forall (f : clause -> bool) l1 l2, Permutation l1 l2 -> forallb f l1 = forallb f l2.
Proof.
  induction 1; simpl; auto.
  - rewrite IHPermutation. reflexivity.
  - destruct (f x), (f y); reflexivity.
  - congruence.
Qed.

(* with ANY per-clause content check the outcome (same clause map, or ParseError) is the same *)
Theorem checked_perm_invariant_proof : forall (valid : clause -> bool) V S hd cs1 cs2 rest,
  wf_sub V S = true -> head_ok (vhead V) hd = true ->
  forallb (clause_ok V S) cs1 = true -> NoDup (map fst cs1) ->
  Permutation cs1 cs2 -> tail_ok V S rest = true ->
  result V (checked valid (parse_cmd V (hd ++ flatten cs1 ++ rest))) =
  result V (checked valid (parse_cmd V (hd ++ flatten cs2 ++ rest))).
Proof.
  intros valid V S hd cs1 cs2 rest Hwf Hh Hcs Hnd HP Ht.
  rewrite (no_absorb_proof V S hd cs1 rest) by auto.
  rewrite (no_absorb_proof V S hd cs2 rest) by (eauto using forallb_perm).
  rewrite (bodies_len_perm cs1 cs2 HP).
  destruct (parse_opts V (bodies_len cs2 + length rest) rest) as [[acc r]|]; [|reflexivity].
  unfold checked. rewrite !forallb_app. rewrite (forallb_perm_eq valid cs1 cs2 HP).
  destruct (forallb valid cs2 && forallb valid acc); [|reflexivity].
  unfold result. do 3 f_equal. apply clause_map_perm; auto.
Qed.

End WithRes.

(* ---------- the generated tables ---------- *)
Require Import V.C15.Tables.

Lemma tables_wf_proof : forallb table_ok permutable_tables = true.
Proof. vm_compute. reflexivity. Qed.

(* the trailing condition clause of aux ends every permuted aux clause *)
Lemma aux_tail_proof : stops_all gen_reserved verb_aux (W ["as"; "via"]%string) (zs "if"%string) = true.
Proof. vm_compute. reflexivity. Qed.

Lemma generated_any_order_proof : forall V S, In (V, S) permutable_tables ->
  forall hd cs1 cs2 rest,
  head_ok (vhead V) hd = true ->
  forallb (clause_ok gen_reserved V S) cs1 = true -> NoDup (map fst cs1) ->
  Permutation cs1 cs2 -> tail_ok gen_reserved V S rest = true ->
  result V (parse_cmd gen_reserved V (hd ++ flatten cs1 ++ rest)) =
  result V (parse_cmd gen_reserved V (hd ++ flatten cs2 ++ rest)).
Proof.
  intros V S Hin. pose proof tables_wf_proof as H. rewrite forallb_forall in H.
  specialize (H (V, S) Hin). unfold table_ok in H. apply andb_true_iff in H as [Hwf _]. simpl in Hwf.
  intros. apply (clause_perm_invariant_proof gen_reserved V S); auto.
Qed.

Lemma generated_any_order_checked_proof : forall V S, In (V, S) permutable_tables ->
  forall (valid : clause -> bool) hd cs1 cs2 rest,
  head_ok (vhead V) hd = true ->
  forallb (clause_ok gen_reserved V S) cs1 = true -> NoDup (map fst cs1) ->
  Permutation cs1 cs2 -> tail_ok gen_reserved V S rest = true ->
  result V (checked valid (parse_cmd gen_reserved V (hd ++ flatten cs1 ++ rest))) =
  result V (checked valid (parse_cmd gen_reserved V (hd ++ flatten cs2 ++ rest))).
Proof.
  intros V S Hin. pose proof tables_wf_proof as H. rewrite forallb_forall in H.
  specialize (H (V, S) Hin). unfold table_ok in H. apply andb_true_iff in H as [Hwf _]. simpl in Hwf.
  intros. apply (checked_perm_invariant_proof gen_reserved valid V S); auto.
Qed.
