(* C15 -- property theorems only.  Each closed by [exact]; Print Assumptions beneath. *)
From Coq Require Import String.
From Coq Require Import List ZArith Bool Permutation.
Import ListNotations.
Require Import V.Lib.C16_Str V.C15.Kinds V.C15.Model V.gen.C15_Tables V.C15.Tables V.C15.Proofs.
Open Scope Z_scope.

(* For EVERY reserved list, verb table V and sub-table S that is well formed (every connective
   of S ends every clause kind of S and the head), every head, every list of clauses with
   distinct connectives from S whose bodies are complete clauses, every permutation of them and
   every admissible tail: the command parses to the same head, the same clause map (connective
   -> the tokens of its clause) and the same rest, or fails in both orders. *)
Theorem clause_perm_invariant : forall res V S hd cs1 cs2 rest,
  wf_sub res V S = true -> head_ok (vhead V) hd = true ->
  forallb (clause_ok res V S) cs1 = true -> NoDup (map fst cs1) ->
  Permutation cs1 cs2 -> tail_ok res V S rest = true ->
  result V (parse_cmd res V (hd ++ flatten cs1 ++ rest)) = result V (parse_cmd res V (hd ++ flatten cs2 ++ rest)).
Proof. exact clause_perm_invariant_proof. Qed.
Print Assumptions clause_perm_invariant.

(* no clause absorbs the words of the clause that follows it: the option loop returns exactly
   the clauses as written *)
Theorem no_absorb : forall res V S hd cs rest,
  wf_sub res V S = true -> head_ok (vhead V) hd = true ->
  forallb (clause_ok res V S) cs = true -> tail_ok res V S rest = true ->
  (cs <> [] -> True) ->
  parse_cmd res V (hd ++ flatten cs ++ rest) =
  match parse_opts res V (bodies_len cs + length rest) rest with
  | Some (acc, r) => Some (hd, cs ++ acc, r)
  | None => None
  end.
Proof. exact no_absorb_proof. Qed.
Print Assumptions no_absorb.

(* the GENERATED tables: every listed (verb, connective set) is well formed.  Finite: closed
   terms extracted from building.py on this run.  Fails on the unfixed tree (do: the 'as' name
   part list lacks via/from/per; server: rx and tx are not Reserved). *)
Theorem tables_wf : forallb table_ok permutable_tables = true.
Proof. exact tables_wf_proof. Qed.
Print Assumptions tables_wf.

Theorem aux_condition_is_a_tail :
  stops_all gen_reserved verb_aux (W ["as"; "via"]%string) (zs "if"%string) = true.
Proof. exact aux_tail_proof. Qed.
Print Assumptions aux_condition_is_a_tail.

(* ... hence for the verbs of the property, as extracted from the source *)
Theorem generated_verbs_any_order : forall V S, In (V, S) permutable_tables ->
  forall hd cs1 cs2 rest,
  head_ok (vhead V) hd = true ->
  forallb (clause_ok gen_reserved V S) cs1 = true -> NoDup (map fst cs1) ->
  Permutation cs1 cs2 -> tail_ok gen_reserved V S rest = true ->
  result V (parse_cmd gen_reserved V (hd ++ flatten cs1 ++ rest)) =
  result V (parse_cmd gen_reserved V (hd ++ flatten cs2 ++ rest)).
Proof. exact generated_any_order_proof. Qed.
Print Assumptions generated_verbs_any_order.

(* ---- non-vacuity ---- *)
Definition T (l : list string) : list str := map zs l.

(* Content validity included: with ANY per-clause content check (a clause that fails it is a
   ParseError) the outcome -- same head, clause map and rest, or the error -- does not depend on
   the order.  In particular with the checks EXTRACTED from the one-token branches
   (valid_clause gen_reserved valid_<verb>: option lists / option-table keys, capitalized log
   rules, verifyName). *)
Theorem checked_perm_invariant : forall res (valid : clause -> bool) V S hd cs1 cs2 rest,
  wf_sub res V S = true -> head_ok (vhead V) hd = true ->
  forallb (clause_ok res V S) cs1 = true -> NoDup (map fst cs1) ->
  Permutation cs1 cs2 -> tail_ok res V S rest = true ->
  result V (checked valid (parse_cmd res V (hd ++ flatten cs1 ++ rest))) =
  result V (checked valid (parse_cmd res V (hd ++ flatten cs2 ++ rest))).
Proof. exact checked_perm_invariant_proof. Qed.
Print Assumptions checked_perm_invariant.

Theorem generated_verbs_any_order_checked : forall V S, In (V, S) permutable_tables ->
  forall (valid : clause -> bool) hd cs1 cs2 rest,
  head_ok (vhead V) hd = true ->
  forallb (clause_ok gen_reserved V S) cs1 = true -> NoDup (map fst cs1) ->
  Permutation cs1 cs2 -> tail_ok gen_reserved V S rest = true ->
  result V (checked valid (parse_cmd gen_reserved V (hd ++ flatten cs1 ++ rest))) =
  result V (checked valid (parse_cmd gen_reserved V (hd ++ flatten cs2 ++ rest))).
Proof. exact generated_any_order_checked_proof. Qed.
Print Assumptions generated_verbs_any_order_checked.

(* outside the 'set of optional clauses' claim, as extracted on this run: buildBid has the single
   optional clause at (nothing to permute); makeDoneNeed / makeStatusNeed have no clause loop
   (fixed-order grammar: in frame ... in framer ... is done) -- the translator fails otherwise *)
Theorem bid_has_one_optional_clause : gen_bid_connectives = [zs "at"%string].
Proof. exact eq_refl. Qed.
Print Assumptions bid_has_one_optional_clause.

Local Open Scope string_scope.
Example log_rule_checked :
  checked (valid_clause gen_reserved valid_log) (parse_cmd gen_reserved verb_log (T ["st"; "on"; "update"; "as"; "text"]))
  = Some (T ["st"], [ (zs "on", T ["update"]); (zs "as", T ["text"]) ], []) /\
  checked (valid_clause gen_reserved valid_log) (parse_cmd gen_reserved verb_log (T ["st"; "as"; "text"; "on"; "sometimes"])) = None /\
  checked (valid_clause gen_reserved valid_framer) (parse_cmd gen_reserved verb_framer (T ["f"; "first"; "9lives"])) = None.
Proof. vm_compute. repeat split; reflexivity. Qed.
Local Close Scope string_scope.




Example do_all_clauses :
  parse_cmd gen_reserved verb_do
    (T ["arbiter"; "switch"; "per"; "b"; "2"; "as"; "my"; "name"; "via"; "x"; "of"; "frame"; "big"; "of"; "framer";
        "at"; "enter"; "with"; "a"; "1"; "from"; "v"; "w"; "in"; "src"; "of"; "me"]%string)
  = Some (T ["arbiter"; "switch"]%string,
          [ (zs "per", T ["b"; "2"]); (zs "as", T ["my"; "name"]);
            (zs "via", T ["x"; "of"; "frame"; "big"; "of"; "framer"]); (zs "at", T ["enter"]);
            (zs "with", T ["a"; "1"]); (zs "from", T ["v"; "w"; "in"; "src"; "of"; "me"]) ]%string,
          []).
Proof. vm_compute. reflexivity. Qed.

Example do_clauses_ok :
  forallb (clause_ok gen_reserved verb_do (all_conns verb_do))
    [ (zs "per", T ["b"; "2"]); (zs "as", T ["my"; "name"]);
      (zs "via", T ["x"; "of"; "frame"; "big"; "of"; "framer"]); (zs "at", T ["enter"]);
      (zs "with", T ["a"; "1"]); (zs "from", T ["v"; "w"; "in"; "src"; "of"; "me"]) ]%string = true.
Proof. vm_compute. reflexivity. Qed.

Example aux_with_condition :
  parse_cmd gen_reserved verb_aux (T ["helper"; "via"; "x"; "of"; "me"; "as"; "mine"; "if"; "a"; "is"; "done"]%string)
  = Some (T ["helper"]%string,
          [ (zs "via", T ["x"; "of"; "me"]); (zs "as", T ["mine"]); (zs "if", T ["a"; "is"; "done"]) ]%string, []).
Proof. vm_compute. reflexivity. Qed.

(* ---- the defect found in buildDo (fixed by fixes/C15-do-as-terminators.patch): with the
   list as it was written -- 'from' 'per' is ONE string and via is missing -- the name clause
   absorbs the clause that follows it ---- *)
Definition verb_do_unfixed : verb :=
  mkverb (zs "do") (vhead verb_do) true
    ((zs "as", KNameParts (T ["as"; "at"; "with"; "fromper"; "for"; "cum"; "qua"]%string))
       :: tl (vclauses verb_do)).

Example unfixed_do_as_absorbs_via :
  parse_cmd gen_reserved verb_do_unfixed (T ["doer"; "param"; "as"; "n"; "via"; "p"]%string)
  = Some (T ["doer"; "param"]%string, [ (zs "as", T ["n"; "via"; "p"]) ]%string, []) /\
  parse_cmd gen_reserved verb_do_unfixed (T ["doer"; "param"; "via"; "p"; "as"; "n"]%string)
  = Some (T ["doer"; "param"]%string, [ (zs "via", T ["p"]); (zs "as", T ["n"]) ]%string, []) /\
  wf_sub gen_reserved verb_do_unfixed (all_conns verb_do_unfixed) = false.
Proof. vm_compute. repeat split; reflexivity. Qed.

(* ---- open findings, shown on the model with the generated tables' KINDS (the hand-written
   connective sets below are the ones excluded from permutable_tables) ---- *)
Definition verb_framer_ref : verb :=
  mkverb (zs "framer") (HPos 1) true
    [ (zs "first", KFix 1); (zs "via", KIndirect) ]%string.
Example framer_via_absorbs_first :
  parse_cmd gen_reserved verb_framer_ref (T ["f"; "via"; "x"; "of"; "framer"; "first"; "s"]%string) = None /\
  parse_cmd gen_reserved verb_framer_ref (T ["f"; "first"; "s"; "via"; "x"; "of"; "framer"]%string)
  = Some (T ["f"]%string, [ (zs "first", T ["s"]); (zs "via", T ["x"; "of"; "framer"]) ]%string, []).
Proof. vm_compute. split; reflexivity. Qed.

Definition verb_server_ref : verb :=
  mkverb (zs "server") (HPos 1) true
    [ (zs "in", KFix 1); (zs "for", KSourcePath) ]%string.
Example server_for_absorbs_in :
  parse_cmd gen_reserved verb_server_ref (T ["s"; "for"; ".a.b"; "in"; "front"]%string)
  = Some (T ["s"]%string, [ (zs "for", T [".a.b"; "in"; "front"]) ]%string, []) /\
  parse_cmd gen_reserved verb_server_ref (T ["s"; "in"; "front"; "for"; ".a.b"]%string)
  = Some (T ["s"]%string, [ (zs "in", T ["front"]); (zs "for", T [".a.b"]) ]%string, []).
Proof. vm_compute. split; reflexivity. Qed.
