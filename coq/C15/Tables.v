(* C15 -- the sub-tables of the GENERATED verb tables whose clauses may be permuted, and their
   well-formedness by computation (finite: the tables are closed terms). *)
From Coq Require Import String.
From Coq Require Import List ZArith Bool.
Import ListNotations.
Require Import V.Lib.C16_Str V.C15.Kinds V.C15.Model V.gen.C15_Tables.
Open Scope Z_scope.

Definition all_conns (V : verb) : list str := map fst (vclauses V).
Definition W (l : list string) : list str := map zs l.

(* (verb, permutable connective set).  Every verb of the property with its FULL connective
   set, except:
     aux     the trailing 'if' condition clause is not permuted (it is the allowed tail);
     framer  'via' and 'first' together are excluded (open finding: via ... of framer|frame|actor
             takes a following 'first' for the optional relation name; 'first' is a verb and
             cannot be made Reserved);
     server  'for' and 'in' together are excluded (open finding: 'for path in order' reads the
             path as a field list, the grammar [fields in] path is ambiguous with the 'in' clause) *)
Definition permutable_tables : list (verb * list str) :=
  [ (verb_framer, W ["at"; "be"; "in"; "first"]%string);
    (verb_framer, W ["at"; "be"; "in"; "via"]%string);
    (verb_frame, all_conns verb_frame);
    (verb_do, all_conns verb_do);
    (verb_logger, all_conns verb_logger);
    (verb_log, all_conns verb_log);
    (verb_server, W ["at"; "to"; "be"; "in"; "rx"; "tx"; "per"]%string);
    (verb_server, W ["at"; "to"; "be"; "rx"; "tx"; "per"; "for"]%string);
    (verb_aux, W ["as"; "via"]%string);
    (verb_rear, all_conns verb_rear);
    (verb_raze, all_conns verb_raze);
    (verb_need_marker, all_conns verb_need_marker) ].

Definition table_ok (VS : verb * list str) : bool :=
  wf_sub gen_reserved (fst VS) (snd VS)
  && forallb (fun c => in_words c (all_conns (fst VS))) (snd VS).
