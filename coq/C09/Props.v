(* C09 -- auxiliary framers live as long as their main frame.  PARTIAL (see meta.json). *)
From Coq Require Import List ZArith Bool Arith.
Import ListNotations.
Require Import V.Kernel.Model V.Kernel.GenInd V.Kernel.Basics V.Kernel.ActInv V.Kernel.MoreProofs V.Kernel.Witness.

(* 'if aux ... is done' observes exactly the completion state of the auxiliaries of the named frame *)
Theorem done_need_any : forall (O : TimeOps) (P : prog O) me w f,
  eval_need P me w (NDoneAux AuxAny f) = existsb (fun a => done (gett w a)) (fr_auxes (getf P me f)).
Proof. exact done_need_any. Qed.
Print Assumptions done_need_any.
Theorem done_need_all : forall (O : TimeOps) (P : prog O) me w f,
  eval_need P me w (NDoneAux AuxAll f) =
  negb (match fr_auxes (getf P me f) with [] => true | _ => false end) &&
  forallb (fun a => done (gett w a)) (fr_auxes (getf P me f)).
Proof. exact done_need_all. Qed.
Print Assumptions done_need_all.
Theorem done_need_named : forall (O : TimeOps) (P : prog O) me w f t,
  eval_need P me w (NDoneAux (AuxNamed t) f) = existsb (Nat.eqb t) (fr_auxes (getf P me f)) && done (gett w t).
Proof. exact done_need_named. Qed.
Print Assumptions done_need_named.
(* "its transitions before the main framer's": in one run of a framer the plain auxiliaries of every active
   frame make their transitions first; only then are the frames' own clauses evaluated, on the resulting world *)
Theorem aux_transitions_before_main_clauses : forall (O : TimeOps) (P : prog O) sub t w, crashed w = None ->
  framer_segue P sub t w =
  let w0 := emit w (ESegue t) in
  let s := gett w0 t in
  let w1 := sett w0 t (ts_set_clock s (fstamp s) (tsub O (stamp w0) (fstamp s)) (recurred s + 1)%Z) in
  let acts := actives (gett w1 t) in
  let w2 := fold_left (fun w f => fold_left (fun w aux => guard w (o_segue sub aux)) (fr_auxes (getf P t f)) w)
                      acts w1 in
  fst (segue_frames P sub t acts w2).
Proof. exact segue_auxes_first. Qed.
Print Assumptions aux_transitions_before_main_clauses.

Theorem done_marks_complete : forall (O : TimeOps) (P : prog O) sub me ts w t,
  crashed w = None -> In t ts -> t < length (tss w) ->
  done (gett (run_act P sub me (ADone ts) w) t) = true.
Proof. exact done_marks_done. Qed.
Print Assumptions done_marks_complete.

(* the main framer's own state (outline, clocks, status, done) is never touched by what its auxiliaries do:
   operations of framer a change core state only inside reach(a) *)
Theorem aux_operations_stay_in_their_family : forall (O : TimeOps) (P : prog O) n,
  ops_R O (footprint O P) (lvl P n).
Proof. exact footprint_ops. Qed.
Print Assumptions aux_operations_stay_in_their_family.

(* ownership guard (positive half of single ownership) *)
Theorem foreign_owned_aux_refuses_entry : forall (O : TimeOps) (P : prog O) sub a exits w f aux mt m,
  In aux (fr_auxes (getf P a f)) -> main (gett w aux) = Some (mt, m) ->
  (Nat.eqb mt a && Nat.eqb m f) = false -> (Nat.eqb mt a && memf m exits) = false ->
  frame_checkEnter P sub a exits w f = false.
Proof. exact checkEnter_refuses_foreign_owner. Qed.
Print Assumptions foreign_owned_aux_refuses_entry.

(* ... but single ownership is FALSE of the code as it is: the test runs before any frame of the same
   transition is entered (open known finding, replayed by the check) *)
Theorem single_owner_refuted :
  let w := sw (fst (ticks P_shared 1 (init_sked P_shared 1 None))) in
  count_enter 1 0 (trace w) = 2 /\ count_exit 1 0 (trace w) = 0.
Proof. exact shared_aux_entered_twice. Qed.
Print Assumptions single_owner_refuted.
