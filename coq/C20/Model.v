(* C20 -- 'is updated' / 'is changed' conditions.  Definitions only.  Tie H (hand model).

   Part 1 (one share, one mark): the state touched by
       Share.update / value setter        (storing.py)   share.stamp := store.stamp, fields set
       MarkerUpdate.action                (acting.py)    mark.stamp := store.stamp;
                                                         in the transit sub-context also mark.used := mark.stamp
       MarkerChange.action                (acting.py)    mark.data := copy of the share's fields
       NeedUpdate.action / NeedChange.action (needing.py)
   and histories of events over it.

   Part 2 (kernel slice): one framer with flat frames whose transitions are guarded by marker
   needs, as built by NeedMarker._resolve (transit marker for every need of a transition, entry
   marker first in the enacts of the frame named by `in frame [name]`, mark key = `by` name or
   frame name) and run by Framer (enterAll / segue: first transition whose needs all hold, its
   transit markers, exit acts, enter acts of the far frame / recur), with scripted external
   writes before and after the framer in each tick.  Time is the tick number.               *)
From Coq Require Import ZArith List Bool Arith.
Import ListNotations.
Require Import V.Lib.C45_PyVal.

Inductive kind := KUpd | KChg.
Definition kind_eqb (a b : kind) : bool :=
  match a, b with KUpd, KUpd | KChg, KChg => true | _, _ => false end.

Definition fields := list (Z * val).

Fixpoint fget (f : Z) (d : fields) : option val :=
  match d with [] => None | (g, v) :: r => if Z.eqb f g then Some v else fget f r end.

(* setattr on the ordered record: replace in place or append *)
Fixpoint fset (f : Z) (v : val) (d : fields) : fields :=
  match d with
  | [] => [(f, v)]
  | (g, w) :: r => if Z.eqb f g then (g, v) :: r else (g, w) :: fset f v r
  end.

Definition fset_all (ws : fields) (d : fields) : fields :=
  fold_left (fun acc p => fset (fst p) (snd p) acc) ws d.

Definition opt_eqb (a b : option nat) : bool :=
  match a, b with
  | None, None => true
  | Some x, Some y => Nat.eqb x y
  | _, _ => false
  end.

(* ---------------------------------------------------------------------------------- *)
(* Part 1: one share and one mark                                                      *)
Record st := {
  now : nat;                     (* store.stamp (tick) *)
  sstamp : option nat;           (* share.stamp: None until first updated while running *)
  sdata : fields;                (* share fields *)
  mstamp : option nat;           (* mark.stamp *)
  mused : option nat;            (* mark.used *)
  msnap : option fields          (* mark.data *)
}.

Definition st0 (d : fields) : st :=
  {| now := 0; sstamp := None; sdata := d; mstamp := None; mused := None; msnap := None |}.

Inductive ev :=
| Tick                           (* store stamp advances *)
| Write (ws : fields)            (* share.update(fields) *)
| EnterMark (k : kind)           (* marker act of that kind in the enter context *)
| TransitMark (k : kind).        (* marker act of that kind in the transit sub-context *)

Definition step (s : st) (e : ev) : st :=
  match e with
  | Tick => {| now := S (now s); sstamp := sstamp s; sdata := sdata s;
               mstamp := mstamp s; mused := mused s; msnap := msnap s |}
  | Write ws => {| now := now s; sstamp := Some (now s); sdata := fset_all ws (sdata s);
                   mstamp := mstamp s; mused := mused s; msnap := msnap s |}
  | EnterMark KUpd => {| now := now s; sstamp := sstamp s; sdata := sdata s;
                         mstamp := Some (now s); mused := mused s; msnap := msnap s |}
  | TransitMark KUpd => {| now := now s; sstamp := sstamp s; sdata := sdata s;
                           mstamp := Some (now s); mused := Some (now s); msnap := msnap s |}
  | EnterMark KChg | TransitMark KChg =>
      {| now := now s; sstamp := sstamp s; sdata := sdata s;
         mstamp := mstamp s; mused := mused s; msnap := Some (sdata s) |}
  end.

Definition run (d : fields) (h : list ev) : st := fold_left step h (st0 d).

(* NeedUpdate.action *)
Definition need_update (s : st) : bool :=
  match sstamp s with
  | None => false
  | Some w =>
      match mstamp s with
      | None => true
      | Some m => Nat.ltb m w || (Nat.eqb w m && negb (opt_eqb (mused s) (Some m)))
      end
  end.

(* NeedChange.action *)
Definition differs (snap : fields) (p : Z * val) : bool :=
  match fget (fst p) snap with
  | None => true                              (* AttributeError: new field *)
  | Some v' => negb (py_eqb v' (snd p))       (* getattr(mark.data, field) != value *)
  end.

Definition need_change (s : st) : bool :=
  match msnap s with
  | None => true
  | Some snap => existsb (differs snap) (sdata s)
  end.

(* ---- history-level vocabulary (specification side) --------------------------------- *)
(* events paired with the tick at which they happen *)
Fixpoint stamped (t : nat) (h : list ev) : list (nat * ev) :=
  match h with
  | [] => []
  | Tick :: r => stamped (S t) r
  | e :: r => (t, e) :: stamped t r
  end.

Definition is_write (p : nat * ev) : bool := match snd p with Write _ => true | _ => false end.
Definition is_reset (k : kind) (p : nat * ev) : bool :=
  match snd p with
  | EnterMark k' | TransitMark k' => kind_eqb k k'
  | _ => false
  end.
Definition is_transit_at (k : kind) (t : nat) (p : nat * ev) : bool :=
  match snd p with
  | TransitMark k' => kind_eqb k k' && Nat.eqb (fst p) t
  | _ => false
  end.

Definition last_tick (l : list (nat * ev)) : option nat :=
  match rev l with [] => None | p :: _ => Some (fst p) end.

(* the property's statement for `is updated`, read off the history alone *)
Definition updated_spec (h : list ev) : bool :=
  let th := stamped 0 h in
  match last_tick (filter is_write th) with
  | None => false                                        (* never updated while running *)
  | Some w =>
      match last_tick (filter (is_reset KUpd) th) with
      | None => true                                     (* mark never set: any update counts *)
      | Some r => Nat.ltb r w                            (* a write after the last reset *)
                  || (Nat.eqb w r && negb (existsb (is_transit_at KUpd r) th))
                     (* same tick: counts unless a taken-transition reset happened in that tick *)
      end
  end.

(* the share's fields just before the last reset of kind k (None: no reset yet) *)
Fixpoint snap_spec (d : fields) (h : list ev) (acc : option fields) : option fields :=
  match h with
  | [] => acc
  | Write ws :: r => snap_spec (fset_all ws d) r acc
  | EnterMark KChg :: r | TransitMark KChg :: r => snap_spec d r (Some d)
  | _ :: r => snap_spec d r acc
  end.
Fixpoint data_spec (d : fields) (h : list ev) : fields :=
  match h with
  | [] => d
  | Write ws :: r => data_spec (fset_all ws d) r
  | _ :: r => data_spec d r
  end.
Definition changed_spec (d : fields) (h : list ev) : bool :=
  match snap_spec d h None with
  | None => true
  | Some snap => existsb (differs snap) (data_spec d h)
  end.

(* ---------------------------------------------------------------------------------- *)
(* Part 2: kernel slice                                                                *)
Inductive mkey := KBy (m : Z) | KFrame (f : nat).
Definition mkey_eqb (a b : mkey) : bool :=
  match a, b with
  | KBy x, KBy y => Z.eqb x y
  | KFrame x, KFrame y => Nat.eqb x y
  | _, _ => false
  end.

(* a marker need as written:  share is updated|changed [in frame [name]] [by marker] *)
Record nsyn := { n_kind : kind; n_share : Z; n_in : option (option nat); n_by : option Z }.
Record tsyn := { t_far : nat; t_needs : list nsyn }.
Definition wr := (Z * Z * val)%type.          (* share, field, value *)
(* f_guard: optional entry guard (a before-enter need, beact):
     GCmp sh fld :  let me if <share field> >= 1
     GMark n     :  let me if <share> is updated|changed [in frame [name]] [by marker]
   NeedMarker._resolve gives a `let` marker need its entry marker (when written `in frame`) but its
   transit marker act stays in the need's own ._tracts, which only Transiter._resolve collects:
   it is NEVER executed. *)
Inductive guard := GCmp (sh fld : Z) | GMark (n : nsyn).
Record fsyn := { f_guard : option guard;
                 f_enter : list wr; f_recur : list wr; f_exit : list wr; f_trans : list tsyn }.
Definition prog := list fsyn.

(* NeedMarker._resolve: the frame the mark refers to, and the mark key *)
Definition n_frame (fi : nat) (n : nsyn) : nat :=
  match n_in n with Some (Some f) => f | _ => fi end.
Definition n_key (fi : nat) (n : nsyn) : mkey :=
  match n_by n with Some m => KBy m | None => KFrame (n_frame fi n) end.

(* resolved marker: kind, share, key *)
Definition rmark := (kind * Z * mkey)%type.
Definition resolve_need (fi : nat) (n : nsyn) : rmark := (n_kind n, n_share n, n_key fi n).

(* entry markers of frame F: one for every need (anywhere) written with `in frame` that names F *)
Definition needs_of_frame (fi : nat) (f : fsyn) : list (nat * nsyn) :=
  flat_map (fun t => map (fun n => (fi, n)) (t_needs t)) (f_trans f) ++
  match f_guard f with Some (GMark n) => [(fi, n)] | _ => [] end.
Fixpoint all_needs (fi : nat) (p : prog) : list (nat * nsyn) :=
  match p with [] => [] | f :: r => needs_of_frame fi f ++ all_needs (S fi) r end.
Definition entry_marks (p : prog) (F : nat) : list rmark :=
  map (fun x => resolve_need (fst x) (snd x))
      (filter (fun x => match n_in (snd x) with
                        | Some _ => Nat.eqb (n_frame (fst x) (snd x)) F
                        | None => false end) (all_needs 0 p)).

Record shr := { s_stamp : option nat; s_data : fields }.
Record mark := { k_stamp : option nat; k_used : option nat; k_snap : option fields }.
Definition shr0 : shr := {| s_stamp := None; s_data := [] |}.
Definition mark0 : mark := {| k_stamp := None; k_used := None; k_snap := None |}.

Record kst := {
  k_now : nat;
  k_shares : list (Z * shr);
  k_marks : list ((Z * mkey) * mark);
  k_active : nat
}.

Definition get_share (s : Z) (l : list (Z * shr)) : shr :=
  match find (fun p => Z.eqb (fst p) s) l with Some p => snd p | None => shr0 end.
Fixpoint set_share (s : Z) (x : shr) (l : list (Z * shr)) : list (Z * shr) :=
  match l with
  | [] => [(s, x)]
  | (s', y) :: r => if Z.eqb s s' then (s', x) :: r else (s', y) :: set_share s x r
  end.
Definition mk_eqb (a b : Z * mkey) : bool := Z.eqb (fst a) (fst b) && mkey_eqb (snd a) (snd b).
Definition get_mark (k : Z * mkey) (l : list ((Z * mkey) * mark)) : mark :=
  match find (fun p => mk_eqb (fst p) k) l with Some p => snd p | None => mark0 end.
Fixpoint set_mark (k : Z * mkey) (x : mark) (l : list ((Z * mkey) * mark)) :=
  match l with
  | [] => [(k, x)]
  | (k', y) :: r => if mk_eqb k' k then (k', x) :: r else (k', y) :: set_mark k x r
  end.

(* kernel events: every mutation of a share or a mark is one of these *)
Inductive kev :=
| KWrite (w : wr)
| KEnterMark (m : rmark)
| KTransitMark (m : rmark).

Definition do_write (s : kst) (w : wr) : kst :=
  let '(sh, f, v) := w in
  let x := get_share sh (k_shares s) in
  {| k_now := k_now s;
     k_shares := set_share sh {| s_stamp := Some (k_now s); s_data := fset f v (s_data x) |} (k_shares s);
     k_marks := k_marks s; k_active := k_active s |}.

Definition do_mark (transit : bool) (s : kst) (m : rmark) : kst :=
  let '(k, sh, key) := m in
  let x := get_mark (sh, key) (k_marks s) in
  let x' := match k with
            | KUpd => {| k_stamp := Some (k_now s);
                         k_used := if transit then Some (k_now s) else k_used x;
                         k_snap := k_snap x |}
            | KChg => {| k_stamp := k_stamp x; k_used := k_used x;
                         k_snap := Some (s_data (get_share sh (k_shares s))) |}
            end in
  {| k_now := k_now s; k_shares := k_shares s;
     k_marks := set_mark (sh, key) x' (k_marks s); k_active := k_active s |}.

Definition apply_kev (s : kst) (e : kev) : kst :=
  match e with
  | KWrite w => do_write s w
  | KEnterMark m => do_mark false s m
  | KTransitMark m => do_mark true s m
  end.

(* view of one (share, key) pair as a Part-1 state *)
Definition view (s : kst) (sh : Z) (key : mkey) : st :=
  let x := get_share sh (k_shares s) in
  let m := get_mark (sh, key) (k_marks s) in
  {| now := k_now s; sstamp := s_stamp x; sdata := s_data x;
     mstamp := k_stamp m; mused := k_used m; msnap := k_snap m |}.

Definition need_eval (s : kst) (m : rmark) : bool :=
  let '(k, sh, key) := m in
  match k with
  | KUpd => need_update (view s sh key)
  | KChg => need_change (view s sh key)
  end.

Definition with_active (s : kst) (a : nat) : kst :=
  {| k_now := k_now s; k_shares := k_shares s; k_marks := k_marks s; k_active := a |}.
Definition with_now (s : kst) (t : nat) : kst :=
  {| k_now := t; k_shares := k_shares s; k_marks := k_marks s; k_active := k_active s |}.

Definition frame_of (p : prog) (i : nat) : fsyn :=
  nth i p {| f_guard := None; f_enter := []; f_recur := []; f_exit := []; f_trans := [] |}.

(* Framer.checkEnter([far]) for a flat frame: every beact of the far frame holds.  The guard is the
   comparison need  state >= 1  (python >= on the field's value; a raise counts as refused here --
   the harness only ever stores numbers in guard fields) *)
Definition guard_ok (s : kst) (F : nat) (f : fsyn) : bool :=
  match f_guard f with
  | None => true
  | Some (GCmp sh fld) =>
      match fget fld (s_data (get_share sh (k_shares s))) with
      | Some v => match py_ge v (VInt 1) with Ok c => py_truthy c | Err _ => false end
      | None => false
      end
  | Some (GMark n) => need_eval s (resolve_need F n)      (* `me` is the guarded frame itself *)
  end.

(* events of entering frame F: entry markers first, then the enter acts *)
Definition enter_evs (p : prog) (F : nat) : list kev :=
  map KEnterMark (entry_marks p F) ++ map KWrite (f_enter (frame_of p F)).

(* Transiter.action: the needs all hold?  then checkEnter(far)?  only then the transition happens
   (transit markers, exits, enters).  A transition whose needs hold but whose target is refused
   returns None WITHOUT ANY EFFECT and Frame.precur goes on to the next preact.
   Framer.segue for flat frames: the first transition that is not refused. *)
Definition needs_true (s : kst) (fi : nat) (t : tsyn) : bool :=
  forallb (fun n => need_eval s (resolve_need fi n)) (t_needs t).
Fixpoint pick (p : prog) (s : kst) (fi : nat) (ts : list tsyn) : option tsyn :=
  match ts with
  | [] => None
  | t :: r => if needs_true s fi t && guard_ok s (t_far t) (frame_of p (t_far t)) then Some t else pick p s fi r
  end.

(* events of the framer in one tick (tick 0: enterAll + recur; later: segue + recur), and the
   frame active afterwards *)
Definition framer_evs (p : prog) (s : kst) (first : bool) : list kev * nat :=
  let a := k_active s in
  if first then (enter_evs p a ++ map KWrite (f_recur (frame_of p a)), a)
  else
    match pick p s a (f_trans (frame_of p a)) with
    | None => (map KWrite (f_recur (frame_of p a)), a)
    | Some t =>
        (map (fun n => KTransitMark (resolve_need a n)) (t_needs t)
         ++ map KWrite (f_exit (frame_of p a))
         ++ enter_evs p (t_far t)
         ++ map KWrite (f_recur (frame_of p (t_far t))), t_far t)
    end.

Definition apply_all (s : kst) (es : list kev) : kst := fold_left apply_kev es s.

(* one tick: external writes before, the framer, external writes after; returns the new state,
   the events of the tick and the active frame recorded at the end of the tick *)
Definition tick (p : prog) (first : bool) (s : kst) (pre post : list wr) : kst * list kev :=
  let s1 := apply_all s (map KWrite pre) in
  let '(es, a) := framer_evs p s1 first in
  let s2 := with_active (apply_all s1 es) a in
  let s3 := apply_all s2 (map KWrite post) in
  (s3, map KWrite pre ++ es ++ map KWrite post).

(* script = per tick (pre writes, post writes); result = active frame after each tick *)
Fixpoint run_ticks (p : prog) (first : bool) (s : kst) (script : list (list wr * list wr))
  : list nat * list (list kev) :=
  match script with
  | [] => ([], [])
  | (pre, post) :: r =>
      let '(s', es) := tick p first s pre post in
      let '(acts, evs) := run_ticks p false (with_now s' (S (k_now s'))) r in
      (k_active s' :: acts, es :: evs)
  end.

Definition kst0 (init : list (Z * fields)) (first : nat) : kst :=
  {| k_now := 0;
     k_shares := map (fun p => (fst p, {| s_stamp := None; s_data := snd p |})) init;
     k_marks := []; k_active := first |}.

Definition run_prog (p : prog) (init : list (Z * fields)) (script : list (list wr * list wr)) : list nat :=
  fst (run_ticks p true (kst0 init 0) script).

(* ---- kernel histories seen by one (share, key) pair (specification side) ------------- *)
Definition proj1 (sh : Z) (key : mkey) (e : kev) : list ev :=
  match e with
  | KWrite (sh', f, v) => if Z.eqb sh' sh then [Write [(f, v)]] else []
  | KEnterMark (k, sh', key') => if mk_eqb (sh', key') (sh, key) then [EnterMark k] else []
  | KTransitMark (k, sh', key') => if mk_eqb (sh', key') (sh, key) then [TransitMark k] else []
  end.
Definition proj (sh : Z) (key : mkey) (es : list kev) : list ev := flat_map (proj1 sh key) es.
(* per-tick event lists -> one history, a Tick closing every tick *)
Definition khist (sh : Z) (key : mkey) (evs : list (list kev)) : list ev :=
  flat_map (fun es => proj sh key es ++ [Tick]) evs.

(* the kernel state at the start of the tick after the script *)
Fixpoint run_state (p : prog) (first : bool) (s : kst) (script : list (list wr * list wr)) : kst :=
  match script with
  | [] => s
  | (pre, post) :: r =>
      let '(s', _) := tick p first s pre post in
      run_state p false (with_now s' (S (k_now s'))) r
  end.

(* the mark of a (share, key) view, and well-formed share stamps (never in the future) *)
Definition marks_of (v : st) : option nat * option nat * option fields := (mstamp v, mused v, msnap v).
Definition stamp_wf (v : st) : Prop := forall w, sstamp v = Some w -> w <= now v.
