(* C20 -- property theorems only.  Each closed by [exact]; Print Assumptions beneath.
   Hand model coq/C20/Model.v (tie H).  Time = tick number.  A history is ANY list of events
   Tick / Write / EnterMark k / TransitMark k  (k = updated-kind or changed-kind marker) on one
   share and one mark; the kernel theorem shows every (share, mark) pair of a framer run sees
   such a history.                                                                         *)
From Coq Require Import ZArith List Bool Arith.
Import ListNotations.
Require Import V.Lib.C45_PyVal V.C20.Model V.C20.Proofs.

(* NeedUpdate on a state: share stamped, and mark never set, or stamped later than the mark, or
   in the mark's tick with mark.used not that tick *)
Theorem updated_iff : forall s,
  need_update s = true <->
  exists w, sstamp s = Some w /\
    (mstamp s = None \/ exists m, mstamp s = Some m /\ (m < w \/ (w = m /\ mused s <> Some m))).
Proof. exact updated_iff_lemma. Qed.
Print Assumptions updated_iff.

(* HISTORY LEVEL: over any history, `is updated` is true exactly when the share was written
   while running and either the mark was never reset, or the last write is in a later tick than
   the last reset, or in the same tick and no taken-transition reset happened in that tick. *)
Theorem updated_history : forall d h, need_update (run d h) = updated_spec h.
Proof. exact updated_history_lemma. Qed.
Print Assumptions updated_history.

(* the same-tick rules of the statement, on any history prefix h *)
Theorem update_in_tick_of_transit_reset_does_not_count : forall d h ws,
  need_update (run d (h ++ [Write ws; TransitMark KUpd])) = false /\
  need_update (run d (h ++ [TransitMark KUpd; Write ws])) = false.
Proof. exact transit_same_tick_lemma. Qed.
Print Assumptions update_in_tick_of_transit_reset_does_not_count.

Theorem update_in_tick_of_entry_reset_counts : forall d h ws,
  mused (run d h) <> Some (now (run d h)) ->       (* no taken-transition reset earlier in this tick *)
  need_update (run d (h ++ [Write ws; EnterMark KUpd])) = true /\
  need_update (run d (h ++ [EnterMark KUpd; Write ws])) = true.
Proof. exact entry_same_tick_lemma. Qed.
Print Assumptions update_in_tick_of_entry_reset_counts.

Theorem update_in_later_tick_counts : forall d h k ws,
  need_update (run d (h ++ [TransitMark k; Tick; Write ws])) = true /\
  need_update (run d (h ++ [EnterMark k; Tick; Write ws])) = true.
Proof. exact later_tick_lemma. Qed.
Print Assumptions update_in_later_tick_counts.

Theorem before_first_mark_any_update_counts : forall d h,
  filter (is_reset KUpd) (stamped 0 h) = [] ->
  need_update (run d h) = match filter is_write (stamped 0 h) with [] => false | _ => true end.
Proof. exact never_set_lemma. Qed.
Print Assumptions before_first_mark_any_update_counts.

(* NeedChange on a state: no snapshot yet, or some current field is new or differs (python !=) *)
Theorem changed_iff : forall s,
  need_change s = true <->
  msnap s = None \/
  exists snap f v, msnap s = Some snap /\ In (f, v) (sdata s) /\
     (fget f snap = None \/ exists v', fget f snap = Some v' /\ py_eqb v' v = false).
Proof. exact changed_iff_lemma. Qed.
Print Assumptions changed_iff.

(* HISTORY LEVEL: `is changed` compares the current fields with the fields as they were at the
   last changed-kind reset (entry or taken transition); true before the first snapshot *)
Theorem changed_history : forall d h, need_change (run d h) = changed_spec d h.
Proof. exact changed_history_lemma. Qed.
Print Assumptions changed_history.

(* KERNEL: for any program (flat frames, transitions guarded by marker needs with/without
   `in frame [name]` and `by` marks, enter/recur/exit writes), any initial data and any script of
   external writes, at the start of the tick after the script and after that tick's external
   pre-writes [extra] -- the moment the framer evaluates its needs -- the updated/changed
   condition of ANY (share, key) pair is the history-level statement over exactly the events
   of the run that touched that pair. *)
Theorem kernel_conditions_are_history_level : forall p init script sh key extra,
  let s := apply_all (run_state p true (kst0 init 0) script) (map KWrite extra) in
  let h := khist sh key (snd (run_ticks p true (kst0 init 0) script)) ++ proj sh key (map KWrite extra) in
  need_eval s (KUpd, sh, key) = updated_spec h /\
  need_eval s (KChg, sh, key) = changed_spec (init_data init sh) h.
Proof. exact kernel_history_lemma. Qed.
Print Assumptions kernel_conditions_are_history_level.

(* REFUSED TRANSITIONS (entry guard of the target frame closed).  A transition whose needs all
   hold but whose target is refused is skipped without any effect ... *)
Theorem refused_transition_is_skipped : forall p s fi t r,
  needs_true s fi t = true -> guard_ok s (t_far t) (frame_of p (t_far t)) = false ->
  pick p s fi (t :: r) = pick p s fi r.
Proof. exact refused_is_skipped_lemma. Qed.
Print Assumptions refused_transition_is_skipped.

(* ... so a tick in which no transition of the active frame is taken (every one is either not
   satisfied or refused) leaves EVERY mark -- stamp, used and data snapshot -- exactly as it was ... *)
Theorem refused_tick_keeps_marks : forall p s pre post sh key,
  pick p (apply_all s (map KWrite pre)) (k_active s) (f_trans (frame_of p (k_active s))) = None ->
  marks_of (view (fst (tick p false s pre post)) sh key) = marks_of (view s sh key).
Proof. exact refused_tick_keeps_marks_lemma. Qed.
Print Assumptions refused_tick_keeps_marks.

(* ... and an update that was pending when the transition was refused is still pending at the next
   attempt (after the rest of the tick, the time advance and any further external writes): the
   transition fires as soon as the guard opens. *)
Theorem pending_update_survives_refusal : forall p s pre post sh key extra,
  pick p (apply_all s (map KWrite pre)) (k_active s) (f_trans (frame_of p (k_active s))) = None ->
  stamp_wf (view s sh key) ->
  need_eval (apply_all s (map KWrite pre)) (KUpd, sh, key) = true ->
  let s' := fst (tick p false s pre post) in
  need_eval (apply_all (with_now s' (S (k_now s'))) (map KWrite extra)) (KUpd, sh, key) = true.
Proof. exact pending_update_survives_lemma. Qed.
Print Assumptions pending_update_survives_refusal.

(* share stamps are never in the future on any history (the hypothesis stamp_wf above) *)
Theorem stamps_well_formed : forall d h, stamp_wf (run d h).
Proof. exact run_stamp_wf. Qed.
Print Assumptions stamps_well_formed.

(* `LET` CLAUSES WITH MARKER NEEDS.  The transit marker of a marker need written in a `let` (entry
   guard) is never executed: the transit markers run in a tick are exactly those of the needs of
   the transition taken from the active frame ... *)
Theorem transit_marks_come_only_from_the_taken_transition : forall p first s pre post m,
  In (KTransitMark m) (snd (tick p first s pre post)) ->
  exists t n, In t (f_trans (frame_of p (k_active s))) /\ In n (t_needs t) /\
              m = resolve_need (k_active s) n.
Proof. exact transit_marks_origin_lemma. Qed.
Print Assumptions transit_marks_come_only_from_the_taken_transition.

(* ... so on a mark that no transition need shares (its history has no transit reset) `is updated`
   means: written while running, and never entry-reset or last written in or after the tick of the
   last entry reset.  It is never consumed by being satisfied: without `in frame` it latches for
   ever after the first write; with `in frame` it holds until the named frame is entered again
   in a later tick than the last write. *)
Theorem updated_without_transit_reset : forall d h, no_transit h ->
  need_update (run d h) =
  match last_tick (filter is_write (stamped 0 h)) with
  | None => false
  | Some w => match last_tick (filter (is_reset KUpd) (stamped 0 h)) with
              | None => true
              | Some r => Nat.leb r w
              end
  end.
Proof. exact updated_without_transit_lemma. Qed.
Print Assumptions updated_without_transit_reset.

(* ---- non-vacuity -------------------------------------------------------------------- *)
(* F0: go F1 if x is updated in frame ; F1: go F0 if x is updated by m.  External write after
   the framer in tick 0 (same tick as the entry reset: counts) -> taken in tick 1; the write
   after the framer in tick 1 (same tick as the taken-transition... of F0's mark, but F1's mark
   `m` was never set) -> taken in tick 2; then nothing more. *)
Example kernel_example :
  let n0 := {| n_kind := KUpd; n_share := 1; n_in := Some None; n_by := None |} in
  let n1 := {| n_kind := KUpd; n_share := 1; n_in := None; n_by := Some 7%Z |} in
  let p := [ {| f_guard := None; f_enter := []; f_recur := []; f_exit := []; f_trans := [ {| t_far := 1; t_needs := [n0] |} ] |};
             {| f_guard := None; f_enter := []; f_recur := []; f_exit := []; f_trans := [ {| t_far := 0; t_needs := [n1] |} ] |} ] in
  run_prog p [(1%Z, [(0%Z, VInt 0)])]
    [([], [(1%Z, 0%Z, VInt 5)]); ([], [(1%Z, 0%Z, VInt 5)]); ([], []); ([], []); ([], [])]
  = [0; 1; 0; 0; 0].
Proof. vm_compute. reflexivity. Qed.

Example same_tick_rules :
  need_update (run [] [Write [(0%Z, VInt 1)]; TransitMark KUpd]) = false /\
  need_update (run [] [Tick; EnterMark KUpd; Write [(0%Z, VInt 1)]]) = true /\
  need_update (run [] [TransitMark KUpd; Tick; EnterMark KUpd; Write [(0%Z, VInt 1)]]) = true /\
  need_update (run [] [TransitMark KUpd; EnterMark KUpd; Write [(0%Z, VInt 1)]]) = false.
Proof. vm_compute. repeat split; reflexivity. Qed.

Example changed_example :
  need_change (run [(0%Z, VInt 1)] [EnterMark KChg; Write [(0%Z, VFlt (QArith_base.Qmake 1 1))]]) = false /\   (* 1 != 1.0 is False *)
  need_change (run [(0%Z, VInt 1)] [EnterMark KChg; Write [(0%Z, VInt 2)]]) = true /\
  need_change (run [(0%Z, VInt 1)] [EnterMark KChg; Write [(3%Z, VInt 1)]]) = true /\    (* field added *)
  need_change (run [(0%Z, VInt 1)] [Write [(0%Z, VInt 2)]]) = true.                      (* no snapshot yet *)
Proof. vm_compute. repeat split; reflexivity. Qed.

(* F0: go F1 if x is updated ; F1 guarded by  gate >= 1.  x is written once (after tick 0); the gate
   opens after tick 3: refused at ticks 1..3, the update is still pending, taken at tick 4. *)
Example refused_then_taken :
  let n0 := {| n_kind := KUpd; n_share := 1; n_in := None; n_by := None |} in
  let p := [ {| f_guard := None; f_enter := []; f_recur := []; f_exit := [];
                f_trans := [ {| t_far := 1; t_needs := [n0] |} ] |};
             {| f_guard := Some (GCmp 3 3); f_enter := []; f_recur := []; f_exit := []; f_trans := [] |} ] in
  run_prog p [(1%Z, [(0%Z, VInt 0)]); (3%Z, [(3%Z, VInt 0)])]
    [([], [(1%Z, 0%Z, VInt 5)]); ([], []); ([], []); ([], [(3%Z, 3%Z, VInt 1)]); ([], []); ([], [])]
  = [0; 0; 0; 0; 1; 1].
Proof. vm_compute. reflexivity. Qed.
