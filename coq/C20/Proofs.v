From Coq Require Import ZArith List Bool Arith Lia.
Import ListNotations.
Require Import V.Lib.C45_PyVal V.C20.Model.

Lemma opt_eqb_eq a b : opt_eqb a b = true <-> a = b.
Proof.
  destruct a, b; cbn; split; intro H; try congruence; try discriminate.
  - apply Nat.eqb_eq in H. congruence.
  - inversion H. apply Nat.eqb_refl.
Qed.

(* NeedUpdate, state level *)
Lemma updated_iff_lemma s :
  need_update s = true <->
  exists w, sstamp s = Some w /\
    (mstamp s = None \/ exists m, mstamp s = Some m /\ (m < w \/ (w = m /\ mused s <> Some m))).
Proof.
  unfold need_update. destruct (sstamp s) as [w|]; [|split; [discriminate|intros [w [H _]]; discriminate]].
  destruct (mstamp s) as [m|].
  - rewrite orb_true_iff, andb_true_iff, Nat.ltb_lt, Nat.eqb_eq, negb_true_iff. split.
    + intros [H|[H1 H2]]; exists w; (split; [reflexivity|]); right; exists m; (split; [reflexivity|]).
      * left. exact H.
      * right. split; [exact H1|]. intro E. apply opt_eqb_eq in E. congruence.
    + intros [w' [E [H|[m' [E' H]]]]]; [discriminate|]. inversion E; inversion E'; subst.
      destruct H as [H|[H1 H2]]; [left; exact H|right]. split; [exact H1|].
      destruct (opt_eqb (mused s) (Some m')) eqn:O; [|reflexivity]. apply opt_eqb_eq in O. contradiction.
  - split; [|reflexivity]. intros _. exists w. split; [reflexivity|left; reflexivity].
Qed.

(* ---- 'is changed', history level ---------------------------------------------------- *)
Lemma changed_fold h : forall s,
  msnap (fold_left step h s) = snap_spec (sdata s) h (msnap s) /\
  sdata (fold_left step h s) = data_spec (sdata s) h.
Proof.
  induction h as [|e r IH]; intro s; [split; reflexivity|].
  cbn [fold_left]. destruct (IH (step s e)) as [A B]. rewrite A, B.
  destruct e as [|ws|[|]|[|]]; cbn; split; reflexivity.
Qed.

Lemma changed_history_lemma d h : need_change (run d h) = changed_spec d h.
Proof.
  unfold need_change, changed_spec, run. destruct (changed_fold h (st0 d)) as [A B].
  rewrite A, B. reflexivity.
Qed.

(* state level *)
Lemma changed_iff_lemma s :
  need_change s = true <->
  msnap s = None \/
  exists snap f v, msnap s = Some snap /\ In (f, v) (sdata s) /\
     (fget f snap = None \/ exists v', fget f snap = Some v' /\ py_eqb v' v = false).
Proof.
  unfold need_change. destruct (msnap s) as [snap|]; [|split; [left; reflexivity|reflexivity]].
  rewrite existsb_exists. split.
  - intros [[f v] [Hin D]]. right. exists snap, f, v. split; [reflexivity|]. split; [exact Hin|].
    unfold differs in D. cbn in D. destruct (fget f snap) as [v'|]; [right|left; reflexivity].
    exists v'. split; [reflexivity|]. apply negb_true_iff. exact D.
  - intros [H|[snap' [f [v [E [Hin D]]]]]]; [discriminate|]. inversion E; subst snap'.
    exists (f, v). split; [exact Hin|]. unfold differs. cbn.
    destruct D as [D|[v' [D1 D2]]]; rewrite ?D, ?D1; [reflexivity|]. rewrite D2. reflexivity.
Qed.

(* ---- 'is updated', history level ---------------------------------------------------- *)
Fixpoint ticks (h : list ev) : nat :=
  match h with [] => 0 | Tick :: r => S (ticks r) | _ :: r => ticks r end.

Lemma ticks_app a b : ticks (a ++ b) = ticks a + ticks b.
Proof. induction a as [|e r IH]; [reflexivity|]. destruct e; cbn; rewrite IH; reflexivity. Qed.

Lemma stamped_snoc h : forall t e,
  stamped t (h ++ [e]) =
  stamped t h ++ match e with Tick => [] | _ => [(t + ticks h, e)] end.
Proof.
  induction h as [|x r IH]; intros t e.
  - cbn. destruct e; cbn; rewrite ?Nat.add_0_r; reflexivity.
  - destruct x; cbn [app stamped ticks]; rewrite IH.
    + destruct e; try reflexivity; rewrite <- plus_n_Sm; reflexivity.
    + reflexivity.
    + reflexivity.
    + reflexivity.
Qed.

Lemma last_tick_snoc l p : last_tick (l ++ [p]) = Some (fst p).
Proof. unfold last_tick. rewrite rev_app_distr. reflexivity. Qed.

Definition is_tr (p : nat * ev) : bool :=
  match snd p with TransitMark KUpd => true | _ => false end.

Record inv (h : list ev) (s : st) : Prop := {
  i_now : now s = ticks h;
  i_w : sstamp s = last_tick (filter is_write (stamped 0 h));
  i_m : mstamp s = last_tick (filter (is_reset KUpd) (stamped 0 h));
  i_le : forall p, In p (stamped 0 h) -> fst p <= now s;
  i_u : match mused s with
        | None => forall p, In p (stamped 0 h) -> is_tr p = false
        | Some u => existsb (is_transit_at KUpd u) (stamped 0 h) = true /\
                    (forall p, In p (stamped 0 h) -> is_tr p = true -> fst p <= u) /\
                    exists r, mstamp s = Some r /\ u <= r
        end;
  i_mle : forall r, mstamp s = Some r -> r <= now s
}.

Lemma run_snoc d h e : run d (h ++ [e]) = step (run d h) e.
Proof. unfold run. rewrite fold_left_app. reflexivity. Qed.

Lemma inv_run d h : inv h (run d h).
Proof.
  induction h as [|e h IH] using rev_ind.
  - constructor; cbn; try reflexivity; try (intros r Hr; discriminate); try (intros p []).
  - rewrite run_snoc. set (s := run d h) in *. destruct IH as [Inow Iw Im Ile Iu Imle].
    destruct e as [|ws|k|k].
    + (* Tick *)
      constructor; rewrite ?stamped_snoc, ?app_nil_r; cbn [plus step now sstamp mstamp mused]; auto;
        try (rewrite ticks_app; cbn; lia);
        try (intros p Hp; specialize (Ile p Hp); lia);
        try (intros r Hr; specialize (Imle r Hr); lia).
    + (* Write *)
      constructor; rewrite ?stamped_snoc; cbn [plus step now sstamp mstamp mused].
      * rewrite ticks_app. cbn. lia.
      * rewrite filter_app. cbn. rewrite last_tick_snoc. cbn. rewrite Inow. reflexivity.
      * rewrite filter_app. cbn. rewrite app_nil_r. exact Im.
      * intros p Hp. apply in_app_or in Hp. destruct Hp as [Hp|[<-|[]]]; [auto|]. cbn. lia.
      * destruct (mused s) as [u|].
        -- destruct Iu as [A [B C]]. split; [|split].
           ++ rewrite existsb_app, A. reflexivity.
           ++ intros p Hp T. apply in_app_or in Hp. destruct Hp as [Hp|[<-|[]]]; [auto|discriminate].
           ++ exact C.
        -- intros p Hp. apply in_app_or in Hp. destruct Hp as [Hp|[<-|[]]]; [auto|reflexivity].
      * exact Imle.
    + (* EnterMark *)
      destruct k.
      * constructor; rewrite ?stamped_snoc; cbn [plus step now sstamp mstamp mused].
        -- rewrite ticks_app. cbn. lia.
        -- rewrite filter_app. cbn. rewrite app_nil_r. exact Iw.
        -- rewrite filter_app. cbn. rewrite last_tick_snoc. cbn. rewrite Inow. reflexivity.
        -- intros p Hp. apply in_app_or in Hp. destruct Hp as [Hp|[<-|[]]]; [auto|]. cbn. lia.
        -- destruct (mused s) as [u|].
           ++ destruct Iu as [A [B [r [C1 C2]]]]. split; [|split].
              ** rewrite existsb_app, A. reflexivity.
              ** intros p Hp T. apply in_app_or in Hp. destruct Hp as [Hp|[<-|[]]]; [auto|discriminate].
              ** exists (now s). split; [reflexivity|]. specialize (Imle r C1). lia.
           ++ intros p Hp. apply in_app_or in Hp. destruct Hp as [Hp|[<-|[]]]; [auto|reflexivity].
        -- intros r Hr. inversion Hr. lia.
      * constructor; rewrite ?stamped_snoc; cbn [plus step now sstamp mstamp mused].
        -- rewrite ticks_app. cbn. lia.
        -- rewrite filter_app. cbn. rewrite app_nil_r. exact Iw.
        -- rewrite filter_app. cbn. rewrite app_nil_r. exact Im.
        -- intros p Hp. apply in_app_or in Hp. destruct Hp as [Hp|[<-|[]]]; [auto|]. cbn. lia.
        -- destruct (mused s) as [u|].
           ++ destruct Iu as [A [B C]]. split; [|split].
              ** rewrite existsb_app, A. reflexivity.
              ** intros p Hp T. apply in_app_or in Hp. destruct Hp as [Hp|[<-|[]]]; [auto|discriminate].
              ** exact C.
           ++ intros p Hp. apply in_app_or in Hp. destruct Hp as [Hp|[<-|[]]]; [auto|reflexivity].
        -- exact Imle.
    + (* TransitMark *)
      destruct k.
      * constructor; rewrite ?stamped_snoc; cbn [plus step now sstamp mstamp mused].
        -- rewrite ticks_app. cbn. lia.
        -- rewrite filter_app. cbn. rewrite app_nil_r. exact Iw.
        -- rewrite filter_app. cbn. rewrite last_tick_snoc. cbn. rewrite Inow. reflexivity.
        -- intros p Hp. apply in_app_or in Hp. destruct Hp as [Hp|[<-|[]]]; [auto|]. cbn. lia.
        -- split; [|split].
           ++ rewrite existsb_app. apply orb_true_iff. right. cbn. rewrite Inow, Nat.eqb_refl. reflexivity.
           ++ intros p Hp T. apply in_app_or in Hp. destruct Hp as [Hp|[<-|[]]]; [auto|]. cbn. lia.
           ++ exists (now s). split; [reflexivity|lia].
        -- intros r Hr. inversion Hr. lia.
      * constructor; rewrite ?stamped_snoc; cbn [plus step now sstamp mstamp mused].
        -- rewrite ticks_app. cbn. lia.
        -- rewrite filter_app. cbn. rewrite app_nil_r. exact Iw.
        -- rewrite filter_app. cbn. rewrite app_nil_r. exact Im.
        -- intros p Hp. apply in_app_or in Hp. destruct Hp as [Hp|[<-|[]]]; [auto|]. cbn. lia.
        -- destruct (mused s) as [u|].
           ++ destruct Iu as [A [B C]]. split; [|split].
              ** rewrite existsb_app, A. reflexivity.
              ** intros p Hp T. apply in_app_or in Hp. destruct Hp as [Hp|[<-|[]]]; [auto|discriminate].
              ** exact C.
           ++ intros p Hp. apply in_app_or in Hp. destruct Hp as [Hp|[<-|[]]]; [auto|reflexivity].
        -- exact Imle.
Qed.

Lemma transit_at_is_tr t p : is_transit_at KUpd t p = true -> is_tr p = true /\ fst p = t.
Proof.
  unfold is_transit_at, is_tr. destruct (snd p) as [|ws|k|k]; try discriminate.
  destruct k; cbn; [|discriminate]. intro H. apply Nat.eqb_eq in H. auto.
Qed.

Lemma existsb_false {A} (f : A -> bool) l : (forall x, In x l -> f x = false) -> existsb f l = false.
Proof.
  intro H. destruct (existsb f l) eqn:E; [|reflexivity].
  apply existsb_exists in E. destruct E as [x [Hx Fx]]. rewrite (H x Hx) in Fx. discriminate.
Qed.

Lemma used_matches h s r : inv h s -> mstamp s = Some r ->
  existsb (is_transit_at KUpd r) (stamped 0 h) = opt_eqb (mused s) (Some r).
Proof.
  intros [Inow Iw Im Ile Iu Imle] Hr. destruct (mused s) as [u|].
  - destruct Iu as [A [B [r' [C1 C2]]]]. rewrite Hr in C1. inversion C1; subst r'. cbn.
    destruct (Nat.eqb u r) eqn:E.
    + apply Nat.eqb_eq in E. subst u. exact A.
    + apply Nat.eqb_neq in E. apply existsb_false. intros p Hp.
      destruct (is_transit_at KUpd r p) eqn:T; [|reflexivity].
      apply transit_at_is_tr in T. destruct T as [T1 T2]. specialize (B p Hp T1). lia.
  - cbn. apply existsb_false. intros p Hp.
    destruct (is_transit_at KUpd r p) eqn:T; [|reflexivity].
    apply transit_at_is_tr in T. destruct T as [T1 _]. rewrite (Iu p Hp) in T1. discriminate.
Qed.

Lemma updated_history_lemma d h : need_update (run d h) = updated_spec h.
Proof.
  pose proof (inv_run d h) as I. unfold need_update, updated_spec.
  rewrite <- (i_w _ _ I), <- (i_m _ _ I).
  destruct (sstamp (run d h)) as [w|]; [|reflexivity].
  destruct (mstamp (run d h)) as [r|] eqn:Hr; [|reflexivity].
  rewrite (used_matches h (run d h) r I Hr). reflexivity.
Qed.

(* ---- kernel slice: every (share, key) pair sees a Part-1 history ---------------------- *)
Lemma get_set_share_same s x l : get_share s (set_share s x l) = x.
Proof.
  unfold get_share. induction l as [|[s' y] r IH]; cbn.
  - rewrite Z.eqb_refl. reflexivity.
  - destruct (Z.eqb s s') eqn:E; cbn.
    + apply Z.eqb_eq in E. subst. rewrite Z.eqb_refl. reflexivity.
    + rewrite Z.eqb_sym, E. exact IH.
Qed.

Lemma get_set_share_other s s' x l : Z.eqb s s' = false -> get_share s' (set_share s x l) = get_share s' l.
Proof.
  intro N. unfold get_share. induction l as [|[s2 y] r IH]; cbn.
  - rewrite N. reflexivity.
  - destruct (Z.eqb s s2) eqn:E; cbn.
    + apply Z.eqb_eq in E. subst s2. rewrite N. reflexivity.
    + destruct (Z.eqb s2 s'); [reflexivity|exact IH].
Qed.

Lemma mk_eqb_refl k : mk_eqb k k = true.
Proof.
  destruct k as [s [m|f]]; unfold mk_eqb; cbn; rewrite Z.eqb_refl; cbn;
    [apply Z.eqb_refl | apply Nat.eqb_refl].
Qed.

Lemma mk_eqb_eq a b : mk_eqb a b = true -> a = b.
Proof.
  destruct a as [s k], b as [s' k']. unfold mk_eqb. cbn. intro H. apply andb_true_iff in H.
  destruct H as [H1 H2]. apply Z.eqb_eq in H1. subst s'.
  destruct k, k'; cbn in H2; try discriminate.
  - apply Z.eqb_eq in H2. subst. reflexivity.
  - apply Nat.eqb_eq in H2. subst. reflexivity.
Qed.

Lemma get_set_mark_same k x l : get_mark k (set_mark k x l) = x.
Proof.
  unfold get_mark. induction l as [|[k' y] r IH]; cbn.
  - rewrite mk_eqb_refl. reflexivity.
  - destruct (mk_eqb k' k) eqn:E; cbn; rewrite E; [reflexivity|exact IH].
Qed.

Lemma get_set_mark_other k k' x l : mk_eqb k k' = false -> get_mark k' (set_mark k x l) = get_mark k' l.
Proof.
  intro N. unfold get_mark. induction l as [|[k2 y] r IH]; cbn.
  - rewrite N. reflexivity.
  - destruct (mk_eqb k2 k) eqn:E; cbn.
    + apply mk_eqb_eq in E. subst k2. rewrite N. reflexivity.
    + destruct (mk_eqb k2 k'); [reflexivity|exact IH].
Qed.

Lemma view_step s e sh key :
  view (apply_kev s e) sh key = fold_left step (proj1 sh key e) (view s sh key).
Proof.
  destruct e as [[[sh' f] v]|[[k sh'] key']|[[k sh'] key']]; cbn [apply_kev proj1].
  - unfold do_write, view. cbn [k_now k_shares k_marks].
    destruct (Z.eqb sh' sh) eqn:E.
    + apply Z.eqb_eq in E. subst sh'. rewrite get_set_share_same. reflexivity.
    + rewrite (get_set_share_other _ _ _ _ E). reflexivity.
  - unfold do_mark, view. cbn [k_now k_shares k_marks].
    destruct (mk_eqb (sh', key') (sh, key)) eqn:E.
    + apply mk_eqb_eq in E. inversion E; subst. rewrite get_set_mark_same.
      destruct k; reflexivity.
    + rewrite (get_set_mark_other _ _ _ _ E). reflexivity.
  - unfold do_mark, view. cbn [k_now k_shares k_marks].
    destruct (mk_eqb (sh', key') (sh, key)) eqn:E.
    + apply mk_eqb_eq in E. inversion E; subst. rewrite get_set_mark_same.
      destruct k; reflexivity.
    + rewrite (get_set_mark_other _ _ _ _ E). reflexivity.
Qed.

Lemma view_apply_all es : forall s sh key,
  view (apply_all s es) sh key = fold_left step (proj sh key es) (view s sh key).
Proof.
  induction es as [|e r IH]; intros s sh key; [reflexivity|].
  unfold apply_all, proj in *. cbn [fold_left flat_map]. rewrite fold_left_app, IH, view_step. reflexivity.
Qed.

Lemma view_with_active s a sh key : view (with_active s a) sh key = view s sh key.
Proof. reflexivity. Qed.

Lemma view_tick_advance s sh key : view (with_now s (S (k_now s))) sh key = step (view s sh key) Tick.
Proof. reflexivity. Qed.

Lemma view_tick p first s pre post sh key :
  view (fst (tick p first s pre post)) sh key =
  fold_left step (proj sh key (snd (tick p first s pre post))) (view s sh key).
Proof.
  unfold tick. destruct (framer_evs p (apply_all s (map KWrite pre)) first) as [es a]. cbn [fst snd].
  unfold proj. rewrite !flat_map_app, !fold_left_app. fold (proj sh key (map KWrite pre)).
  fold (proj sh key es). fold (proj sh key (map KWrite post)).
  rewrite view_apply_all, view_with_active, view_apply_all, view_apply_all. reflexivity.
Qed.

Lemma run_sim p : forall script first s sh key,
  view (run_state p first s script) sh key =
  fold_left step (khist sh key (snd (run_ticks p first s script))) (view s sh key).
Proof.
  induction script as [|[pre post] r IH]; intros first s sh key; [reflexivity|].
  cbn [run_state run_ticks]. pose proof (view_tick p first s pre post sh key) as VT.
  destruct (tick p first s pre post) as [s' es]. cbn [fst snd] in VT.
  specialize (IH false (with_now s' (S (k_now s'))) sh key).
  destruct (run_ticks p false (with_now s' (S (k_now s'))) r) as [acts evs]. cbn [snd] in *.
  rewrite IH. unfold khist. cbn [flat_map]. rewrite !fold_left_app. cbn [fold_left].
  rewrite view_tick_advance, VT. reflexivity.
Qed.

Lemma init_stamp_none sh init :
  s_stamp (get_share sh (map (fun p : Z * fields => (fst p, {| s_stamp := None; s_data := snd p |})) init)) = None.
Proof.
  unfold get_share. induction init as [|[s d] r IH]; [reflexivity|]. cbn.
  destruct (Z.eqb s sh); [reflexivity|exact IH].
Qed.

Definition init_data (init : list (Z * fields)) (sh : Z) : fields :=
  s_data (get_share sh (k_shares (kst0 init 0))).

Lemma view_kst0 init sh key : view (kst0 init 0) sh key = st0 (init_data init sh).
Proof.
  unfold view, st0, init_data, kst0. cbn [k_now k_shares k_marks]. rewrite init_stamp_none. reflexivity.
Qed.

(* in any kernel run, at the start of the tick after the script (and, with [extra] = the external
   writes made before the framer in that tick, at the moment the framer evaluates its needs),
   each marker condition is the history-level statement over the events that touched its pair *)
Lemma kernel_history_lemma p init script sh key extra :
  let s := apply_all (run_state p true (kst0 init 0) script) (map KWrite extra) in
  let h := khist sh key (snd (run_ticks p true (kst0 init 0) script)) ++ proj sh key (map KWrite extra) in
  need_eval s (KUpd, sh, key) = updated_spec h /\
  need_eval s (KChg, sh, key) = changed_spec (init_data init sh) h.
Proof.
  cbn zeta. unfold need_eval.
  assert (V : view (apply_all (run_state p true (kst0 init 0) script) (map KWrite extra)) sh key =
              run (init_data init sh)
                (khist sh key (snd (run_ticks p true (kst0 init 0) script)) ++ proj sh key (map KWrite extra))).
  { rewrite view_apply_all, run_sim, view_kst0. unfold run. rewrite fold_left_app. reflexivity. }
  rewrite V. split; [apply updated_history_lemma|apply changed_history_lemma].
Qed.

(* ---- the same-tick rules, as direct corollaries on any reachable state ------------------ *)
Lemma nat_ltb_irrefl n : Nat.ltb n n = false.
Proof. apply Nat.ltb_irrefl. Qed.

Lemma transit_same_tick_lemma d h ws :
  need_update (run d (h ++ [Write ws; TransitMark KUpd])) = false /\
  need_update (run d (h ++ [TransitMark KUpd; Write ws])) = false.
Proof.
  unfold run. rewrite !fold_left_app. cbn [fold_left step]. unfold need_update. cbn [sstamp mstamp mused now opt_eqb].
  rewrite !Nat.ltb_irrefl, !Nat.eqb_refl. split; reflexivity.
Qed.

Lemma entry_same_tick_lemma d h ws :
  mused (run d h) <> Some (now (run d h)) ->
  need_update (run d (h ++ [Write ws; EnterMark KUpd])) = true /\
  need_update (run d (h ++ [EnterMark KUpd; Write ws])) = true.
Proof.
  intro N. unfold run in *. rewrite !fold_left_app. cbn [fold_left step]. unfold need_update. cbn [sstamp mstamp mused now opt_eqb].
  rewrite !Nat.ltb_irrefl, !Nat.eqb_refl. cbn [orb andb].
  destruct (opt_eqb (mused (fold_left step h (st0 d))) (Some (now (fold_left step h (st0 d))))) eqn:E.
  - apply opt_eqb_eq in E. contradiction.
  - split; reflexivity.
Qed.

Lemma later_tick_lemma d h k ws :
  need_update (run d (h ++ [TransitMark k; Tick; Write ws])) = true /\
  need_update (run d (h ++ [EnterMark k; Tick; Write ws])) = true.
Proof.
  pose proof (inv_run d h) as I. pose proof (i_mle _ _ I) as M.
  unfold run in *. rewrite !fold_left_app. cbn [fold_left]. unfold need_update.
  set (s := fold_left step h (st0 d)) in *.
  destruct k; cbn [step sstamp mstamp mused now opt_eqb].
  - assert (L : Nat.ltb (now s) (S (now s)) = true) by (apply Nat.ltb_lt; lia). rewrite L. split; reflexivity.
  - destruct (mstamp s) as [m|] eqn:E; [|split; reflexivity].
    assert (L : Nat.ltb m (S (now s)) = true) by (apply Nat.ltb_lt; specialize (M m eq_refl); lia).
    rewrite L. split; reflexivity.
Qed.

Lemma never_set_lemma d h :
  filter (is_reset KUpd) (stamped 0 h) = [] ->
  need_update (run d h) = match filter is_write (stamped 0 h) with [] => false | _ => true end.
Proof.
  intro N. rewrite updated_history_lemma. unfold updated_spec. rewrite N. cbn.
  destruct (filter is_write (stamped 0 h)) as [|p l] eqn:E; [reflexivity|].
  unfold last_tick. destruct (rev (p :: l)) eqn:R; [|reflexivity].
  apply (f_equal (@rev _)) in R. rewrite rev_involutive in R. discriminate.
Qed.

(* ---- refused transitions (entry guard of the target closed) --------------------------- *)
Lemma refused_is_skipped_lemma p s fi t r :
  needs_true s fi t = true -> guard_ok s (t_far t) (frame_of p (t_far t)) = false ->
  pick p s fi (t :: r) = pick p s fi r.
Proof. intros N G. cbn [pick]. rewrite N, G. reflexivity. Qed.

Definition only_writes (h : list ev) : Prop := forall e, In e h -> exists ws, e = Write ws.

Lemma writes_keep_marks h : forall v, only_writes h -> marks_of (fold_left step h v) = marks_of v.
Proof.
  induction h as [|e r IH]; intros v H; [reflexivity|].
  cbn [fold_left]. rewrite IH; [|intros x Hx; apply H; right; exact Hx].
  destruct (H e (or_introl eq_refl)) as [ws ->]. reflexivity.
Qed.

Lemma proj_writes_only sh key ws : only_writes (proj sh key (map KWrite ws)).
Proof.
  induction ws as [|[[s f] v] r IH]; intros e He; [destruct He|].
  unfold proj in *. cbn [map flat_map proj1] in He. apply in_app_or in He. destruct He as [He|He].
  - destruct (Z.eqb s sh); [|destruct He]. destruct He as [<-|[]]. eexists; reflexivity.
  - apply IH. exact He.
Qed.

Lemma only_writes_app a b : only_writes a -> only_writes b -> only_writes (a ++ b).
Proof. intros A B e He. apply in_app_or in He. destruct He; auto. Qed.

Lemma apply_writes_active ws : forall s, k_active (apply_all s (map KWrite ws)) = k_active s.
Proof.
  induction ws as [|[[sh f] v] r IH]; intro s; [reflexivity|].
  unfold apply_all in *. cbn [map fold_left apply_kev]. rewrite IH. reflexivity.
Qed.

(* the events of a tick in which no transition of the active frame is taken *)
Lemma refused_tick_events p s pre post :
  pick p (apply_all s (map KWrite pre)) (k_active s) (f_trans (frame_of p (k_active s))) = None ->
  snd (tick p false s pre post) =
  map KWrite pre ++ map KWrite (f_recur (frame_of p (k_active s))) ++ map KWrite post.
Proof.
  intro N. unfold tick, framer_evs.
  pose proof (apply_writes_active pre s) as A.
  rewrite A, N. reflexivity.
Qed.

Lemma refused_tick_keeps_marks_lemma p s pre post sh key :
  pick p (apply_all s (map KWrite pre)) (k_active s) (f_trans (frame_of p (k_active s))) = None ->
  marks_of (view (fst (tick p false s pre post)) sh key) = marks_of (view s sh key).
Proof.
  intro N. rewrite view_tick, (refused_tick_events p s pre post N).
  apply writes_keep_marks. unfold proj. rewrite !flat_map_app.
  repeat apply only_writes_app; apply proj_writes_only.
Qed.

(* a pending update stays pending under any further writes and ticks as long as the mark is untouched *)
Definition quiet (h : list ev) : Prop := forall e, In e h -> e = Tick \/ exists ws, e = Write ws.

Lemma step_wf v e : stamp_wf v -> stamp_wf (step v e).
Proof.
  intros W w. destruct e as [|ws|[|]|[|]]; cbn; intro H; try (specialize (W w H); lia).
  inversion H. lia.
Qed.

Lemma fold_wf h : forall v, stamp_wf v -> stamp_wf (fold_left step h v).
Proof.
  induction h as [|e r IH]; intros v W; [exact W|]. cbn. apply IH. apply step_wf. exact W.
Qed.

Lemma run_stamp_wf d h : stamp_wf (run d h).
Proof. unfold run. apply fold_wf. intros w H. discriminate. Qed.

Lemma pending_survives h : forall v, quiet h -> stamp_wf v -> need_update v = true ->
  need_update (fold_left step h v) = true.
Proof.
  induction h as [|e r IH]; intros v Q W U; [exact U|].
  cbn [fold_left]. apply IH; [intros x Hx; apply Q; right; exact Hx|apply step_wf; exact W|].
  destruct (Q e (or_introl eq_refl)) as [->|[ws ->]].
  - exact U.
  - unfold need_update in *. cbn [step sstamp mstamp mused].
    destruct (sstamp v) as [w|] eqn:E; [|discriminate]. specialize (W w E).
    destruct (mstamp v) as [m|]; [|reflexivity].
    apply orb_true_iff in U. destruct U as [U|U].
    + apply Nat.ltb_lt in U. apply orb_true_iff. left. apply Nat.ltb_lt. lia.
    + apply andb_true_iff in U. destruct U as [U1 U2]. apply Nat.eqb_eq in U1. subst m.
      destruct (Nat.eqb (now v) w) eqn:E2.
      * apply orb_true_iff. right. rewrite U2. reflexivity.
      * apply Nat.eqb_neq in E2. apply orb_true_iff. left. apply Nat.ltb_lt. lia.
Qed.

Lemma quiet_of_writes h : only_writes h -> quiet h.
Proof. intros H e He. right. apply H. exact He. Qed.

Lemma quiet_app a b : quiet a -> quiet b -> quiet (a ++ b).
Proof. intros A B e He. apply in_app_or in He. destruct He; auto. Qed.

Lemma pending_update_survives_lemma p s pre post sh key extra :
  pick p (apply_all s (map KWrite pre)) (k_active s) (f_trans (frame_of p (k_active s))) = None ->
  stamp_wf (view s sh key) ->
  need_eval (apply_all s (map KWrite pre)) (KUpd, sh, key) = true ->
  let s' := fst (tick p false s pre post) in
  need_eval (apply_all (with_now s' (S (k_now s'))) (map KWrite extra)) (KUpd, sh, key) = true.
Proof.
  intros N W U. cbn zeta. unfold need_eval in *.
  rewrite view_apply_all, view_tick_advance, view_tick, (refused_tick_events p s pre post N).
  rewrite view_apply_all in U.
  unfold proj. rewrite !flat_map_app.
  fold (proj sh key (map KWrite pre)). rewrite fold_left_app.
  set (v1 := fold_left step (proj sh key (map KWrite pre)) (view s sh key)) in *.
  assert (W1 : stamp_wf v1) by (apply fold_wf; exact W).
  assert (Q2 : quiet (flat_map (proj1 sh key) (map KWrite (f_recur (frame_of p (k_active s)))) ++
                      flat_map (proj1 sh key) (map KWrite post))).
  { apply quiet_app; apply quiet_of_writes; apply (proj_writes_only sh key). }
  apply pending_survives.
  - apply quiet_of_writes. apply (proj_writes_only sh key).
  - apply step_wf. apply fold_wf. exact W1.
  - change (need_update (fold_left step [Tick] (fold_left step
        (flat_map (proj1 sh key) (map KWrite (f_recur (frame_of p (k_active s)))) ++
         flat_map (proj1 sh key) (map KWrite post)) v1)) = true).
    apply pending_survives.
    + intros e [<-|[]]. left. reflexivity.
    + apply fold_wf. exact W1.
    + apply pending_survives; [exact Q2|exact W1|exact U].
Qed.

(* ---- marks that are never transit-reset (e.g. a mark used only by `let` marker needs) ------ *)
Definition no_transit (h : list ev) : Prop := forall e, In e h -> e <> TransitMark KUpd.

Lemma stamped_in h : forall t p, In p (stamped t h) -> In (snd p) h.
Proof.
  induction h as [|e r IH]; intros t p Hp; [destruct Hp|].
  destruct e; cbn [stamped] in Hp.
  - right. apply (IH _ _ Hp).
  - destruct Hp as [<-|Hp]; [left; reflexivity|right; apply (IH _ _ Hp)].
  - destruct Hp as [<-|Hp]; [left; reflexivity|right; apply (IH _ _ Hp)].
  - destruct Hp as [<-|Hp]; [left; reflexivity|right; apply (IH _ _ Hp)].
Qed.

Lemma updated_without_transit_lemma d h : no_transit h ->
  need_update (run d h) =
  match last_tick (filter is_write (stamped 0 h)) with
  | None => false
  | Some w => match last_tick (filter (is_reset KUpd) (stamped 0 h)) with
              | None => true
              | Some r => Nat.leb r w
              end
  end.
Proof.
  intro N. rewrite updated_history_lemma. unfold updated_spec.
  destruct (last_tick (filter is_write (stamped 0 h))) as [w|]; [|reflexivity].
  destruct (last_tick (filter (is_reset KUpd) (stamped 0 h))) as [r|]; [|reflexivity].
  assert (E : existsb (is_transit_at KUpd r) (stamped 0 h) = false).
  { apply existsb_false. intros p Hp. destruct (is_transit_at KUpd r p) eqn:T; [|reflexivity].
    exfalso. apply transit_at_is_tr in T. destruct T as [T _]. unfold is_tr in T.
    pose proof (stamped_in h 0 p Hp) as Hin. destruct (snd p) as [|ws|k|k]; try discriminate.
    destruct k; [|discriminate]. apply (N _ Hin). reflexivity. }
  rewrite E. cbn [negb]. rewrite andb_true_r.
  destruct (Nat.leb r w) eqn:L.
  - apply Nat.leb_le in L. destruct (Nat.ltb r w) eqn:L2; [reflexivity|].
    apply Nat.ltb_ge in L2. cbn. apply Nat.eqb_eq. lia.
  - apply Nat.leb_gt in L. destruct (Nat.ltb r w) eqn:L2; [apply Nat.ltb_lt in L2; lia|].
    cbn. apply Nat.eqb_neq. lia.
Qed.

(* the transit markers run in a tick are exactly those of the needs of the transition taken from
   the active frame: a `let` (entry guard) need never contributes one *)
Lemma pick_in p s fi ts t : pick p s fi ts = Some t -> In t ts.
Proof.
  induction ts as [|x r IH]; cbn [pick]; [discriminate|].
  destruct (needs_true s fi x && guard_ok s (t_far x) (frame_of p (t_far x))).
  - intro H. inversion H. left. reflexivity.
  - intro H. right. apply IH. exact H.
Qed.

Lemma in_map_kwrite m ws : ~ In (KTransitMark m) (map KWrite ws).
Proof. induction ws as [|w r IH]; cbn; [tauto|]. intros [H|H]; [discriminate|auto]. Qed.

Lemma in_enter_evs m p F : ~ In (KTransitMark m) (enter_evs p F).
Proof.
  unfold enter_evs. intro H. apply in_app_or in H. destruct H as [H|H].
  - apply in_map_iff in H. destruct H as [x [E _]]. discriminate.
  - apply (in_map_kwrite _ _ H).
Qed.

Lemma transit_marks_origin_lemma p first s pre post m :
  In (KTransitMark m) (snd (tick p first s pre post)) ->
  exists t n, In t (f_trans (frame_of p (k_active s))) /\ In n (t_needs t) /\
              m = resolve_need (k_active s) n.
Proof.
  unfold tick. pose proof (apply_writes_active pre s) as A.
  unfold framer_evs. rewrite A.
  destruct first.
  - cbn [snd]. intro H. exfalso.
    apply in_app_or in H. destruct H as [H|H]; [apply (in_map_kwrite _ _ H)|].
    apply in_app_or in H. destruct H as [H|H]; [|apply (in_map_kwrite _ _ H)].
    apply in_app_or in H. destruct H as [H|H]; [apply (in_enter_evs _ _ _ H)|apply (in_map_kwrite _ _ H)].
  - destruct (pick p (apply_all s (map KWrite pre)) (k_active s) (f_trans (frame_of p (k_active s)))) as [t|] eqn:P.
    + cbn [snd]. intro H.
      apply in_app_or in H. destruct H as [H|H]; [exfalso; apply (in_map_kwrite _ _ H)|].
      apply in_app_or in H. destruct H as [H|H]; [|exfalso; apply (in_map_kwrite _ _ H)].
      apply in_app_or in H. destruct H as [H|H].
      * apply in_map_iff in H. destruct H as [n [E Hn]]. inversion E; subst.
        exists t, n. split; [apply (pick_in _ _ _ _ _ P)|]. split; [exact Hn|reflexivity].
      * exfalso. apply in_app_or in H. destruct H as [H|H]; [apply (in_map_kwrite _ _ H)|].
        apply in_app_or in H. destruct H as [H|H]; [apply (in_enter_evs _ _ _ H)|apply (in_map_kwrite _ _ H)].
    + cbn [snd]. intro H. exfalso.
      apply in_app_or in H. destruct H as [H|H]; [apply (in_map_kwrite _ _ H)|].
      apply in_app_or in H. destruct H as [H|H]; apply (in_map_kwrite _ _ H).
Qed.
