(* C33 -- property theorems only.  Each closed by [exact]; Print Assumptions beneath. *)
From Coq Require Import String.
From Coq Require Import List ZArith Bool.
Import ListNotations.
Require Import V.Lib.C29_Http V.Lib.C29_HttpProofs V.C33.Model V.C33.Proofs.
Open Scope Z_scope.

(* SPLIT INDEPENDENCE.  For every line-length limit m >= 0 and every list of receives,
   parsing after each receive ends in exactly the configuration -- dispatched events, last
   event id, retry, the partly assembled event AND the unconsumed bytes -- of parsing the
   concatenation in one receive.  Hence any two splits of the same bytes agree. *)
Theorem sse_split_independent : forall m, 0 <= m -> forall pieces,
  sse_feed_all m (init_sse, []) pieces = sse_feed m (init_sse, []) (concat pieces).
Proof. exact sse_split_independent_init. Qed.
Print Assumptions sse_split_independent.

Theorem sse_any_two_splits_agree : forall m, 0 <= m -> forall ps qs, concat ps = concat qs ->
  sse_feed_all m (init_sse, []) ps = sse_feed_all m (init_sse, []) qs.
Proof. exact sse_any_two_splits. Qed.
Print Assumptions sse_any_two_splits_agree.

(* the same from any configuration in which the parser is waiting (mid-stream) *)
Theorem sse_split_independent_midstream : forall m pieces c, quiescent sse (sse_step m) c ->
  sse_feed_all m c pieces = sse_feed m c (concat pieces).
Proof. exact sse_split_independent_gen. Qed.
Print Assumptions sse_split_independent_midstream.

(* LINE-ENDING INDEPENDENCE.  A stream rendered from logical lines with ANY per-line choice
   of CR / LF / CRLF (wf: lines free of CR, LF; no bare CR as last byte or before a LF byte)
   parses to the field rules folded over the logical lines, nothing left over. *)
Theorem sse_parse_is_fold_of_lines : forall m, 0 <= m -> forall ls, wf m ls = true ->
  sse_feed m (init_sse, []) (render ls) = (sse_of_lines init_sse (map fst ls), []).
Proof. exact sse_feed_render. Qed.
Print Assumptions sse_parse_is_fold_of_lines.

Theorem sse_eol_recoding_invariant : forall m, 0 <= m -> forall ls ls',
  wf m ls = true -> wf m ls' = true -> map fst ls = map fst ls' ->
  sse_feed m (init_sse, []) (render ls) = sse_feed m (init_sse, []) (render ls').
Proof. exact sse_eol_independent. Qed.
Print Assumptions sse_eol_recoding_invariant.

(* both at once: any endings, any split *)
Theorem sse_any_split_any_eols : forall m, 0 <= m -> forall ls pieces,
  wf m ls = true -> concat pieces = render ls ->
  sse_feed_all m (init_sse, []) pieces = (sse_of_lines init_sse (map fst ls), []).
Proof. exact sse_split_and_eol_independent. Qed.
Print Assumptions sse_any_split_any_eols.

(* parseLine: a line found in a prefix of the stream is final *)
Theorem line_result_on_prefix_is_final : forall m e b l r c,
  next_line m e b = LLine l r -> next_line m e (b ++ c) = LLine l (r ++ c).
Proof. exact next_line_line_stable. Qed.
Print Assumptions line_result_on_prefix_is_final.

Theorem line_too_long_on_prefix_is_final : forall m e b c,
  next_line m e b = LTooLong -> next_line m e (b ++ c) = LTooLong.
Proof. exact next_line_toolong_stable. Qed.
Print Assumptions line_too_long_on_prefix_is_final.

(* A stream whose last line so far ends in a bare CR: everything before it is parsed and
   dispatched, the last line is held back with its CR (it may be half of a CRLF) ... *)
Theorem sse_trailing_cr_is_held_back : forall m, 0 <= m -> forall ls l, wft m ls (l ++ [13]) = true ->
  clean l = true -> len l <= m ->
  sse_feed m (init_sse, []) (render ls ++ l ++ [13]) = (sse_of_lines init_sse (map fst ls), l ++ [13]).
Proof. exact sse_trailing_cr_held. Qed.
Print Assumptions sse_trailing_cr_is_held_back.

(* ... and whatever arrives next, the outcome is that of the unsplit stream *)
Theorem sse_trailing_cr_then_more : forall m, 0 <= m -> forall ls l more,
  sse_feed_all m (init_sse, []) [render ls ++ l ++ [13]; more]
  = sse_feed m (init_sse, []) (render ls ++ l ++ [13] ++ more).
Proof. exact sse_trailing_cr_then. Qed.
Print Assumptions sse_trailing_cr_then_more.

(* FIELD RULE: n >= 1 lines "data: v_i" and a blank line dispatch exactly one event whose data is
   the v_i joined by LF, with the current last-event-id and event name; the name is then reset *)
Theorem sse_data_lines_joined_by_newline : forall vs s, e_parts s = [] -> vs <> [] ->
  join_with [10] vs <> [] ->
  sse_of_lines s (map data_line vs ++ [[]]) =
  {| e_leid := e_leid s; e_name := []; e_parts := []; e_retry := e_retry s;
     e_events := e_events s ++ [{| ev_id := e_leid s; ev_name := e_name s; ev_data := join_with [10] vs |}];
     e_failed := false |}.
Proof. exact sse_data_block. Qed.
Print Assumptions sse_data_lines_joined_by_newline.

(* THE OTHER FIELD RULES, each for all values *)
Theorem sse_comment_line_ignored : forall s rest, sse_line s (58 :: rest) = s.
Proof. exact sse_comment_ignored. Qed.
Print Assumptions sse_comment_line_ignored.

Theorem sse_exactly_one_leading_space_stripped : forall s f v, f <> [] -> no_colon f = true ->
  starts_sp v = false -> sse_line s (f ++ 58 :: 32 :: v) = sse_line s (f ++ 58 :: v).
Proof. exact sse_one_leading_space. Qed.
Print Assumptions sse_exactly_one_leading_space_stripped.

Theorem sse_unknown_field_is_ignored : forall s f v, f <> [] -> no_colon f = true ->
  known_field f = false -> sse_line s (f ++ 58 :: v) = s.
Proof. exact sse_unknown_field_ignored. Qed.
Print Assumptions sse_unknown_field_is_ignored.

Theorem sse_retry_set_iff_integer : forall s v, starts_sp v = false ->
  sse_line s (bz "retry" ++ 58 :: v) =
  match (if all_ascii v then py_int 10 v else None) with
  | Some n => {| e_leid := e_leid s; e_name := e_name s; e_parts := e_parts s; e_retry := Some n;
                 e_events := e_events s; e_failed := false |}
  | None => s
  end.
Proof. exact sse_retry_rule. Qed.
Print Assumptions sse_retry_set_iff_integer.

Theorem sse_id_sets_last_event_id : forall s v, starts_sp v = false ->
  sse_line s (bz "id" ++ 58 :: v) =
  {| e_leid := Some v; e_name := e_name s; e_parts := e_parts s; e_retry := e_retry s;
     e_events := e_events s; e_failed := false |}.
Proof. exact sse_id_rule. Qed.
Print Assumptions sse_id_sets_last_event_id.

(* non-vacuity: the two streams of the defect report, mixed endings, split inside CRLF *)
Example c33_split_inside_crlf :
  let ev := {| ev_id := None; ev_name := []; ev_data := bz "x" ++ [10] ++ bz "y" |} in
  e_events (fst (sse_feed_all 65536 (init_sse, [])
                  [bz "data: x" ++ [13]; [10] ++ bz "data: y" ++ [13; 10; 13; 10]])) = [ev] /\
  e_events (fst (sse_feed 65536 (init_sse, [])
                  (bz "data: x" ++ [13; 10] ++ bz "data: y" ++ [13; 10; 13; 10]))) = [ev].
Proof. vm_compute. split; reflexivity. Qed.

Example c33_mixed_endings_fields :
  let s := fst (sse_feed 65536 (init_sse, [])
     (render [(bz "id: 7", Ecr); (bz "event:tick", Elf); (bz "data: a", Ecrlf); (bz "data:b", Ecr);
              (bz ": note", Elf); (bz "retry: 250", Ecrlf); ([], Ecr); (bz "data", Elf); ([], Ecrlf)])) in
  e_events s = [{| ev_id := Some (bz "7"); ev_name := bz "tick"; ev_data := bz "a" ++ [10] ++ bz "b" |}]
  /\ e_retry s = Some 250 /\ e_leid s = Some (bz "7").
Proof. vm_compute. repeat split; reflexivity. Qed.
