(* C33 -- server-sent events: EventSource.parseEvents over parseLine(eols=(CRLF, LF, CR)).
   The parser model (sse_step, sse_line, sse_feed, ...) is in V.Lib.C29_Http.
   Here: the specification side -- logical lines, a choice of line ending per line,
   and the rendering of both to bytes.  Definitions only. *)
From Coq Require Import List ZArith Bool.
Import ListNotations.
Require Export V.Lib.C29_Http.
Require V.Lib.C29_HttpObs.   (* observation functions of the correspondence runs: keep in the build closure *)
Open Scope Z_scope.

Inductive eol := Ecr | Elf | Ecrlf.
Definition eol_bytes (k : eol) : bytes :=
  match k with Ecr => [13] | Elf => [10] | Ecrlf => [13; 10] end.

(* an event stream as the SSE grammar sees it: lines, each with its own ending *)
Fixpoint render (ls : list (bytes * eol)) : bytes :=
  match ls with
  | [] => []
  | (l, k) :: t => l ++ eol_bytes k ++ render t
  end.

Definition clean (l : bytes) : bool := forallb (fun c => negb (c =? 13) && negb (c =? 10)) l.

(* [wf maxl ls]: every line is free of CR and LF and at most maxl bytes long, and the rendering
   is unambiguous: a bare CR ending is neither the last byte of the stream (the parser
   must wait to see whether a LF follows) nor directly followed by a LF byte (which the
   grammar itself reads as one CRLF). *)
Fixpoint wf (maxl : Z) (ls : list (bytes * eol)) : bool :=
  match ls with
  | [] => true
  | (l, k) :: t =>
      clean l && (len l <=? maxl) &&
      match k, t with
      | Ecr, [] => false
      | Ecr, ([], Elf) :: _ => false
      | _, _ => true
      end && wf maxl t
  end.

(* the field rules applied to the logical lines only *)
Definition sse_of_lines (s : sse) (lines : list bytes) : sse := fold_left sse_line lines s.

(* [wft maxl ls tail]: as [wf], for a stream that continues with [tail] after the lines *)
Definition not_lf_first (b : bytes) : bool :=
  match b with [] => false | x :: _ => negb (x =? 10) end.

Fixpoint wft (maxl : Z) (ls : list (bytes * eol)) (tail : bytes) : bool :=
  match ls with
  | [] => true
  | (l, k) :: t =>
      clean l && (len l <=? maxl) &&
      match k, t with
      | Ecr, [] => not_lf_first tail
      | Ecr, ([], Elf) :: _ => false
      | _, _ => true
      end && wft maxl t tail
  end.
