From Coq Require Import String.
From Coq Require Import List ZArith Bool Lia.
Import ListNotations.
Require Import V.Lib.C29_Http V.Lib.C29_HttpProofs V.C33.Model.
Open Scope Z_scope.

Lemma sse_init_quiescent m : 0 <= m -> quiescent sse (sse_step m) (init_sse, []).
Proof.
  intros Hm s' r. cbn. unfold sse_step. cbn. unfold next_line. cbn.
  destruct (m <? 0) eqn:E; [apply Z.ltb_lt in E; lia|]. discriminate.
Qed.

Lemma sse_split_independent_gen m : forall pieces c, quiescent sse (sse_step m) c ->
  sse_feed_all m c pieces = sse_feed m c (concat pieces).
Proof.
  intros. unfold sse_feed_all, sse_feed.
  apply feed_all_concat; [apply sse_step_dec | apply sse_step_stable | assumption].
Qed.

Lemma sse_split_independent_init m : 0 <= m -> forall pieces,
  sse_feed_all m (init_sse, []) pieces = sse_feed m (init_sse, []) (concat pieces).
Proof. intros Hm pieces. apply sse_split_independent_gen. apply sse_init_quiescent. exact Hm. Qed.

Lemma sse_any_two_splits m : 0 <= m -> forall ps qs, concat ps = concat qs ->
  sse_feed_all m (init_sse, []) ps = sse_feed_all m (init_sse, []) qs.
Proof.
  intros Hm ps qs E. rewrite !sse_split_independent_init by exact Hm. rewrite E. reflexivity.
Qed.

(* ---- line splitting on a rendered stream ---- *)
Lemma split_line_cons_plain e c t : (c =? 13) = false -> (c =? 10) = false ->
  split_line e (c :: t) = cons_fst c (split_line e t).
Proof. intros H13 H10. cbn [split_line]. rewrite H13, H10. reflexivity. Qed.

Lemma split_line_clean_cons : forall l x rest,
  clean l = true -> split_line EAll (l ++ x :: rest) = 
  match split_line EAll (x :: rest) with Some (l', r) => Some (l ++ l', r) | None => None end.
Proof.
  induction l as [|c t IH]; intros x rest Hc.
  - cbn [app]. destruct (split_line EAll (x :: rest)) as [[l' r]|]; reflexivity.
  - cbn [clean forallb] in Hc. apply andb_true_iff in Hc. destruct Hc as [Hc Ht].
    apply andb_true_iff in Hc. destruct Hc as [H13 H10].
    apply negb_true_iff in H13. apply negb_true_iff in H10.
    cbn [app]. rewrite split_line_cons_plain by assumption.
    fold (clean t) in Ht. rewrite (IH x rest Ht).
    destruct (split_line EAll (x :: rest)) as [[l' r]|]; reflexivity.
Qed.

Lemma split_line_render_line : forall l k rest,
  clean l = true -> (k = Ecr -> not_lf_first rest = true) ->
  split_line EAll (l ++ eol_bytes k ++ rest) = Some (l, rest).
Proof.
  intros l k rest Hc Hk. destruct k; cbn [eol_bytes app].
  - rewrite split_line_clean_cons by exact Hc. specialize (Hk eq_refl).
    destruct rest as [|x r]; [discriminate|]. cbn in Hk. apply negb_true_iff in Hk.
    cbn [split_line]. cbn. rewrite Hk. cbn. rewrite app_nil_r. reflexivity.
  - rewrite split_line_clean_cons by exact Hc. cbn. rewrite app_nil_r. reflexivity.
  - rewrite split_line_clean_cons by exact Hc. cbn. rewrite app_nil_r. reflexivity.
Qed.

Lemma render_not_lf_first m : forall l k t, wf m ((l, k) :: t) = true ->
  (k <> Elf \/ l <> []) -> not_lf_first (render ((l, k) :: t)) = true.
Proof.
  intros l k t H Hne. cbn [wf] in H. repeat (apply andb_true_iff in H; destruct H as [H ?]).
  cbn [render]. destruct l as [|c l'].
  - cbn [app]. destruct k; cbn; try reflexivity. destruct Hne; congruence.
  - cbn [app not_lf_first]. cbn [clean forallb] in H. apply andb_true_iff in H. destruct H as [H _].
    apply andb_true_iff in H. destruct H as [_ H]. exact H.
Qed.

Lemma sse_run_render m : 0 <= m -> forall ls n s,
  wf m ls = true -> e_failed s = false -> (sse_mu s (render ls) < n)%nat ->
  run sse (sse_step m) n s (render ls) = (sse_of_lines s (map fst ls), []).
Proof.
  intros Hm. induction ls as [|[l k] t IH]; intros n s Hwf Hf Hn.
  - cbn [render map sse_of_lines fold_left]. destruct n; [reflexivity|]. cbn [run].
    unfold sse_step. rewrite Hf. unfold next_line. cbn.
    destruct (m <? 0) eqn:E; [apply Z.ltb_lt in E; lia|]. reflexivity.
  - destruct n; [lia|]. cbn [run].
    assert (Hstep : sse_step m s (render ((l, k) :: t)) = Adv (sse_line s l) (render t)).
    { unfold sse_step. rewrite Hf. unfold next_line. cbn [render].
      pose proof Hwf as Hwf'. cbn [wf] in Hwf.
      apply andb_true_iff in Hwf. destruct Hwf as [Hwf Hwt].
      apply andb_true_iff in Hwf. destruct Hwf as [Hwf Hk].
      apply andb_true_iff in Hwf. destruct Hwf as [Hcl Hlen].
      rewrite split_line_render_line.
      - apply Z.leb_le in Hlen. destruct (m <? len l) eqn:E; [apply Z.ltb_lt in E; lia|]. reflexivity.
      - exact Hcl.
      - intros ->. destruct t as [|[l2 k2] t2]; [discriminate|].
        apply (render_not_lf_first m); [exact Hwt|].
        destruct l2; [|right; discriminate]. destruct k2; [left; discriminate|discriminate|left; discriminate]. }
    rewrite Hstep. cbn [map fst sse_of_lines fold_left].
    apply IH.
    + cbn [wf] in Hwf. apply andb_true_iff in Hwf. tauto.
    + apply sse_line_not_failed. exact Hf.
    + pose proof (sse_step_dec m _ _ _ _ Hstep). lia.
Qed.

(* EOL INDEPENDENCE: the parse of a rendered stream depends on the logical lines only *)
Lemma sse_feed_render m : 0 <= m -> forall ls, wf m ls = true ->
  sse_feed m (init_sse, []) (render ls) = (sse_of_lines init_sse (map fst ls), []).
Proof.
  intros Hm ls Hwf. unfold sse_feed, feed. cbn [fst snd app].
  apply sse_run_render; auto.
Qed.

Lemma sse_eol_independent m : 0 <= m -> forall ls ls',
  wf m ls = true -> wf m ls' = true -> map fst ls = map fst ls' ->
  sse_feed m (init_sse, []) (render ls) = sse_feed m (init_sse, []) (render ls').
Proof. intros Hm ls ls' H1 H2 E. rewrite !sse_feed_render by assumption. rewrite E. reflexivity. Qed.

(* both together: any line endings, any split *)
Lemma sse_split_and_eol_independent m : 0 <= m -> forall ls pieces,
  wf m ls = true -> concat pieces = render ls ->
  sse_feed_all m (init_sse, []) pieces = (sse_of_lines init_sse (map fst ls), []).
Proof.
  intros Hm ls pieces Hwf E. rewrite sse_split_independent_init by exact Hm.
  rewrite E. apply sse_feed_render; assumption.
Qed.

(* a stream that ends in a bare CR: the last line is held back, and is delivered by the
   first byte of the next receive unless that byte is the LF of a CRLF pair *)
Lemma split_line_clean_none : forall l, clean l = true -> split_line EAll (l ++ [13]) = None.
Proof.
  induction l as [|c t IH]; intros Hc; [reflexivity|].
  cbn [clean forallb] in Hc. apply andb_true_iff in Hc. destruct Hc as [Hc Ht].
  apply andb_true_iff in Hc. destruct Hc as [H13 H10].
  apply negb_true_iff in H13. apply negb_true_iff in H10.
  cbn [app]. rewrite split_line_cons_plain by assumption. fold (clean t) in Ht. rewrite (IH Ht). reflexivity.
Qed.

(* ---- streams that continue: the general form ---- *)
Lemma render_tail_not_lf_first m : forall l k t tail, wft m ((l, k) :: t) tail = true ->
  (k <> Elf \/ l <> []) -> not_lf_first (render ((l, k) :: t) ++ tail) = true.
Proof.
  intros l k t tail H Hne. cbn [wft] in H. repeat (apply andb_true_iff in H; destruct H as [H ?]).
  cbn [render]. destruct l as [|c l'].
  - cbn [app]. destruct k; cbn; try reflexivity. destruct Hne; congruence.
  - cbn [app not_lf_first]. cbn [clean forallb] in H. apply andb_true_iff in H. destruct H as [H _].
    apply andb_true_iff in H. destruct H as [_ H]. exact H.
Qed.

Lemma sse_run_render_tail m : 0 <= m -> forall ls tail n n2 s,
  wft m ls tail = true -> e_failed s = false ->
  (sse_mu s (render ls ++ tail) < n)%nat -> (sse_mu (sse_of_lines s (map fst ls)) tail < n2)%nat ->
  run sse (sse_step m) n s (render ls ++ tail) = run sse (sse_step m) n2 (sse_of_lines s (map fst ls)) tail.
Proof.
  intros Hm. induction ls as [|[l k] t IH]; intros tail n n2 s Hwf Hf Hn Hn2.
  - cbn [render map sse_of_lines fold_left app] in *.
    apply (run_fuel sse (sse_step m) sse_mu (sse_step_dec m)); assumption.
  - destruct n; [lia|]. cbn [run].
    assert (Hstep : sse_step m s (render ((l, k) :: t) ++ tail) = Adv (sse_line s l) (render t ++ tail)).
    { unfold sse_step. rewrite Hf. unfold next_line. cbn [render]. rewrite <- !app_assoc.
      pose proof Hwf as Hwf'. cbn [wft] in Hwf.
      apply andb_true_iff in Hwf. destruct Hwf as [Hwf Hwt].
      apply andb_true_iff in Hwf. destruct Hwf as [Hwf Hk].
      apply andb_true_iff in Hwf. destruct Hwf as [Hcl Hlen].
      rewrite split_line_render_line.
      - apply Z.leb_le in Hlen. destruct (m <? len l) eqn:E; [apply Z.ltb_lt in E; lia|]. reflexivity.
      - exact Hcl.
      - intros ->. destruct t as [|[l2 k2] t2]; [exact Hk|].
        apply (render_tail_not_lf_first m); [exact Hwt|].
        destruct l2; [|right; discriminate]. destruct k2; [left; discriminate|discriminate|left; discriminate]. }
    rewrite Hstep. cbn [map fst sse_of_lines fold_left].
    apply IH.
    + cbn [wft] in Hwf. apply andb_true_iff in Hwf. tauto.
    + apply sse_line_not_failed. exact Hf.
    + pose proof (sse_step_dec m _ _ _ _ Hstep). lia.
    + exact Hn2.
Qed.

(* a stream whose last line so far ends in a bare CR: everything before is parsed, the last line
   is held back together with its CR ... *)
Lemma sse_of_lines_not_failed : forall lines s, e_failed s = false -> e_failed (sse_of_lines s lines) = false.
Proof.
  unfold sse_of_lines. induction lines as [|x xs IH]; intros s H; [exact H|].
  cbn [fold_left]. apply IH. apply sse_line_not_failed. exact H.
Qed.

Lemma sse_trailing_cr_held m : 0 <= m -> forall ls l, wft m ls (l ++ [13]) = true ->
  clean l = true -> len l <= m ->
  sse_feed m (init_sse, []) (render ls ++ l ++ [13]) = (sse_of_lines init_sse (map fst ls), l ++ [13]).
Proof.
  intros Hm ls l Hwf Hc Hl. unfold sse_feed, feed. cbn [fst snd app].
  rewrite (sse_run_render_tail m Hm ls (l ++ [13]) _
             (S (sse_mu (sse_of_lines init_sse (map fst ls)) (l ++ [13]))) init_sse Hwf eq_refl);
    [|apply Nat.lt_succ_diag_r|apply Nat.lt_succ_diag_r].
  cbn [run]. unfold sse_step.
  rewrite (sse_of_lines_not_failed (map fst ls) init_sse eq_refl).
  unfold next_line. rewrite split_line_clean_none by exact Hc.
  assert (E : ends_cr (l ++ [13]) = true) by (rewrite ends_cr_app_cons; reflexivity).
  rewrite E. unfold len in *. rewrite app_length. cbn [length].
  destruct (m <? _) eqn:X; [apply Z.ltb_lt in X; lia|]. reflexivity.
Qed.

(* ... and is delivered by the next receive, as one CRLF-terminated line if that starts with LF,
   as a CR-terminated line otherwise; in both cases the outcome is the one of the whole stream *)
Lemma sse_trailing_cr_then m : 0 <= m -> forall ls l more,
  sse_feed_all m (init_sse, []) [render ls ++ l ++ [13]; more]
  = sse_feed m (init_sse, []) (render ls ++ l ++ [13] ++ more).
Proof.
  intros Hm ls l more. rewrite sse_split_independent_init by exact Hm.
  cbn [concat]. rewrite app_nil_r, <- !app_assoc. reflexivity.
Qed.

(* the field rules on a block of data lines: one event, lines joined by LF, one leading space
   stripped from each value *)
Definition data_line (v : bytes) : bytes := (100 :: 97 :: 116 :: 97 :: 58 :: 32 :: v).   (* "data: " ++ v *)

Lemma sse_line_data s v : clean v = true ->
  sse_line s (data_line v) = {| e_leid := e_leid s; e_name := e_name s; e_parts := e_parts s ++ [v];
                                e_retry := e_retry s; e_events := e_events s; e_failed := false |}.
Proof. intros _. reflexivity. Qed.

Lemma sse_data_block : forall vs s, e_parts s = [] -> vs <> [] -> join_with [10] vs <> [] ->
  sse_of_lines s (map data_line vs ++ [[]]) =
  {| e_leid := e_leid s; e_name := []; e_parts := []; e_retry := e_retry s;
     e_events := e_events s ++ [{| ev_id := e_leid s; ev_name := e_name s; ev_data := join_with [10] vs |}];
     e_failed := false |}.
Proof.
  intros vs s Hp Hne Hj. unfold sse_of_lines. rewrite fold_left_app.
  assert (G : forall vs s0, fold_left sse_line (map data_line vs) s0 =
              match vs with
              | [] => s0
              | _ => {| e_leid := e_leid s0; e_name := e_name s0; e_parts := e_parts s0 ++ vs;
                        e_retry := e_retry s0; e_events := e_events s0; e_failed := false |}
              end).
  { induction vs0 as [|v vs' IH]; intros s0; [reflexivity|].
    cbn [map fold_left]. rewrite IH. change (sse_line s0 (data_line v)) with
      {| e_leid := e_leid s0; e_name := e_name s0; e_parts := e_parts s0 ++ [v];
         e_retry := e_retry s0; e_events := e_events s0; e_failed := false |}.
    destruct vs'; cbn [e_leid e_name e_parts e_retry e_events]; [reflexivity|].
    rewrite <- app_assoc. reflexivity. }
  rewrite G. destruct vs as [|v vs']; [congruence|].
  cbn [fold_left]. unfold sse_line at 1. cbn [is_nil e_parts e_leid e_name e_retry e_events].
  rewrite Hp. cbn [app].
  destruct (join_with [10] (v :: vs')) eqn:J; [congruence|]. reflexivity.
Qed.

(* ---- the remaining field rules, as consequences of sse_line ---- *)
Lemma sse_comment_ignored s rest : sse_line s (58 :: rest) = s.
Proof. reflexivity. Qed.

Definition no_colon (f : bytes) : bool := forallb (fun c => negb (c =? 58)) f.

Lemma partition_field : forall fld v, no_colon fld = true -> partition_at 58 (fld ++ 58 :: v) = Some (fld, v).
Proof.
  induction fld as [|c t IH]; intros v H.
  - reflexivity.
  - cbn [no_colon forallb] in H. apply andb_true_iff in H. destruct H as [H1 H2]. apply negb_true_iff in H1.
    cbn [app partition_at]. rewrite H1. fold (no_colon t) in H2. rewrite (IH v H2). reflexivity.
Qed.

Definition starts_sp (v : bytes) : bool := match v with 32 :: _ => true | _ => false end.

(* exactly ONE leading space of the value is dropped *)
Lemma sse_one_leading_space s f v : f <> [] -> no_colon f = true -> starts_sp v = false ->
  sse_line s (f ++ 58 :: 32 :: v) = sse_line s (f ++ 58 :: v).
Proof.
  intros Hf Hc Hv. unfold sse_line.
  assert (N1 : is_nil (f ++ 58 :: 32 :: v) = false) by (destruct f; [congruence|reflexivity]).
  assert (N2 : is_nil (f ++ 58 :: v) = false) by (destruct f; [congruence|reflexivity]).
  rewrite N1, N2. rewrite !partition_field by exact Hc.
  destruct f as [|c t]; [congruence|].
  replace (match v with 32 :: v0 => v0 | _ => v end) with v; [reflexivity|].
  destruct v as [|x v']; [reflexivity|]. cbn in Hv.
  destruct x as [|p|p]; try reflexivity.
  repeat (destruct p as [p|p|]; try reflexivity); discriminate.
Qed.

Definition known_field (f : bytes) : bool :=
  beq f (bz "event") || beq f (bz "data") || beq f (bz "id") || beq f (bz "retry").

(* a field name that is not event / data / id / retry is ignored, with or without a value *)
Lemma sse_unknown_field_ignored s f v : f <> [] -> no_colon f = true -> known_field f = false ->
  sse_line s (f ++ 58 :: v) = s.
Proof.
  intros Hf Hc Hk. unfold sse_line.
  assert (N : is_nil (f ++ 58 :: v) = false) by (destruct f; [congruence|reflexivity]).
  rewrite N, partition_field by exact Hc. destruct f as [|c t]; [congruence|].
  unfold known_field in Hk. apply orb_false_iff in Hk. destruct Hk as [Hk K4].
  apply orb_false_iff in Hk. destruct Hk as [Hk K3]. apply orb_false_iff in Hk. destruct Hk as [K1 K2].
  rewrite K1, K2, K3, K4. reflexivity.
Qed.

(* retry: a value that python's int() rejects (or that is not ASCII) leaves .retry unchanged;
   one that it accepts sets it *)
Lemma sse_retry_rule s v : starts_sp v = false ->
  sse_line s (bz "retry" ++ 58 :: v) =
  match (if all_ascii v then py_int 10 v else None) with
  | Some n => {| e_leid := e_leid s; e_name := e_name s; e_parts := e_parts s; e_retry := Some n;
                 e_events := e_events s; e_failed := false |}
  | None => s
  end.
Proof.
  intros Hv. unfold sse_line. cbn [is_nil bz app]. 
  change (partition_at 58 (map _ _ ++ 58 :: v)) with (partition_at 58 ([114; 101; 116; 114; 121] ++ 58 :: v)).
  rewrite partition_field by reflexivity.
  replace (match v with 32 :: v0 => v0 | _ => v end) with v; [reflexivity|].
  destruct v as [|x v']; [reflexivity|]. cbn in Hv.
  destruct x as [|p|p]; try reflexivity.
  repeat (destruct p as [p|p|]; try reflexivity); discriminate.
Qed.

(* id: the value (ANY bytes) becomes the last event id -- also a value containing NUL, which the
   W3C text says to ignore: a documented deviation of the implementation, mirrored by the model *)
Lemma sse_id_rule s v : starts_sp v = false ->
  sse_line s (bz "id" ++ 58 :: v) =
  {| e_leid := Some v; e_name := e_name s; e_parts := e_parts s; e_retry := e_retry s;
     e_events := e_events s; e_failed := false |}.
Proof.
  intros Hv. unfold sse_line. cbn [is_nil bz app].
  change (partition_at 58 (map _ _ ++ 58 :: v)) with (partition_at 58 ([105; 100] ++ 58 :: v)).
  rewrite partition_field by reflexivity.
  replace (match v with 32 :: v0 => v0 | _ => v end) with v; [reflexivity|].
  destruct v as [|x v']; [reflexivity|]. cbn in Hv.
  destruct x as [|p|p]; try reflexivity.
  repeat (destruct p as [p|p|]; try reflexivity); discriminate.
Qed.
