From Coq Require Import List QArith Bool Lqa Sorted.
Import ListNotations.
Require Import V.Lib.C42_StoreTimer V.Lib.C42_StoreTimerFacts V.C42.Model.
Open Scope Q_scope.

(* ------------------------------------------------------------------ clock *)
Definition clock_nonneg (c : clock) : Prop := 0 <= now c /\ Forall (fun r => 0 <= r) (future c).

Lemma tick_nonneg c r c' : clock_nonneg c -> tick c = (r, c') -> 0 <= r /\ clock_nonneg c'.
Proof.
  unfold tick, clock_nonneg. intros [Hn Hf] H. destruct (future c) as [|x l] eqn:E.
  - inversion H; subst. rewrite E. auto.
  - inversion H; subst; cbn. inversion Hf; subst. auto.
Qed.

Lemma tick_now c r c' : tick c = (r, c') -> now c' = r.
Proof.
  unfold tick. destruct (future c); intros H; inversion H; subst; reflexivity.
Qed.

Lemma mkclock_nonneg l : Forall (fun r => 0 <= r) l -> clock_nonneg (mkclock l).
Proof. intros. split; cbn; [lraq | assumption]. Qed.

(* ------------------------------------------------------------------ Timer *)
Definition t_inv (t : timer) : Prop := t_stop t == t_start t + t_dur t /\ 0 <= t_dur t.

Lemma t_restart_inv t c s d t' c' : t_inv t -> t_restart t c s d = (t', c') -> t_inv t'.
Proof.
  unfold t_inv, t_restart. intros [H1 H2] H.
  destruct (match s with Some x => (qabs x, c) | None => tick c end) as [st c1].
  inversion H; subst; cbn. split; [lraq|]. destruct d; [apply qabs_nonneg | exact H2].
Qed.

Lemma t_restart_pos t c s d t' c' : clock_nonneg c -> t_restart t c s d = (t', c') ->
  0 <= t_start t' /\ clock_nonneg c'.
Proof.
  unfold t_restart. intros Hc H. destruct s as [x|].
  - inversion H; subst; cbn. split; [apply qabs_nonneg | exact Hc].
  - destruct (tick c) as [r c1] eqn:E. inversion H; subst; cbn. eapply tick_nonneg; eauto.
Qed.

Lemma t_step_inv t c o x t' c' : t_inv t -> t_step t c o = (x, t', c') -> t_inv t'.
Proof.
  intros Hi H. destruct o; cbn [t_step] in H;
    try (destruct (tick c) as [r c1]; inversion H; subst; exact Hi);
    unfold t_ss in H.
  - destruct (t_restart t c s d) as [t1 c1] eqn:E. inversion H; subst. eapply t_restart_inv; eauto.
  - destruct (t_restart t c (Some (t_stop t)) None) as [t1 c1] eqn:E. inversion H; subst.
    eapply t_restart_inv; eauto.
  - match type of H with context [t_restart t c ?a ?b] =>
      destruct (t_restart t c a b) as [t1 c1] eqn:E end.
    inversion H; subst. eapply t_restart_inv; eauto.
Qed.

Lemma t_step_pos t c o x t' c' : clock_nonneg c -> 0 <= t_start t -> t_step t c o = (x, t', c') ->
  0 <= t_start t' /\ clock_nonneg c'.
Proof.
  intros Hc Hp H. destruct o; cbn [t_step] in H;
    try (destruct (tick c) as [r c1] eqn:E; inversion H; subst; split;
         [exact Hp | eapply tick_nonneg; eauto]);
    unfold t_ss in H.
  - destruct (t_restart t c s d) as [t1 c1] eqn:E. inversion H; subst. eapply t_restart_pos; eauto.
  - destruct (t_restart t c (Some (t_stop t)) None) as [t1 c1] eqn:E. inversion H; subst.
    eapply t_restart_pos; eauto.
  - match type of H with context [t_restart t c ?a ?b] =>
      destruct (t_restart t c a b) as [t1 c1] eqn:E end.
    inversion H; subst. eapply t_restart_pos; eauto.
Qed.

Lemma t_final_inv ops : forall t c t' c', t_inv t -> t_final t c ops = (t', c') -> t_inv t'.
Proof.
  induction ops as [|o r IH]; intros t c t' c' Hi H; cbn in H.
  - inversion H; subst. exact Hi.
  - destruct (t_step t c o) as [[x t1] c1] eqn:E. eapply IH; [|exact H]. eapply t_step_inv; eauto.
Qed.

Lemma t_final_pos ops : forall t c t' c', clock_nonneg c -> 0 <= t_start t ->
  t_final t c ops = (t', c') -> 0 <= t_start t' /\ clock_nonneg c'.
Proof.
  induction ops as [|o r IH]; intros t c t' c' Hc Hp H; cbn in H.
  - inversion H; subst. auto.
  - destruct (t_step t c o) as [[x t1] c1] eqn:E.
    destruct (t_step_pos _ _ _ _ _ _ Hc Hp E) as [Hp1 Hc1]. eapply IH; eauto.
Qed.

Lemma t_ctor_inv d c t c' : t_ctor d c = (t, c') -> t_inv t.
Proof.
  unfold t_ctor. destruct (tick c) as [r c1]. intros H; inversion H; subst. split; cbn; [lraq|apply qabs_nonneg].
Qed.

Lemma t_ctor_pos d c t c' : clock_nonneg c -> t_ctor d c = (t, c') -> 0 <= t_start t /\ clock_nonneg c'.
Proof.
  unfold t_ctor. intros Hc. destruct (tick c) as [r c1] eqn:E. intros H; inversion H; subst; cbn.
  split; [apply qabs_nonneg | eapply tick_nonneg; eauto].
Qed.

(* every state reached from the constructor by any op sequence under any clock *)
Lemma timer_reachable d readings ops t c :
  (let '(t0, c0) := t_ctor d (mkclock readings) in t_final t0 c0 ops) = (t, c) ->
  t_inv t /\ (Forall (fun r => 0 <= r) readings -> 0 <= t_start t /\ 0 <= t_stop t).
Proof.
  destruct (t_ctor d (mkclock readings)) as [t0 c0] eqn:E. intros H.
  assert (Hi : t_inv t) by (eapply t_final_inv; [eapply t_ctor_inv; eauto | exact H]).
  split; [exact Hi|]. intros Hr.
  destruct (t_ctor_pos _ _ _ _ (mkclock_nonneg _ Hr) E) as [Hp Hc].
  destruct (t_final_pos _ _ _ _ _ Hc Hp H) as [Hp' _]. split; [exact Hp'|].
  destruct Hi as [H1 H2]. lraq.
Qed.

Lemma t_elapsed_spec t c r c1 : tick c = (r, c1) ->
  exists e, t_step t c Elapsed = (OQ e, t, c1) /\ 0 <= e /\
            (t_start t <= r -> e == r - t_start t) /\ (r <= t_start t -> e == 0).
Proof.
  intros E. cbn. rewrite E. eexists. split; [reflexivity|]. split; [apply qmax0_nonneg|].
  split; intros; [apply qmax0_pos' | apply qmax0_neg]; lraq.
Qed.

Lemma t_remaining_spec t c r c1 : tick c = (r, c1) ->
  exists e, t_step t c Remaining = (OQ e, t, c1) /\ 0 <= e /\
            (r <= t_stop t -> e == t_stop t - r) /\ (t_stop t <= r -> e == 0).
Proof.
  intros E. cbn. rewrite E. eexists. split; [reflexivity|]. split; [apply qmax0_nonneg|].
  split; intros; [apply qmax0_pos' | apply qmax0_neg]; lraq.
Qed.

Lemma t_expired_spec t c r c1 : tick c = (r, c1) ->
  exists b e, t_step t c Expired = (OB b, t, c1) /\ (b = true <-> t_stop t <= r) /\
              t_step t c Remaining = (OQ e, t, c1) /\ (b = true <-> e == 0).
Proof.
  intros E. cbn. rewrite E. do 2 eexists. split; [reflexivity|]. split; [apply qleb_true|].
  split; [reflexivity|]. rewrite qleb_true, qmax0_zero_iff. split; intros; lraq.
Qed.

Lemma t_repeat_spec t c : t_inv t -> 0 <= t_stop t ->
  exists t', t_step t c Repeat = (OSS (t_start t') (t_stop t'), t', c) /\
             t_start t' == t_stop t /\ t_dur t' == t_dur t /\ t_stop t' == t_stop t + t_dur t.
Proof.
  intros [H1 H2] Hp. cbn. unfold t_ss; cbn. eexists (Build_timer _ _ _). split; [reflexivity|]. cbn.
  assert (qabs (t_stop t) == t_stop t) by (apply qabs_id; lraq). repeat split; lraq.
Qed.

Lemma t_extend_spec t c e : t_inv t -> 0 <= t_start t ->
  exists t', t_step t c (Extend e) = (OSS (t_start t') (t_stop t'), t', c) /\
             t_start t' == t_start t /\
             t_dur t' == qabs (t_dur t + match e with Some x => x | None => t_dur t end) /\
             t_stop t' == t_start t' + t_dur t'.
Proof.
  intros [H1 H2] Hp. cbn. unfold t_ss; cbn. eexists (Build_timer _ _ _). split; [reflexivity|]. cbn.
  assert (qabs (t_start t) == t_start t) by (apply qabs_id; lraq).
  repeat split; try lraq. apply qabs_proper. lraq.
Qed.

(* -------------------------------------------------------------- MonoTimer *)
Definition m_inv (m : mono) : Prop := m_stop m == m_start m + m_dur m /\ 0 <= m_dur m.
Definition gap (m : mono) : Q := qsub (m_latest m) (m_start m).

(* update() with retro = true never raises; it moves latest to the reading, and shifts
   start and stop by exactly the backward jump (and not at all on a forward step) *)
Lemma m_update_retro m c r c1 : m_retro m = true -> tick c = (r, c1) ->
  exists m1, m_update m c = (inr m1, c1) /\ m_retro m1 = true /\ m_latest m1 == r /\
             m_dur m1 = m_dur m /\
             (r < m_latest m -> m_start m1 == m_start m + (r - m_latest m) /\
                                m_stop m1 == m_stop m + (r - m_latest m)) /\
             (m_latest m <= r -> m_start m1 == m_start m /\ m_stop m1 == m_stop m) /\
             gap m <= gap m1 /\ (r < m_latest m -> gap m1 == gap m).
Proof.
  intros Hr E. unfold m_update. rewrite E. rewrite Hr.
  qcaselt (qsub r (m_latest m)) 0; eexists; (split; [reflexivity|]); unfold gap; cbn;
    repeat split; try assumption; intros; try lraq.
Qed.

Lemma m_update_raise m c r c1 : m_retro m = false -> tick c = (r, c1) -> r < m_latest m ->
  m_update m c = (inl TimerRetroError, c1).
Proof.
  intros Hr E Hlt. unfold m_update. rewrite E, Hr.
  qcaselt (qsub r (m_latest m)) 0; [reflexivity | lraq].
Qed.

Lemma m_update_forward m c r c1 : tick c = (r, c1) -> m_latest m <= r ->
  exists m1, m_update m c = (inr m1, c1) /\ m_retro m1 = m_retro m /\ m_latest m1 == r /\
             m_start m1 = m_start m /\ m_stop m1 = m_stop m /\ m_dur m1 = m_dur m.
Proof.
  intros E Hle. unfold m_update. rewrite E.
  qcaselt (qsub r (m_latest m)) 0; [lraq|]. eexists. split; [reflexivity|]. cbn. repeat split. lraq.
Qed.

Lemma m_update_inv m c m1 c1 : m_inv m -> m_update m c = (inr m1, c1) -> m_inv m1.
Proof.
  unfold m_inv, m_update. intros [H1 H2]. destruct (tick c) as [r c'].
  qcaselt (qsub r (m_latest m)) 0.
  - destruct (m_retro m); intros H; inversion H; subst; cbn. split; lraq.
  - intros H; inversion H; subst; cbn. split; lraq.
Qed.

Lemma m_apply_inv m o x m' : m_inv m -> m_apply m o = (x, m') -> m_inv m'.
Proof.
  unfold m_inv. intros [H1 H2] H. destruct o; cbn in H; inversion H; subst; cbn; try (split; assumption).
  - split; [lraq|]. destruct d; [apply qabs_nonneg | exact H2].
  - split; [lraq | exact H2].
  - split; [lraq | apply qabs_nonneg].
Qed.

Lemma m_step_inv m c o x m' c' : m_inv m -> m_step m c o = (x, m', c') -> m_inv m'.
Proof.
  unfold m_step. intros Hi H. destruct (m_update m c) as [[e|m1] c1] eqn:E.
  - inversion H; subst. exact Hi.
  - destruct (m_apply m1 o) as [y m2] eqn:E2. inversion H; subst.
    eapply m_apply_inv; [|exact E2]. eapply m_update_inv; eauto.
Qed.

Lemma m_apply_latest m o x m' : m_apply m o = (x, m') -> m_latest m' = m_latest m /\ m_retro m' = m_retro m.
Proof. destruct o; cbn; intros H; inversion H; subst; cbn; auto. Qed.

(* after any successful call the timer's latest is the clock's current reading *)
Lemma m_step_sync m c o x m' c' : m_step m c o = (x, m', c') -> (forall e, x <> OErr e) ->
  m_latest m' == now c'.
Proof.
  unfold m_step. intros H Hx. destruct (m_update m c) as [[e|m1] c1] eqn:E.
  - inversion H; subst. exfalso. eapply Hx; reflexivity.
  - destruct (m_apply m1 o) as [y m2] eqn:E2. inversion H; subst.
    destruct (m_apply_latest _ _ _ _ E2) as [Hl _]. rewrite Hl.
    unfold m_update in E. destruct (tick c) as [r c2] eqn:Et. pose proof (tick_now _ _ _ Et) as Hn.
    qcaselt (qsub r (m_latest m)) 0.
    + destruct (m_retro m); inversion E; subst; cbn. lraq.
    + inversion E; subst; cbn. lraq.
Qed.

(* one step with retro = true: no error, retro kept, gap never decreases unless (re)started *)
Lemma m_step_retro m c o r c1 : m_retro m = true -> tick c = (r, c1) ->
  exists x m', m_step m c o = (x, m', c1) /\ m_retro m' = true /\ (forall e, x <> OErr e) /\
               (keeps_start o = true -> gap m <= gap m') /\
               (o = Elapsed -> x = OQ (qmax0 (gap m'))).
Proof.
  intros Hr E. destruct (m_update_retro m c r c1 Hr E) as (m1 & Hu & Hr1 & Hl & Hd & _ & _ & Hg & _).
  unfold m_step. rewrite Hu. destruct (m_apply m1 o) as [x m2] eqn:E2.
  exists x, m2. split; [reflexivity|].
  destruct (m_apply_latest _ _ _ _ E2) as [Hl2 Hr2]. split; [congruence|].
  split.
  { intros e He. subst. destruct o; cbn in E2; inversion E2. }
  split.
  - intros Hk. destruct o; cbn in Hk; try discriminate; cbn in E2; inversion E2; subst;
      unfold gap in *; cbn; lraq.
  - intros ->. cbn in E2. inversion E2; subst. reflexivity.
Qed.

Lemma m_final_gap ops : forall m c m' c', m_retro m = true -> forallb keeps_start ops = true ->
  m_final m c ops = (m', c') -> m_retro m' = true /\ gap m <= gap m'.
Proof.
  induction ops as [|o r IH]; intros m c m' c' Hr Hk H; cbn in H.
  - inversion H; subst. split; [assumption | lraq].
  - cbn in Hk. apply andb_true_iff in Hk. destruct Hk as [Hk1 Hk2].
    destruct (tick c) as [rd c1] eqn:Et.
    destruct (m_step_retro m c o rd c1 Hr Et) as (x & m1 & Hs & Hr1 & _ & Hg & _).
    rewrite Hs in H. destruct (IH _ _ _ _ Hr1 Hk2 H) as [Hr' Hg']. split; [assumption|].
    specialize (Hg Hk1). lraq.
Qed.

Lemma m_run_elapsed_sorted ops : forall m c, m_retro m = true -> forallb keeps_start ops = true ->
  StronglySorted Qle (elapsed_vals ops (m_runfrom m c ops)) /\
  Forall (fun v => qmax0 (gap m) <= v) (elapsed_vals ops (m_runfrom m c ops)).
Proof.
  induction ops as [|o r IH]; intros m c Hr Hk.
  - cbn. split; constructor.
  - cbn in Hk. apply andb_true_iff in Hk. destruct Hk as [Hk1 Hk2].
    destruct (tick c) as [rd c1] eqn:Et.
    destruct (m_step_retro m c o rd c1 Hr Et) as (x & m1 & Hs & Hr1 & Hne & Hg & Hel).
    cbn [m_runfrom]. rewrite Hs. specialize (Hg Hk1).
    destruct (IH m1 c1 Hr1 Hk2) as [IHs IHf].
    assert (Hmono : qmax0 (gap m) <= qmax0 (gap m1)) by (apply qmax0_mono; exact Hg).
    assert (IHf' : Forall (fun v => qmax0 (gap m) <= v) (elapsed_vals r (m_runfrom m1 c1 r))).
    { eapply Forall_impl; [|exact IHf]. cbn. intros a Ha. lraq. }
    destruct o; try (specialize (Hel eq_refl); subst x); cbn [elapsed_vals].
    + split; [constructor; assumption | constructor; assumption].
    + destruct x; split; assumption.
    + destruct x; split; assumption.
    + discriminate.
    + discriminate.
    + destruct x; split; assumption.
Qed.

(* retro = false: every call raises exactly on a backward reading, leaving the timer untouched *)
Lemma m_step_raise m c o r c1 : m_retro m = false -> tick c = (r, c1) -> r < m_latest m ->
  m_step m c o = (OErr TimerRetroError, m, c1).
Proof.
  intros Hr E Hlt. unfold m_step. rewrite (m_update_raise m c r c1 Hr E Hlt). reflexivity.
Qed.

Lemma m_step_no_raise m c o r c1 : tick c = (r, c1) -> m_latest m <= r ->
  exists x m', m_step m c o = (x, m', c1) /\ forall e, x <> OErr e.
Proof.
  intros E Hle. destruct (m_update_forward m c r c1 E Hle) as (m1 & Hu & _).
  unfold m_step. rewrite Hu. destruct (m_apply m1 o) as [x m2] eqn:E2. exists x, m2.
  split; [reflexivity|]. intros e He; subst. destruct o; cbn in E2; inversion E2.
Qed.

(* the operations, relative to the state m1 left by the leading update() *)
Lemma m_query_spec m c r c1 m1 : m_update m c = (inr m1, c1) -> tick c = (r, c1) ->
  m_latest m1 == r /\
  (exists e, m_step m c Elapsed = (OQ e, m1, c1) /\ 0 <= e /\
             (m_start m1 <= r -> e == r - m_start m1) /\ (r <= m_start m1 -> e == 0)) /\
  (exists e, m_step m c Remaining = (OQ e, m1, c1) /\ 0 <= e /\
             (r <= m_stop m1 -> e == m_stop m1 - r) /\ (m_stop m1 <= r -> e == 0) /\
             (m_step m c Expired = (OB true, m1, c1) <-> e == 0)) /\
  (exists b, m_step m c Expired = (OB b, m1, c1) /\ (b = true <-> m_stop m1 <= r)).
Proof.
  intros Hu Et.
  assert (Hl : m_latest m1 == r).
  { unfold m_update in Hu. rewrite Et in Hu. qcaselt (qsub r (m_latest m)) 0.
    - destruct (m_retro m); inversion Hu; subst; cbn; lraq.
    - inversion Hu; subst; cbn; lraq. }
  split; [exact Hl|]. unfold m_step. rewrite Hu. cbn. split; [|split].
  - eexists. split; [reflexivity|]. split; [apply qmax0_nonneg|].
    split; intros; [apply qmax0_pos' | apply qmax0_neg]; lraq.
  - eexists. split; [reflexivity|]. split; [apply qmax0_nonneg|].
    split; [intros; apply qmax0_pos'; lraq|]. split; [intros; apply qmax0_neg; lraq|].
    rewrite qmax0_zero_iff. split.
    + intros H. inversion H as [Hb]. apply qleb_true in Hb. lraq.
    + intros H. assert (Hb : qleb (m_stop m1) (m_latest m1) = true) by (apply qleb_true; lraq).
      rewrite Hb. reflexivity.
  - eexists. split; [reflexivity|]. rewrite qleb_true. split; intros; lraq.
Qed.

Lemma m_repeat_spec m c m1 c1 : m_update m c = (inr m1, c1) ->
  exists m', m_step m c Repeat = (OSS (m_start m') (m_stop m'), m', c1) /\
             m_start m' = m_stop m1 /\ m_dur m' = m_dur m1 /\ m_stop m' == m_stop m1 + m_dur m1.
Proof.
  intros Hu. unfold m_step. rewrite Hu. cbn. eexists (Build_mono _ _ _ _ _). split; [reflexivity|]. cbn.
  repeat split; lraq.
Qed.

Lemma m_extend_spec m c e m1 c1 : m_update m c = (inr m1, c1) ->
  exists m', m_step m c (Extend e) = (OSS (m_start m') (m_stop m'), m', c1) /\
             m_start m' = m_start m1 /\ gap m' = gap m1 /\
             m_dur m' == qabs (m_dur m1 + match e with Some x => x | None => m_dur m1 end) /\
             m_stop m' == m_start m' + m_dur m'.
Proof.
  intros Hu. unfold m_step. rewrite Hu. cbn. eexists (Build_mono _ _ _ _ _). split; [reflexivity|]. cbn.
  split; [reflexivity|]. split; [reflexivity|]. split; [apply qabs_proper; lraq | lraq].
Qed.

(* constructor *)
Lemma m_ctor_retro d c : exists m c', m_ctor true d c = (inr m, c') /\ m_retro m = true /\
  m_inv m /\ m_start m = m_latest m /\ m_latest m == now c' /\ m_dur m = qabs d.
Proof.
  unfold m_ctor. destruct (tick c) as [r c1] eqn:E1. destruct (tick c1) as [r2 c2] eqn:E2.
  set (m0 := {| m_retro := true; m_start := r; m_stop := r; m_dur := 0; m_latest := r |}).
  destruct (m_update_retro m0 c1 r2 c2 eq_refl E2) as (m1 & Hu & Hr & Hl & _).
  rewrite Hu. do 2 eexists. split; [reflexivity|]. cbn. split; [exact Hr|].
  split; [split; cbn; [lraq | apply qabs_nonneg]|]. split; [reflexivity|].
  split; [|reflexivity]. rewrite (tick_now _ _ _ E2). exact Hl.
Qed.

Lemma m_ctor_raise d c r c1 r2 c2 : tick c = (r, c1) -> tick c1 = (r2, c2) ->
  (r2 < r -> m_ctor false d c = (inl TimerRetroError, c2)) /\
  (r <= r2 -> exists m, m_ctor false d c = (inr m, c2) /\ m_inv m /\ m_start m = m_latest m).
Proof.
  intros E1 E2. unfold m_ctor. rewrite E1.
  set (m0 := {| m_retro := false; m_start := r; m_stop := r; m_dur := 0; m_latest := r |}).
  split; intros H.
  - rewrite (m_update_raise m0 c1 r2 c2 eq_refl E2 H). reflexivity.
  - destruct (m_update_forward m0 c1 r2 c2 E2 H) as (m1 & Hu & _). rewrite Hu.
    eexists. split; [reflexivity|]. cbn. split; [split; cbn; [lraq|apply qabs_nonneg] | reflexivity].
Qed.

Lemma m_final_inv ops : forall m c m' c', m_inv m -> m_final m c ops = (m', c') -> m_inv m'.
Proof.
  induction ops as [|o r IH]; intros m c m' c' Hi H; cbn in H.
  - inversion H; subst. exact Hi.
  - destruct (m_step m c o) as [[x m1] c1] eqn:E. eapply IH; [|exact H]. eapply m_step_inv; eauto.
Qed.

(* ------------------------------------------------------------- StoreTimer *)
Lemma s_step_inv t stamp o x t' : st_inv t -> stamp_nonneg stamp -> s_step t stamp o = (x, t') -> st_inv t'.
Proof.
  intros Hi Hs H. destruct o; cbn [s_step] in H; try (inversion H; subst; exact Hi); unfold s_ss in H.
  - destruct (st_restart t stamp s d) as [t1|] eqn:E; inversion H; subst; [|exact Hi].
    eapply st_restart_inv; eauto.
  - destruct (st_repeat t stamp) as [t1|] eqn:E; inversion H; subst; [|exact Hi].
    unfold st_repeat in E. eapply st_restart_inv; eauto.
  - destruct (st_extend t stamp e) as [t1|] eqn:E; inversion H; subst; [|exact Hi].
    unfold st_extend in E. eapply st_restart_inv; eauto.
Qed.

Fixpoint stamps_nonneg (ops : list sop) : Prop :=
  match ops with
  | [] => True
  | SetStamp x :: r => stamp_nonneg x /\ stamps_nonneg r
  | SOp _ :: r => stamps_nonneg r
  end.

Lemma s_final_inv ops : forall t stamp t' stamp', st_inv t -> stamp_nonneg stamp -> stamps_nonneg ops ->
  s_final t stamp ops = (t', stamp') -> st_inv t'.
Proof.
  induction ops as [|o r IH]; intros t stamp t' stamp' Hi Hs Hn H; cbn in H.
  - inversion H; subst. exact Hi.
  - destruct o as [o|x].
    + destruct (s_step t stamp o) as [y t1] eqn:E. eapply IH; [| exact Hs | exact Hn | exact H].
      eapply s_step_inv; eauto.
    + destruct Hn as [Hx Hn]. eapply IH; eauto.
Qed.

Lemma s_reachable stamp0 d ops t stamp : stamp_nonneg stamp0 -> stamps_nonneg ops ->
  s_final (st_ctor stamp0 d) stamp0 ops = (t, stamp) -> st_inv t.
Proof. intros Hs Hn H. eapply s_final_inv; [apply st_ctor_inv | exact Hs | exact Hn | exact H]. Qed.

Lemma s_query_spec t x :
  (exists e, s_step t (Some x) Elapsed = (OQ e, t) /\ 0 <= e /\
             (s_start t <= x -> e == x - s_start t) /\ (x <= s_start t -> e == 0)) /\
  (exists e, s_step t (Some x) Remaining = (OQ e, t) /\ 0 <= e /\
             (x <= s_stop t -> e == s_stop t - x) /\ (s_stop t <= x -> e == 0) /\
             (s_step t (Some x) Expired = (OB true, t) <-> e == 0)) /\
  (exists b, s_step t (Some x) Expired = (OB b, t) /\ (b = true <-> s_stop t <= x)) /\
  s_step t None Expired = (OB false, t).
Proof.
  cbn. split; [|split; [|split]].
  - eexists. split; [reflexivity|]. apply st_elapsed_spec.
  - eexists. split; [reflexivity|]. destruct (st_remaining_spec t x) as (A & B & C).
    split; [exact A|]. split; [exact B|]. split; [exact C|].
    rewrite <- st_expired_remaining. cbn. split.
    + intros H. inversion H as [Hb]. rewrite Hb. reflexivity.
    + intros H. rewrite H. reflexivity.
  - eexists. split; [reflexivity|]. apply qleb_true.
  - reflexivity.
Qed.

Lemma s_repeat_spec t stamp : st_inv t ->
  exists t', s_step t stamp Repeat = (OSS (s_start t') (s_stop t'), t') /\ s_start t' == s_stop t /\
             s_dur t' == s_dur t /\ s_stop t' == s_stop t + s_dur t.
Proof.
  intros Hi. destruct (st_repeat_spec t stamp Hi) as (t' & H & R). exists t'. cbn [s_step]. rewrite H. cbn.
  split; [reflexivity | exact R].
Qed.

Lemma s_extend_spec t stamp e : st_inv t ->
  exists t', s_step t stamp (Extend e) = (OSS (s_start t') (s_stop t'), t') /\ s_start t' == s_start t /\
             s_dur t' == qabs (s_dur t + match e with Some x => x | None => s_dur t end) /\
             s_stop t' == s_start t' + s_dur t'.
Proof.
  intros Hi. destruct (st_extend_spec t stamp e Hi) as (t' & H & R). exists t'. cbn [s_step]. rewrite H. cbn.
  split; [reflexivity | exact R].
Qed.

(* ------------------------------------------------- whole histories, restart/repeat included *)
Lemma m_step_keeps_retro m c o x m' c' : m_step m c o = (x, m', c') -> m_retro m' = m_retro m.
Proof.
  unfold m_step. destruct (m_update m c) as [[e|m1] c1] eqn:E.
  - intros H; inversion H; subst. reflexivity.
  - destruct (m_apply m1 o) as [y m2] eqn:E2. intros H; inversion H; subst.
    destruct (m_apply_latest _ _ _ _ E2) as [_ Hr]. rewrite Hr.
    unfold m_update in E. destruct (tick c) as [r c2].
    destruct (qltb (qsub r (m_latest m)) 0).
    + destruct (m_retro m) eqn:Er; inversion E; subst; cbn; congruence.
    + inversion E; subst; reflexivity.
Qed.

Lemma m_final_keeps_retro ops : forall m c m' c', m_final m c ops = (m', c') -> m_retro m' = m_retro m.
Proof.
  induction ops as [|o r IH]; intros m c m' c' H; cbn in H.
  - inversion H; subst. reflexivity.
  - destruct (m_step m c o) as [[x m1] c1] eqn:E. rewrite (IH _ _ _ _ H). eapply m_step_keeps_retro; eauto.
Qed.

(* the statement "elapsed never decreases except at an explicit restart/repeat", along a whole
   history of ARBITRARY operations: at every call that is not a restart/repeat the elapsed
   time (max 0 (latest - start)) after the call is >= the one before, whatever the clock
   reading was (forward, standstill or backward); no call raises; an elapsed query reports
   exactly that value. *)
Fixpoint mono_run (m : mono) (c : clock) (ops : list op) : Prop :=
  match ops with
  | [] => True
  | o :: r =>
      let '(x, m', c') := m_step m c o in
      (keeps_start o = true -> qmax0 (gap m) <= qmax0 (gap m')) /\
      (forall e, x <> OErr e) /\
      (o = Elapsed -> x = OQ (qmax0 (gap m'))) /\
      mono_run m' c' r
  end.

Lemma mono_run_holds ops : forall m c, m_retro m = true -> mono_run m c ops.
Proof.
  induction ops as [|o r IH]; intros m c Hr; cbn [mono_run]; [exact I|].
  destruct (tick c) as [rd c1] eqn:Et.
  destruct (m_step_retro m c o rd c1 Hr Et) as (x & m1 & Hs & Hr1 & Hne & Hg & Hel).
  rewrite Hs. split; [intros Hk; apply qmax0_mono; exact (Hg Hk)|].
  split; [exact Hne|]. split; [exact Hel|]. apply IH. exact Hr1.
Qed.

(* after ANY prefix of operations (restarts and repeats included), every stretch of operations
   without restart/repeat reports non-decreasing elapsed values, none below the elapsed at the
   beginning of the stretch *)
Lemma mono_between_restarts pre mid m c m1 c1 : m_retro m = true -> m_final m c pre = (m1, c1) ->
  forallb keeps_start mid = true ->
  StronglySorted Qle (elapsed_vals mid (m_runfrom m1 c1 mid)) /\
  Forall (fun v => qmax0 (gap m1) <= v) (elapsed_vals mid (m_runfrom m1 c1 mid)).
Proof.
  intros Hr Hf Hk. apply m_run_elapsed_sorted; [|exact Hk].
  rewrite (m_final_keeps_retro _ _ _ _ _ Hf). exact Hr.
Qed.

(* a restart()/repeat() is the only way elapsed can drop, and what it does is fixed:
   repeat: new start = (shifted) previous stop; restart(): new start = latest = the reading *)
Lemma m_restart_now_spec m c d m1 c1 : m_update m c = (inr m1, c1) ->
  exists m', m_step m c (Restart None d) = (OSS (m_start m') (m_stop m'), m', c1) /\
             m_start m' = m_latest m1 /\ gap m' == 0 /\
             m_dur m' = match d with Some y => qabs y | None => m_dur m1 end.
Proof.
  intros Hu. unfold m_step. rewrite Hu. cbn. eexists (Build_mono _ _ _ _ _). split; [reflexivity|]. cbn.
  split; [reflexivity|]. split; [unfold gap; cbn; lraq | reflexivity].
Qed.
