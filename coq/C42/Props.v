(* C42 -- property theorems only.  Each closed by [exact]; Print Assumptions beneath.
   Time = Q.  [tick c = (r, c1)] : r is the reading the next time.time() call returns.   *)
From Coq Require Import List QArith Bool Sorted.
Import ListNotations.
Require Import V.Lib.C42_StoreTimer V.Lib.C42_StoreTimerFacts V.C42.Model V.C42.Proofs.
Open Scope Q_scope.

(* ---------------------------------------------------------------- Timer (wall clock) *)

(* Every state reached from Timer(d) by ANY op sequence under ANY clock trace satisfies
   stop = start + duration, duration >= 0; and start, stop >= 0 if the readings are >= 0. *)
Theorem timer_invariant : forall d readings ops t c,
  (let '(t0, c0) := t_ctor d (mkclock readings) in t_final t0 c0 ops) = (t, c) ->
  (t_stop t == t_start t + t_dur t /\ 0 <= t_dur t) /\
  (Forall (fun r => 0 <= r) readings -> 0 <= t_start t /\ 0 <= t_stop t).
Proof. exact timer_reachable. Qed.
Print Assumptions timer_invariant.

(* elapsed = clock - start, never negative; the query consumes one reading, changes nothing *)
Theorem timer_elapsed_spec : forall t c r c1, tick c = (r, c1) ->
  exists e, t_step t c Elapsed = (OQ e, t, c1) /\ 0 <= e /\
            (t_start t <= r -> e == r - t_start t) /\ (r <= t_start t -> e == 0).
Proof. exact t_elapsed_spec. Qed.
Print Assumptions timer_elapsed_spec.

Theorem timer_remaining_spec : forall t c r c1, tick c = (r, c1) ->
  exists e, t_step t c Remaining = (OQ e, t, c1) /\ 0 <= e /\
            (r <= t_stop t -> e == t_stop t - r) /\ (t_stop t <= r -> e == 0).
Proof. exact t_remaining_spec. Qed.
Print Assumptions timer_remaining_spec.

(* expired exactly when the clock has reached stop -- equivalently when remaining is 0 *)
Theorem timer_expired_iff : forall t c r c1, tick c = (r, c1) ->
  exists b e, t_step t c Expired = (OB b, t, c1) /\ (b = true <-> t_stop t <= r) /\
              t_step t c Remaining = (OQ e, t, c1) /\ (b = true <-> e == 0).
Proof. exact t_expired_spec. Qed.
Print Assumptions timer_expired_iff.

(* repeat restarts exactly at the previous stop (no clock reading consumed) *)
Theorem timer_repeat_starts_at_previous_stop : forall t c,
  (t_stop t == t_start t + t_dur t /\ 0 <= t_dur t) -> 0 <= t_stop t ->
  exists t', t_step t c Repeat = (OSS (t_start t') (t_stop t'), t', c) /\
             t_start t' == t_stop t /\ t_dur t' == t_dur t /\ t_stop t' == t_stop t + t_dur t.
Proof. exact t_repeat_spec. Qed.
Print Assumptions timer_repeat_starts_at_previous_stop.

Theorem timer_extend_keeps_start : forall t c e,
  (t_stop t == t_start t + t_dur t /\ 0 <= t_dur t) -> 0 <= t_start t ->
  exists t', t_step t c (Extend e) = (OSS (t_start t') (t_stop t'), t', c) /\
             t_start t' == t_start t /\
             t_dur t' == qabs (t_dur t + match e with Some x => x | None => t_dur t end) /\
             t_stop t' == t_start t' + t_dur t'.
Proof. exact t_extend_spec. Qed.
Print Assumptions timer_extend_keeps_start.

(* ---------------------------------------------------------------- MonoTimer *)

(* retro = True: update() never raises, sets latest to the reading, shifts start and stop by
   exactly the backward jump (not at all on a forward step), and latest - start never drops *)
Theorem mono_shifts_by_backward_jump : forall m c r c1, m_retro m = true -> tick c = (r, c1) ->
  exists m1, m_update m c = (inr m1, c1) /\ m_retro m1 = true /\ m_latest m1 == r /\
             m_dur m1 = m_dur m /\
             (r < m_latest m -> m_start m1 == m_start m + (r - m_latest m) /\
                                m_stop m1 == m_stop m + (r - m_latest m)) /\
             (m_latest m <= r -> m_start m1 == m_start m /\ m_stop m1 == m_stop m) /\
             gap m <= gap m1 /\ (r < m_latest m -> gap m1 == gap m).
Proof. exact m_update_retro. Qed.
Print Assumptions mono_shifts_by_backward_jump.

(* retro = True, ANY clock trace (forward, standstill, backward), ANY sequence of queries and
   extends (everything except restart/repeat, which start a new period): the elapsed values
   reported are non-decreasing, and none is below the elapsed at the start of the sequence. *)
Theorem mono_elapsed_never_decreases : forall ops m c,
  m_retro m = true -> forallb keeps_start ops = true ->
  StronglySorted Qle (elapsed_vals ops (m_runfrom m c ops)) /\
  Forall (fun v => qmax0 (gap m) <= v) (elapsed_vals ops (m_runfrom m c ops)).
Proof. exact m_run_elapsed_sorted. Qed.
Print Assumptions mono_elapsed_never_decreases.

(* WHOLE histories, arbitrary operations (restart / repeat included), retro = True, ANY clock
   trace: at every call that is not a restart/repeat the elapsed time after the call is >= the
   elapsed time before it -- i.e. a backward clock jump between ANY two operations is
   compensated -- no call raises, and every elapsed query reports exactly max 0 (latest - start).
   So elapsed never decreases except at an explicit restart/repeat. *)
Theorem mono_elapsed_drops_only_at_restart : forall ops m c, m_retro m = true -> mono_run m c ops.
Proof. exact mono_run_holds. Qed.
Print Assumptions mono_elapsed_drops_only_at_restart.

(* after ANY prefix (restarts and repeats included), every stretch without restart/repeat reports
   non-decreasing elapsed values, none below the elapsed at the beginning of the stretch *)
Theorem mono_elapsed_sorted_between_restarts : forall pre mid m c m1 c1,
  m_retro m = true -> m_final m c pre = (m1, c1) -> forallb keeps_start mid = true ->
  StronglySorted Qle (elapsed_vals mid (m_runfrom m1 c1 mid)) /\
  Forall (fun v => qmax0 (gap m1) <= v) (elapsed_vals mid (m_runfrom m1 c1 mid)).
Proof. exact mono_between_restarts. Qed.
Print Assumptions mono_elapsed_sorted_between_restarts.

(* restart() (no start given): the new period starts at latest = the reading, elapsed 0 *)
Theorem mono_restart_starts_now : forall m c d m1 c1, m_update m c = (inr m1, c1) ->
  exists m', m_step m c (Restart None d) = (OSS (m_start m') (m_stop m'), m', c1) /\
             m_start m' = m_latest m1 /\ gap m' == 0 /\
             m_dur m' = match d with Some y => qabs y | None => m_dur m1 end.
Proof. exact m_restart_now_spec. Qed.
Print Assumptions mono_restart_starts_now.

(* one call, retro = True: never an error; latest - start does not decrease unless restarted *)
Theorem mono_retro_step : forall m c o r c1, m_retro m = true -> tick c = (r, c1) ->
  exists x m', m_step m c o = (x, m', c1) /\ m_retro m' = true /\ (forall e, x <> OErr e) /\
               (keeps_start o = true -> gap m <= gap m') /\
               (o = Elapsed -> x = OQ (qmax0 (gap m'))).
Proof. exact m_step_retro. Qed.
Print Assumptions mono_retro_step.

(* retro = False: every call raises TimerRetroError exactly when the reading is behind latest,
   and a raising call leaves the timer untouched *)
Theorem mono_raises_on_backstep : forall m c o r c1,
  m_retro m = false -> tick c = (r, c1) -> r < m_latest m ->
  m_step m c o = (OErr TimerRetroError, m, c1).
Proof. exact m_step_raise. Qed.
Print Assumptions mono_raises_on_backstep.

Theorem mono_no_raise_forward : forall m c o r c1, tick c = (r, c1) -> m_latest m <= r ->
  exists x m', m_step m c o = (x, m', c1) /\ forall e, x <> OErr e.
Proof. exact m_step_no_raise. Qed.
Print Assumptions mono_no_raise_forward.

(* elapsed / remaining / expired of a MonoTimer, relative to the state m1 left by the leading
   update() (i.e. with start/stop already shifted by a backward jump): latest = the reading *)
Theorem mono_query_spec : forall m c r c1 m1, m_update m c = (inr m1, c1) -> tick c = (r, c1) ->
  m_latest m1 == r /\
  (exists e, m_step m c Elapsed = (OQ e, m1, c1) /\ 0 <= e /\
             (m_start m1 <= r -> e == r - m_start m1) /\ (r <= m_start m1 -> e == 0)) /\
  (exists e, m_step m c Remaining = (OQ e, m1, c1) /\ 0 <= e /\
             (r <= m_stop m1 -> e == m_stop m1 - r) /\ (m_stop m1 <= r -> e == 0) /\
             (m_step m c Expired = (OB true, m1, c1) <-> e == 0)) /\
  (exists b, m_step m c Expired = (OB b, m1, c1) /\ (b = true <-> m_stop m1 <= r)).
Proof. exact m_query_spec. Qed.
Print Assumptions mono_query_spec.

Theorem mono_repeat_starts_at_previous_stop : forall m c m1 c1, m_update m c = (inr m1, c1) ->
  exists m', m_step m c Repeat = (OSS (m_start m') (m_stop m'), m', c1) /\
             m_start m' = m_stop m1 /\ m_dur m' = m_dur m1 /\ m_stop m' == m_stop m1 + m_dur m1.
Proof. exact m_repeat_spec. Qed.
Print Assumptions mono_repeat_starts_at_previous_stop.

Theorem mono_extend_keeps_start : forall m c e m1 c1, m_update m c = (inr m1, c1) ->
  exists m', m_step m c (Extend e) = (OSS (m_start m') (m_stop m'), m', c1) /\
             m_start m' = m_start m1 /\ gap m' = gap m1 /\
             m_dur m' == qabs (m_dur m1 + match e with Some x => x | None => m_dur m1 end) /\
             m_stop m' == m_start m' + m_dur m'.
Proof. exact m_extend_spec. Qed.
Print Assumptions mono_extend_keeps_start.

(* constructor: with retro it never raises (even if the clock steps back between its two
   readings); without retro it raises exactly on such a step *)
Theorem mono_ctor_retro : forall d c, exists m c', m_ctor true d c = (inr m, c') /\ m_retro m = true /\
  (m_stop m == m_start m + m_dur m /\ 0 <= m_dur m) /\ m_start m = m_latest m /\
  m_latest m == now c' /\ m_dur m = qabs d.
Proof. exact m_ctor_retro. Qed.
Print Assumptions mono_ctor_retro.

Theorem mono_ctor_raises_on_backstep : forall d c r c1 r2 c2, tick c = (r, c1) -> tick c1 = (r2, c2) ->
  (r2 < r -> m_ctor false d c = (inl TimerRetroError, c2)) /\
  (r <= r2 -> exists m, m_ctor false d c = (inr m, c2) /\
                        (m_stop m == m_start m + m_dur m /\ 0 <= m_dur m) /\ m_start m = m_latest m).
Proof. exact m_ctor_raise. Qed.
Print Assumptions mono_ctor_raises_on_backstep.

(* stop = start + duration, duration >= 0 is kept by every call, raising or not, any clock *)
Theorem mono_invariant : forall ops m c m' c',
  (m_stop m == m_start m + m_dur m /\ 0 <= m_dur m) -> m_final m c ops = (m', c') ->
  m_stop m' == m_start m' + m_dur m' /\ 0 <= m_dur m'.
Proof. exact m_final_inv. Qed.
Print Assumptions mono_invariant.

(* after any successful call, latest is the clock's current reading *)
Theorem mono_latest_is_clock : forall m c o x m' c', m_step m c o = (x, m', c') ->
  (forall e, x <> OErr e) -> m_latest m' == now c'.
Proof. exact m_step_sync. Qed.
Print Assumptions mono_latest_is_clock.

(* ---------------------------------------------------------------- StoreTimer *)
Theorem store_invariant : forall stamp0 d ops t stamp, stamp_nonneg stamp0 -> stamps_nonneg ops ->
  s_final (st_ctor stamp0 d) stamp0 ops = (t, stamp) ->
  s_stop t == s_start t + s_dur t /\ 0 <= s_dur t /\ 0 <= s_start t.
Proof. exact s_reachable. Qed.
Print Assumptions store_invariant.

Theorem store_query_spec : forall t x,
  (exists e, s_step t (Some x) Elapsed = (OQ e, t) /\ 0 <= e /\
             (s_start t <= x -> e == x - s_start t) /\ (x <= s_start t -> e == 0)) /\
  (exists e, s_step t (Some x) Remaining = (OQ e, t) /\ 0 <= e /\
             (x <= s_stop t -> e == s_stop t - x) /\ (s_stop t <= x -> e == 0) /\
             (s_step t (Some x) Expired = (OB true, t) <-> e == 0)) /\
  (exists b, s_step t (Some x) Expired = (OB b, t) /\ (b = true <-> s_stop t <= x)) /\
  s_step t None Expired = (OB false, t).
Proof. exact s_query_spec. Qed.
Print Assumptions store_query_spec.

Theorem store_repeat_starts_at_previous_stop : forall t stamp,
  (s_stop t == s_start t + s_dur t /\ 0 <= s_dur t /\ 0 <= s_start t) ->
  exists t', s_step t stamp Repeat = (OSS (s_start t') (s_stop t'), t') /\ s_start t' == s_stop t /\
             s_dur t' == s_dur t /\ s_stop t' == s_stop t + s_dur t.
Proof. exact s_repeat_spec. Qed.
Print Assumptions store_repeat_starts_at_previous_stop.

Theorem store_extend_keeps_start : forall t stamp e,
  (s_stop t == s_start t + s_dur t /\ 0 <= s_dur t /\ 0 <= s_start t) ->
  exists t', s_step t stamp (Extend e) = (OSS (s_start t') (s_stop t'), t') /\ s_start t' == s_start t /\
             s_dur t' == qabs (s_dur t + match e with Some x => x | None => s_dur t end) /\
             s_stop t' == s_start t' + s_dur t'.
Proof. exact s_extend_spec. Qed.
Print Assumptions store_extend_keeps_start.

(* ---------------------------------------------------------------- non-vacuity *)
(* the trace that breaks the unfixed MonoTimer: start 100, read at 105 (elapsed 5),
   clock falls to 50, extend(5), read again at 50 and at 52: elapsed 5, 5, 7 *)
Example c42_retro_extend :
  let ops := [Elapsed; Extend (Some 5); Elapsed; Elapsed] in
  map Qred (elapsed_vals ops (tl (m_run true 10 [100; 100; 105; 50; 50; 52] ops))) = [5; 5; 7].
Proof. vm_compute. reflexivity. Qed.

(* without compensation the same backward jump raises, and keeps raising until the clock is
   back at latest *)
Example c42_raise :
  match m_run false 10 [100; 100; 105; 50; 104; 105] [Elapsed; Elapsed; Expired; Remaining] with
  | [OSS _ _; OQ a; OErr TimerRetroError; OErr TimerRetroError; OQ b; OLeft 0] =>
      Qeq_bool a 5 && Qeq_bool b 5
  | _ => false
  end = true.
Proof. vm_compute. reflexivity. Qed.

(* Timer: repeat after expiry restarts at the previous stop *)
Example c42_timer_repeat :
  match t_run 4 [10; 15; 15] [Expired; Repeat; Remaining] with
  | [OSS a b; OB true; OSS c d; OQ e; OLeft 0] =>
      Qeq_bool a 10 && Qeq_bool b 14 && Qeq_bool c 14 && Qeq_bool d 18 && Qeq_bool e 3
  | _ => false
  end = true.
Proof. vm_compute. reflexivity. Qed.
