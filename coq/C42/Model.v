(* C42 -- ioflo/aid/timing.py : Timer, MonoTimer, StoreTimer.   Hand model (tie H).
   Definitions only.

   clock oracle : the list of readings returned by successive time.time() calls, in the
                  exact call order of the code.  [tick] pops one reading; an exhausted
                  oracle keeps returning the last reading (clock stands still; 0 before
                  the first reading).  The harness clock double does the same.
   Time is Q (see V.Lib.C42_StoreTimer).

   MonoTimer is modelled AS FIXED by fixes/C42-monotimer-retro-shift.patch:
     __init__ : latest = time.time(); start = stop = latest; restart(duration=duration)
     repeat   : update(); start = stop; stop = start + duration
     extend   : update(); duration = abs(duration + extension); stop = start + duration
   (the unfixed code evaluates self.start/self.stop before restart() calls update(), so a
    retrograde shift applied inside that call is overwritten; and goes through abs()).   *)
From Coq Require Import List QArith Bool.
Import ListNotations.
Require Import V.Lib.C42_StoreTimer.
Open Scope Q_scope.

Record clock := { now : Q; future : list Q }.
Definition mkclock (l : list Q) : clock := {| now := 0; future := l |}.
Definition tick (c : clock) : Q * clock :=
  match future c with
  | [] => (now c, c)
  | r :: l => (r, {| now := r; future := l |})
  end.

Inductive op :=
| Elapsed | Remaining | Expired
| Restart (s d : option Q)
| Repeat
| Extend (e : option Q).

Inductive out :=
| OQ (q : Q)            (* elapsed / remaining *)
| OB (b : bool)         (* expired *)
| OSS (a b : Q)         (* (start, stop) returned by restart/repeat/extend/constructor *)
| OErr (e : err)
| OLeft (n : nat).      (* readings left unconsumed at the end of the history *)

(* ------------------------------------------------------------------ Timer *)
Record timer := { t_start : Q; t_stop : Q; t_dur : Q }.

Definition t_restart (t : timer) (c : clock) (s d : option Q) : timer * clock :=
  let '(st, c') := match s with Some x => (qabs x, c) | None => tick c end in
  let du := match d with Some y => qabs y | None => t_dur t end in
  ({| t_start := st; t_stop := qadd st du; t_dur := du |}, c').

(* Timer(duration): self.restart(start=time.time(), duration=duration) *)
Definition t_ctor (d : Q) (c : clock) : timer * clock :=
  let '(r, c') := tick c in
  ({| t_start := qabs r; t_stop := qadd (qabs r) (qabs d); t_dur := qabs d |}, c').

Definition t_ss (p : timer * clock) : out * timer * clock :=
  (OSS (t_start (fst p)) (t_stop (fst p)), fst p, snd p).

Definition t_step (t : timer) (c : clock) (o : op) : out * timer * clock :=
  match o with
  | Elapsed => let '(r, c') := tick c in (OQ (qmax0 (qsub r (t_start t))), t, c')
  | Remaining => let '(r, c') := tick c in (OQ (qmax0 (qsub (t_stop t) r)), t, c')
  | Expired => let '(r, c') := tick c in (OB (qleb (t_stop t) r), t, c')
  | Restart s d => t_ss (t_restart t c s d)
  | Repeat => t_ss (t_restart t c (Some (t_stop t)) None)
  | Extend e =>
      let ext := match e with Some x => x | None => t_dur t end in
      t_ss (t_restart t c (Some (t_start t)) (Some (qadd (t_dur t) ext)))
  end.

Fixpoint t_runfrom (t : timer) (c : clock) (ops : list op) : list out :=
  match ops with
  | [] => [OLeft (length (future c))]
  | o :: r => let '(x, t', c') := t_step t c o in x :: t_runfrom t' c' r
  end.

Fixpoint t_final (t : timer) (c : clock) (ops : list op) : timer * clock :=
  match ops with
  | [] => (t, c)
  | o :: r => let '(_, t', c') := t_step t c o in t_final t' c' r
  end.

Definition t_run (d : Q) (readings : list Q) (ops : list op) : list out :=
  let '(t, c) := t_ctor d (mkclock readings) in
  OSS (t_start t) (t_stop t) :: t_runfrom t c ops.

(* -------------------------------------------------------------- MonoTimer *)
Record mono := { m_retro : bool; m_start : Q; m_stop : Q; m_dur : Q; m_latest : Q }.

(* MonoTimer.update() : inl e = raises e (state untouched) *)
Definition m_update (m : mono) (c : clock) : (err + mono) * clock :=
  let '(r, c') := tick c in
  let delta := qsub r (m_latest m) in
  if qltb delta 0 then
    if m_retro m then
      (inr {| m_retro := true; m_start := qadd (m_start m) delta; m_stop := qadd (m_stop m) delta;
              m_dur := m_dur m; m_latest := qadd (m_latest m) delta |}, c')
    else (inl TimerRetroError, c')
  else
    (inr {| m_retro := m_retro m; m_start := m_start m; m_stop := m_stop m;
            m_dur := m_dur m; m_latest := qadd (m_latest m) delta |}, c').

Definition m_set (m : mono) (st du : Q) : mono :=
  {| m_retro := m_retro m; m_start := st; m_stop := qadd st du; m_dur := du; m_latest := m_latest m |}.

(* the body of each operation AFTER its leading update() *)
Definition m_apply (m : mono) (o : op) : out * mono :=
  match o with
  | Elapsed => (OQ (qmax0 (qsub (m_latest m) (m_start m))), m)
  | Remaining => (OQ (qmax0 (qsub (m_stop m) (m_latest m))), m)
  | Expired => (OB (qleb (m_stop m) (m_latest m)), m)
  | Restart s d =>
      let st := match s with Some x => qabs x | None => m_latest m end in
      let du := match d with Some y => qabs y | None => m_dur m end in
      let m' := m_set m st du in (OSS (m_start m') (m_stop m'), m')
  | Repeat => let m' := m_set m (m_stop m) (m_dur m) in (OSS (m_start m') (m_stop m'), m')
  | Extend e =>
      let ext := match e with Some x => x | None => m_dur m end in
      let m' := m_set m (m_start m) (qabs (qadd (m_dur m) ext)) in (OSS (m_start m') (m_stop m'), m')
  end.

Definition m_step (m : mono) (c : clock) (o : op) : out * mono * clock :=
  match m_update m c with
  | (inl e, c') => (OErr e, m, c')
  | (inr m1, c') => let '(x, m2) := m_apply m1 o in (x, m2, c')
  end.

(* MonoTimer(duration, retro) (fixed): latest = time.time(); start = stop = latest;
   restart(duration=duration).  inl = the constructor raises. *)
Definition m_ctor (retro : bool) (d : Q) (c : clock) : (err + mono) * clock :=
  let '(r, c1) := tick c in
  let m0 := {| m_retro := retro; m_start := r; m_stop := r; m_dur := 0; m_latest := r |} in
  match m_update m0 c1 with
  | (inl e, c2) => (inl e, c2)
  | (inr m1, c2) => (inr (m_set m1 (m_latest m1) (qabs d)), c2)
  end.

Fixpoint m_runfrom (m : mono) (c : clock) (ops : list op) : list out :=
  match ops with
  | [] => [OLeft (length (future c))]
  | o :: r => let '(x, m', c') := m_step m c o in x :: m_runfrom m' c' r
  end.

Fixpoint m_final (m : mono) (c : clock) (ops : list op) : mono * clock :=
  match ops with
  | [] => (m, c)
  | o :: r => let '(_, m', c') := m_step m c o in m_final m' c' r
  end.

Definition m_run (retro : bool) (d : Q) (readings : list Q) (ops : list op) : list out :=
  match m_ctor retro d (mkclock readings) with
  | (inl e, _) => [OErr e]
  | (inr m, c) => OSS (m_start m) (m_stop m) :: m_runfrom m c ops
  end.

(* elapsed values reported along a run *)
Fixpoint elapsed_vals (ops : list op) (outs : list out) : list Q :=
  match ops, outs with
  | Elapsed :: r, OQ q :: l => q :: elapsed_vals r l
  | _ :: r, _ :: l => elapsed_vals r l
  | _, _ => []
  end.

(* operations that are not a (re)start of the timer *)
Definition keeps_start (o : op) : bool :=
  match o with Restart _ _ | Repeat => false | _ => true end.

(* -------------------------------------------------------------- StoreTimer *)
(* history items: a timer operation, or the store's stamp is changed (None allowed) *)
Inductive sop := SOp (o : op) | SetStamp (x : option Q).

Definition s_ss (t : stimer) (r : option stimer) : out * stimer :=
  match r with
  | Some t' => (OSS (s_start t') (s_stop t'), t')
  | None => (OErr TypeError, t)
  end.

Definition s_step (t : stimer) (stamp : option Q) (o : op) : out * stimer :=
  match o with
  | Elapsed => (match stamp with Some x => OQ (st_elapsed t x) | None => OErr TypeError end, t)
  | Remaining => (match stamp with Some x => OQ (st_remaining t x) | None => OErr TypeError end, t)
  | Expired => (OB (st_expired t stamp), t)
  | Restart s d => s_ss t (st_restart t stamp s d)
  | Repeat => s_ss t (st_repeat t stamp)
  | Extend e => s_ss t (st_extend t stamp e)
  end.

Fixpoint s_runfrom (t : stimer) (stamp : option Q) (ops : list sop) : list out :=
  match ops with
  | [] => []
  | SetStamp x :: r => s_runfrom t x r
  | SOp o :: r => let '(x, t') := s_step t stamp o in x :: s_runfrom t' stamp r
  end.

Fixpoint s_final (t : stimer) (stamp : option Q) (ops : list sop) : stimer * option Q :=
  match ops with
  | [] => (t, stamp)
  | SetStamp x :: r => s_final t x r
  | SOp o :: r => let '(_, t') := s_step t stamp o in s_final t' stamp r
  end.

Definition s_run (stamp0 : option Q) (d : Q) (ops : list sop) : list out :=
  let t := st_ctor stamp0 d in OSS (s_start t) (s_stop t) :: s_runfrom t stamp0 ops.
