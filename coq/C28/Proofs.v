(* C28 -- proofs about the idle-timeout model *)
From Coq Require Import List ZArith Bool Lia.
Import ListNotations.
Require Import V.C28.Model V.gen.C28_Refresh V.C28.Spec.
Open Scope Z_scope.

Lemma inv_accept c t0 : 0 < timeout0 c -> 0 <= t0 -> inv c (accept c t0).
Proof.
  intros HT Ht. constructor; cbn; try lia; try (left; reflexivity); try discriminate.
Qed.

Lemma inv_step c s e :
  refreshing c = true -> inv c s ->
  match e with Tick dt => 0 <= dt | _ => True end -> inv c (step c s e).
Proof.
  unfold refreshing. intros Hr [H1 H2 H3 H4 H5] He.
  apply andb_true_iff in Hr. destruct Hr as [Hr Hf]. apply andb_true_iff in Hr. destruct Hr as [Hrx Htx].
  unfold step. destruct (negb (opened s)).
  { destruct e; try (constructor; assumption). constructor; cbn; try assumption; lia. }
  destruct e as [dt|n|n| | | |].
  - constructor; cbn; try assumption; lia.
  - destruct (cutoff s); [constructor; assumption|]. destruct (0 <? n); [|constructor; assumption].
    unfold activity. rewrite Hrx, Hf. constructor; cbn; try assumption; lia.
  - destruct (cutoff s); [constructor; assumption|]. destruct (0 <? n); [|constructor; assumption].
    unfold activity. rewrite Htx, Hf. constructor; cbn; try assumption; lia.
  - constructor; cbn; assumption.
  - constructor; cbn; try assumption. right. reflexivity.
  - constructor; cbn; assumption.
  - destruct (checks_cutoff c && cutoff s); [constructor; cbn; assumption|].
    destruct ((0 <? timeout s) && (tstop s <=? now s)) eqn:E; [|constructor; assumption].
    apply andb_true_iff in E. destruct E as [E1 E2]. apply Z.leb_le in E2.
    constructor; cbn; try assumption. intros t la H. inversion H; subst. lia.
Qed.

Lemma inv_run_from c : forall evs s,
  refreshing c = true -> monotone evs = true -> inv c s -> inv c (run_from c s evs).
Proof.
  induction evs as [|e evs IH]; intros s Hr Hm Hs; [exact Hs|].
  cbn in Hm. apply andb_true_iff in Hm. destruct Hm as [He Hm]. cbn [run_from fold_left].
  apply IH; [exact Hr|exact Hm|]. apply inv_step; [exact Hr|exact Hs|].
  destruct e; auto. apply Z.leb_le. exact He.
Qed.

Lemma only_if_idle c t0 evs t la :
  refreshing c = true -> 0 < timeout0 c -> 0 <= t0 -> monotone evs = true ->
  closed_idle (run c t0 evs) = Some (t, la) -> t - la >= timeout0 c.
Proof.
  intros Hr HT Ht Hm H. unfold run in H.
  exact (i_closed _ _ (inv_run_from c evs _ Hr Hm (inv_accept c t0 HT Ht)) t la H).
Qed.

Lemma conn_cfg_refreshing tls valet T : refreshing (conn_cfg tls valet T) = true.
Proof. destruct tls; reflexivity. Qed.

Lemma only_if_idle_classes tls valet T t0 evs t la :
  0 < T -> 0 <= t0 -> monotone evs = true ->
  closed_idle (run (conn_cfg tls valet T) t0 evs) = Some (t, la) -> t - la >= T.
Proof.
  intros HT Ht Hm H.
  exact (only_if_idle (conn_cfg tls valet T) t0 evs t la (conn_cfg_refreshing tls valet T) HT Ht Hm H).
Qed.

(* activity restarts the idle period *)
Lemma activity_restarts_rx c s n :
  opened s = true -> cutoff s = false -> 0 < n -> rx_ref c && refreshable c = true ->
  let s' := step c s (Rx n) in
  tstart s' = now s /\ tstop s' = now s + duration s /\ last_act s' = now s /\ opened s' = true.
Proof.
  intros Ho Hc Hn Hr. unfold step. rewrite Ho, Hc. cbn [negb].
  apply Z.ltb_lt in Hn. rewrite Hn. unfold activity. rewrite Hr. cbn. auto.
Qed.

Lemma activity_restarts_tx c s n :
  opened s = true -> cutoff s = false -> 0 < n -> tx_ref c && refreshable c = true ->
  let s' := step c s (Tx n) in
  tstart s' = now s /\ tstop s' = now s + duration s /\ last_act s' = now s /\ opened s' = true.
Proof.
  intros Ho Hc Hn Hr. unfold step. rewrite Ho, Hc. cbn [negb].
  apply Z.ltb_lt in Hn. rewrite Hn. unfold activity. rewrite Hr. cbn. auto.
Qed.

Lemma activity_restarts_classes tls valet T s n :
  opened s = true -> cutoff s = false -> 0 < n ->
  (let s' := step (conn_cfg tls valet T) s (Rx n) in
   tstart s' = now s /\ tstop s' = now s + duration s /\ last_act s' = now s /\ opened s' = true) /\
  (let s' := step (conn_cfg tls valet T) s (Tx n) in
   tstart s' = now s /\ tstop s' = now s + duration s /\ last_act s' = now s /\ opened s' = true).
Proof.
  intros Ho Hc Hn. split.
  - apply activity_restarts_rx; try assumption. destruct tls; reflexivity.
  - apply activity_restarts_tx; try assumption. destruct tls; reflexivity.
Qed.

(* persistence switches the idle timer off for good *)
Lemma timeout_zero_stays c : forall evs s,
  timeout s = 0 -> closed_idle (run_from c s evs) = closed_idle s /\ timeout (run_from c s evs) = 0.
Proof.
  induction evs as [|e evs IH]; intros s Hz; [auto|]. cbn [run_from fold_left].
  assert (G : closed_idle (step c s e) = closed_idle s /\ timeout (step c s e) = 0).
  { unfold step. destruct (negb (opened s)); [destruct e; auto|].
    destruct e as [dt|n|n| | | |]; cbn; auto.
    - destruct (cutoff s); auto. destruct (0 <? n); auto.
    - destruct (cutoff s); auto. destruct (0 <? n); auto.
    - destruct (checks_cutoff c && cutoff s); auto. rewrite Hz. cbn. auto. }
  destruct G as [G1 G2]. destruct (IH (step c s e) G2) as [I1 I2]. unfold run_from in *.
  rewrite I1, G1. auto.
Qed.

Lemma persisted_never_idle_closed c s evs :
  opened s = true ->
  closed_idle (run_from c (step c s Persist) evs) = closed_idle s.
Proof.
  intro Ho. assert (Hz : timeout (step c s Persist) = 0) by (unfold step; rewrite Ho; reflexivity).
  destruct (timeout_zero_stays c evs _ Hz) as [H _]. rewrite H. unfold step. rewrite Ho. reflexivity.
Qed.

(* conversely an idle connection IS dropped at the next check *)
Lemma idle_is_dropped c s :
  inv c s -> opened s = true -> checks_cutoff c && cutoff s = false -> timeout s = timeout0 c ->
  0 < timeout0 c -> now s - last_act s >= timeout0 c ->
  closed_idle (step c s Check) = Some (now s, last_act s) /\ opened (step c s Check) = false.
Proof.
  intros [H1 H2 H3 H4 H5] Ho Hc Ht HT Hi. unfold step. rewrite Ho, Hc. cbn [negb].
  assert (E : (0 <? timeout s) && (tstop s <=? now s) = true).
  { apply andb_true_iff. split; [apply Z.ltb_lt; lia|apply Z.leb_le; lia]. }
  rewrite E. cbn. auto.
Qed.

Lemma busy_not_dropped c s :
  inv c s -> opened s = true -> cutoff s = false -> now s - last_act s < timeout0 c ->
  step c s Check = s.
Proof.
  intros [H1 H2 H3 H4 H5] Ho Hc Hi. unfold step. rewrite Ho, Hc. cbn [negb]. rewrite andb_false_r.
  assert (E : (tstop s <=? now s) = false) by (apply Z.leb_gt; lia).
  rewrite E. rewrite andb_false_r. reflexivity.
Qed.

Lemma refresh_everywhere :
  forallb (fun b => b) [Incomer_receive_refreshes; Incomer_send_refreshes;
                        IncomerTls_receive_refreshes; IncomerTls_send_refreshes] = true.
Proof. reflexivity. Qed.

(* ------------------------------------------------------------------ configuration path *)
Lemma conn_timeout_configured tls valet configured :
  conn_timeout (path_of tls valet) configured = configured_timeout valet configured.
Proof. destruct tls, valet; reflexivity. Qed.

Lemma clock_is_forwarded : forallb (fun b => b) clock_forwarded = true.
Proof. reflexivity. Qed.

Lemma only_if_idle_configured tls valet configured t0 evs t la :
  0 < configured_timeout valet configured -> 0 <= t0 -> monotone evs = true ->
  closed_idle (run (served_cfg tls valet configured) t0 evs) = Some (t, la) ->
  t - la >= configured_timeout valet configured.
Proof.
  unfold served_cfg. rewrite conn_timeout_configured. apply only_if_idle_classes.
Qed.
