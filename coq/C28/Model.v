(* C28 -- idle timeouts of server-side HTTP connections.
   Hand model (tie H) of one accepted connection under a Valet / Porter:
     ioflo/aio/tcp/serving.py   Incomer.__init__ (timer = StoreTimer(store, duration=timeout)),
                                Incomer.refresh, Incomer(.Tls).receive / send (refresh on non-empty
                                rx / tx when .refreshable)
     ioflo/aid/timing.py        StoreTimer.restart / expired  (stop = start + duration; stamp >= stop)
     ioflo/aio/http/serving.py  Valet.serviceConnects / Porter.serviceConnects
                                  (if ix.cutoff: close [Valet only]; if ix.timeout > 0.0 and
                                   ix.timer.expired: closeConnection)
                                Requestant.checkPersisted (persisted -> incomer.timeout = 0.0)
   WHICH receive/send methods refresh is extracted from the source on every run (tie T,
   coq/gen/C28_Refresh.v); the model takes it as the parameters rx_ref / tx_ref.
   Definitions only.

   Time is Z: a number of ticks (the harness uses 1 tick = 1/8 s so that every stamp is an exactly
   representable binary64 and the float arithmetic of StoreTimer is exact).                      *)
From Coq Require Import List ZArith Bool.
Import ListNotations.
Open Scope Z_scope.

Record cfg := {
  rx_ref : bool;          (* the class' receive() calls refresh() on non-empty data *)
  tx_ref : bool;          (* the class' send() calls refresh() on a non-zero count *)
  refreshable : bool;     (* Incomer.refreshable (default True) *)
  checks_cutoff : bool;   (* Valet.serviceConnects closes cut-off connections first; Porter does not *)
  timeout0 : Z            (* the configured timeout (Valet.timeout -> Server.timeout -> Incomer) *)
}.

Record st := {
  now : Z;                (* store.stamp *)
  timeout : Z;            (* ix.timeout *)
  duration : Z;           (* ix.timer.duration *)
  tstart : Z;             (* ix.timer.start *)
  tstop : Z;              (* ix.timer.stop *)
  opened : bool;          (* still in the server's table (not closed by the server) *)
  cutoff : bool;          (* ix.cutoff *)
  last_act : Z;           (* ghost: stamp of the accept or of the last non-empty rx / tx *)
  closed_idle : option (Z * Z);   (* ghost: (stamp, last_act) when closed by the idle check *)
  closed_other : bool     (* ghost: closed because cut off / response completed *)
}.

(* accepted at stamp t0: Incomer(timeout=timeout0) creates StoreTimer(store, duration=timeout0) *)
Definition accept (c : cfg) (t0 : Z) : st :=
  {| now := t0; timeout := timeout0 c; duration := Z.abs (timeout0 c);
     tstart := Z.abs t0; tstop := Z.abs t0 + Z.abs (timeout0 c);
     opened := true; cutoff := false; last_act := t0; closed_idle := None; closed_other := false |}.

Inductive ev :=
| Tick (dt : Z)     (* the store's stamp advances by dt *)
| Rx (n : Z)        (* receive() obtained n bytes (n <= 0: would-block) *)
| Tx (n : Z)        (* send() was accepted for n bytes (n <= 0: would-block) *)
| Eof               (* receive() obtained b'' / a connection-loss error: cutoff *)
| Persist           (* a request with HTTP persistence was parsed: checkPersisted *)
| Done              (* a non-persistent exchange completed: the server closes the connection *)
| Check.            (* Valet / Porter .serviceConnects *)

Definition activity (c : cfg) (refreshes : bool) (s : st) : st :=
  let r := refreshes && refreshable c in
  {| now := now s; timeout := timeout s; duration := duration s;
     tstart := if r then now s else tstart s;
     tstop := if r then now s + duration s else tstop s;
     opened := opened s; cutoff := cutoff s; last_act := now s;
     closed_idle := closed_idle s; closed_other := closed_other s |}.

Definition step (c : cfg) (s : st) (e : ev) : st :=
  if negb (opened s) then
    match e with
    | Tick dt => {| now := now s + dt; timeout := timeout s; duration := duration s; tstart := tstart s;
                    tstop := tstop s; opened := false; cutoff := cutoff s; last_act := last_act s;
                    closed_idle := closed_idle s; closed_other := closed_other s |}
    | _ => s
    end
  else
  match e with
  | Tick dt => {| now := now s + dt; timeout := timeout s; duration := duration s; tstart := tstart s;
                  tstop := tstop s; opened := opened s; cutoff := cutoff s; last_act := last_act s;
                  closed_idle := closed_idle s; closed_other := closed_other s |}
  | Rx n => if cutoff s then s else if 0 <? n then activity c (rx_ref c) s else s
  | Tx n => if cutoff s then s else if 0 <? n then activity c (tx_ref c) s else s
  | Eof => {| now := now s; timeout := timeout s; duration := duration s; tstart := tstart s;
              tstop := tstop s; opened := opened s; cutoff := true; last_act := last_act s;
              closed_idle := closed_idle s; closed_other := closed_other s |}
  | Persist => {| now := now s; timeout := 0; duration := duration s; tstart := tstart s;
                  tstop := tstop s; opened := opened s; cutoff := cutoff s; last_act := last_act s;
                  closed_idle := closed_idle s; closed_other := closed_other s |}
  | Done => {| now := now s; timeout := timeout s; duration := duration s; tstart := tstart s;
               tstop := tstop s; opened := false; cutoff := cutoff s; last_act := last_act s;
               closed_idle := closed_idle s; closed_other := true |}
  | Check =>
      if checks_cutoff c && cutoff s then
        {| now := now s; timeout := timeout s; duration := duration s; tstart := tstart s;
           tstop := tstop s; opened := false; cutoff := cutoff s; last_act := last_act s;
           closed_idle := closed_idle s; closed_other := true |}
      else if (0 <? timeout s) && (tstop s <=? now s) then
        {| now := now s; timeout := timeout s; duration := duration s; tstart := tstart s;
           tstop := tstop s; opened := false; cutoff := cutoff s; last_act := last_act s;
           closed_idle := Some (now s, last_act s); closed_other := closed_other s |}
      else s
  end.

Definition run_from (c : cfg) (s : st) (evs : list ev) : st := fold_left (step c) evs s.
Definition run (c : cfg) (t0 : Z) (evs : list ev) : st := run_from c (accept c t0) evs.

(* the clock never runs backwards *)
Definition monotone (evs : list ev) : bool :=
  forallb (fun e => match e with Tick dt => 0 <=? dt | _ => true end) evs.

(* ------------------------------------------------------------------ configuration path
   How the configured idle timeout reaches an accepted connection (all values in ticks of 1/8 s
   here, because the class defaults are fixed numbers of seconds):
     front end  Valet / Porter (timeout=None -> class default), constructs its Server / ServerTls
                with or without `timeout=self.timeout`
     server     Server / ServerTls (timeout=None -> class default), constructs each Incomer /
                IncomerTls with or without `timeout=self.timeout`
     connection Incomer(.Tls) (timeout=None -> class default); .timer duration = .timeout
   Which keyword arguments are forwarded, and the defaults, are extracted from the source (tie T). *)
Record path := {
  front_default : Z; front_forwards : bool;
  server_default : Z; server_forwards : bool;
  incomer_default : Z
}.

Definition resolve (given : option Z) (default : Z) : Z :=
  match given with Some t => t | None => default end.

(* Valet(timeout=configured).timeout *)
Definition front_timeout (p : path) (configured : option Z) : Z := resolve configured (front_default p).
(* .servant.timeout *)
Definition server_timeout (p : path) (configured : option Z) : Z :=
  resolve (if front_forwards p then Some (front_timeout p configured) else None) (server_default p).
(* ix.timeout = ix.timer.duration of every accepted connection *)
Definition conn_timeout (p : path) (configured : option Z) : Z :=
  resolve (if server_forwards p then Some (server_timeout p configured) else None) (incomer_default p).
