(* C28 -- the connection classes as configurations of the model, built from the GENERATED
   refresh table (coq/gen/C28_Refresh.v).  Definitions only. *)
From Coq Require Import List ZArith Bool.
Require Import V.C28.Model V.gen.C28_Refresh.
Open Scope Z_scope.

(* tls = IncomerTls under ServerTls, else Incomer under Server;
   valet = served by Valet (WSGI), else by Porter *)
Definition conn_cfg (tls valet : bool) (T : Z) : cfg :=
  {| rx_ref := if tls then IncomerTls_receive_refreshes else Incomer_receive_refreshes;
     tx_ref := if tls then IncomerTls_send_refreshes else Incomer_send_refreshes;
     refreshable := true;
     checks_cutoff := if valet then Valet_checks_cutoff else Porter_checks_cutoff;
     timeout0 := T |}.

Definition refreshing (c : cfg) : bool := rx_ref c && tx_ref c && refreshable c.

(* invariant of the states reachable by a refreshing configuration *)
Record inv (c : cfg) (s : st) : Prop := {
  i_duration : duration s = timeout0 c;
  i_stop : tstop s = last_act s + timeout0 c;
  i_act_le_now : last_act s <= now s;
  i_timeout : timeout s = timeout0 c \/ timeout s = 0;
  i_closed : forall t la, closed_idle s = Some (t, la) -> t - la >= timeout0 c
}.

