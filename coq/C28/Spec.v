(* C28 -- the connection classes as configurations of the model, built from the GENERATED
   refresh table (coq/gen/C28_Refresh.v).  Definitions only. *)
From Coq Require Import List ZArith Bool.
Import ListNotations.
Require Import V.C28.Model V.gen.C28_Refresh.
Open Scope Z_scope.

(* tls = IncomerTls under ServerTls, else Incomer under Server;
   valet = served by Valet (WSGI), else by Porter *)
Definition conn_cfg (tls valet : bool) (T : Z) : cfg :=
  {| rx_ref := if tls then IncomerTls_receive_refreshes else Incomer_receive_refreshes;
     tx_ref := if tls then IncomerTls_send_refreshes else Incomer_send_refreshes;
     refreshable := true;
     checks_cutoff := if valet then Valet_checks_cutoff else Porter_checks_cutoff;
     timeout0 := T |}.

(* the configuration path of each front end x scheme, from the GENERATED table *)
Definition path_of (tls valet : bool) : path :=
  {| front_default := if valet then Valet_default_x8 else Porter_default_x8;
     front_forwards := match valet, tls with
                       | true, true => Valet_https_forwards_timeout
                       | true, false => Valet_http_forwards_timeout
                       | false, true => Porter_https_forwards_timeout
                       | false, false => Porter_http_forwards_timeout end;
     server_default := if tls then ServerTls_default_x8 else Server_default_x8;
     server_forwards := if tls then ServerTls_forwards_timeout else Server_forwards_timeout;
     incomer_default := if tls then IncomerTls_default_x8 else Incomer_default_x8 |}.

(* the value the user configured: Valet(timeout=T) / Porter(timeout=T), None = class default *)
Definition configured_timeout (valet : bool) (configured : option Z) : Z :=
  resolve configured (if valet then Valet_default_x8 else Porter_default_x8).

(* a connection accepted by the Server(Tls) that a Valet / Porter built for itself (1 tick = 1/8 s) *)
Definition served_cfg (tls valet : bool) (configured : option Z) : cfg :=
  conn_cfg tls valet (conn_timeout (path_of tls valet) configured).

(* the same Store (clock) is handed down at every level *)
Definition clock_forwarded : list bool :=
  [Valet_http_forwards_store; Valet_https_forwards_store; Porter_http_forwards_store;
   Porter_https_forwards_store; Server_forwards_store; ServerTls_forwards_store].

Definition refreshing (c : cfg) : bool := rx_ref c && tx_ref c && refreshable c.

(* invariant of the states reachable by a refreshing configuration *)
Record inv (c : cfg) (s : st) : Prop := {
  i_duration : duration s = timeout0 c;
  i_stop : tstop s = last_act s + timeout0 c;
  i_act_le_now : last_act s <= now s;
  i_timeout : timeout s = timeout0 c \/ timeout s = 0;
  i_closed : forall t la, closed_idle s = Some (t, la) -> t - la >= timeout0 c
}.

