(* C28 -- property theorems only.  Each closed by [exact]; Print Assumptions beneath.
   conn_cfg tls valet T is built from the GENERATED table of which receive/send methods refresh
   the idle timer (coq/gen/C28_Refresh.v): tls selects IncomerTls vs Incomer, valet selects
   Valet vs Porter. *)
From Coq Require Import List ZArith Bool.
Import ListNotations.
Require Import V.C28.Model V.gen.C28_Refresh V.C28.Spec V.C28.Proofs.
Open Scope Z_scope.

(* every receive / send method of the plain and the TLS connection class refreshes the timer *)
Theorem refresh_called_everywhere :
  forallb (fun b => b) [Incomer_receive_refreshes; Incomer_send_refreshes;
                        IncomerTls_receive_refreshes; IncomerTls_send_refreshes] = true.
Proof. exact refresh_everywhere. Qed.
Print Assumptions refresh_called_everywhere.

(* For plain and TLS connections alike, under Valet or Porter, any timeout T > 0, any schedule of
   clock advances (monotone clock), received / sent byte counts, EOFs, persistent requests,
   completed exchanges and service checks: if the connection is closed by the idle check at stamp
   t, then the last byte sent or received on it (or its accept) was at la with t - la >= T. *)
Theorem closed_for_idle_only_if_idle : forall tls valet T t0 evs t la,
  0 < T -> 0 <= t0 -> monotone evs = true ->
  closed_idle (run (conn_cfg tls valet T) t0 evs) = Some (t, la) -> t - la >= T.
Proof. exact only_if_idle_classes. Qed.
Print Assumptions closed_for_idle_only_if_idle.

(* THE CONFIGURED VALUE REACHES EVERY CONNECTION.  For Valet and Porter, scheme http and https,
   whatever timeout is configured (None = the front end's class default): the idle threshold
   (.timeout = timer duration) of every connection accepted by the server the front end built is
   exactly the configured value -- computed along the EXTRACTED forwarding table
   Valet/Porter.__init__ -> Server/ServerTls(timeout=...) -> Incomer/IncomerTls(timeout=...) with
   the extracted class defaults -- and the same Store clock is handed down at every level. *)
Theorem configured_timeout_reaches_every_connection : forall tls valet configured,
  conn_timeout (path_of tls valet) configured = configured_timeout valet configured /\
  forallb (fun b => b) clock_forwarded = true.
Proof. exact (fun tls valet configured => conj (conn_timeout_configured tls valet configured) clock_is_forwarded). Qed.
Print Assumptions configured_timeout_reaches_every_connection.

(* hence, end to end: a connection served by a Valet / Porter configured with timeout T (ticks of
   1/8 s; None = class default) over http or https is closed by the idle check only after at
   least T without bytes sent or received *)
Theorem closed_for_idle_only_after_configured_timeout : forall tls valet configured t0 evs t la,
  0 < configured_timeout valet configured -> 0 <= t0 -> monotone evs = true ->
  closed_idle (run (served_cfg tls valet configured) t0 evs) = Some (t, la) ->
  t - la >= configured_timeout valet configured.
Proof. exact only_if_idle_configured. Qed.
Print Assumptions closed_for_idle_only_after_configured_timeout.

(* activity always restarts the idle period: after a non-empty receive or a non-zero send the
   timer starts at the current stamp and the full duration lies ahead *)
Theorem activity_restarts : forall tls valet T s n,
  opened s = true -> cutoff s = false -> 0 < n ->
  (let s' := step (conn_cfg tls valet T) s (Rx n) in
   tstart s' = now s /\ tstop s' = now s + duration s /\ last_act s' = now s /\ opened s' = true) /\
  (let s' := step (conn_cfg tls valet T) s (Tx n) in
   tstart s' = now s /\ tstop s' = now s + duration s /\ last_act s' = now s /\ opened s' = true).
Proof. exact activity_restarts_classes. Qed.
Print Assumptions activity_restarts.

(* a connection kept alive by HTTP persistence is never dropped by the idle timer afterwards,
   whatever happens next (any configuration, any schedule, even a non-monotone clock) *)
Theorem persisted_not_dropped : forall c s evs,
  opened s = true ->
  closed_idle (run_from c (step c s Persist) evs) = closed_idle s.
Proof. exact persisted_never_idle_closed. Qed.
Print Assumptions persisted_not_dropped.

(* the idle check is exact on states reached by the model (inv): a non-persistent connection that
   has been idle for T is dropped at the next check, one that has not is left alone *)
Theorem idle_check_exact : forall c s,
  inv c s -> opened s = true ->
  (checks_cutoff c && cutoff s = false -> timeout s = timeout0 c -> 0 < timeout0 c ->
   now s - last_act s >= timeout0 c ->
   closed_idle (step c s Check) = Some (now s, last_act s) /\ opened (step c s Check) = false) /\
  (cutoff s = false -> now s - last_act s < timeout0 c -> step c s Check = s).
Proof.
  exact (fun c s Hi Ho => conj (idle_is_dropped c s Hi Ho) (busy_not_dropped c s Hi Ho)).
Qed.
Print Assumptions idle_check_exact.

(* non-vacuity: a long streamed response on a TLS connection (T = 40 ticks, a chunk every 24
   ticks for 120 ticks) survives and is dropped 40 ticks after the last chunk ... *)
Example c28_streaming_survives :
  let evs := [Tick 24; Tx 5; Check; Tick 24; Tx 5; Check; Tick 24; Tx 5; Check; Tick 24; Tx 5; Check;
              Tick 24; Tx 5; Check; Tick 39; Check] in
  opened (run (conn_cfg true true 40) 0 evs) = true /\
  closed_idle (run (conn_cfg true true 40) 0 (evs ++ [Tick 1; Check])) = Some (160, 120).
Proof. vm_compute. split; reflexivity. Qed.

(* ... whereas a class whose send() does not refresh would be dropped in mid-stream *)
Example c28_unrefreshed_dropped_while_busy :
  let c := {| rx_ref := false; tx_ref := false; refreshable := true; checks_cutoff := true; timeout0 := 40 |} in
  closed_idle (run c 0 [Tick 24; Tx 5; Check; Tick 24; Tx 5; Check]) = Some (48, 48).
Proof. vm_compute. reflexivity. Qed.
