(* C43 -- property theorems only (about the GENERATED wrap1 / wrap2 / delta of coq/gen/Navigating.v).
   For all rational angles and wraps. *)
From Coq Require Import ZArith QArith Qround Qabs.
Require Import V.Lib.C43_PyPrelude V.gen.Navigating V.C43.Model V.C43.Proofs.
Open Scope Q_scope.

(* one-sided wrap lands in the half-open range between zero and the wrap:
   0 <= r < w for w > 0,  w < r <= 0 for w < 0 *)
Theorem wrap1_range : forall a w, in_half_open w (wrap1 a w).
Proof. exact wrap1_range. Qed.
Print Assumptions wrap1_range.

(* two-sided wrap lands in the closed range between minus and plus the wrap *)
Theorem wrap2_range : forall a w, ~ w == 0 -> - Qabs w <= wrap2 a w /\ wrap2 a w <= Qabs w.
Proof. exact wrap2_range. Qed.
Print Assumptions wrap2_range.

(* sharper: which end is open *)
Theorem wrap2_range_half_open : forall a w,
  (0 < w -> - w < wrap2 a w /\ wrap2 a w <= w) /\ (w < 0 -> w <= wrap2 a w /\ wrap2 a w < - w).
Proof. exact (fun a w => conj (wrap2_range_pos a w) (wrap2_range_neg a w)). Qed.
Print Assumptions wrap2_range_half_open.

(* both differ from the input by a whole number of full turns (w resp. 2w) *)
Theorem wrap_whole_turns : forall a w,
  (exists k : Z, wrap1 a w == a - inject_Z k * w) /\
  (exists k : Z, wrap2 a w == a - inject_Z k * (2 * w)).
Proof. exact (fun a w => conj (wrap1_turns a w) (wrap2_turns a w)). Qed.
Print Assumptions wrap_whole_turns.

(* the two-sided wrap is the SHORTEST representative: no other whole-turn shift is closer to 0 *)
Theorem wrap2_shortest : forall a w k, ~ w == 0 ->
  Qabs (wrap2 a w) <= Qabs (a - inject_Z k * (2 * w)).
Proof. exact wrap2_shortest. Qed.
Print Assumptions wrap2_shortest.

(* the short rotation between two headings is the two-sided wrap of their difference *)
Theorem delta_is_wrap2 : forall desired actual w, delta desired actual w = wrap2 (desired - actual) w.
Proof. exact delta_wrap2. Qed.
Print Assumptions delta_is_wrap2.

(* a wrap of zero returns the angle unchanged (syntactically, not just up to ==) *)
Theorem wrap_zero_identity : forall a w, w == 0 -> wrap1 a w = a /\ wrap2 a w = a /\ forall d, delta d a w = d - a.
Proof. exact (fun a w H => conj (wrap1_zero a w H) (conj (wrap2_zero a w H) (fun d => wrap2_zero (d - a) w H))). Qed.
Print Assumptions wrap_zero_identity.

(* docstring claim "result is invariant to sign of wrap": true except exactly at the half turn,
   where wrap w gives +w and wrap -w gives -w (both inside the closed range) *)
Theorem wrap2_sign_invariant_except_half_turn : forall a w, 0 < w ->
  wrap2 a (- w) == wrap2 a w \/ (wrap2 a w == w /\ wrap2 a (- w) == - w).
Proof. exact wrap2_sign_pos. Qed.
Print Assumptions wrap2_sign_invariant_except_half_turn.

(* non-vacuity *)
Example c43_ex1 : wrap1 (-30) 360 == 330 /\ wrap1 (725 # 2) 360 == 5 # 2 /\ wrap1 30 (-360) == -330.
Proof. vm_compute. repeat split. Qed.
Example c43_ex2 : wrap2 190 180 == -170 /\ wrap2 180 180 == 180 /\ wrap2 180 (-180) == -180 /\ wrap2 (-190) 180 == 170.
Proof. vm_compute. repeat split. Qed.
Example c43_ex3 : delta 10 350 180 == 20 /\ delta 350 10 180 == -20.
Proof. vm_compute. repeat split. Qed.
