From Coq Require Import ZArith QArith Qround Qabs Lia Lqa Bool.
Require Import V.Lib.C43_PyPrelude V.Lib.C43_PyPreludeFacts V.gen.Navigating V.C43.Model.
Open Scope Q_scope.

Lemma Qnot_eq_cases w : ~ w == 0 -> 0 < w \/ w < 0.
Proof.
  intros H. destruct (Q_dec w 0) as [[L|G]|E]; auto. contradiction.
Qed.

(* ---------------- wrap1 ---------------- *)
Lemma wrap1_unfold a w : ~ w == 0 -> wrap1 a w = pymodQ a w.
Proof.
  intros H. unfold wrap1. change (0 # 1) with 0.
  apply Qneb_true in H. rewrite H. reflexivity.
Qed.

Lemma wrap1_zero a w : w == 0 -> wrap1 a w = a.
Proof.
  intros H. unfold wrap1. change (0 # 1) with 0.
  apply Qneb_false in H. rewrite H. reflexivity.
Qed.

Lemma wrap1_range a w : in_half_open w (wrap1 a w).
Proof.
  split; intros H.
  - rewrite wrap1_unfold by lra. apply pymodQ_pos; assumption.
  - rewrite wrap1_unfold by lra. apply pymodQ_neg; assumption.
Qed.

Lemma wrap1_turns a w : whole_turns w a (wrap1 a w).
Proof.
  destruct (Qeq_dec w 0) as [E|N].
  - exists 0%Z. rewrite wrap1_zero by assumption. change (inject_Z 0) with 0. ring.
  - exists (Qfloor (a / w)). rewrite wrap1_unfold by assumption. apply pymodQ_turns.
Qed.

(* ---------------- wrap2 ---------------- *)
Lemma pymodQ_known a b k : ~ b == 0 ->
  inject_Z k <= a / b -> a / b < inject_Z k + 1 -> pymodQ a b == a - inject_Z k * b.
Proof.
  intros Hb L U. rewrite pymodQ_turns. rewrite (Qfloor_unique _ _ L U). reflexivity.
Qed.

Lemma wrapback_pos r w : 0 < w -> w < r -> r < 2 * w -> pymodQ (r - w) (- w) == r - 2 * w.
Proof.
  intros Hw L U.
  assert (Hn : ~ - w == 0) by lra.
  pose proof (Qmult_div_r (r - w) (- w) Hn) as Hq.
  rewrite (pymodQ_known (r - w) (- w) (-1)%Z Hn).
  - change (inject_Z (-1)) with (-1 # 1). ring.
  - change (inject_Z (-1)) with (-1 # 1). set (q := (r - w) / - w) in *. nra.
  - change (inject_Z (-1)) with (-1 # 1). set (q := (r - w) / - w) in *. nra.
Qed.

Lemma wrapback_neg r w : w < 0 -> r < w -> 2 * w < r -> pymodQ (r - w) (- w) == r - 2 * w.
Proof.
  intros Hw L U.
  assert (Hn : ~ - w == 0) by lra.
  pose proof (Qmult_div_r (r - w) (- w) Hn) as Hq.
  rewrite (pymodQ_known (r - w) (- w) (-1)%Z Hn).
  - change (inject_Z (-1)) with (-1 # 1). ring.
  - change (inject_Z (-1)) with (-1 # 1). set (q := (r - w) / - w) in *. nra.
  - change (inject_Z (-1)) with (-1 # 1). set (q := (r - w) / - w) in *. nra.
Qed.

Lemma wrap2_zero a w : w == 0 -> wrap2 a w = a.
Proof.
  intros H. unfold wrap2. change (0 # 1) with 0.
  apply Qneb_false in H. rewrite H. reflexivity.
Qed.

(* exact description of wrap2 for w > 0 in terms of r = a mod 2w *)
Lemma wrap2_pos a w : 0 < w ->
  let r := pymodQ a (w * 2) in
  (r <= w /\ wrap2 a w == r) \/ (w < r /\ wrap2 a w == r - 2 * w).
Proof.
  intros Hw r.
  assert (Hn : Qneb w 0 = true) by (apply Qneb_true; lra).
  destruct (pymodQ_pos a (w * 2)) as [R0 R1]; [lra|]. fold r in R0, R1.
  unfold wrap2. change (0 # 1) with 0. change (2 # 1) with 2. rewrite Hn. fold r.
  assert (Ar : Qabs r == r) by (apply Qabs_pos; assumption).
  assert (Aw : Qabs w == w) by (apply Qabs_pos; lra).
  destruct (Qgtb (Qabs r) (Qabs w)) eqn:G.
  - apply Qgtb_true in G. rewrite Ar, Aw in G. right. split; [assumption|].
    apply wrapback_pos; lra.
  - apply Qgtb_false in G. rewrite Ar, Aw in G. left. split; [assumption|reflexivity].
Qed.

Lemma wrap2_neg a w : w < 0 ->
  let r := pymodQ a (w * 2) in
  (w <= r /\ wrap2 a w == r) \/ (r < w /\ wrap2 a w == r - 2 * w).
Proof.
  intros Hw r.
  assert (Hn : Qneb w 0 = true) by (apply Qneb_true; lra).
  destruct (pymodQ_neg a (w * 2)) as [R0 R1]; [lra|]. fold r in R0, R1.
  unfold wrap2. change (0 # 1) with 0. change (2 # 1) with 2. rewrite Hn. fold r.
  assert (Ar : Qabs r == - r) by (apply Qabs_neg; assumption).
  assert (Aw : Qabs w == - w) by (apply Qabs_neg; lra).
  destruct (Qgtb (Qabs r) (Qabs w)) eqn:G.
  - apply Qgtb_true in G. rewrite Ar, Aw in G. right. split; [lra|].
    apply wrapback_neg; lra.
  - apply Qgtb_false in G. rewrite Ar, Aw in G. left. split; [lra|reflexivity].
Qed.

(* half-open refinement of the closed range *)
Lemma wrap2_range_pos a w : 0 < w -> - w < wrap2 a w /\ wrap2 a w <= w.
Proof.
  intros Hw. destruct (pymodQ_pos a (w * 2)) as [R0 R1]; [lra|].
  destruct (wrap2_pos a w Hw) as [[L E]|[L E]]; rewrite E; lra.
Qed.

Lemma wrap2_range_neg a w : w < 0 -> w <= wrap2 a w /\ wrap2 a w < - w.
Proof.
  intros Hw. destruct (pymodQ_neg a (w * 2)) as [R0 R1]; [lra|].
  destruct (wrap2_neg a w Hw) as [[L E]|[L E]]; rewrite E; lra.
Qed.

Lemma wrap2_range a w : ~ w == 0 -> in_closed w (wrap2 a w).
Proof.
  intros H. unfold in_closed. destruct (Qnot_eq_cases w H) as [P|N].
  - rewrite (Qabs_pos w) by lra. destruct (wrap2_range_pos a w P). lra.
  - rewrite (Qabs_neg w) by lra. destruct (wrap2_range_neg a w N). lra.
Qed.

Lemma wrap2_abs a w : ~ w == 0 -> Qabs (wrap2 a w) <= Qabs w.
Proof.
  intros H. destruct (wrap2_range a w H) as [L U]. apply Qabs_Qle_condition. split; assumption.
Qed.

Lemma wrap2_turns a w : whole_turns (2 * w) a (wrap2 a w).
Proof.
  destruct (Qeq_dec w 0) as [E|N].
  - exists 0%Z. rewrite wrap2_zero by assumption. change (inject_Z 0) with 0. ring.
  - pose proof (pymodQ_turns a (w * 2)) as T.
    destruct (Qnot_eq_cases w N) as [P|M].
    + destruct (wrap2_pos a w P) as [[L E]|[L E]].
      * exists (Qfloor (a / (w * 2))). rewrite E, T. ring.
      * exists (Qfloor (a / (w * 2)) + 1)%Z. rewrite E, T, inject_Z_plus.
        change (inject_Z 1) with 1. ring.
    + destruct (wrap2_neg a w M) as [[L E]|[L E]].
      * exists (Qfloor (a / (w * 2))). rewrite E, T. ring.
      * exists (Qfloor (a / (w * 2)) + 1)%Z. rewrite E, T, inject_Z_plus.
        change (inject_Z 1) with 1. ring.
Qed.

(* wrap2 returns the representative of least magnitude: any other angle a - k(2w) is at least
   as far from zero *)
Lemma wrap2_shortest a w k : ~ w == 0 ->
  Qabs (wrap2 a w) <= Qabs (a - inject_Z k * (2 * w)).
Proof.
  intros H. destruct (wrap2_turns a w) as [k0 E].
  set (x := wrap2 a w) in *.
  assert (D : a - inject_Z k * (2 * w) == x + inject_Z (k0 - k) * (2 * w)).
  { unfold Zminus. rewrite inject_Z_plus, inject_Z_opp, E. ring. }
  rewrite D. clear D E.
  pose proof (wrap2_range a w H) as [L U]. fold x in L, U.
  destruct (Z.eq_dec (k0 - k) 0) as [Z0|NZ].
  - rewrite Z0. change (inject_Z 0) with 0.
    assert (X : x + 0 * (2 * w) == x) by ring. rewrite X. lra.
  - set (m := (k0 - k)%Z) in *.
    assert (M : 1 <= inject_Z m \/ inject_Z m <= -1).
    { destruct (Z_lt_le_dec m 0).
      - right. change (-1) with (inject_Z (-1)). rewrite <- Zle_Qle. lia.
      - left. change 1 with (inject_Z 1). rewrite <- Zle_Qle. lia. }
    set (q := inject_Z m) in *.
    destruct (Qnot_eq_cases w H) as [P|N].
    + rewrite (Qabs_pos w) in L, U by lra.
      destruct M as [M|M].
      * rewrite (Qabs_pos (x + q * (2 * w))) by nra.
        apply Qabs_Qle_condition. split; nra.
      * rewrite (Qabs_neg (x + q * (2 * w))) by nra.
        apply Qabs_Qle_condition. split; nra.
    + rewrite (Qabs_neg w) in L, U by lra.
      destruct M as [M|M].
      * rewrite (Qabs_neg (x + q * (2 * w))) by nra.
        apply Qabs_Qle_condition. split; nra.
      * rewrite (Qabs_pos (x + q * (2 * w))) by nra.
        apply Qabs_Qle_condition. split; nra.
Qed.

(* ---------------- delta ---------------- *)
Lemma delta_wrap2 d a w : delta d a w = wrap2 (d - a) w.
Proof. reflexivity. Qed.

(* ---------------- sign of wrap (docstring: "result is invariant to sign of wrap") ------------- *)
(* It is, except exactly at the half turn, where the result is +w for wrap w and -w for -w. *)
Lemma pymodQ_opp a b : ~ b == 0 ->
  (pymodQ a b == 0 /\ pymodQ a (- b) == 0) \/ (~ pymodQ a b == 0 /\ pymodQ a (- b) == pymodQ a b - b).
Proof.
  intros Hb.
  assert (Hnb : ~ - b == 0) by lra.
  pose proof (Qmult_div_r a b Hb) as Hq.
  destruct (floor_bounds (a / b)) as [L U].
  set (q := a / b) in *. set (f := Qfloor q) in *.
  assert (Dq : a / - b == - q).
  { unfold q. field. assumption. }
  destruct (Qeq_dec (inject_Z f) q) as [E|NE].
  - left. split.
    + unfold pymodQ. fold q. fold f. rewrite E. rewrite <- Hq. ring.
    + rewrite (pymodQ_known a (- b) (- f)%Z Hnb).
      * rewrite inject_Z_opp, E, <- Hq. ring.
      * rewrite Dq, inject_Z_opp, E. lra.
      * rewrite Dq, inject_Z_opp, E. lra.
  - right. split.
    + unfold pymodQ. fold q. fold f. intro Z0. apply NE.
      assert (b * (q - inject_Z f) == 0) by (rewrite <- Hq in Z0; lra).
      destruct (Qmult_integral _ _ H) as [B|B]; [contradiction|lra].
    + rewrite (pymodQ_known a (- b) (- f - 1)%Z Hnb).
      * unfold pymodQ. fold q. fold f. unfold Zminus.
        rewrite inject_Z_plus, !inject_Z_opp. change (inject_Z 1) with 1. ring.
      * rewrite Dq. unfold Zminus. rewrite inject_Z_plus, !inject_Z_opp. change (inject_Z 1) with 1. lra.
      * rewrite Dq. unfold Zminus. rewrite inject_Z_plus, !inject_Z_opp. change (inject_Z 1) with 1.
        assert (inject_Z f < q) by (apply Qle_lteq in L; destruct L; [assumption|contradiction]). lra.
Qed.

Lemma wrap2_sign_pos a w : 0 < w ->
  wrap2 a (- w) == wrap2 a w \/ (wrap2 a w == w /\ wrap2 a (- w) == - w).
Proof.
  intros Hw.
  assert (Hm : - w < 0) by lra.
  destruct (pymodQ_pos a (w * 2)) as [R0 R1]; [lra|].
  assert (EQ : - w * 2 == - (w * 2)) by ring.
  pose proof (wrap2_neg a (- w) Hm) as N. cbv zeta in N. rewrite EQ in N.
  pose proof (wrap2_pos a w Hw) as P. cbv zeta in P.
  destruct (pymodQ_opp a (w * 2)) as [[Z1 Z2]|[Z1 Z2]]; [lra| |].
  - rewrite Z1 in *. rewrite Z2 in *. left.
    destruct N as [[_ N]|[N _]]; [|lra]. destruct P as [[_ P]|[P _]]; [|lra]. rewrite N, P. reflexivity.
  - rewrite Z2 in N. set (r := pymodQ a (w * 2)) in *.
    destruct P as [[P1 P]|[P1 P]]; destruct N as [[N1 N]|[N1 N]]; rewrite ?P, ?N.
    + assert (r == w) by lra. right. split; lra.
    + left. lra.
    + left. lra.
    + lra.
Qed.
