(* C43 -- angle wrapping.  Tie T: the model IS the generated file coq/gen/Navigating.v
   (wrap1, wrap2, delta translated from ioflo/aid/navigating.py over Q with Python's floored %).
   This file only names the predicates the property statement uses. *)
From Coq Require Import ZArith QArith Qround Qabs.
Require Import V.Lib.C43_PyPrelude V.gen.Navigating.
Open Scope Q_scope.

(* r lies in the half-open range between zero and w (sign of w decides the orientation) *)
Definition in_half_open (w r : Q) : Prop :=
  (0 < w -> 0 <= r /\ r < w) /\ (w < 0 -> w < r /\ r <= 0).

(* r lies in the closed range between -|w| and +|w| *)
Definition in_closed (w r : Q) : Prop := - Qabs w <= r /\ r <= Qabs w.

(* r differs from a by a whole number of turns of length period *)
Definition whole_turns (period a r : Q) : Prop := exists k : Z, r == a - inject_Z k * period.
