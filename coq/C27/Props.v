(* C27 -- property theorems only.  Each closed by [exact]; Print Assumptions beneath.
   Vocabulary: see Model.v.  orc/lname/pname are the environment oracle (universally
   quantified); drivers Bare = Client.serviceConnect, Patron = Patron.serviceAll,
   Stack = TcpClientStack.serviceConnect. *)
From Coq Require Import List ZArith Bool Lia.
Import ListNotations.
Require Import V.C27.Model V.C27.Proofs V.C27.Live.
Open Scope Z_scope.

(* Bounded liveness, as safety.  From ANY state c of a reconnectable client (timeout > 0;
   for the bare client: not a stale connected-but-cut-off state, see bare_client_ignores_cutoff)
   if every socket created from now on finds the server listening (connects after at most [lag]
   in-progress polls), service calls are paced dmin <= dt <= dmax with (lag+1)*dmax < timer
   duration, and nothing cuts the connection again, then after any
   n + lag + 2 service calls (n = ceil(duration / dmin)) the client is connected and not cut off.
   Sockets created BEFORE (older socket numbers) may answer anything at all. *)
Theorem reconnect_bounded :
  forall (orc : nat -> nat -> cres) (lname pname : nat -> Z) (d : drv) (c : client) (ts : list tick)
         (lag n : nat) (dmin dmax : Z),
    reconn c = true -> 0 < timeout c -> tstart c <= now c ->
    (d = Bare -> accepted c = true -> cutoff c = false) ->
    0 < dmin -> dmin <= dmax ->
    (Z.of_nat lag + 1) * dmax < tdur c ->
    tdur c <= Z.of_nat n * dmin ->
    listening orc (nsock c) lag ->
    paced ts dmin dmax ->
    (n + lag + 2 <= length ts)%nat ->
    let c' := run orc lname pname d c ts in accepted c' = true /\ cutoff c' = false.
Proof. exact reconnect_bounded_thm. Qed.
Print Assumptions reconnect_bounded.

(* The same after an ARBITRARY history (any down/up schedule, refusals, resets, cuts, any
   pacing with a clock that does not run backwards) from the initial state. *)
Theorem reconnect_after_any_history :
  forall orc lname pname d ha0 tmo (pre ts : list tick) lag n dmin dmax,
    0 < tmo -> Forall (fun t : tick => 0 <= fst t) pre ->
    let c := run orc lname pname d (start d ha0 tmo true) pre in
    (d = Bare -> accepted c = true -> cutoff c = false) ->
    0 < dmin -> dmin <= dmax -> (Z.of_nat lag + 1) * dmax < tmo -> tmo <= Z.of_nat n * dmin ->
    listening orc (nsock c) lag -> paced ts dmin dmax -> (n + lag + 2 <= length ts)%nat ->
    let c' := run orc lname pname d (start d ha0 tmo true) (pre ++ ts) in
    accepted c' = true /\ cutoff c' = false.
Proof. exact reconnect_after_any_history_lem. Qed.
Print Assumptions reconnect_after_any_history.

(* Whenever the client reports connected, .ca and .ha are the local and peer address of the
   socket it currently holds (the one connect_ex succeeded on) -- over every schedule/oracle. *)
Theorem addresses_live :
  forall orc lname pname d ha0 tmo rc (ts : list tick),
    let c := run orc lname pname d (start d ha0 tmo rc) ts in
    accepted c = true ->
    exists sid, cs c = Some sid /\ ca c = Some (lname sid) /\ ha c = pname sid.
Proof. exact addresses_live_lem. Qed.
Print Assumptions addresses_live.

(* ... and the stream stack's local device address is that local address *)
Theorem stack_local_address_live :
  forall orc lname pname ha0 tmo rc (ts : list tick),
    let c := run orc lname pname Stack (start Stack ha0 tmo rc) ts in
    accepted c = true -> lha c = ca c.
Proof. exact stack_local_address_live_lem. Qed.
Print Assumptions stack_local_address_live.

(* A client that is not reconnectable, once cut off, is never reopened by service calls of
   any driver: no socket is created or closed (event log unchanged), flags unchanged. *)
Theorem non_reconnectable_never_reopens :
  forall orc lname pname d (ts : list tick) c,
    reconn c = false -> accepted c = true -> cutoff c = true ->
    frozen c (run orc lname pname d c ts).
Proof. exact nonreconn_run. Qed.
Print Assumptions non_reconnectable_never_reopens.

(* LIMIT of the property for the bare client, made explicit: Client.serviceConnect never looks
   at .cutoff, so a bare client that LOST an established connection stays as it is even when
   reconnectable; reconnection after loss is done by its users (Patron, TcpClientStack). *)
Theorem bare_client_ignores_cutoff :
  forall orc lname pname (ts : list tick) c,
    accepted c = true -> cutoff c = true -> frozen c (run orc lname pname Bare c ts).
Proof. exact bare_stale_run. Qed.
Print Assumptions bare_client_ignores_cutoff.

(* The pacing premise (lag+1)*dmax < duration cannot be dropped: with a server that always
   listens (first poll in progress, second connected) a client serviced once per timeout
   never connects. *)
Theorem slow_service_never_connects :
  forall lname pname ha0 T n, 0 < T ->
    accepted (run orc_lag1 lname pname Bare (init ha0 T true) (repeat (T, false) n)) = false.
Proof. exact slow_service_never_connects_lem. Qed.
Print Assumptions slow_service_never_connects.

(* non-vacuity: a down-then-up schedule with a refused socket, a hung socket killed by the
   timer, then a listening server; and a cut handled by the Patron driver *)
Example c27_nonvacuous_bare :
  let o := orc_of [[CINPROGRESS; CREFUSED]; [CINPROGRESS; CALREADY; CALREADY; CALREADY; CALREADY];
                   [CINPROGRESS; C0]] C0 in
  let c := run o (fun s => 40000 + Z.of_nat s) (fun s => 50000 + Z.of_nat s) Bare (init 7 4 true)
               [(1,false);(1,false);(1,false);(1,false);(1,false);(1,false);(1,false)] in
  accepted c = true /\ cs c = Some 2%nat /\ ca c = Some 40002 /\ ha c = 50002 /\ opens (evs c) = 3%nat.
Proof. vm_compute. repeat split; reflexivity. Qed.

Example c27_nonvacuous_patron_cut :
  let o := orc_of [[C0]; [CINPROGRESS; C0]] C0 in
  let c := run o (fun s => 40000 + Z.of_nat s) (fun s => 50000 + Z.of_nat s) Patron (init 7 2 true)
               [(1,false);(1,true);(1,false);(1,false)] in
  accepted c = true /\ cutoff c = false /\ cs c = Some 1%nat /\ ca c = Some 40001.
Proof. vm_compute. repeat split; reflexivity. Qed.
