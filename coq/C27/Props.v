(* C27 -- property theorems only.  Each closed by [exact]; Print Assumptions beneath.
   Vocabulary: see Model.v.  orc/lname/pname are the environment oracle (universally
   quantified); drivers Bare = Client.serviceConnect, Patron = Patron.serviceAll,
   Stack = TcpClientStack.serviceConnect. *)
From Coq Require Import List ZArith Bool Lia.
Import ListNotations.
Require Import V.C27.Model V.C27.Proofs V.C27.Live.
Open Scope Z_scope.

(* Bounded liveness, as safety.  From ANY state c of a reconnectable client (timeout > 0), for the
   bare Client.serviceConnect, Patron.serviceAll and TcpClientStack.serviceConnect alike -- also a
   connected-but-cut-off state (connection LOST): if every socket created from now on finds the
   server listening (connects after at most [lag] in-progress polls; sockets created BEFORE may
   answer anything except raising), service calls are paced dmin <= dt <= dmax with
   (lag+1)*dmax < timer duration, and nothing cuts the connection again, then after any
   n + lag + 1 service calls (n = ceil(duration / dmin)) the client is connected and not cut off.
   With lag = 1 (EINPROGRESS then 0) this is ceil(timeout/dmin) + 2, one call better than the
   bound planned in DESIGN.md; reconnect_bound_is_tight shows it cannot be improved. *)
Theorem reconnect_bounded :
  forall (orc : nat -> nat -> cres) (lname pname : nat -> Z) (d : drv) (c : client) (ts : list tick)
         (lag n : nat) (dmin dmax : Z),
    reconn c = true -> 0 < timeout c -> tstart c <= now c ->
    0 < dmin -> dmin <= dmax ->
    (Z.of_nat lag + 1) * dmax < tdur c ->
    tdur c <= Z.of_nat n * dmin ->
    listening orc (nsock c) lag -> no_raise orc ->
    paced ts dmin dmax ->
    (n + lag + 1 <= length ts)%nat ->
    let c' := run orc lname pname d c ts in accepted c' = true /\ cutoff c' = false.
Proof. exact reconnect_bounded_thm. Qed.
Print Assumptions reconnect_bounded.

(* The same after an ARBITRARY history (any down/up schedule, refusals, resets, cuts, any
   pacing with a clock that does not run backwards) from the initial state. *)
Theorem reconnect_after_any_history :
  forall orc lname pname d ha0 tmo (pre ts : list tick) lag n dmin dmax,
    0 < tmo -> Forall (fun t : tick => 0 <= fst t) pre ->
    let c := run orc lname pname d (start d ha0 tmo true) pre in
    0 < dmin -> dmin <= dmax -> (Z.of_nat lag + 1) * dmax < tmo -> tmo <= Z.of_nat n * dmin ->
    listening orc (nsock c) lag -> no_raise orc -> paced ts dmin dmax -> (n + lag + 1 <= length ts)%nat ->
    let c' := run orc lname pname d (start d ha0 tmo true) (pre ++ ts) in
    accepted c' = true /\ cutoff c' = false.
Proof. exact reconnect_after_any_history_lem. Qed.
Print Assumptions reconnect_after_any_history.

(* EVENT-STREAM HTTP client (respondent.evented: the cut-off branch of Patron.serviceAll restarts
   the timer with duration = respondent.retry).  Once the timer duration is the retry value r
   (from the first reconnect on, or when timeout = retry) the same bound holds with r in place
   of the timeout: connected after ceil(r/dmin) + lag + 1 paced service calls. *)
Theorem reconnect_bounded_event_stream :
  forall orc lname pname (c : client) (ts : list tick) (lag n : nat) (dmin dmax r : Z),
    reconn c = true -> 0 < timeout c -> tstart c <= now c -> tdur c = r ->
    0 < dmin -> dmin <= dmax -> (Z.of_nat lag + 1) * dmax < r -> r <= Z.of_nat n * dmin ->
    listening orc (nsock c) lag -> no_raise orc -> paced ts dmin dmax -> (n + lag + 1 <= length ts)%nat ->
    let c' := run_ev orc lname pname r c ts in accepted c' = true /\ cutoff c' = false.
Proof. exact reconnect_bounded_ev_lem. Qed.
Print Assumptions reconnect_bounded_event_stream.

(* Whenever the client reports connected, .ca and .ha are the local and peer address of the
   socket it currently holds (the one connect_ex succeeded on) -- over every schedule/oracle. *)
Theorem addresses_live :
  forall orc lname pname d ha0 tmo rc (ts : list tick),
    let c := run orc lname pname d (start d ha0 tmo rc) ts in
    accepted c = true ->
    exists sid, cs c = Some sid /\ ca c = Some (lname sid) /\ ha c = pname sid.
Proof. exact addresses_live_lem. Qed.
Print Assumptions addresses_live.

(* ... and the stream stack's local device address is that local address *)
Theorem stack_local_address_live :
  forall orc lname pname ha0 tmo rc (ts : list tick),
    let c := run orc lname pname Stack (start Stack ha0 tmo rc) ts in
    accepted c = true -> lha c = ca c.
Proof. exact stack_local_address_live_lem. Qed.
Print Assumptions stack_local_address_live.

(* A client that is not reconnectable, once cut off, is never reopened by service calls of
   any driver: no socket is created or closed (event log unchanged), flags unchanged. *)
Theorem non_reconnectable_never_reopens :
  forall orc lname pname d (ts : list tick) c,
    reconn c = false -> accepted c = true -> cutoff c = true ->
    frozen c (run orc lname pname d c ts).
Proof. exact nonreconn_run. Qed.
Print Assumptions non_reconnectable_never_reopens.

(* LIMIT: an exception from connect_ex / getsockname leaves serviceConnect before its timer
   check; a socket whose connect_ex raises on every call is never replaced, by any driver, under
   any schedule (hence the no_raise premise of reconnect_bounded). *)
Theorem raising_socket_is_never_replaced :
  forall orc lname pname d sid (ts : list tick),
    (forall k, classify (orc sid k) = KRaise) ->
    forall c, stuck sid c -> stuck sid (run orc lname pname d c ts).
Proof. exact raise_run. Qed.
Print Assumptions raising_socket_is_never_replaced.

(* The pacing premise (lag+1)*dmax < duration cannot be dropped: with a server that always
   listens (first poll in progress, second connected) a client serviced once per timeout
   never connects. *)
Theorem slow_service_never_connects :
  forall lname pname ha0 T n, 0 < T ->
    accepted (run orc_lag1 lname pname Bare (init ha0 T true) (repeat (T, false) n)) = false.
Proof. exact slow_service_never_connects_lem. Qed.
Print Assumptions slow_service_never_connects.

(* The bound n + lag + 1 is attained (so it cannot be improved): an old hung socket (every poll
   EALREADY), timer started now, dt = dmin = dmax = 1, duration = lag + 2 = n; sockets created from
   now on need exactly [lag] in-progress polls.  Not connected after n + lag calls, connected
   after n + lag + 1.  Instances lag = 1 (n = 3) and lag = 2 (n = 4), bare client and stack. *)
Example reconnect_bound_is_tight_lag1 :
  let o := fun sid k => match sid with O => CALREADY | _ => match k with O => CINPROGRESS | _ => C0 end end in
  let c := reopen (init 7 3 true) in
  listening o (nsock c) 1 /\ no_raise o /\
  accepted (run o (fun s => Z.of_nat s) (fun s => Z.of_nat s) Bare c (repeat (1, false) 4)) = false /\
  accepted (run o (fun s => Z.of_nat s) (fun s => Z.of_nat s) Bare c (repeat (1, false) 5)) = true /\
  accepted (run o (fun s => Z.of_nat s) (fun s => Z.of_nat s) Stack c (repeat (1, false) 4)) = false /\
  accepted (run o (fun s => Z.of_nat s) (fun s => Z.of_nat s) Stack c (repeat (1, false) 5)) = true.
Proof.
  split; [|split; [|vm_compute; repeat split; reflexivity]].
  - intros sid k H. destruct sid as [|sid]; [cbn in H; inversion H|]. destruct k; cbn; [right|left]; auto.
  - intros sid k. destruct sid, k; cbn; discriminate.
Qed.

Example reconnect_bound_is_tight_lag2 :
  let o := fun sid k => match sid with O => CALREADY | _ => match k with O | S O => CINPROGRESS | _ => C0 end end in
  let c := reopen (init 7 4 true) in
  listening o (nsock c) 2 /\ no_raise o /\
  accepted (run o (fun s => Z.of_nat s) (fun s => Z.of_nat s) Bare c (repeat (1, false) 6)) = false /\
  accepted (run o (fun s => Z.of_nat s) (fun s => Z.of_nat s) Bare c (repeat (1, false) 7)) = true.
Proof.
  split; [|split; [|vm_compute; repeat split; reflexivity]].
  - intros sid k H. destruct sid as [|sid]; [cbn in H; inversion H|].
    destruct k as [|[|k]]; cbn; [right|right|left]; auto.
  - intros sid k. destruct sid; [|destruct k as [|[|k]]]; cbn; discriminate.
Qed.

(* a reconnectable BARE client that loses an established connection reconnects (this fails on
   the code before fixes/C27-client-cutoff-reconnect: connected stays True, nothing is reopened) *)
Example c27_bare_reconnects_after_cut :
  let o := orc_of [[C0]; [CINPROGRESS; C0]] C0 in
  let c := run o (fun s => 40000 + Z.of_nat s) (fun s => 50000 + Z.of_nat s) Bare (init 7 2 true)
               [(1,false);(1,true);(1,false);(1,false)] in
  accepted c = true /\ cutoff c = false /\ cs c = Some 1%nat /\ ca c = Some 40001.
Proof. vm_compute. repeat split; reflexivity. Qed.

(* non-vacuity: a down-then-up schedule with a refused socket, a hung socket killed by the
   timer, then a listening server; and a cut handled by the Patron driver *)
Example c27_nonvacuous_bare :
  let o := orc_of [[CINPROGRESS; CREFUSED]; [CINPROGRESS; CALREADY; CALREADY; CALREADY; CALREADY];
                   [CINPROGRESS; C0]] C0 in
  let c := run o (fun s => 40000 + Z.of_nat s) (fun s => 50000 + Z.of_nat s) Bare (init 7 4 true)
               [(1,false);(1,false);(1,false);(1,false);(1,false);(1,false);(1,false)] in
  accepted c = true /\ cs c = Some 2%nat /\ ca c = Some 40002 /\ ha c = 50002 /\ opens (evs c) = 3%nat.
Proof. vm_compute. repeat split; reflexivity. Qed.

Example c27_nonvacuous_patron_cut :
  let o := orc_of [[C0]; [CINPROGRESS; C0]] C0 in
  let c := run o (fun s => 40000 + Z.of_nat s) (fun s => 50000 + Z.of_nat s) Patron (init 7 2 true)
               [(1,false);(1,true);(1,false);(1,false)] in
  accepted c = true /\ cutoff c = false /\ cs c = Some 1%nat /\ ca c = Some 40001.
Proof. vm_compute. repeat split; reflexivity. Qed.
