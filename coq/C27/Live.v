(* C27 -- bounded liveness of the reconnect logic, stated as safety *)
From Coq Require Import List ZArith Bool Lia.
Import ListNotations.
Require Import V.C27.Model V.C27.Proofs.
Open Scope Z_scope.

Section Live.
Variable orc : nat -> nat -> cres.
Variable lname pname : nat -> Z.
Variables (n0 lag : nat) (dmin dmax D : Z).
Hypothesis Hlisten : listening orc n0 lag.
Hypothesis Hnoraise : no_raise orc.
Hypothesis Hdmin : 0 < dmin.
Hypothesis Hdd : dmin <= dmax.
Hypothesis HD : (Z.of_nat lag + 1) * dmax < D.

Notation serviceConnect := (Model.sc_core orc lname pname).
Notation service := (Model.service orc lname pname).
Notation step := (Model.step orc lname pname).
Notation run := (Model.run orc lname pname).

Definition Inv (c : client) : Prop :=
  reconn c = true /\ 0 < timeout c /\ tdur c = D /\ (n0 <= nsock c)%nat.
Definition Done (c : client) : Prop := accepted c = true /\ cutoff c = false.
Definition PhB (c : client) : Prop :=
  accepted c = false /\ cutoff c = false /\ (exists sid, cs c = Some sid /\ (n0 <= sid)%nat) /\
  (att c <= lag)%nat /\ now c - tstart c <= Z.of_nat (att c) * dmax.
Definition rem (c : client) : Z := tstart c + tdur c - now c.
(* the bare client is serviced exactly like the Patron connection part (service_old): the step
   lemmas are proved for Patron and Stack and transported to Bare at the end *)
Definition NotStale (d : drv) (c : client) : Prop := d <> Bare.

Lemma Dpos : 0 < D.
Proof. nia. Qed.

(* serviceConnect on a not-connected client *)
Lemma sc_cases c : Inv c -> accepted c = false ->
  let c' := serviceConnect c in
  Inv c' /\ now c' = now c /\ tdur c' = tdur c /\
  ( Done c'
    \/ (tstart c + tdur c <= now c /\ PhB c' /\ att c' = 0%nat /\ tstart c' = now c)
    \/ (now c < tstart c + tdur c /\ accepted c' = false /\ tstart c' = tstart c /\
        (forall sid, cs c = Some sid -> (n0 <= sid)%nat -> cutoff c = false ->
                     cs c' = Some sid /\ att c' = S (att c) /\ cutoff c' = false /\ (att c < lag)%nat))).
Proof.
  intros (Hr & Ht & Hd & Hn) Ha. cbv zeta.
  destruct (sock0_some c) as [sid Hs]. rewrite (sc_spec orc lname pname c sid Ha Hs). cbv zeta.
  pose proof (Hlisten sid (att (sock0 c))) as HL.
  pose proof Dpos as HDp.
  unfold Inv, Done, PhB, sock0 in *.
  destruct c as [cs0 at0 ns0 op0 ac0 cu0 ca0 ha0 lh0 ts0 td0 to0 rc0 nw0 ev0].
  cbv [Model.reconn Model.timeout Model.tdur Model.nsock Model.accepted] in Hr, Ht, Hd, Hn, Ha.
  subst rc0 ac0 td0.
  assert (Hto : (0 <? to0) = true) by (apply Z.ltb_lt; lia).
  destruct cs0 as [s0|]; prims; rewrite ?Hto in *; cbn [andb] in *;
    inversion Hs; subst sid; clear Hs.
  - (* existing socket *)
    destruct (classify (orc s0 at0)) eqn:Hk.
    + split; [repeat split; auto|]. split; [reflexivity|]. split; [reflexivity|]. left. split; reflexivity.
    + destruct (ts0 + D <=? nw0) eqn:He; bool_hyps.
      * split; [repeat split; auto; lia|]. split; [reflexivity|]. split; [reflexivity|].
        right; left. repeat split; auto; try lia. eexists; split; [reflexivity|lia].
      * split; [repeat split; auto; lia|]. split; [reflexivity|]. split; [reflexivity|].
        right; right. split; [lia|]. split; [reflexivity|]. split; [reflexivity|].
        intros sid1 E Hf Hc; inversion E; subst sid1;
          destruct (HL Hf) as [HK|[_ HK]]; congruence.
    + destruct (ts0 + D <=? nw0) eqn:He; bool_hyps.
      * split; [repeat split; auto; lia|]. split; [reflexivity|]. split; [reflexivity|].
        right; left. repeat split; auto; try lia. eexists; split; [reflexivity|lia].
      * split; [repeat split; auto; lia|]. split; [reflexivity|]. split; [reflexivity|].
        right; right. split; [lia|]. split; [reflexivity|]. split; [reflexivity|].
        intros sid1 E Hf Hc; inversion E; subst sid1.
        destruct (HL Hf) as [HK|[HK _]]; [congruence|]. repeat split; auto.
    + exfalso. exact (Hnoraise s0 at0 Hk).
  - (* no socket: reopen first *)
    destruct (classify (orc ns0 0%nat)) eqn:Hk.
    + split; [repeat split; auto|]. split; [reflexivity|]. split; [reflexivity|]. left. split; reflexivity.
    + destruct (ts0 + D <=? nw0) eqn:He; bool_hyps.
      * split; [repeat split; auto; lia|]. split; [reflexivity|]. split; [reflexivity|].
        right; left. repeat split; auto; try lia. eexists; split; [reflexivity|lia].
      * split; [repeat split; auto; lia|]. split; [reflexivity|]. split; [reflexivity|].
        right; right. split; [lia|]. split; [reflexivity|]. split; [reflexivity|].
        intros sid1 E; discriminate.
    + destruct (ts0 + D <=? nw0) eqn:He; bool_hyps.
      * split; [repeat split; auto; lia|]. split; [reflexivity|]. split; [reflexivity|].
        right; left. repeat split; auto; try lia. eexists; split; [reflexivity|lia].
      * split; [repeat split; auto; lia|]. split; [reflexivity|]. split; [reflexivity|].
        right; right. split; [lia|]. split; [reflexivity|]. split; [reflexivity|].
        intros sid1 E; discriminate.
    + exfalso. exact (Hnoraise ns0 0%nat Hk).
Qed.


Ltac dc c := destruct c as [cs0 at0 ns0 op0 ac0 cu0 ca0 ha0 lh0 ts0 td0 to0 rc0 nw0 ev0].
Ltac preds := unfold Inv, Done, PhB, rem, NotStale in *.

(* one paced service step, not-connected branch shared by the three drivers *)
Lemma sc_step c dt : Inv c -> dmin <= dt <= dmax -> accepted c = false ->
  let c' := serviceConnect (advance c dt) in
  Inv c' /\ (accepted c' = true -> cutoff c' = false) /\
  (PhB c -> Done c' \/ (PhB c' /\ att c' = S (att c))) /\
  (Done c' \/ PhB c' \/ (0 < rem c' /\ rem c' <= rem c - dmin)).
Proof.
  intros HI Hdt Ha. cbv zeta.
  assert (HI2 : Inv (advance c dt)) by (preds; dc c; prims; exact HI).
  assert (Ha2 : accepted (advance c dt) = false) by (dc c; prims; exact Ha).
  pose proof (sc_cases (advance c dt) HI2 Ha2) as H. cbv zeta in H.
  destruct H as (HI' & Hnow & Htd & H).
  set (c' := serviceConnect (advance c dt)) in *. clearbody c'.
  assert (E : now (advance c dt) = now c + dt /\ tstart (advance c dt) = tstart c /\
              tdur (advance c dt) = tdur c /\ cs (advance c dt) = cs c /\
              cutoff (advance c dt) = cutoff c /\ att (advance c dt) = att c)
    by (dc c; prims; repeat split; reflexivity).
  destruct E as (E1 & E2 & E3 & E4 & E5 & E6). rewrite E1, E2, E3, E4, E5, E6 in *.
  clear HI2 Ha2 E1 E2 E3 E4 E5 E6.
  pose proof Dpos as HDp.
  assert (HtdD : tdur c = D) by (destruct HI as (_ & _ & HH & _); exact HH).
  split; [exact HI'|]. split; [|split].
  - destruct H as [[_ H]|[(_ & (H & _) & _)|(_ & H & _)]]; intros; congruence.
  - intros (P1 & P2 & (sid & P3 & P3') & P4 & P5).
    destruct H as [H|[(He & _)|(Hne & Hacc & Hts & Hall)]].
    + left; exact H.
    + exfalso. rewrite HtdD in He.
      assert (Z.of_nat (att c) * dmax <= Z.of_nat lag * dmax) by (apply Z.mul_le_mono_nonneg_r; lia).
      lia.
    + right. destruct (Hall sid P3 P3' P2) as (Q1 & Q2 & Q3 & Q4).
      split; [|exact Q2]. unfold PhB. rewrite Q2, Hts, Hnow.
      repeat split; auto; try lia; eauto.
  - destruct H as [H|[(He & HB & _)|(Hne & Hacc & Hts & _)]].
    + left; exact H.
    + right; left; exact HB.
    + right; right. unfold rem. rewrite Hts, Htd, Hnow. lia.
Qed.


Definition StepPost (d : drv) (c c' : client) : Prop :=
  Inv c' /\ NotStale d c' /\ (Done c -> Done c') /\
  (PhB c -> Done c' \/ (PhB c' /\ att c' = S (att c))) /\
  (Done c' \/ PhB c' \/ (0 < rem c' /\ rem c' <= rem c - dmin)).

(* connected and not cut off: a paced step (no cut) changes nothing but the clock *)
Lemma connected_step d c dt : d <> Bare -> Inv c -> accepted c = true -> cutoff c = false -> 0 <= dt ->
  StepPost d c (service d (advance c dt)).
Proof.
  intros HNB HI Ha Hc Hdt.
  assert (E : service d (advance c dt) = advance c dt).
  { rewrite service_old. destruct d.
    - congruence.
    - unfold patron_old, Model.cutoff_branch. cbv zeta.
      replace (cutoff (advance c dt)) with false by (dc c; prims; auto). cbn [andb].
      replace (accepted (advance c dt)) with true by (dc c; prims; auto). reflexivity.
    - unfold stack_old.
      replace (cutoff (advance c dt)) with false by (dc c; prims; auto).
      replace (accepted (advance c dt)) with true by (dc c; prims; auto). reflexivity. }
  rewrite E. unfold StepPost. preds. dc c. prims. subst.
  repeat split; auto; try (intros; congruence); try tauto.
Qed.

Lemma step_cases d c t : Inv c -> NotStale d c -> dmin <= fst t <= dmax -> snd t = false ->
  StepPost d c (step d c t).
Proof.
  intros HI HN Hdt Hcut. unfold Model.step. cbv zeta. rewrite Hcut.
  set (dt := fst t) in *. clearbody dt. pose proof Dpos as HDp.
  destruct (accepted c) eqn:Ha; [destruct (cutoff c) eqn:Hc|].
  - (* stale: connected flag set but cut off -- only Patron / Stack get here *)
    destruct d.
    + exfalso. apply HN. reflexivity.
    + (* Patron *)
      rewrite service_old. unfold patron_old, Model.cutoff_branch. cbv zeta.
      destruct (cutoff (advance c dt) && reconn (advance c dt) && timed_out (advance c dt)) eqn:Hb.
      * set (c1 := restart (reopen (advance c dt))).
        assert (HI1 : Inv c1) by (subst c1; preds; dc c; destruct cs0; prims; intuition lia).
        assert (Ha1 : accepted c1 = false) by (subst c1; dc c; destruct cs0; prims; reflexivity).
        rewrite Ha1.
        pose proof (sc_cases c1 HI1 Ha1) as H. cbv zeta in H. destruct H as (HI' & Hnow & Htd & H).
        assert (F : tstart c1 = now c1 /\ tdur c1 = D /\ cutoff c1 = false /\ att c1 = 0%nat /\
                    exists sid, cs c1 = Some sid /\ (n0 <= sid)%nat).
        { subst c1. preds. dc c. destruct cs0; prims; repeat split; try tauto; eexists; split; try reflexivity; lia. }
        destruct F as (F1 & F2 & F3 & F4 & sid & F5 & F6).
        set (c' := serviceConnect c1) in *. clearbody c'.
        unfold StepPost. split; [exact HI'|]. split; [intro; discriminate|].
        split; [intros (_ & X); congruence|]. split; [intros (X & _); congruence|].
        destruct H as [H|[(He & _)|(Hne & Hacc & Hts & Hall)]].
        -- left; exact H.
        -- exfalso. lia.
        -- right; left. destruct (Hall sid F5 F6 F3) as (Q1 & Q2 & Q3 & Q4).
           unfold PhB. rewrite Q2, Hts, Hnow, F1, F4. repeat split; auto; try lia; eauto.
      * assert (E : accepted (advance c dt) = true) by (dc c; prims; auto). rewrite E.
        unfold StepPost. preds. dc c. prims. subst.
        destruct HI as (-> & Ht & -> & Hn).
        assert (Hto : (0 <? to0) = true) by (apply Z.ltb_lt; lia). rewrite Hto in Hb. cbn [andb] in Hb.
        bool_hyps.
        repeat split; auto; try (intros; congruence); try tauto; try (intros (? & ?); congruence).
        right; right. lia.
    + (* Stack *)
      rewrite service_old. unfold stack_old.
      replace (cutoff (advance c dt)) with true by (dc c; prims; auto).
      destruct (reconn (advance c dt) && timed_out (advance c dt)) eqn:Hb.
      * unfold StepPost. preds. dc c. destruct cs0; prims; subst;
          (repeat split; auto; try (intros; congruence); try tauto; try (intros (? & ?); congruence);
           try lia; right; left; repeat split; auto; try lia; eexists; split; try reflexivity; lia).
      * unfold StepPost. preds. dc c. prims. subst.
        destruct HI as (-> & Ht & -> & Hn).
        assert (Hto : (0 <? to0) = true) by (apply Z.ltb_lt; lia). rewrite Hto in Hb. cbn [andb] in Hb.
        bool_hyps.
        repeat split; auto; try (intros; congruence); try tauto; try (intros (? & ?); congruence).
        right; right. lia.
  - (* connected *)
    apply connected_step; auto; lia.
  - (* not connected *)
    pose proof (sc_step c dt HI Hdt Ha) as H. cbv zeta in H.
    assert (Ha2 : accepted (advance c dt) = false) by (dc c; prims; exact Ha).
    rewrite service_old. destruct d.
    + exfalso. apply HN. reflexivity.
    + unfold patron_old, Model.cutoff_branch. cbv zeta.
      destruct (cutoff (advance c dt) && reconn (advance c dt) && timed_out (advance c dt)) eqn:Hb.
      * (* cut off (after an explicit close) and timed out: reopen, restart, connect *)
        set (c1 := restart (reopen (advance c dt))).
        assert (HI1 : Inv c1) by (subst c1; preds; dc c; destruct cs0; prims; intuition lia).
        assert (Ha1 : accepted c1 = false) by (subst c1; dc c; destruct cs0; prims; reflexivity).
        rewrite Ha1.
        pose proof (sc_cases c1 HI1 Ha1) as G. cbv zeta in G. destruct G as (HI' & Hnow & Htd & G).
        assert (F : tstart c1 = now c1 /\ tdur c1 = D /\ cutoff c1 = false /\ att c1 = 0%nat /\
                    exists sid, cs c1 = Some sid /\ (n0 <= sid)%nat).
        { subst c1. preds. dc c. destruct cs0; prims; repeat split; try tauto; eexists; split; try reflexivity; lia. }
        destruct F as (F1 & F2 & F3 & F4 & sid & F5 & F6).
        assert (Hcu : cutoff c = true).
        { dc c. prims. bool_hyps. destruct cu0; auto; discriminate. }
        set (c' := serviceConnect c1) in *. clearbody c'.
        unfold StepPost. split; [exact HI'|]. split; [intro; discriminate|].
        split; [intros (X & _); congruence|]. split; [intros (_ & X & _); congruence|].
        destruct G as [G|[(He & _)|(Hne & Hacc & Hts & Hall)]].
        -- left; exact G.
        -- exfalso. lia.
        -- right; left. destruct (Hall sid F5 F6 F3) as (Q1 & Q2 & Q3 & Q4).
           unfold PhB. rewrite Q2, Hts, Hnow, F1, F4. repeat split; auto; try lia; eauto.
      * rewrite Ha2. destruct H as (H1 & H2 & H3 & H4). unfold StepPost.
        split; [exact H1|]. split; [intro; discriminate|]. split; [intros (X & _); congruence|].
        split; [exact H3 | exact H4].
    + unfold stack_old.
      destruct (cutoff (advance c dt)) eqn:Hcu.
      * assert (Hcu0 : cutoff c = true) by (dc c; prims; auto).
        destruct (reconn (advance c dt) && timed_out (advance c dt)) eqn:Hb.
        -- unfold StepPost. preds. dc c. destruct cs0; prims; subst;
             (repeat split; auto; try (intros; congruence); try tauto; try (intros (? & ?); congruence);
              try (intros (? & ? & ?); congruence);
              try lia; right; left; repeat split; auto; try lia; eexists; split; try reflexivity; lia).
        -- unfold StepPost. preds. dc c. prims. subst.
           destruct HI as (-> & Ht & -> & Hn).
           assert (Hto : (0 <? to0) = true) by (apply Z.ltb_lt; lia). rewrite Hto in Hb. cbn [andb] in Hb.
           bool_hyps.
           repeat split; auto; try (intros; congruence); try tauto; try (intros (? & ?); congruence);
             try (intros (? & ? & ?); congruence).
           right; right. lia.
      * rewrite Ha2. cbv zeta. destruct H as (H1 & H2 & H3 & H4).
        set (c' := serviceConnect (advance c dt)) in *. clearbody c'.
        assert (G : forall c1, c1 = (if accepted c' then set_lha c' else c') ->
                    cs c1 = cs c' /\ att c1 = att c' /\ nsock c1 = nsock c' /\ accepted c1 = accepted c' /\
                    cutoff c1 = cutoff c' /\ tstart c1 = tstart c' /\ tdur c1 = tdur c' /\
                    timeout c1 = timeout c' /\ reconn c1 = reconn c' /\ now c1 = now c').
        { intros c1 ->. destruct (accepted c') eqn:E; [|repeat split; auto].
          dc c'. prims. repeat split; auto. }
        specialize (G _ eq_refl).
        set (c1 := if accepted c' then set_lha c' else c') in *. clearbody c1.
        destruct G as (G1 & G2 & G3 & G4 & G5 & G6 & G7 & G8 & G9 & G10).
        unfold StepPost. preds. rewrite G1, G2, G3, G4, G5, G6, G7, G8, G9, G10.
        split; [exact H1|]. split; [intro; discriminate|]. split; [intros (X & _); congruence|].
        split; [exact H3 | exact H4].
Qed.



Lemma paced_cons t ts : paced (t :: ts) dmin dmax ->
  (dmin <= fst t <= dmax) /\ snd t = false /\ paced ts dmin dmax.
Proof. unfold paced. intros H. inversion H; subst. tauto. Qed.

Lemma done_run d (HNB : d <> Bare) ts : forall c, Inv c -> Done c -> paced ts dmin dmax -> Done (run d c ts).
Proof.
  induction ts as [|t ts IH]; intros c HI HDn Hp; [exact HDn|].
  apply paced_cons in Hp. destruct Hp as (Hdt & Hc & Hp). rewrite run_cons.
  destruct (step_cases d c t HI HNB Hdt Hc) as (I' & _ & Dn & _).
  apply IH; auto.
Qed.

Lemma phB_run d : forall m ts c, Inv c -> NotStale d c -> PhB c -> (lag + 1 <= att c + m)%nat ->
  paced ts dmin dmax -> (m <= length ts)%nat -> Done (run d c ts).
Proof.
  induction m as [|m IH]; intros ts c HI HN HB Hm Hp Hl.
  - exfalso. destruct HB as (_ & _ & _ & Ha & _). lia.
  - destruct ts as [|t ts]; [cbn in Hl; lia|].
    apply paced_cons in Hp. destruct Hp as (Hdt & Hc & Hp). rewrite run_cons.
    destruct (step_cases d c t HI HN Hdt Hc) as (I' & N' & _ & HBs & _).
    destruct (HBs HB) as [Dn|[B' Ea]].
    + apply done_run; auto.
    + apply IH; auto; [lia | cbn in Hl; lia].
Qed.

Lemma phA_run d : forall n ts c, Inv c -> NotStale d c -> rem c <= (Z.of_nat n + 1) * dmin ->
  paced ts dmin dmax -> (n + lag + 2 <= length ts)%nat -> Done (run d c ts).
Proof.
  induction n as [|n IH]; intros ts c HI HN Hr Hp Hl;
    (destruct ts as [|t ts]; [cbn in Hl; lia|]);
    apply paced_cons in Hp; destruct Hp as (Hdt & Hc & Hp); rewrite run_cons;
    destruct (step_cases d c t HI HN Hdt Hc) as (I' & N' & _ & _ & [Dn|[B'|[R1 R2]]]).
  - apply done_run; auto.
  - apply (phB_run d (lag + 1)); auto; [lia | cbn in Hl; lia].
  - exfalso. lia.
  - apply done_run; auto.
  - apply (phB_run d (lag + 1)); auto; [lia | cbn in Hl; lia].
  - apply IH; auto; [lia | cbn in Hl; lia].
Qed.

End Live.

(* the bare client (with the cut-off branch of serviceConnect) steps exactly like Patron *)
Lemma step_bare orc lname pname c t :
  step orc lname pname Bare c t = step orc lname pname Patron c t.
Proof. unfold Model.step. cbv zeta. rewrite !service_old. reflexivity. Qed.

Lemma run_bare orc lname pname ts : forall c,
  run orc lname pname Bare c ts = run orc lname pname Patron c ts.
Proof.
  induction ts as [|t ts IH]; intros c; [reflexivity|].
  rewrite !run_cons, step_bare. apply IH.
Qed.

(* closed form of the bounded-liveness statement *)
Theorem reconnect_bounded_thm :
  forall (orc : nat -> nat -> cres) (lname pname : nat -> Z) (d : drv) (c : client) (ts : list tick)
         (lag n : nat) (dmin dmax : Z),
    reconn c = true -> 0 < timeout c -> tstart c <= now c ->
    0 < dmin -> dmin <= dmax ->
    (Z.of_nat lag + 1) * dmax < tdur c ->
    tdur c <= Z.of_nat n * dmin ->
    listening orc (nsock c) lag -> no_raise orc ->
    paced ts dmin dmax ->
    (n + lag + 1 <= length ts)%nat ->
    let c' := run orc lname pname d c ts in accepted c' = true /\ cutoff c' = false.
Proof.
  intros orc lname pname d c ts lag n dmin dmax Hr Ht Hs H0 H1 HD Hn HL HR Hp Hl. cbv zeta.
  destruct n as [|m]; [exfalso; nia|].
  assert (G : forall d', d' <> Bare ->
              accepted (run orc lname pname d' c ts) = true /\ cutoff (run orc lname pname d' c ts) = false).
  { intros d' Hd'.
    apply (phA_run orc lname pname (nsock c) lag dmin dmax (tdur c) HL HR H0 H1 HD d' m ts c); auto.
    - unfold Inv. repeat split; auto.
    - unfold rem. lia.
    - lia. }
  destruct d; [rewrite run_bare|..]; apply G; discriminate.
Qed.

(* ------------------------------------------------------------------------------------- *)
(* the upper bound on the service period is necessary: a client serviced no faster than its
   reconnect timeout aborts every attempt before polling it a second time *)
Definition orc_lag1 (sid k : nat) : cres := match k with O => CINPROGRESS | _ => C0 end.

Definition slow_inv (T : Z) (c : client) : Prop :=
  accepted c = false /\ cutoff c = false /\ reconn c = true /\ timeout c = T /\ tdur c = T /\
  tstart c = now c /\ (cs c = None \/ att c = 0%nat).

Lemma slow_step lname pname T c : 0 < T -> slow_inv T c ->
  slow_inv T (step orc_lag1 lname pname Bare c (T, false)).
Proof.
  intros HT (Ha & Hcu & Hr & Ht & Hd & Hs & Hc). unfold Model.step. cbv zeta. cbn [fst snd Model.service].
  assert (Ha2 : accepted (advance c T) = false)
    by (destruct c as [cs0 ? ? ? ? ? ? ? ? ? ? ? ? ? ?]; prims; exact Ha).
  assert (Hcu2 : cutoff (advance c T) = false)
    by (destruct c as [cs0 ? ? ? ? ? ? ? ? ? ? ? ? ? ?]; prims; exact Hcu).
  unfold Model.serviceConnect. rewrite (branch_nocut _ Hcu2).
  destruct (sock0_some (advance c T)) as [sid Hsid].
  rewrite (sc_spec orc_lag1 lname pname _ sid Ha2 Hsid). cbv zeta.
  unfold slow_inv, sock0 in *.
  destruct c as [cs0 at0 ns0 op0 ac0 cu0 ca0 ha0 lh0 ts0 td0 to0 rc0 nw0 ev0].
  cbv [Model.accepted Model.cutoff Model.reconn Model.timeout Model.tdur Model.tstart Model.now Model.cs Model.att] in *.
  subst. assert (Hto : (0 <? T) = true) by (apply Z.ltb_lt; lia).
  assert (He : (nw0 + T <=? nw0 + T) = true) by (apply Z.leb_le; lia).
  destruct Hc as [-> | ->]; [|destruct cs0]; prims; rewrite ?Hto, ?He; cbn [andb orc_lag1 classify];
    prims; rewrite ?Hto, ?He; repeat split; auto.
Qed.

Lemma slow_run lname pname T n : 0 < T -> forall c, slow_inv T c ->
  slow_inv T (run orc_lag1 lname pname Bare c (repeat (T, false) n)).
Proof.
  intros HT. induction n as [|n IH]; intros c H; [exact H|].
  cbn [repeat]. rewrite run_cons. apply IH, slow_step; auto.
Qed.

(* ------------------------------------------------------------------------------------- *)
(* what every step keeps, whatever the oracle and the schedule (clock never runs backwards) *)
Section Keep.
Variable orc : nat -> nat -> cres.
Variable lname pname : nat -> Z.

Definition keeps (c c' : client) : Prop :=
  reconn c' = reconn c /\ timeout c' = timeout c /\ tdur c' = tdur c.
Definition twf (c : client) : Prop := tstart c <= now c.

Lemma keep_sc c : twf c -> keeps c (sc_core orc lname pname c) /\ twf (sc_core orc lname pname c).
Proof.
  intros H. destruct (accepted c) eqn:Ha.
  - unfold Model.sc_core. rewrite Ha. unfold keeps. auto.
  - destruct (sock0_some c) as [sid Hs]. rewrite (sc_spec orc lname pname c sid Ha Hs). cbv zeta.
    destruct (classify _); [| destruct (reconn c && timed_out c) .. |];
      unfold keeps, twf, sock0 in *; destruct c as [cs0 ? ? ? ? ? ? ? ? ? ? ? ? ? ?];
      destruct cs0; prims; repeat split; auto; lia.
Qed.

Lemma keep_step d c (t : tick) : 0 <= fst t -> twf c ->
  keeps c (step orc lname pname d c t) /\ twf (step orc lname pname d c t).
Proof.
  intros Hdt H. unfold Model.step. cbv zeta.
  set (c2 := if snd t then env_cut (advance c (fst t)) else advance c (fst t)).
  assert (H2 : keeps c c2 /\ twf c2).
  { subst c2. unfold keeps, twf in *. destruct c as [cs0 ? ? ? acc cu ? ? ? ? ? ? ? ? ?].
    destruct (snd t); [destruct acc, cu|]; prims; cbn; repeat split; auto; lia. }
  clearbody c2. destruct H2 as ((K1 & K2 & K3) & W2).
  assert (RR : keeps c2 (restart (reopen c2)) /\ twf (restart (reopen c2))).
  { unfold keeps, twf. destruct c2 as [cs0 ? ? ? ? ? ? ? ? ? ? ? ? ? ?]; destruct cs0; prims; repeat split; auto; lia. }
  assert (TR : forall c3, keeps c2 c3 /\ twf c3 -> keeps c c3 /\ twf c3).
  { unfold keeps. intros c3 ((A & B & C) & W). repeat split; auto; congruence. }
  rewrite service_old.
  assert (HP : keeps c (patron_old orc lname pname c2) /\ twf (patron_old orc lname pname c2)).
  { unfold patron_old, Model.cutoff_branch. cbv zeta.
    destruct (cutoff c2 && reconn c2 && timed_out c2).
    + destruct (accepted (restart (reopen c2))); [apply TR, RR|].
      destruct RR as ((A & B & C) & W). destruct (keep_sc _ W) as ((A' & B' & C') & W').
      unfold keeps. repeat split; auto; congruence.
    + destruct (accepted c2); [apply TR; unfold keeps; auto | apply TR, keep_sc, W2]. }
  destruct d; [exact HP | exact HP |].
  unfold stack_old. destruct (cutoff c2).
  + destruct (reconn c2 && timed_out c2); [apply TR, RR | apply TR; unfold keeps; auto].
  + destruct (accepted c2); [apply TR; unfold keeps; auto|]. cbv zeta.
    destruct (keep_sc c2 W2) as (K & W).
    destruct (accepted (sc_core orc lname pname c2)); [|apply TR; auto].
    apply TR. unfold keeps, twf in *. destruct (sc_core orc lname pname c2). prims. auto.
Qed.

Lemma keep_run d ts : forall c, Forall (fun t : tick => 0 <= fst t) ts -> twf c ->
  keeps c (run orc lname pname d c ts) /\ twf (run orc lname pname d c ts).
Proof.
  induction ts as [|t ts IH]; intros c Hf H.
  - unfold keeps. cbn. auto.
  - inversion Hf; subst. rewrite run_cons.
    destruct (keep_step d c t H2 H) as ((A & B & C) & W).
    destruct (IH _ H3 W) as ((A' & B' & C') & W'). unfold keeps. repeat split; auto; congruence.
Qed.
End Keep.

(* ------------------------------------------------------------------------------------- *)
(* limit: an exception from connect_ex / getsockname propagates out of serviceConnect BEFORE its
   timer check, so a socket whose connect_ex keeps raising is never replaced, by any driver *)
Section Raising.
Variable orc : nat -> nat -> cres.
Variable lname pname : nat -> Z.

Definition stuck (sid : nat) (c : client) : Prop :=
  accepted c = false /\ cutoff c = false /\ cs c = Some sid.

Lemma raise_step d sid c (t : tick) : (forall k, classify (orc sid k) = KRaise) ->
  stuck sid c -> stuck sid (step orc lname pname d c t).
Proof.
  intros HR (Ha & Hc & Hs). unfold Model.step. cbv zeta.
  set (c2 := if snd t then env_cut (advance c (fst t)) else advance c (fst t)).
  assert (H2 : stuck sid c2).
  { subst c2. unfold stuck. destruct c as [cs0 ? ? ? ? ? ? ? ? ? ? ? ? ? ?]. prims. subst.
    destruct (snd t); prims; cbn; auto. }
  clearbody c2. destruct H2 as (Ha2 & Hc2 & Hs2).
  assert (G : stuck sid (sc_core orc lname pname c2)).
  { assert (Hs0 : cs (sock0 c2) = Some sid) by (unfold sock0; rewrite Hs2; exact Hs2).
    rewrite (sc_spec orc lname pname c2 sid Ha2 Hs0). cbv zeta. rewrite HR.
    unfold stuck, sock0. rewrite Hs2. destruct c2 as [cs0 ? ? ? ? ? ? ? ? ? ? ? ? ? ?]. prims. auto. }
  rewrite service_old.
  assert (HP : stuck sid (patron_old orc lname pname c2)).
  { unfold patron_old. rewrite (branch_nocut c2 Hc2). cbv zeta. rewrite Ha2. exact G. }
  destruct d; [exact HP | exact HP |].
  unfold stack_old. rewrite Hc2, Ha2. cbv zeta. destruct G as (G1 & G2 & G3). rewrite G1.
  unfold stuck. auto.
Qed.

Lemma raise_run d sid ts : (forall k, classify (orc sid k) = KRaise) ->
  forall c, stuck sid c -> stuck sid (run orc lname pname d c ts).
Proof.
  intros HR. induction ts as [|t ts IH]; intros c H; [exact H|].
  rewrite run_cons. apply IH, raise_step; auto.
Qed.
End Raising.

(* ------------------------------------------------------------------------------------- *)
(* closed statements used by Props.v *)
Lemma reconnect_after_any_history_lem :
  forall orc lname pname d ha0 tmo (pre ts : list tick) lag n dmin dmax,
    0 < tmo -> Forall (fun t : tick => 0 <= fst t) pre ->
    let c := run orc lname pname d (start d ha0 tmo true) pre in
    0 < dmin -> dmin <= dmax -> (Z.of_nat lag + 1) * dmax < tmo -> tmo <= Z.of_nat n * dmin ->
    listening orc (nsock c) lag -> no_raise orc -> paced ts dmin dmax -> (n + lag + 1 <= length ts)%nat ->
    let c' := run orc lname pname d (start d ha0 tmo true) (pre ++ ts) in
    accepted c' = true /\ cutoff c' = false.
Proof.
  intros orc lname pname d ha0 tmo pre ts lag n dmin dmax Ht Hpre c H0 H1 HD Hn HL HR Hp Hl.
  cbv zeta. rewrite run_app. fold c.
  assert (W0 : twf (start d ha0 tmo true)) by (destruct d; cbv; discriminate).
  destruct (keep_run orc lname pname d pre _ Hpre W0) as ((K1 & K2 & K3) & W). fold c in K1, K2, K3, W.
  assert (S1 : reconn (start d ha0 tmo true) = true) by (destruct d; reflexivity).
  assert (S2 : timeout (start d ha0 tmo true) = tmo) by (destruct d; reflexivity).
  assert (S3 : tdur (start d ha0 tmo true) = tmo) by (destruct d; reflexivity).
  apply (reconnect_bounded_thm orc lname pname d c ts lag n dmin dmax); auto; try congruence; lia.
Qed.

Lemma addresses_live_lem :
  forall orc lname pname d ha0 tmo rc (ts : list tick),
    let c := run orc lname pname d (start d ha0 tmo rc) ts in
    accepted c = true ->
    exists sid, cs c = Some sid /\ ca c = Some (lname sid) /\ ha c = pname sid.
Proof.
  intros. apply (addr_run orc lname pname d ts (start d ha0 tmo rc)); auto.
  unfold addr_inv. destruct d; cbv; discriminate.
Qed.

Lemma stack_local_address_live_lem :
  forall orc lname pname ha0 tmo rc (ts : list tick),
    let c := run orc lname pname Stack (start Stack ha0 tmo rc) ts in
    accepted c = true -> lha c = ca c.
Proof.
  intros. apply (lha_run orc lname pname ts (start Stack ha0 tmo rc)); auto.
  unfold lha_inv. cbv. discriminate.
Qed.

Lemma slow_service_never_connects_lem :
  forall lname pname ha0 T n, 0 < T ->
    accepted (run orc_lag1 lname pname Bare (init ha0 T true) (repeat (T, false) n)) = false.
Proof.
  intros. apply (slow_run lname pname T n H (init ha0 T true)).
  unfold slow_inv. cbn. auto 10.
Qed.


(* ------------------------------------------------------------------------------------- *)
(* event-stream Patron: once the timer duration IS the retry value (i.e. from the first
   reconnect on, or when timeout = retry) it behaves exactly like the plain Patron, so every
   theorem about Patron applies with duration = retry *)
Lemma patron_ev_eq orc lname pname r c : tdur c = r ->
  patron_ev_service orc lname pname r c = Model.patron_service orc lname pname c.
Proof.
  intros H. unfold patron_ev_service, Model.patron_service, Model.cutoff_branch.
  destruct (cutoff c && reconn c && timed_out c); [|reflexivity].
  assert (E : set_dur (restart (reopen c)) r = restart (reopen c)).
  { destruct c as [cs0 ? ? ? ? ? ? ? ? ? ? ? ? ? ?]. cbv [Model.tdur] in H. subst.
    destruct cs0; reflexivity. }
  rewrite E. reflexivity.
Qed.

Lemma run_ev_eq orc lname pname r ts : forall c,
  Forall (fun t : tick => 0 <= fst t) ts -> tstart c <= now c -> tdur c = r ->
  run_ev orc lname pname r c ts = run orc lname pname Patron c ts.
Proof.
  induction ts as [|t ts IH]; intros c Hf Hw Hd; [reflexivity|].
  inversion Hf; subst. cbn [run_ev Model.run fold_left].
  assert (E : step_ev orc lname pname (tdur c) c t = step orc lname pname Patron c t).
  { unfold step_ev, Model.step. cbv zeta. cbn [Model.service]. apply patron_ev_eq.
    destruct c as [cs0 ? ? ? acc cu ? ? ? ? ? ? ? ? ?].
    destruct (snd t); [destruct acc, cu|]; prims; reflexivity. }
  rewrite E. destruct (keep_step orc lname pname Patron c t H1 Hw) as ((_ & _ & K) & W).
  apply IH; auto; congruence.
Qed.

Lemma paced_nonneg ts dmin dmax : 0 < dmin -> paced ts dmin dmax -> Forall (fun t : tick => 0 <= fst t) ts.
Proof. unfold paced. intros H0 H. eapply Forall_impl; [|exact H]. cbn. intros t ((A & _) & _). lia. Qed.

Lemma reconnect_bounded_ev_lem :
  forall orc lname pname (c : client) (ts : list tick) (lag n : nat) (dmin dmax r : Z),
    reconn c = true -> 0 < timeout c -> tstart c <= now c -> tdur c = r ->
    0 < dmin -> dmin <= dmax -> (Z.of_nat lag + 1) * dmax < r -> r <= Z.of_nat n * dmin ->
    listening orc (nsock c) lag -> no_raise orc -> paced ts dmin dmax -> (n + lag + 1 <= length ts)%nat ->
    let c' := run_ev orc lname pname r c ts in accepted c' = true /\ cutoff c' = false.
Proof.
  intros orc lname pname c ts lag n dmin dmax r Hr Ht Hs Hd H0 H1 HD Hn HL HR Hp Hl. cbv zeta.
  rewrite (run_ev_eq orc lname pname r ts c (paced_nonneg ts dmin dmax H0 Hp) Hs Hd).
  apply (reconnect_bounded_thm orc lname pname Patron c ts lag n dmin dmax); auto; rewrite Hd; auto.
Qed.
