(* C27 -- reconnect logic of the nonblocking TCP client and its two users.
   Hand model (tie H).  Definitions only.

   Modelled code (ioflo/aio/tcp/clienting.py, aio/http/clienting.py, aio/proto/stacking.py):
     Client.open / shutclose(close) / reopen / accept(=connect) / serviceConnect,
     StoreTimer.expired / restart (timer of the client; store.stamp = [now]),
     Patron.serviceAll  -- the cutoff branch and the "if not connected" branch,
     TcpClientStack.serviceConnect (incl. local.ha := handler.ca).

   Environment = oracle:
     orc sid k      result class of the k-th connect_ex call made on the sid-th socket this
                    client created (sockets are numbered in creation order),
     lname/pname sid  what getsockname()/getpeername() of that socket report,
     a schedule of ticks (dt, cut): the store clock advances by dt, then (cut) the far side
     closes the connection (a receive returns b'' : cutoff := True, only possible while
     connected and not yet cut off, as guarded by serviceReceives/serviceTxes), then ONE
     service call of the chosen driver.
   Time is in integer ticks (the harness uses multiples of 1/8 s, exact in binary64).
   Client.serviceConnect is modelled WITH the cut-off branch of fixes/C27-client-cutoff-reconnect
   (a reconnectable client that lost its connection reopens after the timeout).
   connect_ex / getsockname raising socket.error is modelled (result class KRaise: the attempt
   is counted, the exception propagates out of the service call, so the timer check of
   serviceConnect is skipped).
   The event-stream Patron (respondent.evented, reconnect duration = respondent.retry) is the
   separate driver patron_ev_service.
   Not modelled: TLS handshake (ClientTls), Patron's request/response servicing.      *)
From Coq Require Import List ZArith Bool.
Import ListNotations.
Open Scope Z_scope.

(* connect_ex results *)
(* CRAISE: connect_ex raises socket.error; CNAMERR: connect_ex returns 0 but getsockname raises *)
Inductive cres := C0 | CISCONN | CINPROGRESS | CALREADY | CREFUSED | CINVAL | COTHER | CRAISE | CNAMERR.
Inductive ccls := KConn | KReopen | KWait | KRaise.
(* accept():  result in [0, EISCONN] -> connected;  in (EINVAL, ECONNREFUSED) -> reopen;
   anything else -> try again later *)
Definition classify (r : cres) : ccls :=
  match r with
  | C0 | CISCONN => KConn
  | CREFUSED | CINVAL => KReopen
  | CINPROGRESS | CALREADY | COTHER => KWait
  | CRAISE | CNAMERR => KRaise
  end.

Inductive event :=
| EvOpen (sid : nat)
| EvClose (sid : nat)
| EvConnect (sid k : nat) (r : cres).

Record client := mkClient {
  cs : option nat;        (* .cs : the current socket (its creation index) or None *)
  att : nat;              (* connect_ex calls made so far on the current socket *)
  nsock : nat;            (* sockets created so far *)
  opened : bool;
  accepted : bool;        (* == .connected for the non-TLS client *)
  cutoff : bool;
  ca : option Z;          (* .ca ; None = (None, None) *)
  ha : Z;                 (* .ha *)
  lha : option Z;         (* TcpClientStack.local.ha *)
  tstart : Z;             (* .timer.start *)
  tdur : Z;               (* .timer.duration *)
  timeout : Z;            (* .timeout *)
  reconn : bool;          (* .reconnectable *)
  now : Z;                (* store.stamp *)
  evs : list event        (* ghost: socket-level events in order *)
}.

Definition init (ha0 tmo : Z) (rc : bool) : client :=
  {| cs := None; att := 0%nat; nsock := 0%nat; opened := false; accepted := false;
     cutoff := false; ca := None; ha := ha0; lha := None; tstart := 0; tdur := tmo;
     timeout := tmo; reconn := rc; now := 0; evs := [] |}.

Section Oracle.
Variable orc : nat -> nat -> cres.
Variable lname pname : nat -> Z.

(* shutclose *)
Definition close (c : client) : client :=
  match cs c with
  | None => c
  | Some sid =>
    mkClient None (att c) (nsock c) false false (cutoff c) (ca c) (ha c) (lha c)
             (tstart c) (tdur c) (timeout c) (reconn c) (now c) (evs c ++ [EvClose sid])
  end.

(* open *)
Definition open (c : client) : client :=
  mkClient (Some (nsock c)) 0%nat (S (nsock c)) true false false (ca c) (ha c) (lha c)
           (tstart c) (tdur c) (timeout c) (reconn c) (now c) (evs c ++ [EvOpen (nsock c)]).

Definition reopen (c : client) : client := open (close c).

Definition set_accepted (c : client) (sid : nat) : client :=
  mkClient (cs c) (att c) (nsock c) (opened c) true false (Some (lname sid)) (pname sid) (lha c)
           (tstart c) (tdur c) (timeout c) (reconn c) (now c) (evs c).

Definition log_connect (c : client) (sid : nat) (r : cres) : client :=
  mkClient (cs c) (S (att c)) (nsock c) (opened c) (accepted c) (cutoff c) (ca c) (ha c) (lha c)
           (tstart c) (tdur c) (timeout c) (reconn c) (now c) (evs c ++ [EvConnect sid (att c) r]).

(* accept (== connect for the plain client) *)
Definition accept (c : client) : client :=
  let c1 := match cs c with None => reopen c | Some _ => c end in
  match cs c1 with
  | None => c1
  | Some sid =>
    let r := orc sid (att c1) in
    let c2 := log_connect c1 sid r in
    match classify r with
    | KConn => set_accepted c2 sid
    | KReopen => reopen c2
    | KWait => c2
    | KRaise => c2
    end
  end.

(* does this accept() end with an exception propagating to the caller? *)
Definition accept_raises (c : client) : bool :=
  let c1 := match cs c with None => reopen c | Some _ => c end in
  match cs c1 with
  | None => false
  | Some sid => match classify (orc sid (att c1)) with KRaise => true | _ => false end
  end.

(* StoreTimer *)
Definition expired (c : client) : bool := tstart c + tdur c <=? now c.
Definition restart (c : client) : client :=
  mkClient (cs c) (att c) (nsock c) (opened c) (accepted c) (cutoff c) (ca c) (ha c) (lha c)
           (now c) (tdur c) (timeout c) (reconn c) (now c) (evs c).

Definition timed_out (c : client) : bool := (0 <? timeout c) && expired c.

(* Client.serviceConnect from "if not self.connected:" on *)
Definition sc_core (c : client) : client :=
  if accepted c then c
  else let c1 := accept c in
       if accept_raises c then c1
       else if negb (accepted c1) && reconn c1 && timed_out c1 then restart (reopen c1) else c1.

(* "if self.cutoff and self.reconnectable: if self.timeout > 0.0 and self.timer.expired:
       self.reopen(); self.timer.restart()"   (the same statement opens Patron.serviceAll) *)
Definition cutoff_branch (c : client) : client :=
  if cutoff c && reconn c && timed_out c then restart (reopen c) else c.

(* Client.serviceConnect *)
Definition serviceConnect (c : client) : client := sc_core (cutoff_branch c).

(* Patron.serviceAll, connection part *)
Definition patron_service (c : client) : client :=
  let c1 := cutoff_branch c in
  if accepted c1 then c1 else serviceConnect c1.

Definition set_lha (c : client) : client :=
  mkClient (cs c) (att c) (nsock c) (opened c) (accepted c) (cutoff c) (ca c) (ha c) (ca c)
           (tstart c) (tdur c) (timeout c) (reconn c) (now c) (evs c).

(* TcpClientStack.serviceConnect *)
Definition stack_service (c : client) : client :=
  if cutoff c then
    (if reconn c && timed_out c then restart (reopen c) else c)
  else if accepted c then c
  else let c1 := serviceConnect c in
       if accepted c1 then set_lha c1 else c1.

(* Patron.serviceAll when the current response is a server-sent-event stream (respondent.evented):
   the cut-off branch restarts the timer with duration = respondent.retry (r, in ticks) *)
Definition set_dur (c : client) (r : Z) : client :=
  mkClient (cs c) (att c) (nsock c) (opened c) (accepted c) (cutoff c) (ca c) (ha c) (lha c)
           (tstart c) r (timeout c) (reconn c) (now c) (evs c).
Definition patron_ev_service (r : Z) (c : client) : client :=
  let c1 := if cutoff c && reconn c && timed_out c then set_dur (restart (reopen c)) r else c in
  if accepted c1 then c1 else serviceConnect c1.

Inductive drv := Bare | Patron | Stack.

Definition service (d : drv) (c : client) : client :=
  match d with
  | Bare => serviceConnect c
  | Patron => patron_service c
  | Stack => stack_service c
  end.

(* environment *)
Definition advance (c : client) (dt : Z) : client :=
  mkClient (cs c) (att c) (nsock c) (opened c) (accepted c) (cutoff c) (ca c) (ha c) (lha c)
           (tstart c) (tdur c) (timeout c) (reconn c) (now c + dt) (evs c).

(* the far side closes: receive() returns b'' under the guard connected and not cutoff *)
Definition env_cut (c : client) : client :=
  if accepted c && negb (cutoff c) then
    mkClient (cs c) (att c) (nsock c) (opened c) (accepted c) true (ca c) (ha c) (lha c)
             (tstart c) (tdur c) (timeout c) (reconn c) (now c) (evs c)
  else c.

Definition tick := (Z * bool)%type.   (* (dt, cut) *)

Definition step (d : drv) (c : client) (t : tick) : client :=
  let c1 := advance c (fst t) in
  let c2 := if snd t then env_cut c1 else c1 in
  service d c2.

Definition run (d : drv) (c : client) (ts : list tick) : client := fold_left (step d) ts c.

Definition step_ev (r : Z) (c : client) (t : tick) : client :=
  let c1 := advance c (fst t) in
  let c2 := if snd t then env_cut c1 else c1 in
  patron_ev_service r c2.
Definition run_ev (r : Z) (c : client) (ts : list tick) : client := fold_left (step_ev r) ts c.

End Oracle.

(* ---- vocabulary of the theorems ---- *)

Fixpoint opens (l : list event) : nat :=
  match l with
  | [] => 0%nat
  | EvOpen _ :: l' => S (opens l')
  | _ :: l' => opens l'
  end.

Definition no_raise (orc : nat -> nat -> cres) : Prop :=
  forall sid k, classify (orc sid k) <> KRaise.

(* "the server listens" for every socket created from number n0 on: the first [lag]
   connect_ex calls on it may still report in-progress (or already succeed), every later
   one reports connected *)
Definition listening (orc : nat -> nat -> cres) (n0 lag : nat) : Prop :=
  forall sid k, (n0 <= sid)%nat ->
    (classify (orc sid k) = KConn \/ ((k < lag)%nat /\ classify (orc sid k) = KWait)).

Definition paced (ts : list tick) (dmin dmax : Z) : Prop :=
  Forall (fun t : tick => dmin <= fst t <= dmax /\ snd t = false) ts.

(* the state in which the harness starts a driver: the stack constructor opens its handler *)
Definition start (d : drv) (ha0 tmo : Z) (rc : bool) : client :=
  match d with Stack => reopen (init ha0 tmo rc) | _ => init ha0 tmo rc end.

(* ---- finite encodings used by the correspondence (tables instead of functions) ---- *)
Definition orc_of (tbl : list (list cres)) (dflt : cres) (sid k : nat) : cres :=
  nth k (nth sid tbl []) dflt.
