From Coq Require Import List ZArith Bool Lia.
Import ListNotations.
Require Import V.C27.Model.
Open Scope Z_scope.

Ltac bool_hyps :=
  repeat match goal with
         | H : _ && _ = true |- _ => apply andb_true_iff in H; destruct H
         | H : negb _ = true |- _ => apply negb_true_iff in H
         | H : negb _ = false |- _ => apply negb_false_iff in H
         | H : (_ <=? _) = true |- _ => apply Z.leb_le in H
         | H : (_ <=? _) = false |- _ => apply Z.leb_gt in H
         | H : (_ <? _) = true |- _ => apply Z.ltb_lt in H
         | H : (_ <? _) = false |- _ => apply Z.ltb_ge in H
         end.

Ltac prims :=
  cbv [Model.reopen Model.open Model.close Model.restart Model.set_lha Model.set_accepted
       Model.log_connect Model.advance Model.env_cut Model.timed_out Model.expired
       Model.cs Model.att Model.nsock Model.opened Model.accepted Model.cutoff Model.ca Model.ha
       Model.lha Model.tstart Model.tdur Model.timeout Model.reconn Model.now Model.evs] in *.

Section WithOracle.
Variable orc : nat -> nat -> cres.
Variable lname pname : nat -> Z.

Notation accept := (Model.accept orc lname pname).
Notation serviceConnect := (Model.sc_core orc lname pname).   (* serviceConnect after its cut-off branch *)
Notation accept_raises := (Model.accept_raises orc).
Notation patron_service := (Model.patron_service orc lname pname).
Notation stack_service := (Model.stack_service orc lname pname).
Notation service := (Model.service orc lname pname).
Notation step := (Model.step orc lname pname).
Notation run := (Model.run orc lname pname).

Lemma run_app d c a b : run d c (a ++ b) = run d (run d c a) b.
Proof. unfold Model.run. apply fold_left_app. Qed.

Lemma run_cons d c t ts : run d c (t :: ts) = run d (step d c t) ts.
Proof. reflexivity. Qed.

(* equational characterisation of serviceConnect on a not-connected client *)
Definition sock0 (c : client) : client := match cs c with None => reopen c | Some _ => c end.

Lemma sock0_some c : exists sid, cs (sock0 c) = Some sid.
Proof. unfold sock0. destruct c as [cs0 ? ? ? ? ? ? ? ? ? ? ? ? ? ?]; destruct cs0; prims; eauto. Qed.

Lemma accept_spec c sid : cs (sock0 c) = Some sid ->
  let r := orc sid (att (sock0 c)) in
  let c2 := log_connect (sock0 c) sid r in
  accept c = match classify r with
             | KConn => set_accepted lname pname c2 sid
             | KReopen => reopen c2
             | KWait => c2
             | KRaise => c2
             end.
Proof. intros H. unfold Model.accept. fold (sock0 c). rewrite H. reflexivity. Qed.

Lemma raises_spec c sid : cs (sock0 c) = Some sid ->
  accept_raises c = match classify (orc sid (att (sock0 c))) with KRaise => true | _ => false end.
Proof. intros H. unfold Model.accept_raises. fold (sock0 c). rewrite H. reflexivity. Qed.

Lemma sc_spec c sid : accepted c = false -> cs (sock0 c) = Some sid ->
  let r := orc sid (att (sock0 c)) in
  let c2 := log_connect (sock0 c) sid r in
  serviceConnect c =
  match classify r with
  | KConn => set_accepted lname pname c2 sid
  | KReopen => if reconn c && timed_out c then restart (reopen (reopen c2)) else reopen c2
  | KWait => if reconn c && timed_out c then restart (reopen c2) else c2
  | KRaise => c2
  end.
Proof.
  intros Ha Hs. unfold Model.sc_core. rewrite Ha. cbv zeta.
  rewrite (accept_spec c sid Hs), (raises_spec c sid Hs). cbv zeta.
  destruct (classify (orc sid (att (sock0 c)))); unfold sock0 in *;
    destruct c as [cs0 ? ? ? ? ? ? ? ? ? ? ? ? ? ?]; destruct cs0; prims; subst; reflexivity.
Qed.

(* the three drivers in terms of sc_core *)
Definition patron_old (c : client) : client :=
  let c1 := cutoff_branch c in if accepted c1 then c1 else serviceConnect c1.
Definition stack_old (c : client) : client :=
  if cutoff c then (if reconn c && timed_out c then restart (reopen c) else c)
  else if accepted c then c
  else let c1 := serviceConnect c in if accepted c1 then set_lha c1 else c1.

Lemma branch_idem c : cutoff_branch (cutoff_branch c) = cutoff_branch c.
Proof.
  unfold Model.cutoff_branch at 2 3. destruct (cutoff c && reconn c && timed_out c) eqn:E.
  - unfold Model.cutoff_branch. destruct c as [cs0 ? ? ? ? ? ? ? ? ? ? ? ? ? ?]; destruct cs0; prims; reflexivity.
  - unfold Model.cutoff_branch. rewrite E. reflexivity.
Qed.

Lemma branch_nocut c : cutoff c = false -> cutoff_branch c = c.
Proof. intros H. unfold Model.cutoff_branch. rewrite H. reflexivity. Qed.

Lemma sc_core_accepted c : accepted c = true -> serviceConnect c = c.
Proof. intros H. unfold Model.sc_core. rewrite H. reflexivity. Qed.

Lemma service_old d c :
  service d c = match d with Stack => stack_old c | _ => patron_old c end.
Proof.
  destruct d; cbv [Model.service].
  - unfold Model.serviceConnect, patron_old. cbv zeta.
    destruct (accepted (cutoff_branch c)) eqn:E; [apply sc_core_accepted, E | reflexivity].
  - unfold Model.patron_service, Model.serviceConnect, patron_old. cbv zeta. rewrite branch_idem. reflexivity.
  - unfold Model.stack_service, Model.serviceConnect, stack_old.
    destruct (cutoff c) eqn:E; [reflexivity|]. rewrite (branch_nocut c E). reflexivity.
Qed.

(* ------------------------------------------------------------------------------------- *)
(* 1. addresses *)

Definition addr_inv (c : client) : Prop :=
  accepted c = true ->
  exists sid, cs c = Some sid /\ ca c = Some (lname sid) /\ ha c = pname sid.

Lemma addr_sc c : addr_inv c -> addr_inv (serviceConnect c).
Proof.
  intros H. destruct (accepted c) eqn:Ha.
  - unfold Model.sc_core. rewrite Ha. exact H.
  - destruct (sock0_some c) as [sid Hs]. rewrite (sc_spec c sid Ha Hs). cbv zeta.
    destruct (classify _); [| destruct (reconn c && timed_out c) ..];
      unfold addr_inv, sock0 in *; destruct c as [cs0 ? ? ? ? ? ? ? ? ? ? ? ? ? ?];
      destruct cs0; prims; intros; try discriminate; inversion Hs; subst; eauto.
Qed.

Lemma addr_pre c (t : tick) : addr_inv c ->
  addr_inv (if snd t then env_cut (advance c (fst t)) else advance c (fst t)).
Proof.
  unfold addr_inv. intros H. destruct c as [cs0 ? ? ? acc cu ? ? ? ? ? ? ? ? ?].
  destruct (snd t); [destruct acc, cu|]; prims; cbn; exact H.
Qed.

Lemma addr_restart_reopen c : addr_inv (restart (reopen c)).
Proof.
  unfold addr_inv. destruct c as [cs0 ? ? ? ? ? ? ? ? ? ? ? ? ? ?]; destruct cs0; prims; discriminate.
Qed.

Lemma addr_step d c t : addr_inv c -> addr_inv (step d c t).
Proof.
  intros H. unfold Model.step. cbv zeta. pose proof (addr_pre c t H) as H2.
  set (c2 := if snd t then env_cut (advance c (fst t)) else advance c (fst t)) in *.
  clearbody c2. clear H. rewrite service_old.
  assert (HP : addr_inv (patron_old c2)).
  { unfold patron_old, Model.cutoff_branch. cbv zeta.
    destruct (cutoff c2 && reconn c2 && timed_out c2).
    + pose proof (addr_restart_reopen c2) as H1.
      destruct (accepted (restart (reopen c2))); [exact H1 | apply addr_sc, H1].
    + destruct (accepted c2); [exact H2 | apply addr_sc, H2]. }
  destruct d; [exact HP | exact HP |].
  - unfold stack_old. destruct (cutoff c2).
    + destruct (reconn c2 && timed_out c2); [apply addr_restart_reopen | exact H2].
    + destruct (accepted c2) eqn:Ha; [exact H2|]. cbv zeta.
      pose proof (addr_sc c2 H2) as H3.
      destruct (accepted (serviceConnect c2)) eqn:Hb; [|exact H3].
      unfold addr_inv in *. destruct (serviceConnect c2). prims. exact H3.
Qed.

Lemma addr_run d ts : forall c, addr_inv c -> addr_inv (run d c ts).
Proof.
  induction ts as [|t ts IH]; intros c H; [exact H|]. rewrite run_cons. apply IH, addr_step, H.
Qed.

(* stack driver: local.ha follows .ca while connected *)
Definition lha_inv (c : client) : Prop := accepted c = true -> lha c = ca c.

Lemma lha_step c t : lha_inv c -> lha_inv (step Stack c t).
Proof.
  intros H. unfold Model.step. cbv zeta.
  assert (H2 : lha_inv (if snd t then env_cut (advance c (fst t)) else advance c (fst t))).
  { unfold lha_inv in *. destruct c as [cs0 ? ? ? acc cu ? ? ? ? ? ? ? ? ?].
    destruct (snd t); [destruct acc, cu|]; prims; cbn; exact H. }
  set (c2 := if snd t then env_cut (advance c (fst t)) else advance c (fst t)) in *.
  clearbody c2. clear H. rewrite service_old. unfold stack_old. destruct (cutoff c2).
  - destruct (reconn c2 && timed_out c2); [|exact H2].
    unfold lha_inv. destruct c2 as [cs0 ? ? ? ? ? ? ? ? ? ? ? ? ? ?]; destruct cs0; prims; discriminate.
  - destruct (accepted c2) eqn:Ha; [exact H2|]. cbv zeta.
    destruct (accepted (serviceConnect c2)) eqn:Hb.
    + unfold lha_inv. destruct (serviceConnect c2). prims. reflexivity.
    + unfold lha_inv. rewrite Hb. discriminate.
Qed.

Lemma lha_run ts : forall c, lha_inv c -> lha_inv (run Stack c ts).
Proof.
  induction ts as [|t ts IH]; intros c H; [exact H|]. rewrite run_cons. apply IH, lha_step, H.
Qed.

(* ------------------------------------------------------------------------------------- *)
(* 2. a client that is not reconnectable, once cut off, is never reopened by service calls *)

Definition frozen (c c' : client) : Prop :=
  cs c' = cs c /\ nsock c' = nsock c /\ evs c' = evs c /\ accepted c' = accepted c /\
  cutoff c' = cutoff c /\ opened c' = opened c /\ reconn c' = reconn c /\ ca c' = ca c /\ ha c' = ha c.

Lemma service_stale d c :
  reconn c = false -> accepted c = true -> cutoff c = true -> service d c = c.
Proof.
  intros Hr Ha Hc. rewrite service_old. destruct d.
  - unfold patron_old, Model.cutoff_branch. rewrite Hc, Hr. cbn. rewrite Ha. reflexivity.
  - unfold patron_old, Model.cutoff_branch. rewrite Hc, Hr. cbn. rewrite Ha. reflexivity.
  - unfold stack_old. rewrite Hc, Hr. reflexivity.
Qed.

Lemma pre_stale c (t : tick) : accepted c = true -> cutoff c = true ->
  let c2 := if snd t then env_cut (advance c (fst t)) else advance c (fst t) in
  frozen c c2 /\ accepted c2 = true /\ cutoff c2 = true.
Proof.
  intros Ha Hc. destruct c as [cs0 ? ? ? ? ? ? ? ? ? ? ? ? ? ?]. prims. subst.
  unfold frozen. destruct (snd t); prims; cbn; repeat split; reflexivity.
Qed.

Lemma stale_step d c t :
  reconn c = false -> accepted c = true -> cutoff c = true -> frozen c (step d c t).
Proof.
  intros Hr Ha Hc. unfold Model.step. cbv zeta.
  destruct (pre_stale c t Ha Hc) as (F & Ha2 & Hc2).
  set (c2 := if snd t then env_cut (advance c (fst t)) else advance c (fst t)) in *. clearbody c2.
  rewrite service_stale; auto.
  destruct F as (F1 & F2 & F3 & F4 & F5 & F6 & F7 & F8 & F9). congruence.
Qed.

Lemma nonreconn_step d c t :
  reconn c = false -> accepted c = true -> cutoff c = true -> frozen c (step d c t).
Proof. intros. apply stale_step; auto. Qed.

Lemma nonreconn_run d ts : forall c,
  reconn c = false -> accepted c = true -> cutoff c = true -> frozen c (run d c ts).
Proof.
  induction ts as [|t ts IH]; intros c Hr Ha Hc.
  - unfold frozen. cbn. repeat split; reflexivity.
  - rewrite run_cons. pose proof (nonreconn_step d c t Hr Ha Hc) as F.
    destruct F as (F1 & F2 & F3 & F4 & F5 & F6 & F7 & F8 & F9).
    specialize (IH (step d c t)). rewrite F7, F4, F5 in IH. specialize (IH Hr Ha Hc).
    destruct IH as (G1 & G2 & G3 & G4 & G5 & G6 & G7 & G8 & G9).
    unfold frozen. repeat split; congruence.
Qed.

End WithOracle.
