(* C18 -- refinement of the concrete tree operations to the abstract path map *)
From Coq Require Import List ZArith Bool Lia.
Import ListNotations.
Require Import V.C18.Model V.C18.Proofs.
Open Scope Z_scope.

Definition obj_at (q : path) (f : forest) : option obj := obj_of (lookup q f).
Definition kids_of (l : str) (f : forest) : forest :=
  match ffind l f with Some (TNode _ k) => k | _ => FNil end.

Lemma lookup_nil (q : path) : lookup q FNil = None.
Proof. destruct q; reflexivity. Qed.

Lemma lookup_kids l (q : path) f : q <> [] -> lookup (l :: q) f = lookup q (kids_of l f).
Proof.
  intros Hq. rewrite (lookup_step _ _ _ Hq). unfold kids_of.
  destruct (ffind l f) as [[nm k|i nm]|]; try reflexivity; symmetry; apply lookup_nil.
Qed.

Lemma lookup_congr l (q : path) f1 f2 : ffind l f1 = ffind l f2 -> lookup (l :: q) f1 = lookup (l :: q) f2.
Proof.
  intros H. destruct (nil_or_not q) as [->|Hq].
  - rewrite !lookup_one. exact H.
  - rewrite !(lookup_step _ _ _ Hq). rewrite H. reflexivity.
Qed.

Lemma path_eqb_nil_r (q : path) : q <> [] -> path_eqb q [] = false.
Proof. destruct q; [congruence|reflexivity]. Qed.
Lemma path_eqb_nil_l (q : path) : q <> [] -> path_eqb [] q = false.
Proof. destruct q; [congruence|reflexivity]. Qed.
Lemma pprefix_nil_r (q : path) : pprefix q [] = false.
Proof. destruct q; reflexivity. Qed.
Lemma pprefix_nil_l (q : path) : q <> [] -> pprefix [] q = true.
Proof. destruct q; [congruence|reflexivity]. Qed.

(* lookups in a forest whose key l was (re)bound to a node with children k' *)
Lemma lookup_fset_node l nm k' f l' (q' : path) :
  lookup (l' :: q') (fset l (TNode nm k') f) =
    if str_eqb l' l then match q' with [] => Some (TNode nm k') | _ => lookup q' k' end
    else lookup (l' :: q') f.
Proof.
  destruct (str_eqb l' l) eqn:E.
  - apply str_eqb_eq in E. subst l'. destruct q' as [|x q2].
    + rewrite lookup_one. apply ffind_fset_same.
    + rewrite lookup_cons. rewrite ffind_fset_same. reflexivity.
  - apply lookup_congr. apply ffind_fset_other. exact E.
Qed.
Lemma lookup_fset_share l i nm f l' (q' : path) :
  lookup (l' :: q') (fset l (TShare i nm) f) =
    if str_eqb l' l then match q' with [] => Some (TShare i nm) | _ => None end
    else lookup (l' :: q') f.
Proof.
  destruct (str_eqb l' l) eqn:E.
  - apply str_eqb_eq in E. subst l'. destruct q' as [|x q2].
    + rewrite lookup_one. apply ffind_fset_same.
    + rewrite lookup_cons. rewrite ffind_fset_same. reflexivity.
  - apply lookup_congr. apply ffind_fset_other. exact E.
Qed.

(* ------------------------------------------------------------------------ add *)
Lemma add_walk_lookup (lv : path) : forall pre i snm f f',
  add_walk false pre lv (TShare i snm) f = (f', true) ->
  forall q : path, q <> [] ->
    obj_at q f' = if path_eqb q lv then Some (OShare i snm)
                  else if pprefix q lv && is_none (obj_at q f) then Some (ONode (join_dots (pre ++ q)))
                  else obj_at q f.
Proof.
  induction lv as [|l lv IH]; intros pre i snm f f' Hw q Hq; [discriminate|].
  destruct q as [|l' q']; [congruence|]. clear Hq.
  destruct (nil_or_not lv) as [->|Hlv].
  - rewrite add_walk_tail in Hw. destruct (ffind l f) eqn:Ef; [discriminate|]. inversion Hw; subst f'; clear Hw.
    unfold obj_at. rewrite lookup_fset_share. cbn [path_eqb pprefix].
    destruct (str_eqb l' l) eqn:E.
    + apply str_eqb_eq in E. subst l'. destruct q' as [|x q2]; cbn [path_eqb andb obj_of].
      * reflexivity.
      * rewrite lookup_cons. rewrite Ef. reflexivity.
    + cbn [andb]. reflexivity.
  - rewrite (add_walk_step _ _ _ _ _ _ Hlv) in Hw. cbn [andb] in Hw.
    assert (Hgen : forall nm kids, (ffind l f = Some (TNode nm kids) \/ (ffind l f = None /\ kids = FNil /\ nm = join_dots (pre ++ [l]))) ->
              forall k', add_walk false (pre ++ [l]) lv (TShare i snm) kids = (k', true) ->
              f' = fset l (TNode nm k') f ->
              obj_at (l' :: q') f' =
              (if path_eqb (l' :: q') (l :: lv) then Some (OShare i snm)
               else if pprefix (l' :: q') (l :: lv) && is_none (obj_at (l' :: q') f)
                    then Some (ONode (join_dots (pre ++ l' :: q'))) else obj_at (l' :: q') f)).
    { intros nm kids Hcase k' Hk' ->. unfold obj_at at 1. rewrite lookup_fset_node. cbn [path_eqb pprefix].
      destruct (str_eqb l' l) eqn:E; [|reflexivity].
      apply str_eqb_eq in E. subst l'. cbn [andb].
      destruct q' as [|x q2].
      - rewrite (path_eqb_nil_l _ Hlv). rewrite (pprefix_nil_l _ Hlv). cbn [andb obj_of].
        unfold obj_at. rewrite lookup_one.
        destruct Hcase as [Ef|(Ef & _ & Hnm)]; rewrite Ef; cbn; [reflexivity | subst nm; reflexivity].
      - pose proof (IH (pre ++ [l]) i snm kids k' Hk' (x :: q2) ltac:(discriminate)) as H.
        unfold obj_at in H. cbv beta in H. unfold obj_at.
        assert (Hk : lookup (l :: x :: q2) f = lookup (x :: q2) kids).
        { rewrite lookup_cons. destruct Hcase as [Ef|(Ef & -> & _)]; rewrite Ef; [reflexivity|].
          symmetry. apply lookup_nil. }
        rewrite Hk. rewrite H. rewrite <- app_assoc. reflexivity. }
    destruct (ffind l f) as [[nm kids|j nm]|] eqn:Ef; [| discriminate |].
    + destruct (add_walk false (pre ++ [l]) lv (TShare i snm) kids) as [k' ok] eqn:Ew.
      inversion Hw; subst. apply (Hgen nm kids (or_introl eq_refl) k' Ew eq_refl).
    + destruct (add_walk false (pre ++ [l]) lv (TShare i snm) FNil) as [k' ok] eqn:Ew.
      inversion Hw; subst. apply (Hgen _ FNil (or_intror (conj eq_refl (conj eq_refl eq_refl))) k' Ew eq_refl).
Qed.

(* blocked only looks at nonempty paths *)
Lemma blocked_ext (p : path) : forall m m' : amap, (forall q, q <> [] -> m q = m' q) -> blocked m p = blocked m' p.
Proof.
  induction p as [|l p IH]; intros m m' H; [reflexivity|].
  cbn [blocked]. destruct p as [|l2 p2]; [reflexivity|].
  rewrite (H [l]) by discriminate. f_equal. apply IH. intros q Hq. unfold shift. apply H. discriminate.
Qed.
Lemma blockedn_ext (p : path) : forall m m' : amap, (forall q, q <> [] -> m q = m' q) -> blockedn m p = blockedn m' p.
Proof.
  induction p as [|l p IH]; intros m m' H; [reflexivity|].
  cbn [blockedn]. rewrite (H [l]) by discriminate. f_equal. apply IH. intros q Hq. unfold shift. apply H. discriminate.
Qed.
Lemma blocked_step (m : amap) l (p : path) : p <> [] -> blocked m (l :: p) = is_share (m [l]) || blocked (shift l m) p.
Proof. destruct p; [congruence|reflexivity]. Qed.

Lemma obj_at_shift l f : forall q : path, q <> [] -> shift l (fun q => obj_at q f) q = obj_at q (kids_of l f).
Proof. intros q Hq. unfold shift, obj_at. rewrite (lookup_kids _ _ _ Hq). reflexivity. Qed.

Lemma add_walk_ok (lv : path) : forall pre sh f, lv <> [] ->
  snd (add_walk false pre lv sh f) = negb (blocked (fun q => obj_at q f) lv) && is_none (obj_at lv f).
Proof.
  induction lv as [|l lv IH]; intros pre sh f Hne; [congruence|].
  destruct (nil_or_not lv) as [->|Hlv].
  - rewrite add_walk_tail. cbn [blocked negb andb]. unfold obj_at. rewrite lookup_one.
    destruct (ffind l f) as [[? ?|? ?]|]; reflexivity.
  - rewrite (add_walk_step _ _ _ _ _ _ Hlv). cbn [andb]. rewrite (blocked_step _ _ _ Hlv).
    rewrite (blocked_ext lv _ _ (obj_at_shift l f)).
    unfold obj_at at 1 3. rewrite lookup_one. rewrite (lookup_kids _ _ _ Hlv). unfold kids_of.
    destruct (ffind l f) as [[nm kids|j nm]|] eqn:Ef; cbn [obj_of is_share orb negb andb snd].
    + pose proof (IH (pre ++ [l]) sh kids Hlv) as H.
      destruct (add_walk false (pre ++ [l]) lv sh kids) as [k' ok]. exact H.
    + reflexivity.
    + pose proof (IH (pre ++ [l]) sh FNil Hlv) as H.
      destruct (add_walk false (pre ++ [l]) lv sh FNil) as [k' ok]. exact H.
Qed.

(* ------------------------------------------------------------------- addNode *)
Lemma node_walk_lookup (lv : path) : forall cur pre f f' r,
  node_walk false cur pre lv f = (f', Some r) ->
  (forall q : path, q <> [] ->
    obj_at q f' = if (path_eqb q lv || pprefix q lv) && is_none (obj_at q f)
                  then Some (ONode (join_dots (pre ++ q))) else obj_at q f) /\
  (lv <> [] -> obj_at lv f' = Some (ONode r)) /\ (lv = [] -> r = cur).
Proof.
  induction lv as [|l lv IH]; intros cur pre f f' r Hw.
  - cbn in Hw. inversion Hw; subst. split; [|split; [congruence|reflexivity]].
    intros q Hq. rewrite (path_eqb_nil_r _ Hq). rewrite pprefix_nil_r. reflexivity.
  - rewrite node_walk_cons in Hw. cbn [andb] in Hw. cbv zeta in Hw.
    assert (Hgen : forall nm kids, (ffind l f = Some (TNode nm kids) \/ (ffind l f = None /\ kids = FNil /\ nm = join_dots (pre ++ [l]))) ->
              forall k', node_walk false nm (pre ++ [l]) lv kids = (k', Some r) ->
              f' = fset l (TNode nm k') f ->
              (forall q : path, q <> [] ->
                obj_at q f' = if (path_eqb q (l :: lv) || pprefix q (l :: lv)) && is_none (obj_at q f)
                  then Some (ONode (join_dots (pre ++ q))) else obj_at q f) /\
              (obj_at (l :: lv) f' = Some (ONode r))).
    { intros nm kids Hcase k' Hk' ->.
      destruct (IH nm (pre ++ [l]) kids k' r Hk') as (H1 & H2 & H3).
      assert (Hlook : forall (q2 : path), q2 <> [] -> lookup (l :: q2) f = lookup q2 kids).
      { intros q2 Hq2. rewrite (lookup_step _ _ _ Hq2). destruct Hcase as [Ef|(Ef & -> & _)]; rewrite Ef; [reflexivity|].
        symmetry. apply lookup_nil. }
      split.
      - intros q Hq. destruct q as [|l' q']; [congruence|]. clear Hq.
        unfold obj_at at 1. rewrite lookup_fset_node. cbn [path_eqb pprefix].
        destruct (str_eqb l' l) eqn:E; [|reflexivity].
        apply str_eqb_eq in E. subst l'. cbn [andb].
        destruct q' as [|x q2].
        + unfold obj_at. rewrite lookup_one.
          destruct Hcase as [Ef|(Ef & _ & Hnm)]; rewrite Ef; cbn [obj_of is_none andb].
          * rewrite andb_false_r. reflexivity.
          * rewrite andb_true_r. subst nm.
            destruct (path_eqb [] lv || pprefix [] lv) eqn:Ep; [reflexivity|].
            destruct lv; cbn in Ep; discriminate.
        + pose proof (H1 (x :: q2) ltac:(discriminate)) as H.
          unfold obj_at in H. cbv beta in H. unfold obj_at.
          rewrite (Hlook (x :: q2)) by discriminate. rewrite H. rewrite <- app_assoc. reflexivity.
      - destruct (nil_or_not lv) as [->|Hlv].
        + specialize (H3 eq_refl). subst r. unfold obj_at. rewrite lookup_one. rewrite ffind_fset_same. reflexivity.
        + unfold obj_at. rewrite (lookup_step _ _ _ Hlv). rewrite ffind_fset_same. apply (H2 Hlv). }
    destruct (ffind l f) as [[nm kids|j nm]|] eqn:Ef; [| discriminate |].
    + destruct (node_walk false nm (pre ++ [l]) lv kids) as [k' r'] eqn:Ew.
      inversion Hw; subst.
      destruct (Hgen nm kids (or_introl eq_refl) k' Ew eq_refl) as [G1 G2].
      split; [exact G1|]. split; [intros _; exact G2 | discriminate].
    + destruct (node_walk false (join_dots (pre ++ [l])) (pre ++ [l]) lv FNil) as [k' r'] eqn:Ew.
      inversion Hw; subst.
      destruct (Hgen _ FNil (or_intror (conj eq_refl (conj eq_refl eq_refl))) k' Ew eq_refl) as [G1 G2].
      split; [exact G1|]. split; [intros _; exact G2 | discriminate].
Qed.

Lemma node_walk_ok (lv : path) : forall cur pre f,
  (match snd (node_walk false cur pre lv f) with Some _ => true | None => false end)
  = negb (blockedn (fun q => obj_at q f) lv).
Proof.
  induction lv as [|l lv IH]; intros cur pre f; [reflexivity|].
  rewrite node_walk_cons. cbn [andb]. cbv zeta. cbn [blockedn].
  rewrite (blockedn_ext lv _ _ (obj_at_shift l f)).
  unfold obj_at at 1. rewrite lookup_one. unfold kids_of.
  destruct (ffind l f) as [[nm kids|j nm]|] eqn:Ef; cbn [obj_of is_share orb negb snd].
  - pose proof (IH nm (pre ++ [l]) kids) as H.
    destruct (node_walk false nm (pre ++ [l]) lv kids) as [k' ok]. exact H.
  - reflexivity.
  - pose proof (IH (join_dots (pre ++ [l])) (pre ++ [l]) FNil) as H.
    destruct (node_walk false (join_dots (pre ++ [l])) (pre ++ [l]) lv FNil) as [k' ok]. exact H.
Qed.

(* -------------------------------------------------------------------- change *)
Lemma change_walk_ok (lv : path) : forall pre sh f, wf_forest pre f ->
  snd (change_walk lv sh f) = is_share (obj_at lv f).
Proof.
  induction lv as [|l lv IH]; intros pre sh f Hf; [reflexivity|].
  destruct (nil_or_not lv) as [->|Hlv].
  - rewrite change_walk_tail. unfold obj_at. rewrite lookup_one.
    destruct (ffind l f) as [[? ?|? ?]|]; reflexivity.
  - rewrite (change_walk_step _ _ _ _ Hlv). unfold obj_at. rewrite (lookup_step _ _ _ Hlv).
    destruct (ffind l f) as [[nm kids|j nm]|] eqn:Ef.
    + destruct (wf_ffind _ _ _ _ Hf Ef) as [[_ Hk] Hl].
      destruct (is_empty l) eqn:El; [apply is_empty_true in El; contradiction|].
      pose proof (IH (pre ++ [l]) sh kids Hk) as H. unfold obj_at in H.
      destruct (change_walk lv sh kids) as [k' ok]. exact H.
    + destruct (is_empty l); reflexivity.
    + destruct (is_empty l); reflexivity.
Qed.

Lemma change_walk_lookup (lv : path) : forall i snm f f',
  change_walk lv (TShare i snm) f = (f', true) ->
  forall q : path, q <> [] -> obj_at q f' = if path_eqb q lv then Some (OShare i snm) else obj_at q f.
Proof.
  induction lv as [|l lv IH]; intros i snm f f' Hw q Hq; [discriminate|].
  destruct q as [|l' q']; [congruence|]. clear Hq.
  destruct (nil_or_not lv) as [->|Hlv].
  - rewrite change_walk_tail in Hw. destruct (ffind l f) as [[nm kids|j nm]|] eqn:Ef; try discriminate.
    inversion Hw; subst f'; clear Hw.
    unfold obj_at. rewrite lookup_fset_share. cbn [path_eqb].
    destruct (str_eqb l' l) eqn:E; [|reflexivity].
    apply str_eqb_eq in E. subst l'. destruct q' as [|x q2]; cbn [path_eqb andb obj_of]; [reflexivity|].
    rewrite lookup_cons. rewrite Ef. reflexivity.
  - rewrite (change_walk_step _ _ _ _ Hlv) in Hw. destruct (is_empty l); [discriminate|].
    destruct (ffind l f) as [[nm kids|j nm]|] eqn:Ef; try discriminate.
    destruct (change_walk lv (TShare i snm) kids) as [k' ok] eqn:Ew. inversion Hw; subst; clear Hw.
    unfold obj_at at 1. rewrite lookup_fset_node. cbn [path_eqb].
    destruct (str_eqb l' l) eqn:E; [|reflexivity].
    apply str_eqb_eq in E. subst l'. cbn [andb]. destruct q' as [|x q2].
    + rewrite (path_eqb_nil_l _ Hlv). unfold obj_at. rewrite lookup_one. rewrite Ef. reflexivity.
    + pose proof (IH i snm kids k' Ew (x :: q2) ltac:(discriminate)) as H.
      unfold obj_at in *. rewrite H. rewrite lookup_cons. rewrite Ef. reflexivity.
Qed.

(* ---------------------------------------------------------------- strings *)
Lemma split_from_nonempty s : forall cur, split_from cur s <> [].
Proof. induction s as [|c s IH]; intros cur; cbn; [discriminate|]. destruct (is_dot c); [discriminate|apply IH]. Qed.
Lemma levels_nonempty name : levels_of name <> [].
Proof. apply split_from_nonempty. Qed.

(* ------------------------------------------------------- one step refines the spec *)
Lemma abs_is_obj_at s : abs s = fun q => obj_at q s.
Proof. reflexivity. Qed.

Lemma do_add_refines s i name :
  snd (do_add true s i name) = snd (a_add (abs s) i name) /\
  forall q, abs (fst (do_add true s i name)) q = fst (a_add (abs s) i name) q.
Proof.
  unfold do_add, a_add. destruct (is_empty name); [split; reflexivity|]. cbn [andb negb].
  destruct (existsb is_empty (levels_of name)); [split; reflexivity|].
  pose proof (levels_nonempty name) as Hne. set (p := levels_of name) in *.
  pose proof (add_walk_ok p [] (TShare i name) s Hne) as Hok.
  pose proof (add_walk_rejected p [] (TShare i name) s) as Hrej.
  pose proof (add_walk_lookup p [] i name s) as Hlk.
  rewrite abs_is_obj_at.
  destruct (add_walk false [] p (TShare i name) s) as [s' ok]. cbn [fst snd] in *.
  destruct (blocked (fun q => obj_at q s) p); cbn [negb andb] in Hok.
  - subst ok. rewrite (Hrej eq_refl). split; reflexivity.
  - destruct (is_none (obj_at p s)) eqn:En; cbn [negb]; subst ok.
    + split; [reflexivity|]. intros q. cbn [fst]. unfold a_place.
      destruct q as [|l' q'].
      * rewrite (path_eqb_nil_l _ Hne). cbn [is_empty_path negb]. rewrite andb_false_r. reflexivity.
      * specialize (Hlk s' eq_refl (l' :: q') ltac:(discriminate)). unfold abs. fold (obj_at (l' :: q') s').
        rewrite Hlk. cbn [is_empty_path negb andb app]. rewrite andb_true_r. reflexivity.
    + rewrite (Hrej eq_refl). split; reflexivity.
Qed.

Lemma do_addnode_refines s name :
  snd (do_addnode true s name) = snd (a_addnode (abs s) name) /\
  forall q, abs (fst (do_addnode true s name)) q = fst (a_addnode (abs s) name) q.
Proof.
  unfold do_addnode, a_addnode. cbn [andb negb].
  destruct (existsb is_empty (levels_of name)); [split; reflexivity|].
  pose proof (levels_nonempty name) as Hne. set (p := levels_of name) in *.
  pose proof (node_walk_ok p [] [] s) as Hok.
  pose proof (node_walk_rejected p [] [] s) as Hrej.
  pose proof (node_walk_lookup p [] [] s) as Hlk.
  rewrite abs_is_obj_at.
  destruct (node_walk false [] [] p s) as [s' r]. cbn [fst snd] in *.
  destruct (blockedn (fun q => obj_at q s) p); cbn [negb] in Hok.
  - destruct r; [discriminate|]. rewrite (Hrej eq_refl). split; reflexivity.
  - destruct r as [r|]; [|discriminate]. destruct (Hlk s' r eq_refl) as (H1 & H2 & _).
    assert (Hq : forall q, abs s' q = a_fill (fun q => obj_at q s) p q).
    { intros q. unfold a_fill. destruct q as [|l' q'].
      - cbn [is_empty_path negb andb]. rewrite andb_false_r. reflexivity.
      - unfold abs. fold (obj_at (l' :: q') s'). rewrite (H1 (l' :: q') ltac:(discriminate)).
        cbn [is_empty_path negb andb app]. rewrite andb_true_r. reflexivity. }
    split; [|exact Hq]. cbn [snd]. rewrite <- Hq. unfold abs. fold (obj_at p s'). rewrite (H2 Hne). reflexivity.
Qed.

Lemma do_change_refines s i name : wf_forest [] s ->
  snd (do_change s i name) = snd (a_change (abs s) i name) /\
  forall q, abs (fst (do_change s i name)) q = fst (a_change (abs s) i name) q.
Proof.
  intros Hwf. unfold do_change, a_change.
  pose proof (levels_nonempty name) as Hne. set (p := levels_of name) in *.
  pose proof (change_walk_ok p [] (TShare i name) s Hwf) as Hok.
  pose proof (change_walk_rejected p (TShare i name) s) as Hrej.
  pose proof (change_walk_lookup p i name s) as Hlk.
  change (abs s p) with (obj_at p s).
  destruct (change_walk p (TShare i name) s) as [s' ok]. cbn [fst snd] in *.
  destruct (is_share (obj_at p s)); subst ok.
  - split; [reflexivity|]. intros q. cbn [fst]. unfold a_put. destruct q as [|l' q'].
    + rewrite (path_eqb_nil_l _ Hne). reflexivity.
    + unfold abs. fold (obj_at (l' :: q') s'). apply (Hlk s' eq_refl). discriminate.
  - rewrite (Hrej eq_refl). split; reflexivity.
Qed.

Lemma step_refines s o : wf_forest [] s ->
  snd (step s o) = snd (a_step (abs s) o) /\
  forall q, abs (fst (step s o)) q = fst (a_step (abs s) o) q.
Proof.
  intros Hwf. destruct o; unfold step; cbn [step_gen a_step]; try (split; reflexivity).
  - apply do_add_refines.
  - apply do_addnode_refines.
  - apply do_change_refines. exact Hwf.
  - change (abs s (levels_of name)) with (obj_of (lookup (levels_of name) s)).
    destruct (lookup (levels_of name) s) as [[nm k|j nm]|]; cbn [obj_of];
      try apply do_add_refines. split; reflexivity.
  - change (abs s (levels_of name)) with (obj_of (lookup (levels_of name) s)).
    destruct (lookup (levels_of name) s) as [[nm k|j nm]|]; cbn [obj_of];
      try apply do_addnode_refines. split; reflexivity.
  - split; [|reflexivity]. cbn [snd]. unfold abs. destruct (lookup (levels_of name) s) as [[nm k|j nm]|]; reflexivity.
  - split; [|reflexivity]. cbn [snd]. unfold abs. destruct (lookup (levels_of name) s) as [[nm k|j nm]|]; reflexivity.
  - split; [|reflexivity]. cbn [snd]. unfold abs. destruct (lookup (levels_of name) s) as [[nm k|j nm]|]; reflexivity.
Qed.

(* ------------------------------------------------ the spec only reads its map pointwise *)
Lemma a_step_ext (m m' : amap) o : (forall q, m q = m' q) ->
  snd (a_step m o) = snd (a_step m' o) /\ forall q, fst (a_step m o) q = fst (a_step m' o) q.
Proof.
  intros H.
  assert (Hadd : forall i name, snd (a_add m i name) = snd (a_add m' i name) /\
                                forall q, fst (a_add m i name) q = fst (a_add m' i name) q).
  { intros i name. unfold a_add. destruct (is_empty name); [split; [reflexivity|exact H]|].
    destruct (existsb is_empty (levels_of name)); [split; [reflexivity|exact H]|].
    rewrite (blocked_ext _ m m' (fun q _ => H q)). destruct (blocked m' (levels_of name)); [split; [reflexivity|exact H]|].
    rewrite (H (levels_of name)). destruct (negb (is_none (m' (levels_of name)))); [split; [reflexivity|exact H]|].
    split; [reflexivity|]. intros q. cbn [fst]. unfold a_place. rewrite (H q). reflexivity. }
  assert (Hnode : forall name, snd (a_addnode m name) = snd (a_addnode m' name) /\
                                forall q, fst (a_addnode m name) q = fst (a_addnode m' name) q).
  { intros name. unfold a_addnode. destruct (existsb is_empty (levels_of name)); [split; [reflexivity|exact H]|].
    rewrite (blockedn_ext _ m m' (fun q _ => H q)). destruct (blockedn m' (levels_of name)); [split; [reflexivity|exact H]|].
    split; cbn [fst snd]; [|intros q]; unfold a_fill; rewrite H; reflexivity. }
  destruct o; cbn [a_step]; try (split; [reflexivity|exact H]).
  - apply Hadd.
  - apply Hnode.
  - unfold a_change. rewrite (H (levels_of name)). destruct (is_share (m' (levels_of name))); [|split; [reflexivity|exact H]].
    split; [reflexivity|]. intros q. cbn [fst]. unfold a_put. rewrite (H q). reflexivity.
  - rewrite (H (levels_of name)). destruct (m' (levels_of name)) as [[nm|j nm]|]; try apply Hadd. split; [reflexivity|exact H].
  - rewrite (H (levels_of name)). destruct (m' (levels_of name)) as [[nm|j nm]|]; try apply Hnode. split; [reflexivity|exact H].
  - rewrite (H (levels_of name)). split; [reflexivity|exact H].
  - rewrite (H (levels_of name)). split; [reflexivity|exact H].
  - rewrite (H (levels_of name)). split; [reflexivity|exact H].
Qed.

(* ------------------------------------------------------ simulation over all histories *)
Definition sim (s : forest) (m : amap) : Prop := wf_forest [] s /\ forall q, abs s q = m q.

Lemma sim_step s m o : sim s m ->
  sim (fst (step s o)) (fst (a_step m o)) /\ snd (step s o) = snd (a_step m o).
Proof.
  intros [Hwf Hm]. destruct (step_refines s o Hwf) as [Hr Hq]. destruct (a_step_ext _ _ o Hm) as [Er Eq].
  split; [split|].
  - apply wf_step. exact Hwf.
  - intros q. rewrite Hq. apply Eq.
  - rewrite Hr. exact Er.
Qed.

Lemma run_sim ops : forall s m, sim s m ->
  results_from s ops = a_results_from m ops /\ sim (run_from s ops) (a_run_from m ops).
Proof.
  induction ops as [|o ops IH]; intros s m Hs; [split; [reflexivity|exact Hs]|].
  destruct (sim_step s m o Hs) as [Hs' Hr]. destruct (IH _ _ Hs') as [IH1 IH2].
  split; [|exact IH2]. cbn [results_from a_results_from]. rewrite Hr, IH1. reflexivity.
Qed.

Lemma sim_init : sim init a_init.
Proof. split; [apply wf_init | reflexivity]. Qed.

Lemma run_refines_init ops :
  results_from init ops = a_results_from a_init ops /\
  forall q, abs (run ops) q = a_run_from a_init ops q.
Proof. destruct (run_sim ops _ _ sim_init) as [H1 [_ H2]]. split; assumption. Qed.

(* ------------------------------------------------------------------- strip('.') *)
Lemma lstrip_idem s : lstrip (lstrip s) = lstrip s.
Proof.
  induction s as [|c s IH]; [reflexivity|]. cbn. destruct (is_dot c) eqn:E; [exact IH|]. cbn. rewrite E. reflexivity.
Qed.
Lemma lstrip_length s : (length (lstrip s) <= length s)%nat.
Proof. induction s as [|c s IH]; cbn; [lia|]. destruct (is_dot c); cbn; lia. Qed.
Lemma lstrip_fix t : lstrip t = t -> t = [] \/ exists c t', t = c :: t' /\ is_dot c = false.
Proof.
  destruct t as [|c t']; [left; reflexivity|]. cbn. destruct (is_dot c) eqn:E.
  - intros H. pose proof (lstrip_length t') as L. rewrite H in L. cbn in L. lia.
  - intros _. right. exists c, t'. split; [reflexivity|exact E].
Qed.
Lemma lstrip_app_nondot c : is_dot c = false -> forall u, exists w, lstrip (u ++ [c]) = w ++ [c].
Proof.
  intros Hc u. induction u as [|x u IH]; cbn.
  - rewrite Hc. exists []. reflexivity.
  - destruct (is_dot x); [exact IH|]. exists (x :: u). reflexivity.
Qed.
Lemma strip_dots_idem s : strip_dots (strip_dots s) = strip_dots s.
Proof.
  unfold strip_dots. set (t := lstrip s).
  assert (Ht : lstrip t = t) by apply lstrip_idem.
  assert (H : lstrip (rev (lstrip (rev t))) = rev (lstrip (rev t))).
  { destruct (lstrip_fix t Ht) as [->|(c & t' & -> & Hc)]; [reflexivity|].
    cbn [rev]. destruct (lstrip_app_nondot c Hc (rev t')) as [w Hw]. rewrite Hw.
    rewrite rev_app_distr. cbn. rewrite Hc. reflexivity. }
  rewrite H. rewrite rev_involutive. rewrite lstrip_idem. reflexivity.
Qed.
Lemma levels_of_strip s : levels_of (strip_dots s) = levels_of s.
Proof. unfold levels_of. rewrite strip_dots_idem. reflexivity. Qed.

(* ------------------------------------------ an empty path segment is always rejected *)
Lemma existsb_empty_in (lv : path) : existsb is_empty lv = true -> In [] lv.
Proof. intros H. apply existsb_exists in H. destruct H as (x & Hx & He). apply is_empty_true in He. subst. exact Hx. Qed.

Lemma lookup_empty_none s name : wf_forest [] s -> existsb is_empty (levels_of name) = true ->
  lookup (levels_of name) s = None.
Proof.
  intros Hwf He. destruct (lookup (levels_of name) s) eqn:El; [|reflexivity].
  exfalso. apply (wf_lookup_nonempty _ _ _ _ Hwf El [] (existsb_empty_in _ He)). reflexivity.
Qed.

Lemma empty_segment_rejected s o : wf_forest [] s -> is_mutator o = true -> has_empty_segment o = true ->
  snd (step s o) = RErr /\ fst (step s o) = s.
Proof.
  intros Hwf Hm He. assert (Hr : snd (step s o) = RErr); [|split; [exact Hr|apply step_rejected_unchanged; exact Hr]].
  destruct o; try discriminate; unfold has_empty_segment in He; cbn [op_name] in He; unfold step; cbn [step_gen].
  - unfold do_add. destruct (is_empty name); [reflexivity|]. cbn [andb]. rewrite He. reflexivity.
  - unfold do_addnode. cbn [andb]. rewrite He. reflexivity.
  - unfold do_change. pose proof (change_walk_ok (levels_of name) [] (TShare id name) s Hwf) as H.
    unfold obj_at in H. rewrite (lookup_empty_none _ _ Hwf He) in H.
    destruct (change_walk (levels_of name) (TShare id name) s) as [s' ok]. cbn in *. subst ok. reflexivity.
  - rewrite (lookup_empty_none _ _ Hwf He). unfold do_add. destruct (is_empty (strip_dots name)); [reflexivity|].
    cbn [andb]. rewrite levels_of_strip. rewrite He. reflexivity.
  - rewrite (lookup_empty_none _ _ Hwf He). unfold do_addnode. cbn [andb]. rewrite He. reflexivity.
Qed.

(* ------------------------------------------------------------------ corollaries *)
Lemma run_snoc ops o : run (ops ++ [o]) = fst (step (run ops) o).
Proof. unfold run, run_from. rewrite fold_left_app. reflexivity. Qed.

Lemma names_of_lookup ops q :
  match lookup q (run ops) with
  | Some (TNode nm _) => nm = join_dots q
  | Some (TShare _ nm) => levels_of nm = q
  | None => True
  end.
Proof.
  destruct (lookup q (run ops)) as [[nm k|i nm]|] eqn:E; [| |exact I];
    pose proof (wf_lookup q [] _ _ (wf_run ops) E) as H; cbn in H.
  - destruct H as [H _]. exact H.
  - exact H.
Qed.

Lemma names_of_fetch ops n :
  match snd (step (run ops) (Fetch n)) with
  | RNode nm => nm = join_dots (levels_of n)
  | RShare _ nm => levels_of nm = levels_of n
  | _ => True
  end.
Proof.
  cbn. pose proof (names_of_lookup ops (levels_of n)) as H.
  destruct (lookup (levels_of n) (run ops)) as [[nm k|i nm]|]; cbn; exact H.
Qed.

Lemma res_of_ares o : res_of o = ares (obj_of o).
Proof. destruct o as [[? ?|? ?]|]; reflexivity. Qed.

(* what was just placed is what every dotted variant of the path now fetches *)
Lemma add_then_fetch s i nm nm' : wf_forest [] s ->
  snd (step s (Add i nm)) = RShare i nm -> levels_of nm' = levels_of nm ->
  snd (step (fst (step s (Add i nm))) (Fetch nm')) = RShare i nm /\
  snd (step (fst (step s (Add i nm))) (FetchShare nm')) = RShare i nm /\
  snd (step (fst (step s (Add i nm))) (FetchNode nm')) = RNone.
Proof.
  intros Hwf Hok Hl. destruct (step_refines s (Add i nm) Hwf) as [Hr Hq].
  remember (fst (step s (Add i nm))) as s' eqn:Es'. clear Es'.
  rewrite Hok in Hr. cbn [a_step] in Hr, Hq. unfold a_add in Hr, Hq.
  destruct (is_empty nm); [discriminate|]. destruct (existsb is_empty (levels_of nm)); [discriminate|].
  destruct (blocked (abs s) (levels_of nm)); [discriminate|].
  destruct (negb (is_none (abs s (levels_of nm)))); [discriminate|].
  specialize (Hq (levels_of nm)). cbn [fst] in Hq. unfold a_place in Hq. rewrite path_eqb_refl in Hq.
  unfold abs in Hq. cbn [step step_gen snd fst]. rewrite Hl.
  destruct (lookup (levels_of nm) s') as [[x k|j x]|]; cbn in Hq; try discriminate.
  inversion Hq; subst. repeat split; reflexivity.
Qed.

Lemma change_then_fetch s i nm nm' : wf_forest [] s ->
  snd (step s (Change i nm)) = RShare i nm -> levels_of nm' = levels_of nm ->
  snd (step (fst (step s (Change i nm))) (Fetch nm')) = RShare i nm /\
  snd (step (fst (step s (Change i nm))) (FetchShare nm')) = RShare i nm.
Proof.
  intros Hwf Hok Hl. destruct (step_refines s (Change i nm) Hwf) as [Hr Hq].
  remember (fst (step s (Change i nm))) as s' eqn:Es'. clear Es'.
  rewrite Hok in Hr. cbn [a_step] in Hr, Hq. unfold a_change in Hr, Hq.
  destruct (is_share (abs s (levels_of nm))); [|discriminate].
  specialize (Hq (levels_of nm)). cbn [fst] in Hq. unfold a_put in Hq. rewrite path_eqb_refl in Hq.
  unfold abs in Hq. cbn [step step_gen snd fst]. rewrite Hl.
  destruct (lookup (levels_of nm) s') as [[x k|j x]|]; cbn in Hq; try discriminate.
  inversion Hq; subst. split; reflexivity.
Qed.

Lemma addnode_then_fetch s nm nm' : wf_forest [] s ->
  snd (step s (AddNode nm)) <> RErr -> levels_of nm' = levels_of nm ->
  snd (step (fst (step s (AddNode nm))) (FetchNode nm')) = snd (step s (AddNode nm)) /\
  exists x, snd (step s (AddNode nm)) = RNode x.
Proof.
  intros Hwf Hok Hl. destruct (step_refines s (AddNode nm) Hwf) as [Hr Hq].
  remember (fst (step s (AddNode nm))) as s' eqn:Es'. clear Es'.
  rewrite Hr in *. cbn [a_step] in *. unfold a_addnode in *.
  destruct (existsb is_empty (levels_of nm)); [exfalso; apply Hok; reflexivity|].
  destruct (blockedn (abs s) (levels_of nm)) eqn:Eb; [exfalso; apply Hok; reflexivity|].
  specialize (Hq (levels_of nm)). cbn [fst snd] in *.
  assert (Hn : exists x, a_fill (abs s) (levels_of nm) (levels_of nm) = Some (ONode x)).
  { unfold a_fill. rewrite path_eqb_refl. cbn [orb]. pose proof (levels_nonempty nm) as Hne.
    destruct (levels_of nm) as [|l p] eqn:Ep; [congruence|]. cbn [is_empty_path negb andb].
    destruct (abs s (l :: p)) as [[x|j x]|] eqn:Ea; cbn [is_none].
    - exists x. reflexivity.
    - exfalso. (* a share at the path itself would have blocked the walk *)
      clear - Eb Ea. revert Eb Ea. generalize (abs s). generalize l. induction p as [|l2 p IH]; intros l0 m Eb Ea.
      + cbn in Eb. rewrite Ea in Eb. discriminate.
      + cbn [blockedn] in Eb. apply orb_false_iff in Eb. destruct Eb as [_ Eb].
        apply (IH l2 (shift l0 m)); [exact Eb | exact Ea].
    - eexists. reflexivity. }
  destruct Hn as [x Hx]. rewrite Hx in *. split; [|exists x; reflexivity].
  cbn [step step_gen snd fst]. rewrite Hl. unfold abs in Hq.
  destruct (lookup (levels_of nm) s') as [[y k|j y]|]; cbn in Hq; try discriminate.
  inversion Hq; subst. reflexivity.
Qed.

(* an entry that is neither the target nor one of its prefixes is untouched by a step *)
Lemma step_frame s o q : wf_forest [] s ->
  (forall n, op_name o = Some n -> path_eqb q (levels_of n) = false /\ pprefix q (levels_of n) = false) ->
  abs (fst (step s o)) q = abs s q.
Proof.
  intros Hwf Hq. destruct (step_refines s o Hwf) as [_ H]. rewrite H. clear H.
  assert (Hadd : forall i n, path_eqb q (levels_of n) = false -> pprefix q (levels_of n) = false ->
            fst (a_add (abs s) i n) q = abs s q).
  { intros i n H1 H2. unfold a_add. destruct (is_empty n); [reflexivity|].
    destruct (existsb is_empty (levels_of n)); [reflexivity|]. destruct (blocked (abs s) (levels_of n)); [reflexivity|].
    destruct (negb (is_none (abs s (levels_of n)))); [reflexivity|]. cbn [fst]. unfold a_place. rewrite H1, H2. reflexivity. }
  assert (Hnode : forall n, path_eqb q (levels_of n) = false -> pprefix q (levels_of n) = false ->
            fst (a_addnode (abs s) n) q = abs s q).
  { intros n H1 H2. unfold a_addnode. destruct (existsb is_empty (levels_of n)); [reflexivity|].
    destruct (blockedn (abs s) (levels_of n)); [reflexivity|]. cbn [fst]. unfold a_fill. rewrite H1, H2. reflexivity. }
  destruct o; cbn [a_step fst]; try reflexivity; destruct (Hq name eq_refl) as [H1 H2].
  - apply Hadd; assumption.
  - apply Hnode; assumption.
  - unfold a_change. destruct (is_share (abs s (levels_of name))); [|reflexivity]. cbn [fst]. unfold a_put. rewrite H1. reflexivity.
  - destruct (abs s (levels_of name)) as [[x|j x]|]; try (apply Hadd; rewrite levels_of_strip; assumption). reflexivity.
  - destruct (abs s (levels_of name)) as [[x|j x]|]; try (apply Hnode; assumption). reflexivity.
Qed.

(* ------------------------------------------- the code as found: refutation witnesses *)
Definition w_new_x : str := [110; 101; 119; 46; 46; 120].          (* "new..x" *)
Definition w_nn_mm_x : str := [110; 110; 46; 109; 109; 46; 46; 120]. (* "nn.mm..x" *)
Definition w_dot : str := [46].                                     (* "." *)

Lemma orig_refuted_witness :
  (snd (step_orig init (Add 1 w_new_x)) = RErr /\ forest_eqb (fst (step_orig init (Add 1 w_new_x))) init = false) /\
  (snd (step_orig init (AddNode w_nn_mm_x)) = RErr /\ forest_eqb (fst (step_orig init (AddNode w_nn_mm_x))) init = false) /\
  (has_empty_segment (Add 1 w_dot) = true /\ snd (step_orig init (Add 1 w_dot)) = RShare 1 w_dot).
Proof. vm_compute. repeat split; reflexivity. Qed.


Lemma orig_debris :
  exists s o, wf_forest [] s /\ snd (step_orig s o) = RErr /\ forest_eqb (fst (step_orig s o)) s = false.
Proof.
  exists init, (Add 1 w_new_x). split; [apply wf_init|]. exact (proj1 orig_refuted_witness).
Qed.
Lemma orig_dot_accepted :
  exists o, is_mutator o = true /\ has_empty_segment o = true /\ snd (step_orig init o) <> RErr.
Proof.
  exists (Add 1 w_dot). split; [reflexivity|]. destruct orig_refuted_witness as (_ & _ & H1 & H2).
  split; [exact H1|]. rewrite H2. discriminate.
Qed.
