(* C18 -- "each lookup returns exactly the object most recently placed at that path, or nothing",
   as an explicit scan of the operation history; derived from the refinement theorems *)
From Coq Require Import List ZArith Bool Lia.
Import ListNotations.
Require Import V.C18.Model V.C18.Proofs V.C18.Refine.
Open Scope Z_scope.

Lemma pprefix_split (p : path) : forall lv, pprefix p lv = true -> exists q, q <> [] /\ lv = p ++ q.
Proof.
  induction p as [|x p IH]; intros [|y lv] H; cbn in H; try discriminate.
  - exists (y :: lv). split; [discriminate|reflexivity].
  - apply andb_true_iff in H. destruct H as [E H]. apply str_eqb_eq in E. subst y.
    destruct (IH _ H) as (q & Hq & ->). exists q. split; [exact Hq|reflexivity].
Qed.

(* prefix closure, read through abs *)
Lemma abs_closed s (p lv : path) : on_or_above p lv = true -> abs s lv <> None -> abs s p <> None.
Proof.
  unfold on_or_above. intros H Hlv. apply andb_true_iff in H. destruct H as [H Hne].
  apply orb_true_iff in H. destruct H as [H|H].
  - apply path_eqb_eq in H. subst. exact Hlv.
  - destruct (pprefix_split _ _ H) as (q & Hq & ->). unfold abs in *.
    destruct (lookup (p ++ q) s) as [t|] eqn:E; [|exfalso; apply Hlv; reflexivity].
    assert (Hp : p <> []) by (destruct p; [discriminate|discriminate]).
    destruct (lookup_prefix p q s t Hp Hq E) as (nm & kids & Hl & _). rewrite Hl. discriminate.
Qed.

Lemma blockedn_full (p : path) : forall m : amap, p <> [] -> blockedn m p = false -> is_share (m p) = false.
Proof.
  induction p as [|l p IH]; intros m Hne Hb; [congruence|].
  cbn [blockedn] in Hb. apply orb_false_iff in Hb. destruct Hb as [H1 H2].
  destruct p as [|l2 p2]; [exact H1|]. apply (IH (shift l m)); [discriminate|exact H2].
Qed.

Definition apply_placement (pl : placement) (old : option obj) : option obj :=
  match pl with
  | Definitely v => Some v
  | IfVacant v => match old with None => Some v | x => x end
  | NoEffect => old
  end.

Lemma place_shape (m : amap) lv v p :
  a_place m lv v p = if path_eqb p lv then Some v
                     else if on_or_above p lv then (match m p with None => Some (ONode (join_dots p)) | x => x end) else m p.
Proof.
  unfold a_place, on_or_above. destruct (path_eqb p lv); [reflexivity|]. cbn [orb].
  destruct (pprefix p lv && negb (is_empty_path p)); cbn [andb]; [|reflexivity]. destruct (m p); reflexivity.
Qed.
Lemma fill_shape (m : amap) lv p :
  a_fill m lv p = if on_or_above p lv then (match m p with None => Some (ONode (join_dots p)) | x => x end) else m p.
Proof.
  unfold a_fill, on_or_above. destruct ((path_eqb p lv || pprefix p lv) && negb (is_empty_path p)); cbn [andb]; [|reflexivity].
  destruct (m p); reflexivity.
Qed.

(* one answered operation changes the map exactly by what [places] says *)
Lemma step_places s o p : wf_forest [] s ->
  abs (fst (step s o)) p = apply_placement (places o (snd (step s o)) p) (abs s p).
Proof.
  intros Hwf. destruct (step_refines s o Hwf) as [Hr Hq]. rewrite Hq, Hr. clear Hr Hq.
  set (m := abs s).
  assert (Hclosed : forall lv, on_or_above p lv = true -> m lv <> None -> m p <> None) by (intros lv; apply abs_closed).
  assert (Hadd : forall i n, is_none (m (levels_of n)) = true \/ True ->
     fst (a_add m i n) p = apply_placement
       (match snd (a_add m i n) with
        | RErr | RNone | ROther | RCrash => NoEffect
        | _ => if path_eqb p (levels_of n) then Definitely (OShare i n)
               else if on_or_above p (levels_of n) then IfVacant (ONode (join_dots p)) else NoEffect end) (m p)).
  { intros i n _. unfold a_add. destruct (is_empty n); [reflexivity|]. destruct (existsb is_empty (levels_of n)); [reflexivity|].
    destruct (blocked m (levels_of n)); [reflexivity|]. destruct (negb (is_none (m (levels_of n)))); [reflexivity|].
    cbn [fst snd]. rewrite place_shape. destruct (path_eqb p (levels_of n)); [reflexivity|].
    destruct (on_or_above p (levels_of n)); cbn; destruct (m p); reflexivity. }
  assert (Hnode : forall n,
     fst (a_addnode m n) p = apply_placement
       (match snd (a_addnode m n) with
        | RErr | RNone | ROther | RCrash => NoEffect
        | _ => if on_or_above p (levels_of n) then IfVacant (ONode (join_dots p)) else NoEffect end) (m p)).
  { intros n. unfold a_addnode. destruct (existsb is_empty (levels_of n)); [reflexivity|].
    destruct (blockedn m (levels_of n)) eqn:Eb; [reflexivity|]. cbn [fst snd].
    assert (Hres : exists x, ares (a_fill m (levels_of n) (levels_of n)) = RNode x).
    { pose proof (blockedn_full _ m (levels_nonempty n) Eb) as Hs. rewrite fill_shape.
      assert (Hoo : on_or_above (levels_of n) (levels_of n) = true).
      { unfold on_or_above. rewrite path_eqb_refl. pose proof (levels_nonempty n). destruct (levels_of n); [congruence|reflexivity]. }
      rewrite Hoo. destruct (m (levels_of n)) as [[x|j x]|]; try discriminate; eexists; reflexivity. }
    destruct Hres as [x ->]. rewrite fill_shape. destruct (on_or_above p (levels_of n)); cbn; destruct (m p); reflexivity. }
  destruct o; cbn [a_step places]; try reflexivity.
  - (* Add *) apply Hadd. right. exact I.
  - (* AddNode *) apply Hnode.
  - (* Change *) unfold a_change. destruct (is_share (m (levels_of name))); cbn [fst snd]; [|reflexivity].
    unfold a_put. cbn [places apply_placement]. destruct (path_eqb p (levels_of name)); reflexivity.
  - (* Create *) destruct (m (levels_of name)) as [[x|j x]|] eqn:Em.
    + (* a node sits there: create = add, rejected or not, same shape with the stripped name *)
      pose proof (Hadd id (strip_dots name) (or_intror I)) as H. rewrite levels_of_strip in H. rewrite H. clear H.
      unfold a_add. destruct (is_empty (strip_dots name)); [reflexivity|]. rewrite levels_of_strip.
      destruct (existsb is_empty (levels_of name)); [reflexivity|]. destruct (blocked m (levels_of name)); [reflexivity|].
      rewrite Em. reflexivity.
    + (* an existing share is returned, nothing changes *)
      cbn [fst snd places]. destruct (path_eqb p (levels_of name)) eqn:Ep.
      * apply path_eqb_eq in Ep. subst p. cbn. rewrite Em. reflexivity.
      * destruct (on_or_above p (levels_of name)) eqn:Eo; [|reflexivity]. cbn.
        pose proof (Hclosed _ Eo) as Hc. rewrite Em in Hc. destruct (m p); [reflexivity|]. exfalso. apply Hc; [discriminate|reflexivity].
    + pose proof (Hadd id (strip_dots name) (or_intror I)) as H. rewrite levels_of_strip in H. rewrite H. clear H.
      unfold a_add. destruct (is_empty (strip_dots name)); [reflexivity|]. rewrite levels_of_strip.
      destruct (existsb is_empty (levels_of name)); [reflexivity|]. destruct (blocked m (levels_of name)); [reflexivity|].
      rewrite Em. cbn [is_none negb snd places]. destruct (path_eqb p (levels_of name)) eqn:Ep; [|reflexivity].
      apply path_eqb_eq in Ep. subst p. cbn. rewrite Em. reflexivity.
  - (* CreateNode *) destruct (m (levels_of name)) as [[x|j x]|] eqn:Em; try apply Hnode.
    cbn [fst snd places]. destruct (on_or_above p (levels_of name)) eqn:Eo; [|reflexivity]. cbn.
    pose proof (Hclosed _ Eo) as Hc. rewrite Em in Hc. destruct (m p); [reflexivity|]. exfalso. apply Hc; [discriminate|reflexivity].
  - (* Fetch *) cbn [fst snd]. destruct (ares (m (levels_of name))); reflexivity.
  - cbn [fst snd]. destruct (m (levels_of name)) as [[x|j x]|]; reflexivity.
  - cbn [fst snd]. destruct (m (levels_of name)) as [[x|j x]|]; reflexivity.
Qed.

Lemma hist_snoc ops : forall s o, hist_from s (ops ++ [o]) = hist_from s ops ++ [(o, snd (step (run_from s ops) o))].
Proof.
  induction ops as [|x ops IH]; intros s o; [reflexivity|]. cbn. rewrite IH. reflexivity.
Qed.

(* THE history theorem: what a path holds after any history is what a backward scan of the
   history finds as the most recent placement there (or what the fresh store held, or nothing) *)
Lemma abs_is_last_placed ops p : abs (run ops) p = last_placed ops p.
Proof.
  unfold last_placed. induction ops as [|o ops IH] using rev_ind; [reflexivity|].
  rewrite run_snoc. unfold run at 1. rewrite hist_snoc. rewrite rev_app_distr. cbn [rev app scan].
  fold (run ops). rewrite (step_places _ _ _ (wf_run ops)). rewrite IH.
  destruct (places o (snd (step (run ops) o)) p); cbn; try reflexivity.
  destruct (scan (rev (hist_from init ops)) p); reflexivity.
Qed.

Lemma fetch_is_last_placed ops n :
  snd (step (run ops) (Fetch n)) = ares (last_placed ops (levels_of n)) /\
  snd (step (run ops) (FetchShare n)) = (match last_placed ops (levels_of n) with Some (OShare j nm) => RShare j nm | _ => RNone end) /\
  snd (step (run ops) (FetchNode n)) = (match last_placed ops (levels_of n) with Some (ONode nm) => RNode nm | _ => RNone end).
Proof.
  rewrite <- abs_is_last_placed. unfold abs. cbn [step step_gen snd].
  destruct (lookup (levels_of n) (run ops)) as [[x k|j x]|]; repeat split; reflexivity.
Qed.

(* ------------------------------------------------ where a share in the tree came from *)
Lemma scan_share_origin l q j nm : scan l q = Some (OShare j nm) ->
  abs init q = Some (OShare j nm) \/
  exists o r n, In (o, r) l /\ op_id o = Some j /\ op_name o = Some n /\ levels_of n = q.
Proof.
  induction l as [|[o r] older IH]; cbn [scan]; intros H; [left; exact H|].
  assert (Hold : scan older q = Some (OShare j nm) ->
            abs init q = Some (OShare j nm) \/
            exists o0 r0 n, In (o0, r0) ((o, r) :: older) /\ op_id o0 = Some j /\ op_name o0 = Some n /\ levels_of n = q).
  { intros H'. destruct (IH H') as [Hi|(o0 & r0 & n & Hin & Hr)]; [left; exact Hi|].
    right. exists o0, r0, n. split; [right; exact Hin|exact Hr]. }
  assert (Hme : forall n, op_id o = Some j -> op_name o = Some n -> path_eqb q (levels_of n) = true ->
            exists o0 r0 n0, In (o0, r0) ((o, r) :: older) /\ op_id o0 = Some j /\ op_name o0 = Some n0 /\ levels_of n0 = q).
  { intros n H1 H2 H3. exists o, r, n. split; [left; reflexivity|]. apply path_eqb_eq in H3. auto. }
  destruct (places o r q) as [v|v|] eqn:Ep; [| |apply Hold; exact H].
  - inversion H; subst v. right. unfold places in Ep.
    destruct r; try discriminate; destruct o; try discriminate;
      repeat match type of Ep with (if ?c then _ else _) = _ => destruct c eqn:?; try discriminate end;
      inversion Ep; subst; eapply Hme; try reflexivity; assumption.
  - destruct (scan older q) as [x|] eqn:Es; [apply Hold; exact H|].
    inversion H; subst v. right. unfold places in Ep.
    destruct r; try discriminate; destruct o; try discriminate;
      repeat match type of Ep with (if ?c then _ else _) = _ => destruct c eqn:?; try discriminate end;
      inversion Ep; subst; eapply Hme; try reflexivity; assumption.
Qed.

Lemma share_origin_l ops q j nm : abs (run ops) q = Some (OShare j nm) ->
  abs init q = Some (OShare j nm) \/
  exists o n, In o ops /\ op_id o = Some j /\ op_name o = Some n /\ levels_of n = q.
Proof.
  rewrite abs_is_last_placed. unfold last_placed. intros H.
  destruct (scan_share_origin _ _ _ _ H) as [Hi|(o & r & n & Hin & H1 & H2 & H3)]; [left; exact Hi|].
  right. exists o, n. split; [|auto]. apply in_rev in Hin.
  clear - Hin. revert Hin. generalize init. induction ops as [|x ops IH]; intros s Hin; [destruct Hin|].
  cbn in Hin. destruct Hin as [Hin|Hin]; [inversion Hin; left; reflexivity | right; apply (IH _ Hin)].
Qed.

(* ------------------------------------------- change: the replaced share is gone for good *)
Definition ids (ops : list op) : list Z := flat_map (fun o => match op_id o with Some x => [x] | None => [] end) ops.

Lemma ids_in ops o j : In o ops -> op_id o = Some j -> In j (ids ops).
Proof. intros Hin Hid. unfold ids. apply in_flat_map. exists o. split; [exact Hin|]. rewrite Hid. left. reflexivity. Qed.

Lemma ids_unique ops : NoDup (ids ops) -> forall o1 o2 j, In o1 ops -> In o2 ops -> op_id o1 = Some j -> op_id o2 = Some j -> o1 = o2.
Proof.
  induction ops as [|x ops IH]; intros Hnd o1 o2 j H1 H2 E1 E2; [destruct H1|].
  unfold ids in Hnd. cbn [flat_map] in Hnd. fold (ids ops) in Hnd.
  assert (Hx : forall o, In o ops -> op_id o = Some j -> op_id x = Some j -> False).
  { intros o Ho Eo Ex. rewrite Ex in Hnd. cbn in Hnd. inversion Hnd; subst. apply H3. apply (ids_in _ _ _ Ho Eo). }
  assert (Hnd' : NoDup (ids ops)).
  { destruct (op_id x); [cbn in Hnd; inversion Hnd; assumption | exact Hnd]. }
  destruct H1 as [<-|H1], H2 as [<-|H2]; [reflexivity | exfalso; apply (Hx _ H2 E2 E1) | exfalso; apply (Hx _ H1 E1 E2) | apply (IH Hnd' _ _ j); assumption].
Qed.

Lemma init_share_negative q j nm : abs init q = Some (OShare j nm) -> j < 0.
Proof.
  unfold abs. destruct q as [|l q]; [discriminate|]. destruct (nil_or_not q) as [->|Hq].
  - rewrite lookup_one. cbn. repeat (match goal with |- context [str_eqb l ?k] => destruct (str_eqb l k) end; cbn);
      intros H; inversion H; lia.
  - rewrite (lookup_step _ _ _ Hq). cbn. repeat (match goal with |- context [str_eqb l ?k] => destruct (str_eqb l k) end; cbn);
      try discriminate. intros H. rewrite lookup_nil in H. discriminate.
Qed.

Lemma NoDup_snoc_inv {A} (l : list A) x : NoDup (l ++ [x]) -> NoDup l /\ ~ In x l.
Proof.
  induction l as [|y l IH]; cbn; intros H; [split; [constructor|tauto]|].
  inversion H; subst. destruct (IH H3) as [H4 H5]. split.
  - constructor; [|exact H4]. intros Hy. apply H2. apply in_or_app. left. exact Hy.
  - intros [->|Hx]; [apply H2; apply in_or_app; right; left; reflexivity | contradiction].
Qed.

Lemma replaced_share_unreachable_l ops i n j nmj :
  NoDup (ids ops ++ [i]) -> (forall x, In x (ids ops ++ [i]) -> 0 <= x) ->
  abs (run ops) (levels_of n) = Some (OShare j nmj) ->
  snd (step (run ops) (Change i n)) = RShare i n /\
  abs (run (ops ++ [Change i n])) (levels_of n) = Some (OShare i n) /\
  (0 <= j -> forall q nm', abs (run (ops ++ [Change i n])) q <> Some (OShare j nm')).
Proof.
  intros Hnd Hpos Hat.
  assert (Hres : snd (step (run ops) (Change i n)) = RShare i n).
  { destruct (step_refines (run ops) (Change i n) (wf_run ops)) as [Hr _]. rewrite Hr. cbn [a_step]. unfold a_change.
    rewrite Hat. reflexivity. }
  assert (Hafter : forall q, abs (run (ops ++ [Change i n])) q = if path_eqb q (levels_of n) then Some (OShare i n) else abs (run ops) q).
  { intros q. rewrite run_snoc. rewrite (step_places _ _ _ (wf_run ops)). rewrite Hres. cbn [places apply_placement].
    destruct (path_eqb q (levels_of n)); reflexivity. }
  split; [exact Hres|]. split; [rewrite Hafter, path_eqb_refl; reflexivity|].
  intros Hj q nm' Hq. rewrite Hafter in Hq.
  destruct (NoDup_snoc_inv _ _ Hnd) as [Hnd1 Hi].
  destruct (share_origin_l _ _ _ _ Hat) as [Hinit|(o2 & n2 & Hin2 & Hid2 & Hn2 & Hl2)];
    [apply init_share_negative in Hinit; lia|].
  destruct (path_eqb q (levels_of n)) eqn:Ep.
  - inversion Hq; subst. apply Hi. apply (ids_in _ _ _ Hin2 Hid2).
  - destruct (share_origin_l _ _ _ _ Hq) as [Hinit|(o1 & n1 & Hin1 & Hid1 & Hn1 & Hl1)];
      [apply init_share_negative in Hinit; lia|].
    pose proof (ids_unique ops Hnd1 o1 o2 j Hin1 Hin2 Hid1 Hid2) as Heq. subst o2.
    rewrite Hn1 in Hn2. inversion Hn2; subst n2. rewrite Hl1 in Hl2. subst q. rewrite path_eqb_refl in Ep. discriminate.
Qed.
