(* C18 -- lemmas: basics, rejected operations leave the store unchanged, invariant *)
From Coq Require Import List ZArith Bool Lia.
Import ListNotations.
Require Import V.C18.Model.
Open Scope Z_scope.

(* ------------------------------------------------------------------ equality tests *)
Lemma str_eqb_eq a : forall b, str_eqb a b = true <-> a = b.
Proof.
  induction a as [|x a IH]; intros [|y b]; cbn; split; intros H; try reflexivity; try discriminate.
  - apply andb_true_iff in H. destruct H as [H1 H2]. apply Z.eqb_eq in H1. apply IH in H2. congruence.
  - inversion H; subst. rewrite Z.eqb_refl. cbn. apply IH. reflexivity.
Qed.
Lemma str_eqb_refl a : str_eqb a a = true.
Proof. apply str_eqb_eq. reflexivity. Qed.
Lemma str_eqb_neq a b : str_eqb a b = false <-> a <> b.
Proof.
  split; intros H.
  - intros E. apply str_eqb_eq in E. congruence.
  - destruct (str_eqb a b) eqn:E; [|reflexivity]. apply str_eqb_eq in E. contradiction.
Qed.
Lemma str_eqb_sym a b : str_eqb a b = str_eqb b a.
Proof.
  destruct (str_eqb a b) eqn:E.
  - apply str_eqb_eq in E. subst. symmetry. apply str_eqb_refl.
  - symmetry. apply str_eqb_neq. apply str_eqb_neq in E. congruence.
Qed.
Lemma path_eqb_eq a : forall b, path_eqb a b = true <-> a = b.
Proof.
  induction a as [|x a IH]; intros [|y b]; cbn; split; intros H; try reflexivity; try discriminate.
  - apply andb_true_iff in H. destruct H as [H1 H2]. apply str_eqb_eq in H1. apply IH in H2. congruence.
  - inversion H; subst. rewrite str_eqb_refl. cbn. apply IH. reflexivity.
Qed.
Lemma path_eqb_refl a : path_eqb a a = true.
Proof. apply path_eqb_eq. reflexivity. Qed.
Lemma is_empty_true s : is_empty s = true <-> s = [].
Proof. destruct s; cbn; split; congruence. Qed.

(* ------------------------------------------------------------------------- odict *)
Lemma ffind_fset_same k v f : ffind k (fset k v f) = Some v.
Proof.
  induction f as [|k' t rest IH]; cbn.
  - rewrite str_eqb_refl. reflexivity.
  - destruct (str_eqb k k') eqn:E; cbn; rewrite E; [reflexivity | exact IH].
Qed.
Lemma ffind_fset_other k k' v f : str_eqb k' k = false -> ffind k' (fset k v f) = ffind k' f.
Proof.
  intros Hne. induction f as [|k2 t rest IH]; cbn.
  - rewrite Hne. reflexivity.
  - destruct (str_eqb k k2) eqn:E; cbn.
    + apply str_eqb_eq in E. subst k2. rewrite Hne. reflexivity.
    + rewrite IH. reflexivity.
Qed.
Lemma fset_same_id k v f : ffind k f = Some v -> fset k v f = f.
Proof.
  induction f as [|k' t rest IH]; cbn; [discriminate|].
  destruct (str_eqb k k') eqn:E; intros H.
  - congruence.
  - rewrite (IH H). reflexivity.
Qed.

(* ------------------------------------------------------------- unfolding equations *)
Lemma add_walk_tail chk pre l sh f :
  add_walk chk pre [l] sh f = match ffind l f with Some _ => (f, false) | None => (fset l sh f, true) end.
Proof. reflexivity. Qed.
Lemma add_walk_cons chk pre l l2 lv2 sh f :
  add_walk chk pre (l :: l2 :: lv2) sh f =
    if chk && is_empty l then (f, false) else
    match ffind l f with
    | Some (TShare _ _) => (f, false)
    | Some (TNode nm kids) =>
        let '(kids', ok) := add_walk chk (pre ++ [l]) (l2 :: lv2) sh kids in (fset l (TNode nm kids') f, ok)
    | None =>
        let '(kids', ok) := add_walk chk (pre ++ [l]) (l2 :: lv2) sh FNil in
        (fset l (TNode (join_dots (pre ++ [l])) kids') f, ok)
    end.
Proof. reflexivity. Qed.
Lemma node_walk_cons chk cur pre l lv f :
  node_walk chk cur pre (l :: lv) f =
    if chk && is_empty l then (f, None) else
    match ffind l f with
    | Some (TShare _ _) => (f, None)
    | Some (TNode nm kids) =>
        let '(kids', r) := node_walk chk nm (pre ++ [l]) lv kids in (fset l (TNode nm kids') f, r)
    | None =>
        let nm := join_dots (pre ++ [l]) in
        let '(kids', r) := node_walk chk nm (pre ++ [l]) lv FNil in (fset l (TNode nm kids') f, r)
    end.
Proof. reflexivity. Qed.
Lemma change_walk_tail l sh f :
  change_walk [l] sh f = match ffind l f with Some (TShare _ _) => (fset l sh f, true) | _ => (f, false) end.
Proof. reflexivity. Qed.
Lemma change_walk_cons l l2 lv2 sh f :
  change_walk (l :: l2 :: lv2) sh f =
    if is_empty l then (f, false) else
    match ffind l f with
    | Some (TNode nm kids) =>
        let '(kids', ok) := change_walk (l2 :: lv2) sh kids in (fset l (TNode nm kids') f, ok)
    | _ => (f, false)
    end.
Proof. reflexivity. Qed.
Lemma lookup_one l f : lookup [l] f = ffind l f.
Proof. cbn. destruct (ffind l f); reflexivity. Qed.
Lemma lookup_cons l l2 lv2 f :
  lookup (l :: l2 :: lv2) f =
    match ffind l f with Some (TNode _ kids) => lookup (l2 :: lv2) kids | _ => None end.
Proof. cbn. destruct (ffind l f) as [[? ?|? ?]|]; reflexivity. Qed.

Lemma nil_or_not {A} (l : list A) : l = [] \/ l <> [].
Proof. destruct l; [left; reflexivity | right; discriminate]. Qed.
Lemma add_walk_step chk pre l lv sh f : lv <> [] ->
  add_walk chk pre (l :: lv) sh f =
    if chk && is_empty l then (f, false) else
    match ffind l f with
    | Some (TShare _ _) => (f, false)
    | Some (TNode nm kids) =>
        let '(kids', ok) := add_walk chk (pre ++ [l]) lv sh kids in (fset l (TNode nm kids') f, ok)
    | None =>
        let '(kids', ok) := add_walk chk (pre ++ [l]) lv sh FNil in
        (fset l (TNode (join_dots (pre ++ [l])) kids') f, ok)
    end.
Proof. destruct lv; [congruence | reflexivity]. Qed.
Lemma change_walk_step l lv sh f : lv <> [] ->
  change_walk (l :: lv) sh f =
    if is_empty l then (f, false) else
    match ffind l f with
    | Some (TNode nm kids) =>
        let '(kids', ok) := change_walk lv sh kids in (fset l (TNode nm kids') f, ok)
    | _ => (f, false)
    end.
Proof. destruct lv; [congruence | reflexivity]. Qed.
Lemma lookup_step l lv f : lv <> [] ->
  lookup (l :: lv) f = match ffind l f with Some (TNode _ kids) => lookup lv kids | _ => None end.
Proof. destruct lv; [congruence | intros _; apply lookup_cons]. Qed.

(* ------------------------------------------- rejected operations change nothing (fixed) *)
(* a walk into an empty odict cannot fail once the levels are validated *)
Lemma add_walk_nil_ok (lv : path) : forall pre sh, lv <> [] -> snd (add_walk false pre lv sh FNil) = true.
Proof.
  induction lv as [|l lv IH]; intros pre sh Hne; [congruence|].
  destruct lv as [|l2 lv2]; [reflexivity|].
  rewrite add_walk_cons. cbn [andb ffind].
  destruct (add_walk false (pre ++ [l]) (l2 :: lv2) sh FNil) as [k ok] eqn:E.
  cbn. specialize (IH (pre ++ [l]) sh). rewrite E in IH. apply IH. discriminate.
Qed.

Lemma add_walk_rejected (lv : path) : forall pre sh f,
  snd (add_walk false pre lv sh f) = false -> fst (add_walk false pre lv sh f) = f.
Proof.
  induction lv as [|l lv IH]; intros pre sh f H; [reflexivity|].
  destruct lv as [|l2 lv2].
  - rewrite add_walk_tail in *. destruct (ffind l f); [reflexivity | discriminate].
  - rewrite add_walk_cons in *. cbn [andb] in *.
    destruct (ffind l f) as [[nm kids|i nm]|] eqn:Ef; [| reflexivity |].
    + destruct (add_walk false (pre ++ [l]) (l2 :: lv2) sh kids) as [k ok] eqn:E.
      cbn in *. subst ok. specialize (IH (pre ++ [l]) sh kids). rewrite E in IH. cbn in IH.
      rewrite (IH eq_refl). apply fset_same_id. exact Ef.
    + pose proof (add_walk_nil_ok (l2 :: lv2) (pre ++ [l]) sh ltac:(discriminate)) as Hok.
      destruct (add_walk false (pre ++ [l]) (l2 :: lv2) sh FNil) as [k ok] eqn:E.
      cbn in *. congruence.
Qed.

Lemma node_walk_nil_ok (lv : path) : forall cur pre, snd (node_walk false cur pre lv FNil) <> None.
Proof.
  induction lv as [|l lv IH]; intros cur pre; [discriminate|].
  rewrite node_walk_cons. cbn [andb ffind]. cbv zeta.
  destruct (node_walk false (join_dots (pre ++ [l])) (pre ++ [l]) lv FNil) as [k r] eqn:E.
  cbn. specialize (IH (join_dots (pre ++ [l])) (pre ++ [l])). rewrite E in IH. exact IH.
Qed.

Lemma node_walk_rejected (lv : path) : forall cur pre f,
  snd (node_walk false cur pre lv f) = None -> fst (node_walk false cur pre lv f) = f.
Proof.
  induction lv as [|l lv IH]; intros cur pre f H; [reflexivity|].
  rewrite node_walk_cons in *. cbn [andb] in *. cbv zeta in *.
  destruct (ffind l f) as [[nm kids|i nm]|] eqn:Ef; [| reflexivity |].
  - destruct (node_walk false nm (pre ++ [l]) lv kids) as [k r] eqn:E.
    cbn in *. subst r. specialize (IH nm (pre ++ [l]) kids). rewrite E in IH. cbn in IH.
    rewrite (IH eq_refl). apply fset_same_id. exact Ef.
  - pose proof (node_walk_nil_ok lv (join_dots (pre ++ [l])) (pre ++ [l])) as Hok.
    destruct (node_walk false (join_dots (pre ++ [l])) (pre ++ [l]) lv FNil) as [k r] eqn:E.
    cbn in *. congruence.
Qed.

Lemma change_walk_rejected (lv : path) : forall sh f,
  snd (change_walk lv sh f) = false -> fst (change_walk lv sh f) = f.
Proof.
  induction lv as [|l lv IH]; intros sh f H; [reflexivity|].
  destruct lv as [|l2 lv2].
  - rewrite change_walk_tail in *. destruct (ffind l f) as [[nm kids|i nm]|]; try reflexivity. discriminate.
  - rewrite change_walk_cons in *. destruct (is_empty l); [reflexivity|].
    destruct (ffind l f) as [[nm kids|i nm]|] eqn:Ef; try reflexivity.
    destruct (change_walk (l2 :: lv2) sh kids) as [k ok] eqn:E.
    cbn in *. subst ok. specialize (IH sh kids). rewrite E in IH. cbn in IH.
    rewrite (IH eq_refl). apply fset_same_id. exact Ef.
Qed.

Lemma do_add_rejected s i name : snd (do_add true s i name) = RErr -> fst (do_add true s i name) = s.
Proof.
  unfold do_add. destruct (is_empty name); [reflexivity|]. cbn [andb negb].
  destruct (existsb is_empty (levels_of name)); [reflexivity|].
  pose proof (add_walk_rejected (levels_of name) [] (TShare i name) s) as H.
  destruct (add_walk false [] (levels_of name) (TShare i name) s) as [s' ok]. cbn in *.
  destruct ok; [discriminate|]. intros _. apply H. reflexivity.
Qed.
Lemma do_addnode_rejected s name : snd (do_addnode true s name) = RErr -> fst (do_addnode true s name) = s.
Proof.
  unfold do_addnode. cbn [andb negb].
  destruct (existsb is_empty (levels_of name)); [reflexivity|].
  pose proof (node_walk_rejected (levels_of name) [] [] s) as H.
  destruct (node_walk false [] [] (levels_of name) s) as [s' r]. cbn in *.
  destruct r; [discriminate|]. intros _. apply H. reflexivity.
Qed.
Lemma do_change_rejected s i name : snd (do_change s i name) = RErr -> fst (do_change s i name) = s.
Proof.
  unfold do_change.
  pose proof (change_walk_rejected (levels_of name) (TShare i name) s) as H.
  destruct (change_walk (levels_of name) (TShare i name) s) as [s' ok]. cbn in *.
  destruct ok; [discriminate|]. intros _. apply H. reflexivity.
Qed.

Lemma step_rejected_unchanged s o : snd (step s o) = RErr -> fst (step s o) = s.
Proof.
  destruct o; unfold step; cbn [step_gen]; try (intros; reflexivity).
  - apply do_add_rejected.
  - apply do_addnode_rejected.
  - apply do_change_rejected.
  - destruct (lookup (levels_of name) s) as [[nm k|j nm]|]; try apply do_add_rejected. reflexivity.
  - destruct (lookup (levels_of name) s) as [[nm k|j nm]|]; try apply do_addnode_rejected. reflexivity.
Qed.

(* lookups never change the store *)
Lemma step_lookup_pure s o : is_mutator o = false -> fst (step s o) = s.
Proof. destruct o; cbn; intros H; try discriminate; reflexivity. Qed.

(* --------------------------------------------------------------------- invariant *)
Lemma wf_ffind pre f k t : wf_forest pre f -> ffind k f = Some t -> wf_tree (pre ++ [k]) t /\ k <> [].
Proof.
  induction f as [|k' t' rest IH]; cbn; [discriminate|].
  intros (Hk & Hnd & Ht & Hr). destruct (str_eqb k k') eqn:E.
  - apply str_eqb_eq in E. subst k'. intros H. inversion H; subst. split; assumption.
  - intros H. apply IH; assumption.
Qed.

Lemma wf_fset pre f k v : wf_forest pre f -> k <> [] -> wf_tree (pre ++ [k]) v -> wf_forest pre (fset k v f).
Proof.
  intros Hf Hk Hv. induction f as [|k' t' rest IH]; cbn.
  - repeat split; assumption.
  - destruct Hf as (Hk' & Hnd & Ht & Hr). destruct (str_eqb k k') eqn:E.
    + apply str_eqb_eq in E. subst k'. cbn. repeat split; assumption.
    + cbn. repeat split; try assumption.
      * rewrite ffind_fset_other; [assumption|]. rewrite str_eqb_sym. exact E.
      * apply IH. assumption.
Qed.

Lemma existsb_empty_false (lv : path) : existsb is_empty lv = false -> forall l, In l lv -> l <> [].
Proof.
  intros H l Hl E. subst l. assert (existsb is_empty lv = true); [|congruence].
  apply existsb_exists. exists []. split; [assumption|reflexivity].
Qed.

Lemma wf_add_walk (lv : path) : forall pre sh f,
  wf_forest pre f -> (forall l, In l lv -> l <> []) -> wf_tree (pre ++ lv) sh ->
  wf_forest pre (fst (add_walk false pre lv sh f)).
Proof.
  induction lv as [|l lv IH]; intros pre sh f Hf Hne Hsh; [exact Hf|].
  destruct (nil_or_not lv) as [->|Hlv].
  - rewrite add_walk_tail. destruct (ffind l f); [exact Hf|]. cbn [fst].
    apply wf_fset; [assumption | apply Hne; left; reflexivity | assumption].
  - rewrite (add_walk_step _ _ _ _ _ _ Hlv). cbn [andb].
    assert (Hl : l <> []) by (apply Hne; left; reflexivity).
    assert (Hne' : forall x, In x lv -> x <> []) by (intros x Hx; apply Hne; right; exact Hx).
    assert (Hsh' : wf_tree ((pre ++ [l]) ++ lv) sh) by (rewrite <- app_assoc; exact Hsh).
    destruct (ffind l f) as [[nm kids|i nm]|] eqn:Ef; [| exact Hf |].
    + destruct (wf_ffind _ _ _ _ Hf Ef) as [[Hnm Hk] _].
      pose proof (IH (pre ++ [l]) sh kids Hk Hne' Hsh') as H. revert H.
      destruct (add_walk false (pre ++ [l]) lv sh kids) as [k ok]. cbn [fst]. intros H.
      apply wf_fset; [assumption | assumption | split; assumption].
    + pose proof (IH (pre ++ [l]) sh FNil I Hne' Hsh') as H. revert H.
      destruct (add_walk false (pre ++ [l]) lv sh FNil) as [k ok]. cbn [fst]. intros H.
      apply wf_fset; [assumption | assumption | split; [reflexivity | assumption]].
Qed.

Lemma wf_node_walk (lv : path) : forall cur pre f,
  wf_forest pre f -> (forall l, In l lv -> l <> []) ->
  wf_forest pre (fst (node_walk false cur pre lv f)).
Proof.
  induction lv as [|l lv IH]; intros cur pre f Hf Hne; [exact Hf|].
  rewrite node_walk_cons. cbn [andb]. cbv zeta.
  assert (Hl : l <> []) by (apply Hne; left; reflexivity).
  assert (Hne' : forall x, In x lv -> x <> []) by (intros x Hx; apply Hne; right; exact Hx).
  destruct (ffind l f) as [[nm kids|i nm]|] eqn:Ef; [| exact Hf |].
  - destruct (wf_ffind _ _ _ _ Hf Ef) as [[Hnm Hk] _].
    pose proof (IH nm (pre ++ [l]) kids Hk Hne') as H. revert H.
    destruct (node_walk false nm (pre ++ [l]) lv kids) as [k r]. cbn [fst]. intros H.
    apply wf_fset; [assumption | assumption | split; assumption].
  - pose proof (IH (join_dots (pre ++ [l])) (pre ++ [l]) FNil I Hne') as H. revert H.
    destruct (node_walk false (join_dots (pre ++ [l])) (pre ++ [l]) lv FNil) as [k r]. cbn [fst]. intros H.
    apply wf_fset; [assumption | assumption | split; [reflexivity | assumption]].
Qed.

Lemma wf_change_walk (lv : path) : forall pre sh f,
  wf_forest pre f -> wf_tree (pre ++ lv) sh -> wf_forest pre (fst (change_walk lv sh f)).
Proof.
  induction lv as [|l lv IH]; intros pre sh f Hf Hsh; [exact Hf|].
  destruct (nil_or_not lv) as [->|Hlv].
  - rewrite change_walk_tail. destruct (ffind l f) as [[nm kids|i nm]|] eqn:Ef; try exact Hf. cbn [fst].
    destruct (wf_ffind _ _ _ _ Hf Ef) as [_ Hl]. apply wf_fset; assumption.
  - rewrite (change_walk_step _ _ _ _ Hlv). destruct (is_empty l); [exact Hf|].
    destruct (ffind l f) as [[nm kids|i nm]|] eqn:Ef; try exact Hf.
    destruct (wf_ffind _ _ _ _ Hf Ef) as [[Hnm Hk] Hl].
    assert (Hsh' : wf_tree ((pre ++ [l]) ++ lv) sh) by (rewrite <- app_assoc; exact Hsh).
    pose proof (IH (pre ++ [l]) sh kids Hk Hsh') as H. revert H.
    destruct (change_walk lv sh kids) as [k ok]. cbn [fst]. intros H.
    apply wf_fset; [assumption | assumption | split; assumption].
Qed.

Lemma wf_do_add s i name : wf_forest [] s -> wf_forest [] (fst (do_add true s i name)).
Proof.
  intros Hs. unfold do_add. destruct (is_empty name); [exact Hs|]. cbn [andb negb].
  destruct (existsb is_empty (levels_of name)) eqn:Ee; [exact Hs|].
  pose proof (wf_add_walk (levels_of name) [] (TShare i name) s Hs (existsb_empty_false _ Ee) eq_refl) as H.
  destruct (add_walk false [] (levels_of name) (TShare i name) s). exact H.
Qed.
Lemma wf_do_addnode s name : wf_forest [] s -> wf_forest [] (fst (do_addnode true s name)).
Proof.
  intros Hs. unfold do_addnode. cbn [andb negb].
  destruct (existsb is_empty (levels_of name)) eqn:Ee; [exact Hs|].
  pose proof (wf_node_walk (levels_of name) [] [] s Hs (existsb_empty_false _ Ee)) as H.
  destruct (node_walk false [] [] (levels_of name) s). exact H.
Qed.
Lemma wf_do_change s i name : wf_forest [] s -> wf_forest [] (fst (do_change s i name)).
Proof.
  intros Hs. unfold do_change.
  pose proof (wf_change_walk (levels_of name) [] (TShare i name) s Hs eq_refl) as H.
  destruct (change_walk (levels_of name) (TShare i name) s). exact H.
Qed.

Lemma wf_step s o : wf_forest [] s -> wf_forest [] (fst (step s o)).
Proof.
  intros Hs. destruct o; unfold step; cbn [step_gen fst]; try exact Hs.
  - apply wf_do_add; exact Hs.
  - apply wf_do_addnode; exact Hs.
  - apply wf_do_change; exact Hs.
  - destruct (lookup (levels_of name) s) as [[nm k|j nm]|]; try (apply wf_do_add; exact Hs). exact Hs.
  - destruct (lookup (levels_of name) s) as [[nm k|j nm]|]; try (apply wf_do_addnode; exact Hs). exact Hs.
Qed.

Lemma wf_init : wf_forest [] init.
Proof. cbn. repeat split; discriminate. Qed.

Lemma wf_run_from ops : forall s, wf_forest [] s -> wf_forest [] (run_from s ops).
Proof.
  induction ops as [|o ops IH]; intros s Hs; [exact Hs|].
  cbn. apply IH. apply wf_step. exact Hs.
Qed.
Lemma wf_run ops : wf_forest [] (run ops).
Proof. apply wf_run_from. apply wf_init. Qed.

(* what the invariant says about anything a lookup can return *)
Lemma wf_lookup (q : path) : forall pre f t, wf_forest pre f -> lookup q f = Some t -> wf_tree (pre ++ q) t.
Proof.
  induction q as [|l q IH]; intros pre f t Hf H; [discriminate|].
  destruct q as [|l2 q2].
  - rewrite lookup_one in H. apply (wf_ffind _ _ _ _ Hf H).
  - rewrite lookup_cons in H. destruct (ffind l f) as [[nm kids|i nm]|] eqn:Ef; try discriminate.
    destruct (wf_ffind _ _ _ _ Hf Ef) as [[Hnm Hk] _].
    replace (pre ++ l :: l2 :: q2) with ((pre ++ [l]) ++ l2 :: q2) by (rewrite <- app_assoc; reflexivity).
    apply (IH _ _ _ Hk H).
Qed.

Lemma wf_lookup_nonempty (q : path) : forall pre f t, wf_forest pre f -> lookup q f = Some t -> forall l, In l q -> l <> [].
Proof.
  induction q as [|l q IH]; intros pre f t Hf H x Hx; [destruct Hx|].
  destruct q as [|l2 q2].
  - rewrite lookup_one in H. destruct Hx as [<-|[]]. apply (wf_ffind _ _ _ _ Hf H).
  - rewrite lookup_cons in H. destruct (ffind l f) as [[nm kids|i nm]|] eqn:Ef; try discriminate.
    destruct (wf_ffind _ _ _ _ Hf Ef) as [[Hnm Hk] Hl].
    destruct Hx as [<-|Hx]; [exact Hl|]. apply (IH _ _ _ Hk H x Hx).
Qed.

(* the tree is prefix closed and a share has nothing below it: structural *)
Lemma lookup_prefix (p : path) : forall q f t, p <> [] -> q <> [] -> lookup (p ++ q) f = Some t ->
  exists nm kids, lookup p f = Some (TNode nm kids) /\ lookup q kids = Some t.
Proof.
  induction p as [|l p IH]; intros q f t Hp Hq H; [congruence|].
  destruct p as [|l2 p2].
  - cbn [app] in H. destruct q as [|q1 q2]; [congruence|]. rewrite lookup_cons in H. rewrite lookup_one.
    destruct (ffind l f) as [[nm kids|i nm]|]; try discriminate. exists nm, kids. split; [reflexivity|exact H].
  - cbn [app] in H. rewrite lookup_cons in H. rewrite lookup_cons.
    destruct (ffind l f) as [[nm kids|i nm]|]; try discriminate.
    apply (IH q kids t); [discriminate | exact Hq | exact H].
Qed.
