(* C18 -- property theorems only.  Each closed by [exact]; Print Assumptions beneath.
   [run ops] is the store after ANY sequence of add / addNode / change / create / createNode /
   fetch / fetchShare / fetchNode operations (and non-Share arguments) applied to a fresh Store;
   [step] is the FIXED behaviour (fixes/C18-*.patch), [step_orig] the code as found.        *)
From Coq Require Import List ZArith Bool.
Import ListNotations.
Require Import V.C18.Model V.C18.Proofs V.C18.Refine V.C18.Names V.C18.History.
Open Scope Z_scope.

(* An operation that is rejected (ValueError) leaves the store exactly as it was: same tree,
   same key order, same objects.  For every store state, reachable or not. *)
Theorem rejected_unchanged : forall s o, snd (step s o) = RErr -> fst (step s o) = s.
Proof. exact step_rejected_unchanged. Qed.
Print Assumptions rejected_unchanged.

(* Lookups never modify the store. *)
Theorem lookups_pure : forall s o, is_mutator o = false -> fst (step s o) = s.
Proof. exact step_lookup_pure. Qed.
Print Assumptions lookups_pure.

(* After any history the tree is well formed: keys are nonempty and distinct in every node,
   every node's name is its dotted path, every share's stripped name splits into its path. *)
Theorem wf_all_histories : forall ops, wf_forest [] (run ops).
Proof. exact wf_run. Qed.
Print Assumptions wf_all_histories.

(* names_inv: whatever sits at path q after any history records q as its own name. *)
Theorem names_inv : forall ops q,
  match lookup q (run ops) with
  | Some (TNode nm _) => nm = join_dots q
  | Some (TShare _ nm) => levels_of nm = q
  | None => True
  end.
Proof. exact names_of_lookup. Qed.
Print Assumptions names_inv.

(* ... and so does every object a fetch returns, for any dotted variant n of the path *)
Theorem fetched_names : forall ops n,
  match snd (step (run ops) (Fetch n)) with
  | RNode nm => nm = join_dots (levels_of n)
  | RShare _ nm => levels_of nm = levels_of n
  | _ => True
  end.
Proof. exact names_of_fetch. Qed.
Print Assumptions fetched_names.

(* Refinement: over every history the results returned by the store are exactly those of the
   abstract last-write-wins map  path -> Node name | Share id name  (a_step), and the tree read
   through lookups IS that map.  So each lookup returns exactly the object most recently placed
   at that path, or nothing. *)
Theorem run_refines : forall ops,
  results_from init ops = a_results_from a_init ops /\
  forall q, abs (run ops) q = a_run_from a_init ops q.
Proof. exact run_refines_init. Qed.
Print Assumptions run_refines.

(* MOST RECENTLY PLACED, over the operation history.  [hist_from init ops] pairs every operation with
   the answer the store gave; [last_placed ops p] scans it from the newest entry backwards for the last
   placement at path p ([places]: an accepted add/change places its share there, an answered
   create/addNode/createNode and the ancestors of an accepted add place something only where nothing
   older did; rejected operations and lookups place nothing; the scan ends at the fresh store).
   After ANY history the tree holds at every path exactly that object, or nothing ... *)
Theorem holds_last_placed : forall ops p, abs (run ops) p = last_placed ops p.
Proof. exact abs_is_last_placed. Qed.
Print Assumptions holds_last_placed.

(* ... and every lookup, by any dotted variant n of the path, returns exactly it *)
Theorem lookup_returns_last_placed : forall ops n,
  snd (step (run ops) (Fetch n)) = ares (last_placed ops (levels_of n)) /\
  snd (step (run ops) (FetchShare n)) = (match last_placed ops (levels_of n) with Some (OShare j nm) => RShare j nm | _ => RNone end) /\
  snd (step (run ops) (FetchNode n)) = (match last_placed ops (levels_of n) with Some (ONode nm) => RNode nm | _ => RNone end).
Proof. exact fetch_is_last_placed. Qed.
Print Assumptions lookup_returns_last_placed.

(* every share found in the tree is a pre-seeded one or was handed in by an operation of the history
   whose name splits into exactly that path *)
Theorem share_origin : forall ops q j nm, abs (run ops) q = Some (OShare j nm) ->
  abs init q = Some (OShare j nm) \/
  exists o n, In o ops /\ op_id o = Some j /\ op_name o = Some n /\ levels_of n = q.
Proof. exact share_origin_l. Qed.
Print Assumptions share_origin.

(* change replaces: when the operations carry pairwise distinct (non-negative) share identities, a change
   over share j is accepted, puts the new share at the path, and j is then found at NO path at all *)
Theorem replaced_share_unreachable : forall ops i n j nmj,
  NoDup (ids ops ++ [i]) -> (forall x, In x (ids ops ++ [i]) -> 0 <= x) ->
  abs (run ops) (levels_of n) = Some (OShare j nmj) ->
  snd (step (run ops) (Change i n)) = RShare i n /\
  abs (run (ops ++ [Change i n])) (levels_of n) = Some (OShare i n) /\
  (0 <= j -> forall q nm', abs (run (ops ++ [Change i n])) q <> Some (OShare j nm')).
Proof. exact replaced_share_unreachable_l. Qed.
Print Assumptions replaced_share_unreachable.

(* one step, from any well-formed store *)
Theorem step_refines_spec : forall s o, wf_forest [] s ->
  snd (step s o) = snd (a_step (abs s) o) /\ forall q, abs (fst (step s o)) q = fst (a_step (abs s) o) q.
Proof. exact step_refines. Qed.
Print Assumptions step_refines_spec.

(* lookup_latest, spelled out: an accepted add/change is what every dotted variant fetches next *)
Theorem lookup_latest_add : forall s i nm nm', wf_forest [] s ->
  snd (step s (Add i nm)) = RShare i nm -> levels_of nm' = levels_of nm ->
  snd (step (fst (step s (Add i nm))) (Fetch nm')) = RShare i nm /\
  snd (step (fst (step s (Add i nm))) (FetchShare nm')) = RShare i nm /\
  snd (step (fst (step s (Add i nm))) (FetchNode nm')) = RNone.
Proof. exact add_then_fetch. Qed.
Print Assumptions lookup_latest_add.

Theorem lookup_latest_change : forall s i nm nm', wf_forest [] s ->
  snd (step s (Change i nm)) = RShare i nm -> levels_of nm' = levels_of nm ->
  snd (step (fst (step s (Change i nm))) (Fetch nm')) = RShare i nm /\
  snd (step (fst (step s (Change i nm))) (FetchShare nm')) = RShare i nm.
Proof. exact change_then_fetch. Qed.
Print Assumptions lookup_latest_change.

Theorem lookup_latest_addnode : forall s nm nm', wf_forest [] s ->
  snd (step s (AddNode nm)) <> RErr -> levels_of nm' = levels_of nm ->
  snd (step (fst (step s (AddNode nm))) (FetchNode nm')) = snd (step s (AddNode nm)) /\
  exists x, snd (step s (AddNode nm)) = RNode x.
Proof. exact addnode_then_fetch. Qed.
Print Assumptions lookup_latest_addnode.

(* frame: a step only touches its target path and that path's prefixes *)
Theorem untouched_elsewhere : forall s o q, wf_forest [] s ->
  (forall n, op_name o = Some n -> path_eqb q (levels_of n) = false /\ pprefix q (levels_of n) = false) ->
  abs (fst (step s o)) q = abs s q.
Proof. exact step_frame. Qed.
Print Assumptions untouched_elsewhere.

(* the tree is prefix closed and nothing lives below a share (structural) *)
Theorem prefix_closed : forall (p q : path) f t, p <> [] -> q <> [] -> lookup (p ++ q) f = Some t ->
  exists nm kids, lookup p f = Some (TNode nm kids) /\ lookup q kids = Some t.
Proof. exact lookup_prefix. Qed.
Print Assumptions prefix_closed.

(* an empty path segment is always rejected, and nothing is created on the way *)
Theorem empty_segment_always_rejected : forall ops o, is_mutator o = true -> has_empty_segment o = true ->
  snd (step (run ops) o) = RErr /\ fst (step (run ops) o) = run ops.
Proof. exact (fun ops o => empty_segment_rejected (run ops) o (wf_run ops)). Qed.
Print Assumptions empty_segment_always_rejected.

(* strip('.') is idempotent: create(name) files the share under the path of name *)
Theorem create_path : forall n, levels_of (strip_dots n) = levels_of n.
Proof. exact levels_of_strip. Qed.
Print Assumptions create_path.

(* the dotted name of a proper path (segments nonempty, without dots) splits back into that path:
   split('.') of strip('.') of '.'.join(p) = p *)
Theorem join_then_split : forall p : path, proper p -> levels_of (join_dots p) = p.
Proof. exact levels_of_join. Qed.
Print Assumptions join_then_split.

(* after any history, everything in the tree sits at a proper path, and looking up an object's own
   recorded name finds that very object *)
Theorem name_finds_object : forall ops q,
  match lookup q (run ops) with
  | Some (TNode nm kids) => lookup (levels_of nm) (run ops) = Some (TNode nm kids)
  | Some (TShare i nm) => lookup (levels_of nm) (run ops) = Some (TShare i nm)
  | None => True
  end.
Proof. exact name_finds_itself. Qed.
Print Assumptions name_finds_object.

(* ---- the code AS FOUND refutes the property (replayed on the implementation by the check) *)
Theorem rejected_unchanged_orig_refuted :
  exists s o, wf_forest [] s /\ snd (step_orig s o) = RErr /\ forest_eqb (fst (step_orig s o)) s = false.
Proof. exact orig_debris. Qed.
Print Assumptions rejected_unchanged_orig_refuted.

Theorem empty_segment_accepted_orig :
  exists o, is_mutator o = true /\ has_empty_segment o = true /\ snd (step_orig init o) <> RErr.
Proof. exact orig_dot_accepted. Qed.
Print Assumptions empty_segment_accepted_orig.

(* ---- non-vacuity *)
Definition n_ab : str := [97; 46; 98].            (* "a.b"   *)
Definition n_dab : str := [46; 97; 46; 98; 46].   (* ".a.b." *)
Definition n_abc : str := [97; 46; 98; 46; 99].   (* "a.b.c" *)
Definition n_a : str := [97].
Example c18_nonvacuous :
  map fst (trace [Add 1 n_ab; Add 2 n_dab; AddNode n_abc; Change 3 n_dab; Fetch n_ab; FetchNode n_a; Create 4 n_a;
                  Add 5 w_new_x; Add 6 w_dot])
  = [RShare 1 n_ab; RErr; RErr; RShare 3 n_dab; RShare 3 n_dab; RNode n_a; RErr; RErr; RErr].
Proof. vm_compute. reflexivity. Qed.

Example c18_scan_nonvacuous :
  last_placed [Add 1 n_ab; Add 2 n_dab; Change 3 n_dab; AddNode n_abc; Fetch n_a] [[97]; [98]] = Some (OShare 3 n_dab) /\
  last_placed [Add 1 n_ab; Change 3 n_dab] [[97]] = Some (ONode n_a) /\
  last_placed [Add 5 w_new_x] [[110; 101; 119]] = None.
Proof. vm_compute. repeat split; reflexivity. Qed.
