(* C18 -- string level: '.'.join / split('.') / strip('.') round trip *)
From Coq Require Import List ZArith Bool Lia.
Import ListNotations.
Require Import V.C18.Model V.C18.Proofs.
Open Scope Z_scope.

Definition dotfree (l : str) : bool := forallb (fun c => negb (is_dot c)) l.
(* a proper path: at least one segment, every segment nonempty and without dots *)
Definition proper (p : path) : Prop := p <> [] /\ forall l, In l p -> l <> [] /\ dotfree l = true.

Lemma split_from_seg (x : str) : forall cur rest, dotfree x = true ->
  split_from cur (x ++ rest) = split_from (rev x ++ cur) rest.
Proof.
  induction x as [|c x IH]; intros cur rest Hd; [reflexivity|].
  cbn in Hd. apply andb_true_iff in Hd. destruct Hd as [Hc Hd]. apply negb_true_iff in Hc.
  cbn. rewrite Hc. rewrite (IH _ _ Hd). rewrite <- app_assoc. reflexivity.
Qed.

Lemma join_cons x (r : path) : r <> [] -> join_dots (x :: r) = x ++ dot :: join_dots r.
Proof. destruct r; [congruence|reflexivity]. Qed.

Lemma split_join (p : path) : p <> [] -> (forall l, In l p -> dotfree l = true) -> split_dots (join_dots p) = p.
Proof.
  induction p as [|x r IH]; intros Hne Hd; [congruence|].
  destruct (nil_or_not r) as [->|Hr].
  - cbn [join_dots]. unfold split_dots.
    pose proof (split_from_seg x [] [] (Hd x (or_introl eq_refl))) as H. rewrite !app_nil_r in H. rewrite H.
    cbn. rewrite rev_involutive. reflexivity.
  - rewrite (join_cons _ _ Hr). unfold split_dots. rewrite split_from_seg by (apply Hd; left; reflexivity).
    cbn. rewrite app_nil_r, rev_involutive. f_equal.
    apply IH; [exact Hr | intros l Hl; apply Hd; right; exact Hl].
Qed.

Lemma dotfree_in l c : dotfree l = true -> In c l -> is_dot c = false.
Proof.
  unfold dotfree. intros H Hin. rewrite forallb_forall in H. apply negb_true_iff. apply H. exact Hin.
Qed.

Lemma join_head (p : path) : proper p -> exists c t, join_dots p = c :: t /\ is_dot c = false.
Proof.
  intros [Hne Hp]. destruct p as [|x r]; [congruence|].
  destruct (Hp x (or_introl eq_refl)) as [Hx Hd]. destruct x as [|c x']; [congruence|].
  exists c. destruct (nil_or_not r) as [->|Hr].
  - exists x'. split; [reflexivity|]. apply (dotfree_in _ _ Hd). left. reflexivity.
  - rewrite (join_cons _ _ Hr). eexists. split; [reflexivity|]. apply (dotfree_in _ _ Hd). left. reflexivity.
Qed.

Lemma join_last (p : path) : proper p -> exists c t, rev (join_dots p) = c :: t /\ is_dot c = false.
Proof.
  intros [Hne Hp]. induction p as [|x r IH]; [congruence|].
  destruct (Hp x (or_introl eq_refl)) as [Hx Hd].
  destruct (nil_or_not r) as [->|Hr].
  - cbn. destruct (rev x) as [|c t] eqn:E.
    + exfalso. apply Hx. rewrite <- (rev_involutive x), E. reflexivity.
    + exists c, t. split; [reflexivity|]. apply (dotfree_in _ _ Hd). apply in_rev. rewrite E. left. reflexivity.
  - rewrite (join_cons _ _ Hr). rewrite rev_app_distr. cbn [rev]. rewrite <- app_assoc.
    destruct (IH Hr (fun l Hl => Hp l (or_intror Hl))) as (c & t & E & Hc).
    rewrite E. exists c. eexists. split; [reflexivity|exact Hc].
Qed.

Lemma strip_join (p : path) : proper p -> strip_dots (join_dots p) = join_dots p.
Proof.
  intros Hp. unfold strip_dots.
  destruct (join_head p Hp) as (c & t & E & Hc). destruct (join_last p Hp) as (c2 & t2 & E2 & Hc2).
  assert (H1 : lstrip (join_dots p) = join_dots p) by (rewrite E; cbn; rewrite Hc; reflexivity).
  rewrite H1. rewrite E2. cbn. rewrite Hc2. rewrite <- E2. apply rev_involutive.
Qed.

(* the dotted name of a proper path splits back into the path *)
Lemma levels_of_join (p : path) : proper p -> levels_of (join_dots p) = p.
Proof.
  intros Hp. unfold levels_of. rewrite (strip_join _ Hp). apply split_join; [exact (proj1 Hp)|].
  intros l Hl. apply (proj2 Hp l Hl).
Qed.

(* split('.') only ever yields dot-free segments *)
Lemma split_from_dotfree s : forall cur, dotfree (rev cur) = true -> forall l, In l (split_from cur s) -> dotfree l = true.
Proof.
  induction s as [|c s IH]; intros cur Hc l Hl; cbn in Hl.
  - destruct Hl as [<-|[]]. exact Hc.
  - destruct (is_dot c) eqn:E.
    + destruct Hl as [<-|Hl]; [exact Hc|]. apply (IH [] eq_refl l Hl).
    + apply (IH (c :: cur)); [|exact Hl]. cbn. unfold dotfree. rewrite forallb_app. cbn. rewrite E. cbn.
      rewrite andb_true_r. exact Hc.
Qed.
Lemma levels_dotfree name : forall l, In l (levels_of name) -> dotfree l = true.
Proof. apply split_from_dotfree. reflexivity. Qed.

(* ------------------------------------------------ every key in the tree is dot-free *)
Fixpoint df_tree (t : tree) : Prop :=
  match t with TNode _ kids => df_forest kids | TShare _ _ => True end
with df_forest (f : forest) : Prop :=
  match f with FNil => True | FCons k t rest => dotfree k = true /\ df_tree t /\ df_forest rest end.

Lemma df_ffind f k t : df_forest f -> ffind k f = Some t -> df_tree t /\ dotfree k = true.
Proof.
  induction f as [|k' t' rest IH]; cbn; [discriminate|]. intros (Hk & Ht & Hr).
  destruct (str_eqb k k') eqn:E.
  - apply str_eqb_eq in E. subst k'. intros H. inversion H; subst. split; assumption.
  - apply IH. exact Hr.
Qed.
Lemma df_fset f k v : df_forest f -> dotfree k = true -> df_tree v -> df_forest (fset k v f).
Proof.
  intros Hf Hk Hv. induction f as [|k' t' rest IH]; cbn; [repeat split; assumption|].
  destruct Hf as (Hk' & Ht & Hr). destruct (str_eqb k k'); cbn; repeat split; try assumption. apply IH. exact Hr.
Qed.

Lemma df_add_walk (lv : path) : forall pre sh f,
  df_forest f -> (forall l, In l lv -> dotfree l = true) -> df_tree sh -> df_forest (fst (add_walk false pre lv sh f)).
Proof.
  induction lv as [|l lv IH]; intros pre sh f Hf Hd Hsh; [exact Hf|].
  assert (Hl : dotfree l = true) by (apply Hd; left; reflexivity).
  assert (Hd' : forall x, In x lv -> dotfree x = true) by (intros x Hx; apply Hd; right; exact Hx).
  destruct (nil_or_not lv) as [->|Hlv].
  - rewrite add_walk_tail. destruct (ffind l f); [exact Hf|]. cbn [fst]. apply df_fset; assumption.
  - rewrite (add_walk_step _ _ _ _ _ _ Hlv). cbn [andb].
    destruct (ffind l f) as [[nm kids|i nm]|] eqn:Ef; [| exact Hf |].
    + destruct (df_ffind _ _ _ Hf Ef) as [Hk _]. cbn in Hk.
      pose proof (IH (pre ++ [l]) sh kids Hk Hd' Hsh) as H. revert H.
      destruct (add_walk false (pre ++ [l]) lv sh kids) as [k ok]. cbn [fst]. intros H. apply df_fset; assumption.
    + pose proof (IH (pre ++ [l]) sh FNil I Hd' Hsh) as H. revert H.
      destruct (add_walk false (pre ++ [l]) lv sh FNil) as [k ok]. cbn [fst]. intros H. apply df_fset; assumption.
Qed.
Lemma df_node_walk (lv : path) : forall cur pre f,
  df_forest f -> (forall l, In l lv -> dotfree l = true) -> df_forest (fst (node_walk false cur pre lv f)).
Proof.
  induction lv as [|l lv IH]; intros cur pre f Hf Hd; [exact Hf|].
  assert (Hl : dotfree l = true) by (apply Hd; left; reflexivity).
  assert (Hd' : forall x, In x lv -> dotfree x = true) by (intros x Hx; apply Hd; right; exact Hx).
  rewrite node_walk_cons. cbn [andb]. cbv zeta.
  destruct (ffind l f) as [[nm kids|i nm]|] eqn:Ef; [| exact Hf |].
  - destruct (df_ffind _ _ _ Hf Ef) as [Hk _]. cbn in Hk.
    pose proof (IH nm (pre ++ [l]) kids Hk Hd') as H. revert H.
    destruct (node_walk false nm (pre ++ [l]) lv kids) as [k r]. cbn [fst]. intros H. apply df_fset; assumption.
  - pose proof (IH (join_dots (pre ++ [l])) (pre ++ [l]) FNil I Hd') as H. revert H.
    destruct (node_walk false (join_dots (pre ++ [l])) (pre ++ [l]) lv FNil) as [k r]. cbn [fst]. intros H. apply df_fset; assumption.
Qed.
Lemma df_change_walk (lv : path) : forall sh f,
  df_forest f -> (forall l, In l lv -> dotfree l = true) -> df_tree sh -> df_forest (fst (change_walk lv sh f)).
Proof.
  induction lv as [|l lv IH]; intros sh f Hf Hd Hsh; [exact Hf|].
  assert (Hl : dotfree l = true) by (apply Hd; left; reflexivity).
  assert (Hd' : forall x, In x lv -> dotfree x = true) by (intros x Hx; apply Hd; right; exact Hx).
  destruct (nil_or_not lv) as [->|Hlv].
  - rewrite change_walk_tail. destruct (ffind l f) as [[nm kids|i nm]|]; try exact Hf. cbn [fst]. apply df_fset; assumption.
  - rewrite (change_walk_step _ _ _ _ Hlv). destruct (is_empty l); [exact Hf|].
    destruct (ffind l f) as [[nm kids|i nm]|] eqn:Ef; try exact Hf.
    destruct (df_ffind _ _ _ Hf Ef) as [Hk _]. cbn in Hk.
    pose proof (IH sh kids Hk Hd' Hsh) as H. revert H.
    destruct (change_walk lv sh kids) as [k ok]. cbn [fst]. intros H. apply df_fset; assumption.
Qed.

Lemma df_step s o : df_forest s -> df_forest (fst (step s o)).
Proof.
  intros Hs.
  assert (Hadd : forall i name, df_forest (fst (do_add true s i name))).
  { intros i name. unfold do_add. destruct (is_empty name); [exact Hs|]. cbn [andb negb].
    destruct (existsb is_empty (levels_of name)); [exact Hs|].
    pose proof (df_add_walk (levels_of name) [] (TShare i name) s Hs (levels_dotfree name) I) as H.
    destruct (add_walk false [] (levels_of name) (TShare i name) s). exact H. }
  assert (Hnode : forall name, df_forest (fst (do_addnode true s name))).
  { intros name. unfold do_addnode. cbn [andb negb]. destruct (existsb is_empty (levels_of name)); [exact Hs|].
    pose proof (df_node_walk (levels_of name) [] [] s Hs (levels_dotfree name)) as H.
    destruct (node_walk false [] [] (levels_of name) s). exact H. }
  destruct o; unfold step; cbn [step_gen fst]; try exact Hs.
  - apply Hadd.
  - apply Hnode.
  - unfold do_change. pose proof (df_change_walk (levels_of name) (TShare id name) s Hs (levels_dotfree name) I) as H.
    destruct (change_walk (levels_of name) (TShare id name) s). exact H.
  - destruct (lookup (levels_of name) s) as [[nm k|j nm]|]; try apply Hadd. exact Hs.
  - destruct (lookup (levels_of name) s) as [[nm k|j nm]|]; try apply Hnode. exact Hs.
Qed.

Lemma df_init : df_forest init.
Proof. cbn. repeat split. Qed.
Lemma df_run ops : df_forest (run ops).
Proof.
  unfold run. assert (H : forall s, df_forest s -> df_forest (run_from s ops)).
  { induction ops as [|o ops IH]; intros s Hs; [exact Hs|]. cbn. apply IH. apply df_step. exact Hs. }
  apply H. apply df_init.
Qed.

Lemma df_lookup (q : path) : forall f t, df_forest f -> lookup q f = Some t -> forall l, In l q -> dotfree l = true.
Proof.
  induction q as [|l q IH]; intros f t Hf H x Hx; [destruct Hx|].
  destruct (nil_or_not q) as [->|Hq].
  - rewrite lookup_one in H. destruct Hx as [<-|[]]. apply (df_ffind _ _ _ Hf H).
  - rewrite (lookup_step _ _ _ Hq) in H. destruct (ffind l f) as [[nm kids|i nm]|] eqn:Ef; try discriminate.
    destruct (df_ffind _ _ _ Hf Ef) as [Hk Hl]. cbn in Hk.
    destruct Hx as [<-|Hx]; [exact Hl|]. apply (IH _ _ Hk H x Hx).
Qed.

(* whatever a lookup finds sits at a proper path ... *)
Lemma found_path_proper ops q t : lookup q (run ops) = Some t -> proper q.
Proof.
  intros H. split; [destruct q; [discriminate|discriminate]|].
  intros l Hl. split.
  - apply (wf_lookup_nonempty q [] _ _ (wf_run ops) H l Hl).
  - apply (df_lookup q _ _ (df_run ops) H l Hl).
Qed.

(* ... so a node's own name, looked up, finds that very node (and a share's name the share) *)
Lemma name_finds_itself ops q :
  match lookup q (run ops) with
  | Some (TNode nm kids) => lookup (levels_of nm) (run ops) = Some (TNode nm kids)
  | Some (TShare i nm) => lookup (levels_of nm) (run ops) = Some (TShare i nm)
  | None => True
  end.
Proof.
  destruct (lookup q (run ops)) as [[nm kids|i nm]|] eqn:E; [| |exact I];
    pose proof (wf_lookup q [] _ _ (wf_run ops) E) as H; cbn in H.
  - destruct H as [-> _]. rewrite (levels_of_join _ (found_path_proper _ _ _ E)). exact E.
  - rewrite H. exact E.
Qed.
