(* C18 -- Store tree (ioflo/base/storing.py: Store.add/addNode/change/create/createNode/
   fetch/fetchShare/fetchNode, Node.name).   Hand model (tie H).  Definitions only.

   str      = Python str as the list of its code points (dot = 46)
   levels_of name = name.strip('.').split('.')            (computed exactly as Python does)
   forest   = the odict of one Node: keys in insertion order (ioflo.aid.odicting.odict)
   tree     = Node (with its .name and its odict) | Share (harness id, its .name)
   store    = the odict of Store.shares (the root Node, whose name is '')

   Two variants of the mutators are defined:
     step       the FIXED behaviour (fixes/C18-*.patch): every level is validated before
                the first setdefault, a lookup never walks into a Share
     step_orig  the order of effects of the code as found (empty level detected while
                walking, after earlier levels were created; tail never validated)
   Mutation of odicts in place is modelled by rebuilding the path (fset).            *)
From Coq Require Import List ZArith Bool.
Import ListNotations.
Open Scope Z_scope.

Definition str := list Z.
Definition path := list str.
Definition dot : Z := 46.
Definition is_dot (c : Z) : bool := Z.eqb c dot.

Fixpoint str_eqb (a b : str) : bool :=
  match a, b with
  | [], [] => true
  | x :: a', y :: b' => Z.eqb x y && str_eqb a' b'
  | _, _ => false
  end.

Definition is_empty (s : str) : bool := match s with [] => true | _ => false end.

(* s.split('.') *)
Fixpoint split_from (cur : str) (s : str) : list str :=
  match s with
  | [] => [rev cur]
  | c :: s' => if is_dot c then rev cur :: split_from [] s' else split_from (c :: cur) s'
  end.
Definition split_dots (s : str) : list str := split_from [] s.

(* s.strip('.') *)
Fixpoint lstrip (s : str) : str :=
  match s with
  | c :: s' => if is_dot c then lstrip s' else s
  | [] => []
  end.
Definition strip_dots (s : str) : str := rev (lstrip (rev (lstrip s))).

Definition levels_of (name : str) : path := split_dots (strip_dots name).

(* '.'.join(l) *)
Fixpoint join_dots (l : path) : str :=
  match l with
  | [] => []
  | x :: r => match r with [] => x | _ => x ++ dot :: join_dots r end
  end.

Inductive tree :=
| TNode (name : str) (kids : forest)
| TShare (id : Z) (name : str)
with forest :=
| FNil
| FCons (k : str) (t : tree) (rest : forest).

(* odict[k] *)
Fixpoint ffind (k : str) (f : forest) : option tree :=
  match f with
  | FNil => None
  | FCons k' t rest => if str_eqb k k' then Some t else ffind k rest
  end.

(* odict[k] = v : replace in place, or append a new key at the end *)
Fixpoint fset (k : str) (v : tree) (f : forest) : forest :=
  match f with
  | FNil => FCons k v FNil
  | FCons k' t rest => if str_eqb k k' then FCons k' v rest else FCons k' t (fset k v rest)
  end.

(* the walk of fetch/fetchShare/fetchNode:  for level in levels: nos = nos[level]
   KeyError -> None; (fixed) a Share met before the last level -> None *)
Fixpoint lookup (lv : path) (f : forest) : option tree :=
  match lv with
  | [] => None
  | l :: lv' =>
      match ffind l f with
      | None => None
      | Some t =>
          match lv' with
          | [] => Some t
          | _ => match t with
                 | TNode _ kids => lookup lv' kids
                 | TShare _ _ => None
                 end
          end
      end
  end.

(* Store.add, the loop over levels[0:-1] and the tail.  chk = the in-loop "if not level"
   test of the code as found.  Returns the forest as left behind and whether it succeeded. *)
Fixpoint add_walk (chk : bool) (pre lv : path) (sh : tree) (f : forest) {struct lv} : forest * bool :=
  match lv with
  | [] => (f, false)
  | l :: lv' =>
      match lv' with
      | [] => match ffind l f with
              | Some _ => (f, false)                        (* tail is preexisting level *)
              | None => (fset l sh f, true)
              end
      | _ =>
          if chk && is_empty l then (f, false) else
          match ffind l f with
          | Some (TShare _ _) => (f, false)                 (* preexisting share *)
          | Some (TNode nm kids) =>
              let '(kids', ok) := add_walk chk (pre ++ [l]) lv' sh kids in
              (fset l (TNode nm kids') f, ok)
          | None =>
              let '(kids', ok) := add_walk chk (pre ++ [l]) lv' sh FNil in
              (fset l (TNode (join_dots (pre ++ [l])) kids') f, ok)
          end
      end
  end.

(* Store.addNode loop over all levels; cur = name of the node reached so far;
   result None = ValueError raised, Some nm = name of the node returned *)
Fixpoint node_walk (chk : bool) (cur : str) (pre lv : path) (f : forest) {struct lv}
  : forest * option str :=
  match lv with
  | [] => (f, Some cur)
  | l :: lv' =>
      if chk && is_empty l then (f, None) else
      match ffind l f with
      | Some (TShare _ _) => (f, None)
      | Some (TNode nm kids) =>
          let '(kids', r) := node_walk chk nm (pre ++ [l]) lv' kids in
          (fset l (TNode nm kids') f, r)
      | None =>
          let nm := join_dots (pre ++ [l]) in
          let '(kids', r) := node_walk chk nm (pre ++ [l]) lv' FNil in
          (fset l (TNode nm kids') f, r)
      end
  end.

(* Store.change *)
Fixpoint change_walk (lv : path) (sh : tree) (f : forest) {struct lv} : forest * bool :=
  match lv with
  | [] => (f, false)
  | l :: lv' =>
      match lv' with
      | [] => match ffind l f with
              | Some (TShare _ _) => (fset l sh f, true)
              | _ => (f, false)
              end
      | _ =>
          if is_empty l then (f, false) else
          match ffind l f with
          | Some (TNode nm kids) =>
              let '(kids', ok) := change_walk lv' sh kids in
              (fset l (TNode nm kids') f, ok)
          | _ => (f, false)
          end
      end
  end.

Inductive op :=
| Add (id : Z) (name : str)          (* store.add(Share(name=name))      *)
| AddJunk                            (* store.add(<not a Share>)          *)
| AddNode (name : str)
| Change (id : Z) (name : str)       (* store.change(Share(name=name))   *)
| ChangeJunk
| Create (id : Z) (name : str)       (* id is used iff a new share is made *)
| CreateNode (name : str)
| Fetch (name : str)
| FetchShare (name : str)
| FetchNode (name : str).

Inductive res :=
| RNone
| RNode (name : str)
| RShare (id : Z) (name : str)
| RErr            (* ValueError *)
| ROther          (* implementation only: returned something that is neither; never produced by the model *)
| RCrash.         (* implementation only: another exception class; never produced by the model *)

Definition res_of (o : option tree) : res :=
  match o with
  | None => RNone
  | Some (TNode nm _) => RNode nm
  | Some (TShare i nm) => RShare i nm
  end.

Definition do_add (fixed : bool) (s : forest) (i : Z) (name : str) : forest * res :=
  if is_empty name then (s, RErr) else
  let lv := levels_of name in
  if fixed && existsb is_empty lv then (s, RErr) else
  let '(s', ok) := add_walk (negb fixed) [] lv (TShare i name) s in
  (s', if ok then RShare i name else RErr).

Definition do_addnode (fixed : bool) (s : forest) (name : str) : forest * res :=
  let lv := levels_of name in
  if fixed && existsb is_empty lv then (s, RErr) else
  let '(s', r) := node_walk (negb fixed) [] [] lv s in
  (s', match r with Some nm => RNode nm | None => RErr end).

Definition do_change (s : forest) (i : Z) (name : str) : forest * res :=
  let '(s', ok) := change_walk (levels_of name) (TShare i name) s in
  (s', if ok then RShare i name else RErr).

Definition step_gen (fixed : bool) (s : forest) (o : op) : forest * res :=
  match o with
  | Add i name => do_add fixed s i name
  | AddJunk => (s, RErr)
  | AddNode name => do_addnode fixed s name
  | Change i name => do_change s i name
  | ChangeJunk => (s, RErr)
  | Create i name =>
      match lookup (levels_of name) s with
      | Some (TShare j nm) => (s, RShare j nm)
      | _ => do_add fixed s i (strip_dots name)
      end
  | CreateNode name =>
      match lookup (levels_of name) s with
      | Some (TNode nm _) => (s, RNode nm)
      | _ => do_addnode fixed s name
      end
  | Fetch name => (s, res_of (lookup (levels_of name) s))
  | FetchShare name =>
      (s, match lookup (levels_of name) s with Some (TShare j nm) => RShare j nm | _ => RNone end)
  | FetchNode name =>
      (s, match lookup (levels_of name) s with Some (TNode nm _) => RNode nm | _ => RNone end)
  end.

Definition step := step_gen true.
Definition step_orig := step_gen false.

(* Store.__init__: createNode('.meta'); create('.time'); create('.realtime'); create('.datetime') *)
Definition s_meta : str := [109; 101; 116; 97].
Definition s_time : str := [116; 105; 109; 101].
Definition s_realtime : str := [114; 101; 97; 108; 116; 105; 109; 101].
Definition s_datetime : str := [100; 97; 116; 101; 116; 105; 109; 101].
Definition init : forest :=
  FCons s_meta (TNode s_meta FNil)
 (FCons s_time (TShare (-1) s_time)
 (FCons s_realtime (TShare (-2) s_realtime)
 (FCons s_datetime (TShare (-3) s_datetime) FNil))).

Definition run_from (s : forest) (ops : list op) : forest :=
  fold_left (fun s o => fst (step s o)) ops s.
Definition run (ops : list op) : forest := run_from init ops.

Fixpoint results_from (s : forest) (ops : list op) : list res :=
  match ops with [] => [] | o :: r => snd (step s o) :: results_from (fst (step s o)) r end.

(* correspondence: every result and the full tree after every step *)
Fixpoint trace_gen (fixed : bool) (s : forest) (ops : list op) : list (res * forest) :=
  match ops with
  | [] => []
  | o :: r => let '(s', x) := step_gen fixed s o in (x, s') :: trace_gen fixed s' r
  end.
Definition trace := trace_gen true init.

Fixpoint tree_eqb (a b : tree) : bool :=
  match a, b with
  | TNode n1 k1, TNode n2 k2 => str_eqb n1 n2 && forest_eqb k1 k2
  | TShare i1 n1, TShare i2 n2 => Z.eqb i1 i2 && str_eqb n1 n2
  | _, _ => false
  end
with forest_eqb (a b : forest) : bool :=
  match a, b with
  | FNil, FNil => true
  | FCons k1 t1 r1, FCons k2 t2 r2 => str_eqb k1 k2 && tree_eqb t1 t2 && forest_eqb r1 r2
  | _, _ => false
  end.

Definition res_eqb (a b : res) : bool :=
  match a, b with
  | RNone, RNone | RErr, RErr | ROther, ROther | RCrash, RCrash => true
  | RNode n1, RNode n2 => str_eqb n1 n2
  | RShare i1 n1, RShare i2 n2 => Z.eqb i1 i2 && str_eqb n1 n2
  | _, _ => false
  end.

Fixpoint trace_eqb (a b : list (res * forest)) : bool :=
  match a, b with
  | [], [] => true
  | (r1, f1) :: a', (r2, f2) :: b' => res_eqb r1 r2 && forest_eqb f1 f2 && trace_eqb a' b'
  | _, _ => false
  end.

(* ---------------------------------------------------------------- abstract spec ---- *)
(* what a path holds, forgetting children and order *)
Inductive obj := ONode (name : str) | OShare (id : Z) (name : str).
Definition amap := path -> option obj.

Definition obj_of (o : option tree) : option obj :=
  match o with
  | None => None
  | Some (TNode nm _) => Some (ONode nm)
  | Some (TShare i nm) => Some (OShare i nm)
  end.
Definition abs (s : forest) : amap := fun p => obj_of (lookup p s).

Fixpoint path_eqb (a b : path) : bool :=
  match a, b with
  | [], [] => true
  | x :: a', y :: b' => str_eqb x y && path_eqb a' b'
  | _, _ => false
  end.
(* q is a proper prefix of p (q may be []) *)
Fixpoint pprefix (q p : path) : bool :=
  match q, p with
  | [], _ :: _ => true
  | x :: q', y :: p' => str_eqb x y && pprefix q' p'
  | _, _ => false
  end.
(* the map seen from below key l *)
Definition shift (l : str) (m : path -> option obj) : path -> option obj := fun q => m (l :: q).
Definition is_share (o : option obj) := match o with Some (OShare _ _) => true | _ => false end.
Definition is_node (o : option obj) := match o with Some (ONode _) => true | _ => false end.
Definition is_none (o : option obj) := match o with None => true | _ => false end.

Definition ares (o : option obj) : res :=
  match o with None => RNone | Some (ONode nm) => RNode nm | Some (OShare i nm) => RShare i nm end.

Definition is_empty_path (q : path) : bool := match q with [] => true | _ => false end.

(* create the missing nodes at p and at its nonempty proper prefixes, each named by its own path *)
Definition a_fill (m : amap) (p : path) : amap :=
  fun q => if (path_eqb q p || pprefix q p) && negb (is_empty_path q) && is_none (m q)
           then Some (ONode (join_dots q)) else m q.
(* place v at p, creating the missing ancestors *)
Definition a_place (m : amap) (p : path) (v : obj) : amap :=
  fun q => if path_eqb q p then Some v
           else if pprefix q p && negb (is_empty_path q) && is_none (m q)
           then Some (ONode (join_dots q)) else m q.
Definition a_put (m : amap) (p : path) (v : obj) : amap :=
  fun q => if path_eqb q p then Some v else m q.

(* some nonempty PROPER prefix of p holds a share (a share would have to become a node) *)
Fixpoint blocked (m : amap) (p : path) : bool :=
  match p with
  | [] => false
  | l :: p' => match p' with [] => false | _ => is_share (m [l]) || blocked (shift l m) p' end
  end.
(* some nonempty prefix of p, p included, holds a share *)
Fixpoint blockedn (m : amap) (p : path) : bool :=
  match p with
  | [] => false
  | l :: p' => is_share (m [l]) || blockedn (shift l m) p'
  end.

Definition a_add (m : amap) (i : Z) (name : str) : amap * res :=
  if is_empty name then (m, RErr) else
  let p := levels_of name in
  if existsb is_empty p then (m, RErr)                 (* empty segment *)
  else if blocked m p then (m, RErr)                   (* would turn a share into a node *)
  else if negb (is_none (m p)) then (m, RErr)          (* would add over an existing entry *)
  else (a_place m p (OShare i name), RShare i name).

Definition a_addnode (m : amap) (name : str) : amap * res :=
  let p := levels_of name in
  if existsb is_empty p then (m, RErr)
  else if blockedn m p then (m, RErr)
  else (a_fill m p, ares (a_fill m p p)).

Definition a_change (m : amap) (i : Z) (name : str) : amap * res :=
  let p := levels_of name in
  if is_share (m p) then (a_put m p (OShare i name), RShare i name) else (m, RErr).

Definition a_step (m : amap) (o : op) : amap * res :=
  match o with
  | Add i name => a_add m i name
  | AddJunk => (m, RErr)
  | AddNode name => a_addnode m name
  | Change i name => a_change m i name
  | ChangeJunk => (m, RErr)
  | Create i name =>
      match m (levels_of name) with
      | Some (OShare j nm) => (m, RShare j nm)
      | _ => a_add m i (strip_dots name)
      end
  | CreateNode name =>
      match m (levels_of name) with
      | Some (ONode nm) => (m, RNode nm)
      | _ => a_addnode m name
      end
  | Fetch name => (m, ares (m (levels_of name)))
  | FetchShare name => (m, match m (levels_of name) with Some (OShare j nm) => RShare j nm | _ => RNone end)
  | FetchNode name => (m, match m (levels_of name) with Some (ONode nm) => RNode nm | _ => RNone end)
  end.

Definition a_run_from (m : amap) (ops : list op) : amap :=
  fold_left (fun m o => fst (a_step m o)) ops m.
Definition a_init : amap := abs init.
Fixpoint a_results_from (m : amap) (ops : list op) : list res :=
  match ops with [] => [] | o :: r => snd (a_step m o) :: a_results_from (fst (a_step m o)) r end.

(* ------------------------------------------------------------------ invariant ---- *)
(* p = the full path of t.  Every node's name is its dotted path, every share's
   stripped name splits into its path, keys are nonempty and distinct. *)
Fixpoint wf_tree (p : path) (t : tree) : Prop :=
  match t with
  | TNode nm kids => nm = join_dots p /\ wf_forest p kids
  | TShare _ nm => levels_of nm = p
  end
with wf_forest (pre : path) (f : forest) : Prop :=
  match f with
  | FNil => True
  | FCons k t rest => k <> [] /\ ffind k rest = None /\ wf_tree (pre ++ [k]) t /\ wf_forest pre rest
  end.

(* does an operation name an empty path segment? *)
Definition op_name (o : op) : option str :=
  match o with
  | Add _ n | AddNode n | Change _ n | Create _ n | CreateNode n
  | Fetch n | FetchShare n | FetchNode n => Some n
  | _ => None
  end.
Definition has_empty_segment (o : op) : bool :=
  match op_name o with Some n => existsb is_empty (levels_of n) | None => false end.
Definition is_mutator (o : op) : bool :=
  match o with Fetch _ | FetchShare _ | FetchNode _ => false | _ => true end.

(* ---------------------------------------------------------- explicit history scan ---- *)
(* the history: every operation with the result the store gave *)
Fixpoint hist_from (s : forest) (ops : list op) : list (op * res) :=
  match ops with [] => [] | o :: r => (o, snd (step s o)) :: hist_from (fst (step s o)) r end.

(* what one answered operation places at path p *)
Inductive placement := Definitely (v : obj) | IfVacant (v : obj) | NoEffect.

Definition on_or_above (p lv : path) : bool := (path_eqb p lv || pprefix p lv) && negb (is_empty_path p).

Definition places (o : op) (r : res) (p : path) : placement :=
  match r with
  | RErr | RNone | ROther | RCrash => NoEffect              (* rejected, or nothing returned *)
  | _ =>
    match o with
    | Add i n =>                                            (* accepted add: the share, and missing ancestors *)
        if path_eqb p (levels_of n) then Definitely (OShare i n)
        else if on_or_above p (levels_of n) then IfVacant (ONode (join_dots p)) else NoEffect
    | Change i n =>                                         (* accepted change: replaces the share *)
        if path_eqb p (levels_of n) then Definitely (OShare i n) else NoEffect
    | Create i n =>                                         (* answered create: a new share unless one was there *)
        if path_eqb p (levels_of n) then IfVacant (OShare i (strip_dots n))
        else if on_or_above p (levels_of n) then IfVacant (ONode (join_dots p)) else NoEffect
    | AddNode n | CreateNode n =>                           (* nodes wherever none was *)
        if on_or_above p (levels_of n) then IfVacant (ONode (join_dots p)) else NoEffect
    | _ => NoEffect                                         (* lookups place nothing *)
    end
  end.

(* scan the history from the most recent entry backwards for the last placement at p;
   an IfVacant entry counts only if nothing older placed anything there *)
Fixpoint scan (newest_first : list (op * res)) (p : path) : option obj :=
  match newest_first with
  | [] => abs init p
  | (o, r) :: older =>
      match places o r p with
      | Definitely v => Some v
      | IfVacant v => match scan older p with None => Some v | x => x end
      | NoEffect => scan older p
      end
  end.
Definition last_placed (ops : list op) (p : path) : option obj := scan (rev (hist_from init ops)) p.

Definition op_id (o : op) : option Z :=
  match o with Add i _ | Change i _ | Create i _ => Some i | _ => None end.
