(* C04 -- bids and fiats take effect at the next run, last bid wins. *)
From Coq Require Import List ZArith Bool Arith.
Import ListNotations.
Require Import V.Kernel.Model V.Kernel.SkedProofs V.Kernel.MoreProofs.

(* a bid writes the control into the desire of each named tasker (so of a sequence of bids the last wins) *)
Theorem bid_sets_desire_last_wins : forall (O : TimeOps) (P : prog O) c ts p me sub w t,
  crashed w = None -> In t ts -> t < length (tss w) ->
  desire (gett (run_act P sub me (ABid c ts p) w) t) = c.
Proof. exact bid_sets_desire. Qed.
Print Assumptions bid_sets_desire_last_wins.

(* at its turn in the tick loop a due tasker is sent the desire it has at that moment: written by any
   tasker that ran earlier in this tick (same tick), otherwise it waits for its next due tick *)
Theorem next_run_receives_latest_desire : forall (O : TimeOps) (P : prog O) n s last more t retime per rest w' r,
  ready s = (t, retime, per) :: rest -> crashed (sw s) = None ->
  tltb O (stamp (sw s)) retime = false ->
  o_send (top P) t (desire (gett (sw s) t)) (sw s) = (w', r) -> crashed w' = None ->
  exists ab last1,
  tick_loop P (S n) s last more =
  tick_loop P n {| sw := w'; ready := rest ++ resched O t retime w' r; aborted := ab;
                   runlog := runlog s ++ [(tk (sw s), t)] |}
            last1 (more || is_more last1).
Proof. exact tick_loop_head_due. Qed.
Print Assumptions next_run_receives_latest_desire.

(* slave, aux and moot framers are never run by the scheduler: every scheduler send goes to a tasker of
   the initial queue (= house.taskables) *)
Theorem slaves_never_scheduled : forall (O : TimeOps) (P : prog O) n s s' e,
  ticks P n s = (s', e) -> crashed (sw s') = None ->
  forall x, In x (map snd (runlog s')) -> In x (map snd (runlog s)) \/ In x (map (rtid O) (ready s)).
Proof. exact ticks_runlog. Qed.
Print Assumptions slaves_never_scheduled.

Theorem initial_queue_is_taskables : forall (O : TimeOps) (P : prog O) nv ca,
  map (rtid O) (ready (init_sked P nv ca)) = taskables P.
Proof. exact init_ready_order. Qed.
Print Assumptions initial_queue_is_taskables.

(* a fiat reports exactly whether the requested state was reached *)
Theorem fiat_reports_whether_reached : forall c r,
  fiat_ok c r = true <->
  (c = CReady /\ r = Some Readied) \/ (c = CStart /\ r = Some Started) \/ (c = CStop /\ r = Some Stopped) \/
  (c = CRun /\ r = Some Running) \/ (c = CAbort /\ r = Some Aborted).
Proof. exact fiat_reports_reached. Qed.
Print Assumptions fiat_reports_whether_reached.

(* a start whose first-frame conditions fail leaves the tasker stopped: nothing but desire := STOP, status :=
   STOPPED and the send record changes (no enter action, no clock reset, no active frame) *)
Theorem start_refused_stays_stopped : forall (O : TimeOps) (P : prog O) sub a w,
  crashed w = None -> alive (gett w a) = true ->
  (st (gett w a) = Stopped \/ st (gett w a) = Readied) ->
  framer_checkStart P sub a w = false ->
  framer_send P sub a CStart w =
  (let w1 := modt w a (fun s => ts_set_st (ts_set_desire s CStop) Stopped) in
   emit w1 (ESend (tk w1) a CStart (Some (st (gett w1 a))) (actives (gett w1 a)) (elapsed (gett w1 a))
                  (recurred (gett w1 a))), Some (st (gett (modt w a (fun s => ts_set_st (ts_set_desire s CStop) Stopped)) a))).
Proof. exact start_refused. Qed.
Print Assumptions start_refused_stays_stopped.
