(* C10 -- a conditional auxiliary suspends the frames below its main frame.  PARTIAL (see meta.json). *)
From Coq Require Import List ZArith Bool Arith.
Import ListNotations.
Require Import V.Kernel.Model V.Kernel.Inst V.Kernel.GenInd V.Kernel.Basics V.Kernel.ActInv V.Kernel.MoreProofs V.Kernel.Witness.

(* Under any known active frame f0, whatever the conditional-auxiliary clause does (refuse, enter and run
   once, complete at once, keep running, complete later and resume), the active-outline invariant is kept
   and the framer's active frame is unchanged: suspension truncates the outline to the head of the main
   frame, completion restores the full outline of the SAME active frame (no transition, no re-entry) *)
Theorem suspend_keeps_active_frame : forall (O : TimeOps) (P : prog O), acyclic O P ->
  forall sub, ops_R O (footprint O P) sub -> ops_inv O P sub ->
  forall a mf ns aux w f0, child O P a aux -> Inv O P w -> active (gett w a) = Some f0 ->
  let '(w', r) := suspend P sub a mf ns aux w in
  Inv O P w' /\ active (gett w' a) = Some f0.
Proof. exact suspend_spec. Qed.
Print Assumptions suspend_keeps_active_frame.

(* conditions fail, auxiliary owned elsewhere, or its first frame refuses: nothing happens *)
Theorem refused_conditional_aux_noop : forall (O : TimeOps) (P : prog O) sub a mf ns aux w,
  done (gett w aux) = true ->
  (forallb (eval_need P a w) ns = false \/
   (exists mt m, main (gett w aux) = Some (mt, m) /\ (Nat.eqb mt a && Nat.eqb m mf) = false) \/
   o_checkStart sub aux w = false) ->
  suspend P sub a mf ns aux w = (w, false).
Proof. exact suspend_refused. Qed.
Print Assumptions refused_conditional_aux_noop.

(* while suspended only the frames of the truncated outline recur: frames below the main frame are silent *)
Theorem suspended_frames_silent : forall (O : TimeOps) (P : prog O) sub a w, crashed w = None ->
  framer_recur P sub a w =
  fold_left (fun w f => guard w (fun w =>
     let w := emit w (ERecur a f) in
     let w := run_acts P sub a (reacts (getf P a f)) w in
     fold_left (fun w aux => guard w (o_recur sub aux)) (fr_auxes (getf P a f)) w))
   (actives (gett w a)) w.
Proof. exact recur_only_actives. Qed.
Print Assumptions suspended_frames_silent.

(* the clause suspends what follows it (truthy result) only while the auxiliary has NOT completed; a crashed
   world is never reported as suspended *)
Theorem suspended_only_while_incomplete : forall (O : TimeOps) (P : prog O) sub a mf ns aux w w',
  suspend P sub a mf ns aux w = (w', true) -> done (gett w' aux) = false /\ crashed w' = None.
Proof. exact suspend_truthy_incomplete. Qed.
Print Assumptions suspended_only_while_incomplete.

(* starting the auxiliary without completing at once truncates the active frames to the head of the main frame *)
Theorem started_conditional_aux_truncates_outline : forall (O : TimeOps) (P : prog O) sub a mf ns aux w w',
  done (gett w aux) = true -> suspend P sub a mf ns aux w = (w', true) -> a < length (tss w') ->
  actives (gett w' a) = head P a mf.
Proof. exact suspend_start_truncates. Qed.
Print Assumptions started_conditional_aux_truncates_outline.

(* a shared original auxiliary that is running for ANOTHER frame is never run, completed or deactivated by this
   clause (it stays with its owner, whose suspended frames resume when it completes) *)
Theorem foreign_running_aux_is_left_alone : forall (O : TimeOps) (P : prog O) sub a mf ns aux w mt m,
  done (gett w aux) = false -> main (gett w aux) = Some (mt, m) -> (Nat.eqb mt a && Nat.eqb m mf) = false ->
  suspend P sub a mf ns aux w = (w, false).
Proof. exact suspend_foreign_running_noop. Qed.
Print Assumptions foreign_running_aux_is_left_alone.

(* "it then runs every tick regardless of its conditions until it completes" *)
Theorem running_conditional_aux_ignores_conditions : forall (O : TimeOps) (P : prog O) sub a mf ns ns' aux w,
  done (gett w aux) = false -> suspend P sub a mf ns aux w = suspend P sub a mf ns' aux w.
Proof. exact suspend_running_ignores_conditions. Qed.
Print Assumptions running_conditional_aux_ignores_conditions.

(* resuming is not a re-entry: restoring the outline emits no event and runs no action *)
Theorem resume_same_tick_no_reenter : forall (O : TimeOps) (P : prog O) a w,
  trace (reactivate P a w) = trace w.
Proof. exact reactivate_trace. Qed.
Print Assumptions resume_same_tick_no_reenter.

(* "if its main frame is exited first, the auxiliary is exited with it" holds for the main frame itself
   (deactivize is one of its exit actions) but the frames suspended BELOW it are not exited: open finding *)
Theorem suspended_frames_not_exited_refuted :
  let w := sw (fst (run P_suspended 1 None 6)) in
  count_enter 0 1 (trace w) = 1 /\ count_exit 0 1 (trace w) = 0 /\
  status_n (Some (st (gett w 0))) = 3 /\ actives (gett w 0) = [].
Proof. exact suspended_frames_not_exited. Qed.
Print Assumptions suspended_frames_not_exited_refuted.
