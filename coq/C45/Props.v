(* C45 -- property theorems only.  Each closed by [exact]; Print Assumptions beneath.
   FixTruth / GoodTruth are the definitions GENERATED from ioflo/base/arbiting.py
   (coq/gen/C45_Arbiting.v); switch/priority/trusted/weighted are the hand models of the
   update() methods (coq/C45/Model.v; ArbiterTrusted as fixed).  Numbers are ideal
   rationals.  truth_ok = the truth is None, a boolean or a number (the property's domain). *)
From Coq Require Import ZArith QArith List Bool.
Import ListNotations.
Require Import V.Lib.C45_PyVal V.gen.C45_Arbiting V.C45.Model V.C45.Proofs.

(* FixTruth: on None / bool / any number returns a float in [0,1] ... *)
Theorem fixtruth_range : forall t, (forall s, t <> VStr s) ->
  exists r, FixTruth t = Ok (VFlt r) /\ 0 <= r /\ r <= 1.
Proof. exact fixtruth_float. Qed.
Print Assumptions fixtruth_range.

(* ... equal to the documented value: None/True -> 1, False -> 0, number -> clamp to [0,1] *)
Theorem fixtruth_value : forall t, (forall s, t <> VStr s) ->
  exists r c, fixq t = Ok r /\ fix_spec t = Some c /\ r == c /\ 0 <= r /\ r <= 1.
Proof. exact fixq_spec. Qed.
Print Assumptions fixtruth_value.

(* GoodTruth is exactly "a float in [0,1]"; and Arbiter.__init__ leaves default.truth such *)
Theorem goodtruth_exact : forall t,
  GoodTruth t = Ok (VBool (match t with VFlt q => Qle_bool 0 q && Qle_bool q 1 | _ => false end)).
Proof. exact goodtruth_spec. Qed.
Print Assumptions goodtruth_exact.

Theorem init_default_in_range : forall t, (forall s, t <> VStr s) ->
  exists r, init_default_truth t = Ok (VFlt r) /\ 0 <= r /\ r <= 1.
Proof. exact init_default_range. Qed.
Print Assumptions init_default_in_range.

(* Switch: the first selected input's (value, truth) unchanged; default iff none selected;
   for ANY inputs (no precondition), never raises. *)
Theorem switch_first_selected : forall ins dv dt,
  (exists pre w post, ins = pre ++ w :: post /\ (forall j, In j pre -> selected j = false) /\
      selected w = true /\ switch ins dv dt = Ok (value w, truth w))
  \/ ((forall j, In j ins -> selected j = false) /\ switch ins dv dt = Ok (dflt dv dt)).
Proof. exact switch_spec. Qed.
Print Assumptions switch_first_selected.

(* Priority: among the inputs that are selected, have fixed truth > default truth and
   importance > 0, the FIRST one of maximal importance wins (everything before it is strictly
   less important, everything after at most as important); output = (its value, its fixed
   truth) -- unless its share has no data field at all (python `if inputmax:` is len()>0),
   then the default; default when no input qualifies. *)
Theorem priority_first_most_important : forall ins dv dt, Forall truth_ok ins ->
  (exists pre w post, ins = pre ++ w :: post /\ pqual dt w /\
      (forall j, In j pre -> pqual dt j -> imp j < imp w) /\
      (forall j, In j post -> pqual dt j -> imp j <= imp w) /\
      priority ins dv dt = Ok (if nonempty w then (value w, VFlt (ftr w)) else dflt dv dt))
  \/ ((forall j, In j ins -> ~ pqual dt j) /\ priority ins dv dt = Ok (dflt dv dt)).
Proof. exact priority_spec. Qed.
Print Assumptions priority_first_most_important.

(* Trusted (as fixed): among the selected inputs with fixed truth > default truth (>= 0 as
   __init__ guarantees), the FIRST maximum of (truth, importance) in lexicographic order wins. *)
Theorem trusted_highest_truth_then_importance : forall ins dv dt, Forall truth_ok ins -> 0 <= dt ->
  (exists pre w post, ins = pre ++ w :: post /\ suff dt w = true /\
      (forall j, In j pre -> suff dt j = true -> lexlt (ftr j) (imp j) (ftr w) (imp w)) /\
      (forall j, In j post -> suff dt j = true -> ~ lexlt (ftr w) (imp w) (ftr j) (imp j)) /\
      trusted ins dv dt = Ok (if nonempty w then (value w, VFlt (ftr w)) else dflt dv dt))
  \/ ((forall j, In j ins -> suff dt j = false) /\ trusted ins dv dt = Ok (dflt dv dt)).
Proof. exact trusted_spec. Qed.
Print Assumptions trusted_highest_truth_then_importance.

(* Weighted: with numeric values on the selected inputs,
   truth  = Sum(imp*fix truth)/Sum(imp),  value = Sum(imp*fix truth*value)/Sum(imp*fix truth)
   when both denominators are non zero and the weighted truth exceeds the default truth;
   the default output in every other case. *)
Theorem weighted_average : forall ins dv dt, Forall truth_ok ins -> values_numeric ins ->
  (~ Wcnf ins == 0 -> ~ Wimp ins == 0 -> dt < Wcnf ins / Wimp ins ->
     exists v c, weighted ins dv dt = Ok (VFlt v, VFlt c) /\
                 v == Wval ins / Wcnf ins /\ c == Wcnf ins / Wimp ins)
  /\ (Wcnf ins == 0 \/ Wimp ins == 0 \/ Wcnf ins / Wimp ins <= dt ->
     weighted ins dv dt = Ok (dflt dv dt)).
Proof. exact weighted_spec. Qed.
Print Assumptions weighted_average.

(* ... and then it is a convex combination: with non-negative importances the weighted value
   lies within the range of the selected inputs' values and the weighted truth within (dt, 1] *)
Theorem weighted_within_input_range : forall ins dv dt lo hi, Forall truth_ok ins -> values_numeric ins ->
  (forall i, In i ins -> selected i = true -> 0 <= imp i) ->
  (forall i, In i ins -> selected i = true -> lo <= numv i /\ numv i <= hi) ->
  ~ Wcnf ins == 0 -> ~ Wimp ins == 0 -> dt < Wcnf ins / Wimp ins ->
  exists v c, weighted ins dv dt = Ok (VFlt v, VFlt c) /\ lo <= v /\ v <= hi /\ dt < c /\ c <= 1.
Proof. exact weighted_convex. Qed.
Print Assumptions weighted_within_input_range.

(* a selected input whose value is not a number (None, str) -> default output *)
Theorem weighted_non_numeric_falls_back : forall ins dv dt, Forall truth_ok ins ->
  (exists i, In i ins /\ selected i = true /\ num_of (value i) = None) ->
  weighted ins dv dt = Ok (dflt dv dt).
Proof. exact weighted_bad_value. Qed.
Print Assumptions weighted_non_numeric_falls_back.

(* never raising, for all inputs whose truths are None / bool / numbers *)
Theorem switch_total : forall ins dv dt, exists o, switch ins dv dt = Ok o.
Proof. exact switch_never_raises. Qed.
Print Assumptions switch_total.
Theorem priority_total : forall ins dv dt, Forall truth_ok ins -> exists o, priority ins dv dt = Ok o.
Proof. exact priority_never_raises. Qed.
Print Assumptions priority_total.
Theorem trusted_total : forall ins dv dt, Forall truth_ok ins -> exists o, trusted ins dv dt = Ok o.
Proof. exact trusted_never_raises. Qed.
Print Assumptions trusted_total.
Theorem weighted_total : forall ins dv dt, Forall truth_ok ins -> exists o, weighted ins dv dt = Ok o.
Proof. exact weighted_never_raises. Qed.
Print Assumptions weighted_total.

(* STRING TRUTHS (outside the property's domain None/bool/number): FixTruth raises TypeError ... *)
Theorem fixtruth_string_raises : forall s, FixTruth (VStr s) = Err TypeError.
Proof. exact fixtruth_str. Qed.
Print Assumptions fixtruth_string_raises.

(* ... which escapes Priority and Trusted (FixTruth is applied to EVERY input, selected or not) ... *)
Theorem priority_trusted_raise_on_string_truth : forall pre i post dv dt s,
  Forall truth_ok pre -> truth i = VStr s ->
  priority (pre ++ i :: post) dv dt = Err TypeError /\ trusted (pre ++ i :: post) dv dt = Err TypeError.
Proof. exact string_truth_raises. Qed.
Print Assumptions priority_trusted_raise_on_string_truth.

(* ... and is caught by Weighted (only selected inputs are fixed): default output *)
Theorem weighted_string_truth_falls_back : forall pre i post dv dt s,
  Forall truth_ok pre -> selected i = true -> truth i = VStr s ->
  weighted (pre ++ i :: post) dv dt = Ok (dflt dv dt).
Proof. exact weighted_string_truth. Qed.
Print Assumptions weighted_string_truth_falls_back.

(* When every input share has at least one data field (in particular whenever every input has a
   value, as the property quantifies) the winner's own (value, fixed truth) is the output: the
   `if inputmax:` fallback for a zero-field winner is unreachable inside the property's domain. *)
Theorem priority_outputs_winner_when_inputs_have_fields : forall ins dv dt,
  Forall truth_ok ins -> (forall i, In i ins -> nonempty i = true) ->
  (exists pre w post, ins = pre ++ w :: post /\ pqual dt w /\
      (forall j, In j pre -> pqual dt j -> imp j < imp w) /\
      (forall j, In j post -> pqual dt j -> imp j <= imp w) /\
      priority ins dv dt = Ok (value w, VFlt (ftr w)))
  \/ ((forall j, In j ins -> ~ pqual dt j) /\ priority ins dv dt = Ok (dflt dv dt)).
Proof. exact priority_nonempty. Qed.
Print Assumptions priority_outputs_winner_when_inputs_have_fields.

Theorem trusted_outputs_winner_when_inputs_have_fields : forall ins dv dt,
  Forall truth_ok ins -> 0 <= dt -> (forall i, In i ins -> nonempty i = true) ->
  (exists pre w post, ins = pre ++ w :: post /\ suff dt w = true /\
      (forall j, In j pre -> suff dt j = true -> lexlt (ftr j) (imp j) (ftr w) (imp w)) /\
      (forall j, In j post -> suff dt j = true -> ~ lexlt (ftr w) (imp w) (ftr j) (imp j)) /\
      trusted ins dv dt = Ok (value w, VFlt (ftr w)))
  \/ ((forall j, In j ins -> suff dt j = false) /\ trusted ins dv dt = Ok (dflt dv dt)).
Proof. exact trusted_nonempty. Qed.
Print Assumptions trusted_outputs_winner_when_inputs_have_fields.

(* ---- non-vacuity ------------------------------------------------------------------ *)

(* truth tie between inputs 1 and 2, broken by importance (the unfixed code raises NameError here) *)
Example trusted_tie :
  trusted [mk (VBool true) (VFlt (1#2)) (1#4) (VInt 10); mk (VBool true) (VFlt (1#2)) (3#4) (VInt 20);
           mk (VBool true) (VFlt (1#4)) 1 (VInt 30)] (VInt 0) 0
  = Ok (VInt 20, VFlt (1#2)).
Proof. vm_compute. reflexivity. Qed.

Example priority_first_of_equals :
  priority [mk (VBool true) VNone (1#2) (VInt 10); mk (VBool false) VNone 1 (VInt 20);
            mk (VInt 1) (VBool true) (1#2) (VInt 30)] (VInt 0) (1#4)
  = Ok (VInt 10, VFlt 1).
Proof. vm_compute. reflexivity. Qed.

Example weighted_example :
  weighted [mk (VBool true) (VFlt (1#2)) 1 (VInt 4); mk (VBool true) VNone 1 (VFlt (2#1))] (VInt 0) (1#4)
  = Ok (VFlt ((0 + 1 * (1#2) * inject_Z 4 + 1 * 1 * (2#1)) / (0 + 1 * (1#2) + 1 * 1)),
        VFlt ((0 + 1 * (1#2) + 1 * 1) / (0 + 1 + 1))).
Proof. reflexivity. Qed.

Example weighted_string_value_default :
  weighted [mk (VBool true) VNone 1 (VStr [97%Z])] (VInt 7) (1#4) = Ok (VInt 7, VFlt (1#4)).
Proof. vm_compute. reflexivity. Qed.
