From Coq Require Import ZArith QArith Qabs List Bool Lia Lqa.
Import ListNotations.
Require Import V.Lib.C45_PyVal V.gen.C45_Arbiting V.C45.Model.

(* ---- boolean reflection on Q ---------------------------------------------------- *)
Lemma Qlt_bool_iff a b : Qlt_bool a b = true <-> a < b.
Proof.
  unfold Qlt_bool. rewrite negb_true_iff. split; intro H.
  - apply Qnot_le_lt. intro L. apply Qle_bool_iff in L. congruence.
  - destruct (Qle_bool b a) eqn:E; [|reflexivity]. apply Qle_bool_iff in E.
    exfalso. apply (Qlt_not_le _ _ H E).
Qed.

Lemma Qlt_bool_false a b : Qlt_bool a b = false <-> b <= a.
Proof.
  unfold Qlt_bool. rewrite negb_false_iff. apply Qle_bool_iff.
Qed.

Lemma Qeq_bool_false a b : Qeq_bool a b = false <-> ~ a == b.
Proof.
  split; intro H.
  - intro E. apply Qeq_bool_iff in E. congruence.
  - destruct (Qeq_bool a b) eqn:E; [|reflexivity]. apply Qeq_bool_iff in E. contradiction.
Qed.

Ltac qb :=
  repeat match goal with
  | H : Qlt_bool _ _ = true |- _ => apply Qlt_bool_iff in H
  | H : Qlt_bool _ _ = false |- _ => apply Qlt_bool_false in H
  | H : Qle_bool _ _ = true |- _ => apply Qle_bool_iff in H
  | H : Qeq_bool _ _ = true |- _ => apply Qeq_bool_iff in H
  | H : Qeq_bool _ _ = false |- _ => apply Qeq_bool_false in H
  end.

(* ---- FixTruth / GoodTruth (generated definitions) -------------------------------- *)
Lemma clamp01_range q : 0 <= clamp01 q /\ clamp01 q <= 1.
Proof.
  unfold clamp01. destruct (Qlt_bool q 0) eqn:A; [split; lra|].
  destruct (Qlt_bool 1 q) eqn:B; [split; lra|]. qb. split; lra.
Qed.

Lemma fixq_flt q : exists r, fixq (VFlt q) = Ok r /\ r == clamp01 q.
Proof.
  unfold fixq, FixTruth, clamp01. cbn.
  destruct (Qlt_bool 0 q) eqn:A; cbn.
  - destruct (Qlt_bool q 1) eqn:B; cbn.
    + exists q. split; [reflexivity|]. qb.
      destruct (Qlt_bool q 0) eqn:C; qb; [lra|]. destruct (Qlt_bool 1 q) eqn:D; qb; lra.
    + exists 1. split; [reflexivity|]. qb.
      destruct (Qlt_bool q 0) eqn:C; qb; [lra|]. destruct (Qlt_bool 1 q) eqn:D; qb; lra.
  - exists 0. split; [reflexivity|]. qb.
    destruct (Qlt_bool q 0) eqn:C; qb; [lra|]. destruct (Qlt_bool 1 q) eqn:D; qb; lra.
Qed.

Lemma fixq_int z : exists r, fixq (VInt z) = Ok r /\ r == clamp01 (inject_Z z).
Proof.
  unfold fixq, FixTruth, clamp01. cbn.
  destruct (Qlt_bool 0 (inject_Z z)) eqn:A; cbn.
  - destruct (Qlt_bool (inject_Z z) 1) eqn:B; cbn.
    + exists (inject_Z z). split; [reflexivity|]. qb.
      destruct (Qlt_bool (inject_Z z) 0) eqn:C; qb; [lra|].
      destruct (Qlt_bool 1 (inject_Z z)) eqn:D; qb; lra.
    + exists 1. split; [reflexivity|]. qb.
      destruct (Qlt_bool (inject_Z z) 0) eqn:C; qb; [lra|].
      destruct (Qlt_bool 1 (inject_Z z)) eqn:D; qb; lra.
  - exists 0. split; [reflexivity|]. qb.
    destruct (Qlt_bool (inject_Z z) 0) eqn:C; qb; [lra|].
    destruct (Qlt_bool 1 (inject_Z z)) eqn:D; qb; lra.
Qed.

(* FixTruth on every non-string truth: a float, equal to the documented clamp, in [0,1] *)
Lemma fixq_spec t : (forall s, t <> VStr s) ->
  exists r c, fixq t = Ok r /\ fix_spec t = Some c /\ r == c /\ 0 <= r /\ r <= 1.
Proof.
  intro H. destruct t as [|b|z|q|s].
  - exists 1, 1. cbn. repeat split; lra.
  - destruct b; [exists 1, 1 | exists 0, 0]; cbn; repeat split; lra.
  - destruct (fixq_int z) as [r [E Q]]. exists r, (clamp01 (inject_Z z)).
    pose proof (clamp01_range (inject_Z z)). cbn [fix_spec]. repeat split; try assumption; lra.
  - destruct (fixq_flt q) as [r [E Q]]. exists r, (clamp01 q).
    pose proof (clamp01_range q). cbn [fix_spec]. repeat split; try assumption; lra.
  - exfalso. apply (H s). reflexivity.
Qed.

Lemma fixtruth_float t : (forall s, t <> VStr s) ->
  exists r, FixTruth t = Ok (VFlt r) /\ 0 <= r /\ r <= 1.
Proof.
  intro H. destruct (fixq_spec t H) as [r [c [E [_ [_ [L U]]]]]]. exists r.
  unfold fixq in E. destruct (FixTruth t) as [v|e]; [|discriminate].
  destruct v; try discriminate. inversion E; subst. auto.
Qed.

Lemma fixtruth_str s : FixTruth (VStr s) = Err TypeError.
Proof. reflexivity. Qed.

Lemma goodtruth_spec t :
  GoodTruth t = Ok (VBool (match t with VFlt q => Qle_bool 0 q && Qle_bool q 1 | _ => false end)).
Proof.
  destruct t as [|b|z|q|s]; try reflexivity.
  unfold GoodTruth. cbn. destruct (Qle_bool 0 q); cbn; [|reflexivity].
  destruct (Qle_bool q 1); reflexivity.
Qed.

(* Arbiter.__init__ leaves default.truth a float in [0,1] *)
Lemma init_default_range t : (forall s, t <> VStr s) ->
  exists r, init_default_truth t = Ok (VFlt r) /\ 0 <= r /\ r <= 1.
Proof.
  intro H. unfold init_default_truth. rewrite goodtruth_spec. cbn [bind py_truthy].
  destruct t as [|b|z|q|s]; try (apply fixtruth_float; assumption).
  destruct (Qle_bool 0 q) eqn:A; cbn [andb].
  - destruct (Qle_bool q 1) eqn:B.
    + exists q. qb. auto.
    + apply fixtruth_float; assumption.
  - apply fixtruth_float; assumption.
Qed.

Lemma ftr_ok i : truth_ok i -> fixq (truth i) = Ok (ftr i).
Proof.
  intro H. destruct (fixq_spec (truth i) H) as [r [c [E _]]]. unfold ftr. rewrite E. reflexivity.
Qed.

Lemma ftr_range i : truth_ok i -> 0 <= ftr i /\ ftr i <= 1.
Proof.
  intro H. destruct (fixq_spec (truth i) H) as [r [c [E [_ [_ [L U]]]]]].
  unfold ftr. rewrite E. auto.
Qed.

Lemma ftr_clamp i : truth_ok i -> exists c, fix_spec (truth i) = Some c /\ ftr i == c.
Proof.
  intro H. destruct (fixq_spec (truth i) H) as [r [c [E [S [Q _]]]]].
  exists c. unfold ftr. rewrite E. auto.
Qed.

(* ---- switch ---------------------------------------------------------------------- *)
Lemma switch_spec ins dv dt :
  (exists pre w post, ins = pre ++ w :: post /\ (forall j, In j pre -> selected j = false) /\
      selected w = true /\ switch ins dv dt = Ok (value w, truth w))
  \/ ((forall j, In j ins -> selected j = false) /\ switch ins dv dt = Ok (dflt dv dt)).
Proof.
  induction ins as [|i r IH].
  - right. split; [intros j []|reflexivity].
  - cbn [switch]. destruct (py_truthy (sel i)) eqn:S.
    + left. exists [], i, r. repeat split; auto. intros j [].
    + destruct IH as [[pre [w [post [E [P [Sw O]]]]]]|[N O]].
      * left. exists (i :: pre), w, post. subst r. repeat split; auto.
        intros j [<-|Hj]; [exact S|auto].
      * right. split; [|exact O]. intros j [<-|Hj]; [exact S|auto].
Qed.

(* ---- priority --------------------------------------------------------------------- *)

Lemma priority_loop_spec ins dt : forall b im tm, Forall truth_ok ins ->
  ((forall j, In j ins -> suff dt j = true -> imp j <= im) /\
     priority_loop ins dt (b, im, tm) = Ok (b, im, tm))
  \/ (exists pre w post, ins = pre ++ w :: post /\ suff dt w = true /\ im < imp w /\
       (forall j, In j pre -> suff dt j = true -> imp j < imp w) /\
       (forall j, In j post -> suff dt j = true -> imp j <= imp w) /\
       priority_loop ins dt (b, im, tm) = Ok (Some w, imp w, ftr w)).
Proof.
  induction ins as [|i r IH]; intros b im tm F.
  - left. split; [intros j []|reflexivity].
  - inversion F as [|x l Hi Fr]; subst. cbn [priority_loop]. rewrite (ftr_ok i Hi). cbn [bind].
    destruct (py_truthy (sel i) && Qlt_bool dt (ftr i) && Qlt_bool im (imp i)) eqn:C.
    + apply andb_true_iff in C. destruct C as [C1 C2]. qb.
      destruct (IH (Some i) (imp i) (ftr i) Fr) as [[N O]|[pre [w [post [E [Sw [Lt [P [Q O]]]]]]]]].
      * right. exists [], i, r. repeat split; auto. intros j [].
      * right. exists (i :: pre), w, post. subst r. repeat split; auto; try lra.
        intros j [<-|Hj] Sj; [lra|auto].
    + destruct (IH b im tm Fr) as [[N O]|[pre [w [post [E [Sw [Lt [P [Q O]]]]]]]]].
      * left. split; [|exact O]. intros j [<-|Hj] Sj; [|auto].
        unfold suff, selected in Sj. rewrite Sj in C. cbn in C. qb. exact C.
      * right. exists (i :: pre), w, post. subst r. repeat split; auto.
        intros j [<-|Hj] Sj; [|auto].
        unfold suff, selected in Sj. rewrite Sj in C. cbn in C. qb. lra.
Qed.


Lemma priority_spec ins dv dt : Forall truth_ok ins ->
  (exists pre w post, ins = pre ++ w :: post /\ pqual dt w /\
      (forall j, In j pre -> pqual dt j -> imp j < imp w) /\
      (forall j, In j post -> pqual dt j -> imp j <= imp w) /\
      priority ins dv dt = Ok (if nonempty w then (value w, VFlt (ftr w)) else dflt dv dt))
  \/ ((forall j, In j ins -> ~ pqual dt j) /\ priority ins dv dt = Ok (dflt dv dt)).
Proof.
  intro F. unfold priority, pst0.
  destruct (priority_loop_spec ins dt None 0 0 F) as [[N O]|[pre [w [post [E [Sw [Lt [P [Q O]]]]]]]]].
  - right. split.
    + intros j Hj [S L]. specialize (N j Hj S). lra.
    + rewrite O. reflexivity.
  - left. exists pre, w, post. rewrite O. cbn [bind finish]. repeat split; auto.
    + intros j Hj [S _]. auto.
    + intros j Hj [S _]. auto.
Qed.

(* ---- trusted ---------------------------------------------------------------------- *)

Lemma lexlt_trans t1 i1 t2 i2 t3 i3 : lexlt t1 i1 t2 i2 -> lexlt t2 i2 t3 i3 -> lexlt t1 i1 t3 i3.
Proof. unfold lexlt. intros [A|[A B]] [C|[C D]]; [left|left|left|right; split]; lra. Qed.

Lemma not_lexlt_lexlt t1 i1 t2 i2 t3 i3 :
  ~ lexlt t1 i1 t2 i2 -> lexlt t1 i1 t3 i3 -> lexlt t2 i2 t3 i3.
Proof.
  unfold lexlt. intros N H.
  destruct (Qlt_le_dec t1 t2) as [L|L]; [exfalso; apply N; left; exact L|].
  destruct (Qlt_le_dec t2 t1) as [L2|L2].
  - destruct H as [A|[A B]]; left; lra.
  - assert (E : t2 == t1) by lra.
    destruct (Qlt_le_dec i1 i2) as [M|M]; [exfalso; apply N; right; split; assumption|].
    destruct H as [A|[A B]]; [left; lra|right; split; lra].
Qed.

Definition beats (w : input) (tm im : Q) : Prop := lexlt tm im (ftr w) (imp w).

Lemma trusted_cond i tm im :
  (if Qlt_bool tm (ftr i) then true else Qeq_bool (ftr i) tm && Qlt_bool im (imp i)) = true
  <-> beats i tm im.
Proof.
  unfold beats, lexlt. destruct (Qlt_bool tm (ftr i)) eqn:A; qb.
  - split; auto.
  - split.
    + intro H. apply andb_true_iff in H. destruct H as [B C]. qb. right. split; assumption.
    + intros [H|[H1 H2]]; [lra|]. apply andb_true_iff. split.
      * apply Qeq_bool_iff. exact H1.
      * apply Qlt_bool_iff. exact H2.
Qed.

Lemma trusted_loop_spec ins dt : forall b im tm, Forall truth_ok ins ->
  ((forall j, In j ins -> suff dt j = true -> ~ beats j tm im) /\
     trusted_loop ins dt (b, im, tm) = Ok (b, im, tm))
  \/ (exists pre w post, ins = pre ++ w :: post /\ suff dt w = true /\ beats w tm im /\
       (forall j, In j pre -> suff dt j = true -> beats w (ftr j) (imp j)) /\
       (forall j, In j post -> suff dt j = true -> ~ beats j (ftr w) (imp w)) /\
       trusted_loop ins dt (b, im, tm) = Ok (Some w, imp w, ftr w)).
Proof.
  induction ins as [|i r IH]; intros b im tm F.
  - left. split; [intros j []|reflexivity].
  - inversion F as [|x l Hi Fr]; subst. cbn [trusted_loop]. rewrite (ftr_ok i Hi). cbn [bind].
    fold (selected i). fold (suff dt i).
    pose proof (trusted_cond i tm im) as TC.
    destruct (suff dt i) eqn:S.
    + destruct (Qlt_bool tm (ftr i)) eqn:A.
      * assert (B : beats i tm im) by (apply TC; reflexivity).
        destruct (IH (Some i) (imp i) (ftr i) Fr) as [[N O]|[pre [w [post [E [Sw [Bw [P [Q O]]]]]]]]].
        -- right. exists [], i, r. repeat split; auto. intros j [].
        -- right. exists (i :: pre), w, post. subst r. repeat split; auto.
           ++ unfold beats in *. eapply lexlt_trans; eassumption.
           ++ intros j [<-|Hj] Sj; [exact Bw|auto].
      * destruct (Qeq_bool (ftr i) tm && Qlt_bool im (imp i)) eqn:C.
        -- assert (B : beats i tm im) by (apply TC; reflexivity).
           destruct (IH (Some i) (imp i) (ftr i) Fr) as [[N O]|[pre [w [post [E [Sw [Bw [P [Q O]]]]]]]]].
           ++ right. exists [], i, r. repeat split; auto. intros j [].
           ++ right. exists (i :: pre), w, post. subst r. repeat split; auto.
              ** unfold beats in *. eapply lexlt_trans; eassumption.
              ** intros j [<-|Hj] Sj; [exact Bw|auto].
        -- assert (NB : ~ beats i tm im) by (intro B; apply TC in B; discriminate).
           destruct (IH b im tm Fr) as [[N O]|[pre [w [post [E [Sw [Bw [P [Q O]]]]]]]]].
           ++ left. split; [|exact O]. intros j [<-|Hj] Sj; [exact NB|auto].
           ++ right. exists (i :: pre), w, post. subst r. repeat split; auto.
              intros j [<-|Hj] Sj; [|auto]. unfold beats in *.
              eapply not_lexlt_lexlt; eassumption.
    + destruct (IH b im tm Fr) as [[N O]|[pre [w [post [E [Sw [Bw [P [Q O]]]]]]]]].
      * left. split; [|exact O]. intros j [<-|Hj] Sj; [congruence|auto].
      * right. exists (i :: pre), w, post. subst r. repeat split; auto.
        intros j [<-|Hj] Sj; [congruence|auto].
Qed.

Lemma trusted_spec ins dv dt : Forall truth_ok ins -> 0 <= dt ->
  (exists pre w post, ins = pre ++ w :: post /\ suff dt w = true /\
      (forall j, In j pre -> suff dt j = true -> lexlt (ftr j) (imp j) (ftr w) (imp w)) /\
      (forall j, In j post -> suff dt j = true -> ~ lexlt (ftr w) (imp w) (ftr j) (imp j)) /\
      trusted ins dv dt = Ok (if nonempty w then (value w, VFlt (ftr w)) else dflt dv dt))
  \/ ((forall j, In j ins -> suff dt j = false) /\ trusted ins dv dt = Ok (dflt dv dt)).
Proof.
  intros F D. unfold trusted, pst0.
  destruct (trusted_loop_spec ins dt None 0 0 F) as [[N O]|[pre [w [post [E [Sw [Bw [P [Q O]]]]]]]]].
  - right. split.
    + intros j Hj. destruct (suff dt j) eqn:S; [|reflexivity]. exfalso. apply (N j Hj S).
      unfold beats, lexlt. left. unfold suff in S. apply andb_true_iff in S. destruct S as [_ S].
      qb. lra.
    + rewrite O. reflexivity.
  - left. exists pre, w, post. rewrite O. cbn [bind finish]. repeat split; auto.
Qed.

(* ---- weighted --------------------------------------------------------------------- *)

Lemma weighted_loop_sums ins : forall a b c, Forall truth_ok ins -> values_numeric ins ->
  exists wi wc wv, weighted_loop ins (a, b, c) = Ok (wi, wc, wv) /\
    wi == a + Wimp ins /\ wc == b + Wcnf ins /\ wv == c + Wval ins.
Proof.
  unfold Wimp, Wcnf, Wval, sels.
  induction ins as [|i r IH]; intros a b c F V.
  - exists a, b, c. cbn. repeat split; lra.
  - inversion F as [|x l Hi Fr]; subst. cbn [weighted_loop filter]. fold (selected i).
    assert (Vr : values_numeric r) by (intros j Hj; apply V; right; exact Hj).
    destruct (selected i) eqn:S.
    + rewrite (ftr_ok i Hi). cbn [bind].
      pose proof (V i (or_introl eq_refl) S) as Nv.
      destruct (num_of (value i)) as [v|] eqn:E; [|congruence].
      assert (Ev : numv i = v) by (unfold numv; rewrite E; reflexivity).
      destruct (IH (a + imp i) (b + imp i * ftr i) (c + imp i * ftr i * v) Fr Vr)
        as [wi [wc [wv [O [A [B C]]]]]].
      exists wi, wc, wv. split; [exact O|]. cbn [map sumQ fold_right]. rewrite Ev.
      unfold sumQ in *. repeat split; lra.
    + apply IH; assumption.
Qed.

Lemma weighted_loop_bad ins : forall st, Forall truth_ok ins ->
  (exists i, In i ins /\ selected i = true /\ num_of (value i) = None) ->
  weighted_loop ins st = Err TypeError.
Proof.
  induction ins as [|i r IH]; intros st F [j [Hj [Sj Nj]]]; [destruct Hj|].
  inversion F as [|x l Hi Fr]; subst. cbn [weighted_loop]. fold (selected i).
  destruct (selected i) eqn:S.
  - rewrite (ftr_ok i Hi). cbn [bind]. destruct (num_of (value i)) as [v|] eqn:E.
    + destruct st as [[wi wc] wv]. apply IH; [exact Fr|].
      destruct Hj as [<-|Hj]; [congruence|]. exists j. auto.
    + reflexivity.
  - apply IH; [exact Fr|]. destruct Hj as [<-|Hj]; [congruence|]. exists j. auto.
Qed.

Lemma weighted_loop_total ins : forall st, Forall truth_ok ins ->
  (exists st', weighted_loop ins st = Ok st') \/ weighted_loop ins st = Err TypeError.
Proof.
  induction ins as [|i r IH]; intros st F.
  - left. exists st. reflexivity.
  - inversion F as [|x l Hi Fr]; subst. cbn [weighted_loop].
    destruct (py_truthy (sel i)); [|apply IH; exact Fr].
    rewrite (ftr_ok i Hi). cbn [bind]. destruct (num_of (value i)); [|right; reflexivity].
    destruct st as [[wi wc] wv]. apply IH. exact Fr.
Qed.

Lemma weighted_never_raises ins dv dt : Forall truth_ok ins -> exists o, weighted ins dv dt = Ok o.
Proof.
  intro F. unfold weighted. destruct (weighted_loop_total ins (0, 0, 0) F) as [[st O]|O]; rewrite O.
  - cbn [bind]. destruct st as [[wi wc] wv]. unfold weighted_div.
    destruct (Qeq_bool wc 0); [eexists; reflexivity|].
    destruct (Qeq_bool wi 0); [eexists; reflexivity|].
    destruct (Qlt_bool dt (wc / wi)); eexists; reflexivity.
  - cbn. eexists; reflexivity.
Qed.

Lemma weighted_spec ins dv dt : Forall truth_ok ins -> values_numeric ins ->
  (~ Wcnf ins == 0 -> ~ Wimp ins == 0 -> dt < Wcnf ins / Wimp ins ->
     exists v c, weighted ins dv dt = Ok (VFlt v, VFlt c) /\
                 v == Wval ins / Wcnf ins /\ c == Wcnf ins / Wimp ins)
  /\ (Wcnf ins == 0 \/ Wimp ins == 0 \/ Wcnf ins / Wimp ins <= dt ->
     weighted ins dv dt = Ok (dflt dv dt)).
Proof.
  intros F V. destruct (weighted_loop_sums ins 0 0 0 F V) as [wi [wc [wv [O [A [B C]]]]]].
  assert (A' : wi == Wimp ins) by lra. assert (B' : wc == Wcnf ins) by lra.
  assert (C' : wv == Wval ins) by lra. clear A B C.
  unfold weighted. rewrite O. cbn [bind weighted_div]. split.
  - intros NC NW L.
    destruct (Qeq_bool wc 0) eqn:E1; qb; [exfalso; apply NC; rewrite <- B'; exact E1|].
    destruct (Qeq_bool wi 0) eqn:E2; qb; [exfalso; apply NW; rewrite <- A'; exact E2|].
    assert (Q1 : wc / wi == Wcnf ins / Wimp ins) by (rewrite A', B'; reflexivity).
    destruct (Qlt_bool dt (wc / wi)) eqn:E3; qb.
    + exists (wv / wc), (wc / wi). split; [reflexivity|]. split; [|exact Q1].
      rewrite B', C'. reflexivity.
    + exfalso. rewrite Q1 in E3. lra.
  - intros H.
    destruct (Qeq_bool wc 0) eqn:E1; [reflexivity|].
    destruct (Qeq_bool wi 0) eqn:E2; [reflexivity|]. qb.
    assert (Q1 : wc / wi == Wcnf ins / Wimp ins) by (rewrite A', B'; reflexivity).
    destruct H as [H|[H|H]].
    + exfalso. apply E1. rewrite B'. exact H.
    + exfalso. apply E2. rewrite A'. exact H.
    + destruct (Qlt_bool dt (wc / wi)) eqn:E3; [|reflexivity]. qb. rewrite Q1 in E3. lra.
Qed.

Lemma weighted_bad_value ins dv dt : Forall truth_ok ins ->
  (exists i, In i ins /\ selected i = true /\ num_of (value i) = None) ->
  weighted ins dv dt = Ok (dflt dv dt).
Proof.
  intros F B. unfold weighted. rewrite (weighted_loop_bad ins _ F B). reflexivity.
Qed.

(* ---- weighted: the output is a convex combination ----------------------------------- *)
Lemma wsum_bounds lo hi (l : list input) :
  (forall i, In i l -> 0 <= imp i * ftr i /\ lo <= numv i /\ numv i <= hi) ->
  lo * sumQ (map (fun i => imp i * ftr i) l) <= sumQ (map (fun i => imp i * ftr i * numv i) l) /\
  sumQ (map (fun i => imp i * ftr i * numv i) l) <= hi * sumQ (map (fun i => imp i * ftr i) l) /\
  0 <= sumQ (map (fun i => imp i * ftr i) l).
Proof.
  induction l as [|i r IH]; intro H.
  - cbn. repeat split; lra.
  - destruct (H i (or_introl eq_refl)) as [W [L U]].
    destruct IH as [A [B C]]; [intros j Hj; apply H; right; exact Hj|].
    cbn [map sumQ fold_right]. unfold sumQ in *.
    set (w := imp i * ftr i) in *. set (v := numv i) in *.
    set (S1 := fold_right Qplus 0 (map (fun i0 : input => imp i0 * ftr i0) r)) in *.
    set (S2 := fold_right Qplus 0 (map (fun i0 : input => imp i0 * ftr i0 * numv i0) r)) in *.
    repeat split; nra.
Qed.

Lemma wtruth_bounds (l : list input) :
  (forall i, In i l -> 0 <= imp i /\ 0 <= ftr i /\ ftr i <= 1) ->
  0 <= sumQ (map (fun i => imp i * ftr i) l) /\
  sumQ (map (fun i => imp i * ftr i) l) <= sumQ (map imp l).
Proof.
  induction l as [|i r IH]; intro H.
  - cbn. split; lra.
  - destruct (H i (or_introl eq_refl)) as [W [L U]].
    destruct IH as [A B]; [intros j Hj; apply H; right; exact Hj|].
    cbn [map sumQ fold_right]. unfold sumQ in *.
    set (S1 := fold_right Qplus 0 (map (fun i0 : input => imp i0 * ftr i0) r)) in *.
    set (S2 := fold_right Qplus 0 (map imp r)) in *.
    split; nra.
Qed.

Lemma weighted_convex ins dv dt lo hi : Forall truth_ok ins -> values_numeric ins ->
  (forall i, In i ins -> selected i = true -> 0 <= imp i) ->
  (forall i, In i ins -> selected i = true -> lo <= numv i /\ numv i <= hi) ->
  ~ Wcnf ins == 0 -> ~ Wimp ins == 0 -> dt < Wcnf ins / Wimp ins ->
  exists v c, weighted ins dv dt = Ok (VFlt v, VFlt c) /\ lo <= v /\ v <= hi /\ dt < c /\ c <= 1.
Proof.
  intros F V NI B NC NW L.
  destruct (weighted_spec ins dv dt F V) as [S _]. destruct (S NC NW L) as [v [c [O [Ev Ec]]]].
  exists v, c. split; [exact O|].
  assert (Hin : forall i, In i (sels ins) -> In i ins /\ selected i = true).
  { intros i Hi. unfold sels in Hi. apply filter_In in Hi. exact Hi. }
  assert (TO : forall i, In i ins -> truth_ok i) by (apply Forall_forall; exact F).
  destruct (wsum_bounds lo hi (sels ins)) as [A1 [A2 A3]].
  { intros i Hi. destruct (Hin i Hi) as [I1 I2]. destruct (ftr_range i (TO i I1)) as [R1 R2].
    specialize (NI i I1 I2). destruct (B i I1 I2) as [B1 B2]. repeat split; try assumption. nra. }
  destruct (wtruth_bounds (sels ins)) as [T1 T2].
  { intros i Hi. destruct (Hin i Hi) as [I1 I2]. destruct (ftr_range i (TO i I1)) as [R1 R2].
    specialize (NI i I1 I2). auto. }
  fold (Wcnf ins) in A1, A2, A3, T1, T2. fold (Wval ins) in A1, A2. fold (Wimp ins) in T2.
  assert (PC : 0 < Wcnf ins). { destruct (Qlt_le_dec 0 (Wcnf ins)) as [P|P]; [exact P|]. exfalso. apply NC. lra. }
  assert (PW : 0 < Wimp ins) by lra.
  rewrite Ev, Ec. repeat split.
  - apply Qle_shift_div_l; [exact PC|exact A1].
  - apply Qle_shift_div_r; [exact PC|exact A2].
  - exact L.
  - apply Qle_shift_div_r; [exact PW|lra].
Qed.

(* ---- never raises ------------------------------------------------------------------ *)
Lemma switch_never_raises ins dv dt : exists o, switch ins dv dt = Ok o.
Proof.
  destruct (switch_spec ins dv dt) as [[pre [w [post [_ [_ [_ O]]]]]]|[_ O]]; eexists; exact O.
Qed.

Lemma priority_never_raises ins dv dt : Forall truth_ok ins -> exists o, priority ins dv dt = Ok o.
Proof.
  intro F. destruct (priority_spec ins dv dt F) as [[pre [w [post [_ [_ [_ [_ O]]]]]]]|[_ O]];
    eexists; exact O.
Qed.

Lemma trusted_loop_ok ins dt : forall st, Forall truth_ok ins -> exists st', trusted_loop ins dt st = Ok st'.
Proof.
  intros [[b im] tm] F.
  destruct (trusted_loop_spec ins dt b im tm F) as [[_ O]|[pre [w [post [_ [_ [_ [_ [_ O]]]]]]]]];
    eexists; exact O.
Qed.

Lemma trusted_never_raises ins dv dt : Forall truth_ok ins -> exists o, trusted ins dv dt = Ok o.
Proof.
  intro F. unfold trusted. destruct (trusted_loop_ok ins dt pst0 F) as [st O]. rewrite O.
  eexists; reflexivity.
Qed.

(* ---- string truths (outside the property's domain) ---------------------------------- *)
Lemma fixq_str s : fixq (VStr s) = Err TypeError.
Proof. reflexivity. Qed.

Lemma priority_loop_str pre : forall i post dt st s, Forall truth_ok pre -> truth i = VStr s ->
  priority_loop (pre ++ i :: post) dt st = Err TypeError.
Proof.
  induction pre as [|p r IH]; intros i post dt st s F T.
  - cbn [app priority_loop]. rewrite T, fixq_str. reflexivity.
  - inversion F as [|x l Hp Fr]; subst. cbn [app priority_loop]. rewrite (ftr_ok p Hp). cbn [bind].
    destruct st as [[b im] tm]. apply (IH i post dt _ s Fr T).
Qed.

Lemma trusted_loop_str pre : forall i post dt st s, Forall truth_ok pre -> truth i = VStr s ->
  trusted_loop (pre ++ i :: post) dt st = Err TypeError.
Proof.
  induction pre as [|p r IH]; intros i post dt st s F T.
  - cbn [app trusted_loop]. rewrite T, fixq_str. reflexivity.
  - inversion F as [|x l Hp Fr]; subst. cbn [app trusted_loop]. rewrite (ftr_ok p Hp). cbn [bind].
    destruct st as [[b im] tm]. apply (IH i post dt _ s Fr T).
Qed.

Lemma string_truth_raises pre i post dv dt s : Forall truth_ok pre -> truth i = VStr s ->
  priority (pre ++ i :: post) dv dt = Err TypeError /\ trusted (pre ++ i :: post) dv dt = Err TypeError.
Proof.
  intros F T. unfold priority, trusted.
  rewrite (priority_loop_str pre i post dt pst0 s F T), (trusted_loop_str pre i post dt pst0 s F T).
  split; reflexivity.
Qed.

Lemma weighted_loop_str pre : forall i post st s, Forall truth_ok pre -> selected i = true ->
  truth i = VStr s -> weighted_loop (pre ++ i :: post) st = Err TypeError.
Proof.
  induction pre as [|p r IH]; intros i post st s F S T.
  - cbn [app weighted_loop]. unfold selected in S. rewrite S, T, fixq_str. reflexivity.
  - inversion F as [|x l Hp Fr]; subst. cbn [app weighted_loop].
    destruct (py_truthy (sel p)); [|apply (IH i post st s Fr S T)].
    rewrite (ftr_ok p Hp). cbn [bind]. destruct (num_of (value p)); [|reflexivity].
    destruct st as [[wi wc] wv]. apply (IH i post _ s Fr S T).
Qed.

Lemma weighted_string_truth pre i post dv dt s : Forall truth_ok pre -> selected i = true ->
  truth i = VStr s -> weighted (pre ++ i :: post) dv dt = Ok (dflt dv dt).
Proof.
  intros F S T. unfold weighted. rewrite (weighted_loop_str pre i post _ s F S T). reflexivity.
Qed.

(* ---- inputs whose share has at least one field (every input with a numeric value) ----- *)
Lemma priority_nonempty ins dv dt : Forall truth_ok ins -> (forall i, In i ins -> nonempty i = true) ->
  (exists pre w post, ins = pre ++ w :: post /\ pqual dt w /\
      (forall j, In j pre -> pqual dt j -> imp j < imp w) /\
      (forall j, In j post -> pqual dt j -> imp j <= imp w) /\
      priority ins dv dt = Ok (value w, VFlt (ftr w)))
  \/ ((forall j, In j ins -> ~ pqual dt j) /\ priority ins dv dt = Ok (dflt dv dt)).
Proof.
  intros F N. destruct (priority_spec ins dv dt F) as [[pre [w [post [E [Q [P1 [P2 O]]]]]]]|H]; [left|right; exact H].
  exists pre, w, post. rewrite (N w) in O; [auto|]. subst ins. apply in_or_app. right. left. reflexivity.
Qed.

Lemma trusted_nonempty ins dv dt : Forall truth_ok ins -> 0 <= dt -> (forall i, In i ins -> nonempty i = true) ->
  (exists pre w post, ins = pre ++ w :: post /\ suff dt w = true /\
      (forall j, In j pre -> suff dt j = true -> lexlt (ftr j) (imp j) (ftr w) (imp w)) /\
      (forall j, In j post -> suff dt j = true -> ~ lexlt (ftr w) (imp w) (ftr j) (imp j)) /\
      trusted ins dv dt = Ok (value w, VFlt (ftr w)))
  \/ ((forall j, In j ins -> suff dt j = false) /\ trusted ins dv dt = Ok (dflt dv dt)).
Proof.
  intros F D N. destruct (trusted_spec ins dv dt F D) as [[pre [w [post [E [Q [P1 [P2 O]]]]]]]|H]; [left|right; exact H].
  exists pre, w, post. rewrite (N w) in O; [auto|]. subst ins. apply in_or_app. right. left. reflexivity.
Qed.
