(* C45 -- arbiters (ioflo/base/arbiting.py).  Definitions only.

   Tie T : FixTruth / GoodTruth are GENERATED (coq/gen/C45_Arbiting.v) from the python source.
   Tie H : the four update() methods below are hand models, one line of python per line here.

   An input (in tag order of .inputs) is
     sel      = insels.fetch(tag)            any python value, used through truthiness
     truth    = input.truth                  any python value (None / bool / number expected)
     imp      = inimps.fetch(tag)            a number (ideal rational)
     value    = input.value                  any python value
     nonempty = len(input) > 0               Share.__len__ = number of data fields; python's
                                             `if inputmax:` in Priority/Trusted tests THIS
   default = (default.value, default.truth) with default.truth a number (Arbiter.__init__
   forces it into [0,1] with GoodTruth/FixTruth: see init_default_truth).
   Result: Ok (output.value, output.truth) or Err cls when update() raises.

   ArbiterTrusted is modelled as FIXED (fixes/C45-trusted-tie-nameerror.patch): the tie branch
   compares imp with impmax; the unfixed code reads the undefined name `imputmax`.        *)
From Coq Require Import ZArith QArith List Bool.
Import ListNotations.
Require Import V.Lib.C45_PyVal V.gen.C45_Arbiting.

Record input := { sel : val; truth : val; imp : Q; value : val; nonempty : bool }.
Definition out := (val * val)%type.

(* FixTruth(t) as a rational; FixTruth always returns a float when it returns *)
Definition fixq (t : val) : res Q :=
  match FixTruth t with
  | Ok (VFlt q) => Ok q
  | Ok _ => Err OtherError
  | Err e => Err e
  end.

(* Arbiter.__init__: if not GoodTruth(default.truth): default.truth = FixTruth(default.truth) *)
Definition init_default_truth (t : val) : res val :=
  bind (GoodTruth t) (fun g => if py_truthy g then Ok t else FixTruth t).

Definition dflt (dv : val) (dt : Q) : out := (dv, VFlt dt).

(* ---- ArbiterSwitch.update ------------------------------------------------------- *)
Fixpoint switch (ins : list input) (dv : val) (dt : Q) : res out :=
  match ins with
  | [] => Ok (dflt dv dt)
  | i :: r => if py_truthy (sel i) then Ok (value i, truth i) else switch r dv dt
  end.

(* ---- ArbiterPriority.update ----------------------------------------------------- *)
(* loop state: (inputmax, impmax, truthmax) *)
Definition pst := (option input * Q * Q)%type.
Definition pst0 : pst := (None, 0, 0).

Definition finish (st : pst) (dv : val) (dt : Q) : out :=
  match st with
  | (Some i, _, tm) => if nonempty i then (value i, VFlt tm) else dflt dv dt
  | (None, _, _) => dflt dv dt
  end.

Fixpoint priority_loop (ins : list input) (dt : Q) (st : pst) : res pst :=
  match ins with
  | [] => Ok st
  | i :: r =>
      bind (fixq (truth i)) (fun t =>
        let '(_, impmax, _) := st in
        let st' := if py_truthy (sel i) && Qlt_bool dt t && Qlt_bool impmax (imp i)
                   then (Some i, imp i, t) else st in
        priority_loop r dt st')
  end.

Definition priority (ins : list input) (dv : val) (dt : Q) : res out :=
  bind (priority_loop ins dt pst0) (fun st => Ok (finish st dv dt)).

(* ---- ArbiterTrusted.update (fixed: imp > impmax) -------------------------------- *)
Fixpoint trusted_loop (ins : list input) (dt : Q) (st : pst) : res pst :=
  match ins with
  | [] => Ok st
  | i :: r =>
      bind (fixq (truth i)) (fun t =>
        let '(_, impmax, truthmax) := st in
        let st' :=
          if py_truthy (sel i) && Qlt_bool dt t then
            if Qlt_bool truthmax t then (Some i, imp i, t)
            else if Qeq_bool t truthmax && Qlt_bool impmax (imp i) then (Some i, imp i, t)
            else st
          else st in
        trusted_loop r dt st')
  end.

Definition trusted (ins : list input) (dv : val) (dt : Q) : res out :=
  bind (trusted_loop ins dt pst0) (fun st => Ok (finish st dv dt)).

(* ---- ArbiterWeighted.update ----------------------------------------------------- *)
(* accumulators (wgtimp, wgtcnf, wgtval) *)
Definition wst := (Q * Q * Q)%type.

Fixpoint weighted_loop (ins : list input) (st : wst) : res wst :=
  match ins with
  | [] => Ok st
  | i :: r =>
      if py_truthy (sel i) then
        bind (fixq (truth i)) (fun t =>
          match num_of (value i) with
          | None => Err TypeError          (* imp * truth * input.value : float * non-number *)
          | Some v =>
              let '(wi, wc, wv) := st in
              weighted_loop r (wi + imp i, wc + imp i * t, wv + imp i * t * v)
          end)
      else weighted_loop r st
  end.

(* the two divisions; float division by zero raises ZeroDivisionError *)
Definition weighted_div (st : wst) : res (Q * Q) :=
  let '(wi, wc, wv) := st in
  if Qeq_bool wc 0 then Err ZeroDivisionError
  else if Qeq_bool wi 0 then Err ZeroDivisionError
  else Ok (wv / wc, wc / wi).

Definition weighted (ins : list input) (dv : val) (dt : Q) : res out :=
  let body := bind (weighted_loop ins (0, 0, 0)) weighted_div in
  match body with
  | Ok (wval, wcnf) => if Qlt_bool dt wcnf then Ok (VFlt wval, VFlt wcnf) else Ok (dflt dv dt)
  | Err TypeError => Ok (dflt dv dt)
  | Err ZeroDivisionError => Ok (dflt dv dt)
  | Err e => Err e
  end.

(* ---- specification vocabulary (used by the theorems) ----------------------------- *)
Definition selected (i : input) : bool := py_truthy (sel i).

(* truths the property quantifies over: None, booleans, numbers (not strings) *)
Definition truth_ok (i : input) : Prop := forall s, truth i <> VStr s.

(* the clamp FixTruth is documented to compute *)
Definition clamp01 (q : Q) : Q := if Qlt_bool q 0 then 0 else if Qlt_bool 1 q then 1 else q.
Definition fix_spec (t : val) : option Q :=
  match t with
  | VNone => Some 1
  | VBool b => Some (if b then 1 else 0)
  | VInt z => Some (clamp01 (inject_Z z))
  | VFlt q => Some (clamp01 q)
  | VStr _ => None
  end.
(* the fixed truth of an input as computed by the GENERATED FixTruth (0 if it raises) *)
Definition ftr (i : input) : Q := match fixq (truth i) with Ok q => q | Err _ => 0 end.
(* input.value as a number (0 if it is not one) *)
Definition numv (i : input) : Q := match num_of (value i) with Some v => v | None => 0 end.

Definition sumQ (l : list Q) : Q := fold_right Qplus 0 l.

(* priority: an input qualifies when selected, sufficient and of positive importance
   (impmax starts at 0.0 and the test is  imp > impmax) *)
(* selected and sufficient (fixed truth above the default truth) *)
Definition suff (dt : Q) (i : input) : bool := selected i && Qlt_bool dt (ftr i).
Definition pqual (dt : Q) (i : input) : Prop := suff dt i = true /\ 0 < imp i.

(* (t1, i1) strictly below (t2, i2) in the lexicographic order truth-then-importance *)
Definition lexlt (t1 i1 t2 i2 : Q) : Prop := t1 < t2 \/ (t2 == t1 /\ i1 < i2).

(* weighted: the sums over the selected inputs *)
Definition sels (ins : list input) : list input := filter selected ins.
Definition Wimp (ins : list input) : Q := sumQ (map imp (sels ins)).
Definition Wcnf (ins : list input) : Q := sumQ (map (fun i => imp i * ftr i) (sels ins)).
Definition Wval (ins : list input) : Q := sumQ (map (fun i => imp i * ftr i * numv i) (sels ins)).

Definition values_numeric (ins : list input) : Prop :=
  forall i, In i ins -> selected i = true -> num_of (value i) <> None.

(* constructor used by the non-vacuity examples *)
Definition mk s t i v := {| sel := s; truth := t; imp := i; value := v; nonempty := true |}.
