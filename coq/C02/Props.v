(* C02 -- scheduler: once per tick, in declared order, on period; aborted never again.
   Property theorems only (proofs in V.Kernel.SkedProofs). Generic in the time type: every
   statement below except the last two holds for exact rationals AND for binary64 stamps. *)
From Coq Require Import List ZArith QArith Bool Arith.
Import ListNotations.
Require Import V.Kernel.Model V.Kernel.Inst V.Kernel.SkedProofs.
Close Scope Q_scope.

(* The queue built before the first tick is the house's declared front/mid/back order. *)
Theorem sked_initial_order : forall (O : TimeOps) (P : prog O) nv ca,
  map (rtid O) (ready (init_sked P nv ca)) = taskables P.
Proof. exact init_ready_order. Qed.
Print Assumptions sked_initial_order.

(* In every tick (any program, any state, any time type): the queue after the tick is an
   order-preserving sub-list of the queue before it, and the taskers sent a control in this
   tick form an order-preserving sub-list of the queue -- each runs at most once, in queue order. *)
Theorem sked_once_per_tick_in_order : forall (O : TimeOps) (P : prog O) s last more s' last' more',
  tick_loop P (length (ready s)) s last more = (s', last', more') ->
  crashed (sw s') = None ->
  sublist (map (rtid O) (ready s')) (map (rtid O) (ready s)) /\
  exists ran, runlog s' = runlog s ++ map (fun t => (tk (sw s), t)) ran /\
              sublist ran (map (rtid O) (ready s)) /\ tk (sw s') = tk (sw s).
Proof. exact tick_rotation. Qed.
Print Assumptions sked_once_per_tick_in_order.

Theorem sked_at_most_once : forall A (a b : list A), sublist a b -> NoDup b -> NoDup a.
Proof. exact @sublist_NoDup. Qed.
Print Assumptions sked_at_most_once.

(* Over any number of ticks the queue only shrinks, order preserved: a tasker that aborted
   (or whose generator ended) is dropped and never scheduled again. *)
Theorem sked_aborted_never_returns : forall (O : TimeOps) (P : prog O) n s s' e,
  ticks P n s = (s', e) -> crashed (sw s') = None ->
  sublist (map (rtid O) (ready s')) (map (rtid O) (ready s)).
Proof. exact ticks_ready_shrinks. Qed.
Print Assumptions sked_aborted_never_returns.

(* Due test: an entry whose retime is still ahead of the store stamp is not run and keeps its retime. *)
Theorem sked_not_due_waits : forall (O : TimeOps) (P : prog O) n s last more t retime per rest,
  ready s = (t, retime, per) :: rest -> crashed (sw s) = None ->
  tltb O (stamp (sw s)) retime = true ->
  tick_loop P (S n) s last more =
  tick_loop P n {| sw := sw s; ready := rest ++ [(t, retime, per)]; aborted := aborted s; runlog := runlog s |}
            (Some (st (gett (sw s) t))) (more || is_more (Some (st (gett (sw s) t)))).
Proof. exact tick_loop_head_notdue. Qed.
Print Assumptions sked_not_due_waits.

(* Due: the tasker is sent its current desire (the most recent bid) once and is rescheduled at
   retime + the period it has AFTER this run -- a period changed by a bid applies from the next
   reschedule -- or is dropped when it aborted. *)
Theorem sked_due_runs_and_reschedules : forall (O : TimeOps) (P : prog O) n s last more t retime per rest w' r,
  ready s = (t, retime, per) :: rest -> crashed (sw s) = None ->
  tltb O (stamp (sw s)) retime = false ->
  o_send (top P) t (desire (gett (sw s) t)) (sw s) = (w', r) -> crashed w' = None ->
  exists ab last1,
  tick_loop P (S n) s last more =
  tick_loop P n {| sw := w'; ready := rest ++ resched O t retime w' r; aborted := ab;
                   runlog := runlog s ++ [(tk (sw s), t)] |}
            last1 (more || is_more last1).
Proof. exact tick_loop_head_due. Qed.
Print Assumptions sked_due_runs_and_reschedules.

(* Exact-time arithmetic (Q): with constant period p and tick d the k-th run happens at the first
   tick, after the previous run, whose stamp has reached r0 + k*p. [sim] replays exactly the due
   test and reschedule proved above. *)
Open Scope Q_scope.
Theorem sked_kth_run : forall n s0 d p r j k jk,
  nth_error (sim n s0 d p r j) k = Some jk ->
  (r + inject_Z (Z.of_nat k) * p <= s0 + inject_Z (Z.of_nat jk) * d) /\
  (j <= jk)%nat /\
  (forall jprev, match k with O => jprev = j | S k' => nth_error (sim n s0 d p r j) k' = Some jprev /\ True end ->
     forall i, (match k with O => jprev <= i | S _ => jprev < i end)%nat -> (i < jk)%nat ->
       ~ (r + inject_Z (Z.of_nat k) * p <= s0 + inject_Z (Z.of_nat i) * d)).
Proof. exact sim_kth. Qed.
Print Assumptions sked_kth_run.

Theorem sked_every_tick_if_p_le_d : forall n s0 d p r j,
  p <= d -> r <= s0 + inject_Z (Z.of_nat j) * d -> sim n s0 d p r j = seq j n.
Proof. exact sim_every_tick. Qed.
Print Assumptions sked_every_tick_if_p_le_d.

(* non-vacuity: period 3/8 on a 1/8 tick runs at ticks 0,3,6,9 *)
Example sked_sim_example : sim 10 0 (1#8) (3#8) 0 0 = [0;3;6;9]%nat.
Proof. vm_compute. reflexivity. Qed.
