(* C40 -- specification-side definitions (no proofs).  The MODEL of byting.py is not here: it is
   coq/gen/Byting.v, regenerated from the source by props/C40/translate.py on every run. *)
From Coq Require Import ZArith List Bool.
Import ListNotations.
Require Import V.Lib.C40_PyRt.
Open Scope Z_scope.

(* two's complement reading of an n-bit pattern x *)
Definition twos (x n : Z) : Z := if x <? 2 ^ (n - 1) then x else x - 2 ^ n.

(* ---- bytes <-> integers ------------------------------------------------------------------ *)
(* exactly k bytes, big endian, of n (mod 256^k) *)
Fixpoint be_bytes (k : nat) (n : Z) : list Z :=
  match k with O => [] | S k' => be_bytes k' (n / 256) ++ [n mod 256] end.
(* big-endian value of a byte list *)
Definition be_value (l : list Z) : Z := fold_left (fun a x => a * 256 + x) l 0.
(* the minimal big-endian digits of n >= 0 (at most k of them) *)
Fixpoint digs (k : nat) (n : Z) : list Z :=
  match k with O => [] | S k' => if n =? 0 then [] else digs k' (Z.shiftr n 8) ++ [Z.land n 255] end.
Definition maybe_rev {A} (r : bool) (l : list A) : list A := if r then rev l else l.

(* ---- bit fields -------------------------------------------------------------------------- *)
Definition wf_fmt (ws : list Z) : Prop := Forall (fun w => 0 <= w) ws.
(* least number of bytes that hold the format *)
Definition need_size (ws : list Z) : Z :=
  let t := py_sum ws in if t mod 8 =? 0 then t / 8 else t / 8 + 1.
Definition eff_size (ws : list Z) (size : option Z) : Z :=
  match size with None => need_size ws | Some s => s end.
Definition size_ok (ws : list Z) (size : option Z) : Prop :=
  match size with None => True | Some s => py_sum ws <= 8 * s end.
(* what a w-bit field holds after packing v: truthiness for one-bit fields, the low w bits otherwise *)
Definition nrm (w v : Z) : Z := if w =? 1 then (if v =? 0 then 0 else 1) else v mod 2 ^ w.
(* what unpacking returns for a w-bit field holding x *)
Definition mkval (boolean : bool) (w x : Z) : val :=
  if (w =? 1) && boolean then VB (negb (x =? 0)) else VI x.
Fixpoint fields_spec (boolean : bool) (ws vs : list Z) : list val :=
  match ws, vs with
  | w :: ws', v :: vs' => mkval boolean w (nrm w v) :: fields_spec boolean ws' vs'
  | _, _ => []
  end.
Definition pad_spec (boolean : bool) (padw : Z) : list val :=
  if padw =? 0 then [] else [mkval boolean padw 0].
(* the packed integer: first field in the highest bits below position bfp *)
Fixpoint packZ (ws vs : list Z) (bfp : Z) : Z :=
  match ws, vs with
  | w :: ws', v :: vs' => Z.lor (Z.shiftl (nrm w v) (bfp - w)) (packZ ws' vs' (bfp - w))
  | _, _ => 0
  end.
(* the w bits of n starting at bit p *)
Definition slice (n p w : Z) : Z := Z.land (Z.shiftr n p) (Z.ones w).
Fixpoint slices (boolean : bool) (n : Z) (ws : list Z) (bfp : Z) : list val :=
  match ws with
  | [] => []
  | w :: ws' => mkval boolean w (slice n (bfp - w) w) :: slices boolean n ws' (bfp - w)
  end.

(* ---- text -------------------------------------------------------------------------------- *)
Definition bit_char (b : bool) : Z := if b then 49 else 48.
(* k binary digits of n, most significant first: digit i (from the left) is bit k-1-i of n *)
Definition bits_desc (k : nat) (n : Z) : list bool :=
  map (fun i => Z.testbit n (Z.of_nat k - 1 - Z.of_nat i)) (seq 0 k).
Definition bin_digits (k : nat) (n : Z) : list Z := map bit_char (bits_desc k n).
(* value of a most-significant-first bit list *)
Definition bin_value (l : list bool) : Z := fold_left (fun a b => 2 * a + Z.b2z b) l 0.
Definition hex_of_bytes (b : list Z) : list Z := flat_map (fun x => [hexdigit (x / 16); hexdigit (x mod 16)]) b.
Definition is_lower_hex (c : Z) : bool := ((48 <=? c) && (c <=? 57)) || ((97 <=? c) && (c <=? 102)).

(* unpackify's result for the integer N read from sz bytes *)
Definition unpack_fields (boolean : bool) (N : Z) (ws : list Z) (sz : Z) : list val :=
  slices boolean N ws (8 * sz) ++
  (let r := 8 * sz - py_sum ws in if r =? 0 then [] else [mkval boolean r (N mod 2 ^ r)]).

(* a buffer zero-extended to at least n bytes (what packifyInto does before writing) *)
Definition extend_to (b : list Z) (n : Z) : list Z := b ++ repeat 0 (Z.to_nat (n - py_len b)).

(* unhexify / unhexize on ARBITRARY text: keep the hex digits, left-pad with '0' to even length,
   then two digits (either case) per byte *)
Definition is_hexdigit (c : Z) : bool := py_memZ c py_hexdigits.
Definition hexval0 (c : Z) : Z := match hexval c with Some d => d | None => 0 end.
Fixpoint decode_pairs (h : list Z) : list Z :=
  match h with c1 :: c2 :: r => (hexval0 c1 * 16 + hexval0 c2) :: decode_pairs r | _ => [] end.
Definition clean_hex (h : list Z) : list Z :=
  let f := filter is_hexdigit h in if Nat.even (length f) then f else 48 :: f.
Definition unpair (ps : list (Z * Z)) : list Z := flat_map (fun p => [fst p; snd p]) ps.

(* packByte / unpackByte: the format is a bytes object of ASCII digits, one digit (1..8) per field *)
Definition byte_fmt (ws : list Z) : list Z := map (fun w => 48 + w) ws.
Definition wf_byte_fmt (ws : list Z) : Prop := Forall (fun w => 1 <= w <= 8) ws /\ py_sum ws <= 8.
