(* C40 -- property theorems only; each closed by [exact]; Print Assumptions beneath.
   All statements are about coq/gen/Byting.v = the translation of the CURRENT ioflo/aid/byting.py
   (functions take a leading [fuel] because bytify/unbytify contain while loops; every theorem
   states the fuel that suffices).  A fmt string is the list [ws] of its widths. *)
From Coq Require Import ZArith List Bool.
Import ListNotations.
Require Import V.Lib.C40_PyRt V.gen.Byting V.C40.Model V.C40.Proofs V.C40.ProofsByte.
Open Scope Z_scope.

(* ROUND TRIP, all formats / values / sizes / byte orders: packing succeeds, yields exactly [size]
   bytes, and unpacking them returns each value masked to its field width (truthiness for one-bit
   fields; booleans for them when [boolean]) followed by the zero padding field if any. *)
Theorem unpack_pack : forall fuel ws vs size boolean reverse,
  wf_fmt ws -> length vs = length ws -> size_ok ws size -> (Z.to_nat (eff_size ws size) < fuel)%nat ->
  exists p, packify fuel ws vs size reverse = Ok p /\ py_len p = eff_size ws size /\
    unpackify fuel ws p boolean size reverse =
    Ok (fields_spec boolean ws vs ++ pad_spec boolean (8 * eff_size ws size - py_sum ws)).
Proof. exact unpack_pack_l. Qed.
Print Assumptions unpack_pack.

(* packify = the big-endian bytes of the integer whose bit fields are the normalised values *)
Theorem packify_bytes : forall fuel ws vs size reverse,
  wf_fmt ws -> length vs = length ws -> size_ok ws size -> (Z.to_nat (eff_size ws size) < fuel)%nat ->
  packify fuel ws vs size reverse =
  Ok (maybe_rev reverse (be_bytes (Z.to_nat (eff_size ws size)) (packZ ws vs (8 * eff_size ws size)))).
Proof. exact packify_ok. Qed.
Print Assumptions packify_bytes.

(* unpackify of ANY [size] bytes = the consecutive bit fields of their big-endian value, + remainder *)
Theorem unpackify_fields : forall fuel ws b boolean size reverse,
  wf_fmt ws -> size_ok ws size -> bytes_ok b = true -> py_len b = eff_size ws size -> (length b < fuel)%nat ->
  unpackify fuel ws b boolean size reverse =
  Ok (unpack_fields boolean (be_value (maybe_rev reverse b)) ws (eff_size ws size)).
Proof. exact unpackify_fields_l. Qed.
Print Assumptions unpackify_fields.

(* byte-order variants are mirror images *)
Theorem packify_reverse_mirror : forall fuel ws vs size,
  wf_fmt ws -> length vs = length ws -> size_ok ws size -> (Z.to_nat (eff_size ws size) < fuel)%nat ->
  exists p, packify fuel ws vs size false = Ok p /\ packify fuel ws vs size true = Ok (rev p).
Proof. exact packify_reverse_mirror_l. Qed.
Print Assumptions packify_reverse_mirror.

Theorem unpackify_reverse_mirror : forall fuel ws b boolean size,
  wf_fmt ws -> size_ok ws size -> bytes_ok b = true -> py_len b = eff_size ws size -> (length b < fuel)%nat ->
  unpackify fuel ws (rev b) boolean size true = unpackify fuel ws b boolean size false.
Proof. exact unpackify_reverse_mirror_l. Qed.
Print Assumptions unpackify_reverse_mirror.

Theorem bytify_reverse_mirror : forall k fuel n size, 0 <= n < 2 ^ (8 * Z.of_nat k) -> (k < fuel)%nat ->
  exists b, bytify fuel n size false false = Ok b /\ bytify fuel n size true false = Ok (rev b).
Proof. exact bytify_reverse_mirror_l. Qed.
Print Assumptions bytify_reverse_mirror.

(* integer <-> bytes are mutual inverses on their domains *)
Theorem unbytify_bytify : forall k fuel n size reverse,
  0 <= n < 2 ^ (8 * Z.of_nat k) -> (k < fuel)%nat -> (Z.to_nat size < fuel)%nat ->
  exists b, bytify fuel n size reverse false = Ok b /\ size <= py_len b /\ unbytify fuel b reverse = Ok n.
Proof. exact unbytify_bytify_l. Qed.
Print Assumptions unbytify_bytify.

(* strict, or negative n: exactly [size] bytes of n mod 2^(8 size) (two's complement truncation) *)
Theorem bytify_strict : forall fuel n size reverse strict,
  0 <= size -> (Z.to_nat size < fuel)%nat -> ((n <? 0) || strict) = true ->
  exists b, bytify fuel n size reverse strict = Ok b /\ py_len b = size /\
            b = maybe_rev reverse (be_bytes (Z.to_nat size) (n mod 2 ^ (8 * size))) /\
            unbytify fuel b reverse = Ok (n mod 2 ^ (8 * size)).
Proof. exact bytify_strict_l. Qed.
Print Assumptions bytify_strict.

Theorem bytify_unbytify : forall fuel b reverse, bytes_ok b = true -> (length b < fuel)%nat ->
  exists n, unbytify fuel b reverse = Ok n /\ bytify fuel n (py_len b) reverse true = Ok b.
Proof. exact bytify_unbytify_l. Qed.
Print Assumptions bytify_unbytify.

(* a buffer longer than [size] is (reversed first, then) truncated to its first [size] bytes *)
Theorem unpackify_truncates : forall fuel ws b boolean size reverse, wf_fmt ws -> size_ok ws size ->
  bytes_ok b = true -> eff_size ws size <= py_len b -> (length b < fuel)%nat ->
  unpackify fuel ws b boolean size reverse =
  unpackify fuel ws (firstn (Z.to_nat (eff_size ws size)) (maybe_rev reverse b)) boolean size false.
Proof. exact unpackify_truncates_l. Qed.
Print Assumptions unpackify_truncates.

(* a format that does not fit the given size is rejected, not truncated *)
Theorem pack_unpack_too_small : forall fuel ws vs b boolean s reverse, bytes_ok b = true -> 8 * s < py_sum ws ->
  packify fuel ws vs (Some s) reverse = Err ValueError /\
  unpackify fuel ws b boolean (Some s) reverse = Err ValueError.
Proof. exact pack_unpack_too_small_l. Qed.
Print Assumptions pack_unpack_too_small.

(* PACKING INTO A BUFFER: returns [size]; the buffer (zero-extended to offset+size if short) keeps
   every byte before [offset] and from [offset+size] on, and the window holds exactly packify's bytes. *)
Theorem packifyInto_frames : forall fuel b ws vs size offset reverse,
  wf_fmt ws -> length vs = length ws -> size_ok ws size -> (Z.to_nat (eff_size ws size) < fuel)%nat ->
  0 <= offset ->
  let sz := eff_size ws size in
  let ext := extend_to b (offset + sz) in
  exists p b', packify fuel ws vs size reverse = Ok p /\
    packifyInto fuel b ws vs size offset reverse = Ok (sz, b') /\
    length b' = length ext /\
    firstn (Z.to_nat offset) b' = firstn (Z.to_nat offset) ext /\
    firstn (Z.to_nat sz) (skipn (Z.to_nat offset) b') = p /\
    skipn (Z.to_nat (offset + sz)) b' = skipn (Z.to_nat (offset + sz)) ext.
Proof. exact packifyInto_frames_l. Qed.
Print Assumptions packifyInto_frames.

(* binary strings: binize gives the [size] low bits of n, most significant first; unbinize inverts it *)
Theorem binize_spec : forall n size, 0 <= size -> binize n size = Ok (bin_digits (Z.to_nat size) n).
Proof. exact binize_digits. Qed.
Print Assumptions binize_spec.

Theorem unbinize_binize : forall n size, 0 <= size ->
  exists u, binize n size = Ok u /\ py_len u = size /\ unbinize u = Ok (n mod 2 ^ size).
Proof. exact unbinize_binize_l. Qed.
Print Assumptions unbinize_binize.

Theorem binize_unbinize : forall bs : list bool,
  exists n, unbinize (map bit_char bs) = Ok n /\ binize n (py_len (map bit_char bs)) = Ok (map bit_char bs).
Proof. exact binize_unbinize_l. Qed.
Print Assumptions binize_unbinize.

(* hex: hexify/hexize give two lower-case digits per byte; unhexify/unhexize invert them;
   conversely every even-length lower-case hex string is reproduced by hexify . unhexify *)
Theorem hexify_spec : forall b, bytes_ok b = true -> hexify b = Ok (hex_of_bytes b).
Proof. exact hexify_spec_l. Qed.
Print Assumptions hexify_spec.

Theorem unhexify_hexify : forall b, bytes_ok b = true ->
  exists h, hexify b = Ok h /\ py_len h = 2 * py_len b /\ unhexify h = Ok b /\ hexize b = Ok h /\ unhexize h = Ok b.
Proof. exact unhexify_hexify_l. Qed.
Print Assumptions unhexify_hexify.

Theorem hexify_unhexify : forall k h, length h = (2 * k)%nat -> forallb is_lower_hex h = true ->
  exists b, unhexify h = Ok b /\ hexify b = Ok h /\ unhexize h = Ok b /\ hexize b = Ok h.
Proof. exact hexify_unhexify_l. Qed.
Print Assumptions hexify_unhexify.

(* unhexify / unhexize on ARBITRARY text: non-hex characters are dropped, an odd number of digits is
   left-padded with '0', then every two digits (upper or lower case) give one byte; never an error *)
Theorem unhexify_any_text : forall h,
  unhexify h = Ok (decode_pairs (clean_hex h)) /\ unhexize h = Ok (decode_pairs (clean_hex h)).
Proof. exact unhex_general_l. Qed.
Print Assumptions unhexify_any_text.

(* packByte / unpackByte (format = bytes of ASCII digits 1..8, total <= 8, e.g. b"1322"): packing gives
   the byte whose bit fields are the normalised values; unpacking it returns them (booleans for
   one-bit fields when requested); unpackByte of ANY int reads the fields of its low byte *)
Theorem unpackByte_packByte : forall ws vs boolean, wf_byte_fmt ws -> length vs = length ws ->
  exists B, packByte (byte_fmt ws) vs = Ok B /\ 0 <= B < 256 /\
            unpackByte (byte_fmt ws) B boolean = Ok (fields_spec boolean ws vs).
Proof. exact unpackByte_packByte_l. Qed.
Print Assumptions unpackByte_packByte.

Theorem packByte_value : forall ws vs, wf_byte_fmt ws -> length vs = length ws ->
  packByte (byte_fmt ws) vs = Ok (packZ ws vs 8).
Proof. exact packByte_ok. Qed.
Print Assumptions packByte_value.

Theorem unpackByte_fields : forall ws byte boolean, wf_byte_fmt ws ->
  unpackByte (byte_fmt ws) byte boolean = Ok (slices boolean (byte mod 256) ws 8).
Proof. exact unpackByte_ok. Qed.
Print Assumptions unpackByte_fields.

(* sign extension is two's complement: an n-bit pattern x reads as x below 2^(n-1), else x - 2^n *)
Theorem signExtend_twos : forall x n, 1 <= n -> 0 <= x < 2 ^ n ->
  signExtend x n = Ok (if x <? 2 ^ (n - 1) then x else x - 2 ^ n).
Proof. exact signExtend_twos_l. Qed.
Print Assumptions signExtend_twos.

Example c40_packByte_doc : packByte [49;51;50;50] [1;4;0;3] = Ok 195 /\
  unpackByte [49;51;50;50] 195 true = Ok [VB true; VI 4; VI 0; VI 3].
Proof. vm_compute. split; reflexivity. Qed.

(* non-vacuity: the docstring example, and a reversed, padded, boolean one *)
Example c40_doc_example :
  packify 9 [1;3;2;2] [1;4;0;3] None false = Ok [195] /\
  unpackify 9 [1;3;2;2] [195] true None false = Ok [VB true; VI 4; VI 0; VI 3].
Proof. vm_compute. split; reflexivity. Qed.
Example c40_pad_example :
  packify 9 [1;3;7] [5;9;300] None true = Ok [128; 149] /\
  unpackify 9 [1;3;7] [128; 149] true None true = Ok [VB true; VI 1; VI 44; VI 0] /\
  fields_spec true [1;3;7] [5;9;300] ++ pad_spec true 5 = [VB true; VI 1; VI 44; VI 0].
Proof. vm_compute. repeat split; reflexivity. Qed.
