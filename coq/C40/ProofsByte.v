(* C40 -- packByte / unpackByte (translated in coq/gen/Byting.v): loops over range(len(fmt)) with
   int(fmt[i:i+1]) digits, ValueError checks inside the loop. *)
From Coq Require Import ZArith List Bool Lia ZifyBool.
Import ListNotations.
Require Import V.Lib.C40_PyRt V.Lib.C40_Bits V.gen.Byting V.C40.Model V.C40.Proofs.
Open Scope Z_scope.
Ltac Zify.zify_post_hook ::= Z.to_euclidean_division_equations.

Lemma byte_fmt_slice : forall pre w rest,
  py_slice (byte_fmt (pre ++ w :: rest)) (Z.of_nat (length pre)) (Z.of_nat (length pre) + 1) = [48 + w].
Proof.
  intros. unfold byte_fmt. rewrite map_app. cbn [map]. change ((48 + w) :: map (fun w0 => 48 + w0) rest) with ([48 + w] ++ map (fun w0 => 48 + w0) rest).
  replace (Z.of_nat (length pre)) with (py_len (map (fun w0 => 48 + w0) pre)) by (unfold py_len; rewrite map_length; reflexivity).
  change 1 with (py_len [48 + w]). apply py_slice_mid.
Qed.
Lemma int_bytes_digit : forall w, 0 <= w <= 9 -> py_int_bytes [48 + w] = Ok w.
Proof.
  intros. unfold py_int_bytes. replace ((48 <=? 48 + w) && (48 + w <=? 57)) with true by lia. f_equal. lia.
Qed.
Lemma wf_byte_wf : forall ws, Forall (fun w => 1 <= w <= 8) ws -> wf_fmt ws.
Proof. intros ws H. unfold wf_fmt. eapply Forall_impl; [|exact H]. cbv beta. intros. lia. Qed.

Section PackByteLoop.
Variables ws vs : list Z.
Variable F : (Z * Z * Z) -> Z -> res (Z * Z * Z).
Hypothesis HF : forall pre w rest pv v rv bu byte bfp, ws = pre ++ w :: rest -> vs = pv ++ v :: rv ->
  length pv = length pre -> 1 <= w <= 8 -> bu + w <= 8 -> w <= bfp ->
  F (bu, byte, bfp) (Z.of_nat (length pre)) = Ok (bu + w, Z.lor byte (Z.shiftl (nrm w v) (bfp - w)), bfp - w).
Lemma packbyte_loop : forall rest pre rv pv bu byte bfp, ws = pre ++ rest -> vs = pv ++ rv ->
  length pv = length pre -> length rv = length rest -> Forall (fun w => 1 <= w <= 8) rest ->
  bu + py_sum rest <= 8 -> py_sum rest <= bfp ->
  for_res (map Z.of_nat (seq (length pre) (length rest))) (bu, byte, bfp) F =
  Ok (bu + py_sum rest, Z.lor byte (packZ rest rv bfp), bfp - py_sum rest).
Proof.
  induction rest as [|w rest IH]; intros pre rv pv bu byte bfp Hw Hv Hl Hlr Hf Hbu Hbfp.
  - destruct rv; [|discriminate]. cbn. rewrite Z.lor_0_r, Z.add_0_r, Z.sub_0_r. reflexivity.
  - destruct rv as [|v rv]; [discriminate|].
    pose proof (Forall_inv Hf) as Hw1. pose proof (Forall_inv_tail Hf) as Hw2. cbv beta in Hw1.
    pose proof (py_sum_nonneg rest (wf_byte_wf _ Hw2)). rewrite py_sum_cons in *.
    cbn [length seq map for_res]. rewrite (HF pre w rest pv v rv bu byte bfp Hw Hv Hl) by lia. cbn [bind].
    replace (S (length pre)) with (length (pre ++ [w])) by (rewrite app_length; cbn; lia).
    rewrite (IH (pre ++ [w]) rv (pv ++ [v])).
    + cbn [packZ]. rewrite Z.lor_assoc. f_equal. f_equal; [f_equal|]; lia.
    + rewrite <- app_assoc. exact Hw.
    + rewrite <- app_assoc. exact Hv.
    + rewrite !app_length. cbn. lia.
    + cbn in Hlr. lia.
    + exact Hw2.
    + lia.
    + lia.
Qed.
End PackByteLoop.

Lemma packByte_ok : forall ws vs, wf_byte_fmt ws -> length vs = length ws ->
  packByte (byte_fmt ws) vs = Ok (packZ ws vs 8).
Proof.
  intros ws vs [Hf Hs] Hl. unfold packByte. cbv zeta.
  rewrite py_range_up1 by apply py_len_nonneg. unfold py_len at 1. rewrite Nat2Z.id.
  unfold byte_fmt at 1. rewrite map_length.
  erewrite (packbyte_loop ws vs) with (pre := []) (pv := []) (rest := ws) (rv := vs); try reflexivity; try assumption; try lia.
  intros pre w rest pv v rv bu byte bfp Hw Hv Hlp Hw1 Hbu Hbfp. cbv beta iota zeta.
    rewrite Hw, byte_fmt_slice, int_bytes_digit by lia. cbn [bind].
    replace (negb ((0 <? w) && (w <=? 8))) with false by lia.
    replace (bu + w >? 8) with false by lia.
    assert (Hi: py_index vs (Z.of_nat (length pre)) = Ok v).
    { rewrite Hv, <- Hlp. apply py_index_app. }
    rewrite Hi. cbn [bind]. unfold nrm. destruct (w =? 1) eqn:E.
    + cbn [bind]. unfold py_truthZ. destruct (v =? 0); cbn [negb bind]; rewrite py_shl_ok by lia; reflexivity.
    + cbn [bind]. rewrite py_pow_ok by lia. cbn [bind]. rewrite py_shl_ok by lia. cbn [bind].
      rewrite land_pow2m1 by lia. reflexivity.
Qed.

Section UnpackByteLoop.
Variable ws : list Z.
Variable boolean : bool.
Variable N : Z.
Variable F : (Z * list val * Z) -> Z -> res (Z * list val * Z).
Hypothesis HF : forall pre w rest bu fs bfp, ws = pre ++ w :: rest -> 1 <= w <= 8 -> bu + w <= 8 -> w <= bfp ->
  F (bu, fs, bfp) (Z.of_nat (length pre)) = Ok (bu + w, fs ++ [mkval boolean w (slice N (bfp - w) w)], bfp - w).
Lemma unpackbyte_loop : forall rest pre bu fs bfp, ws = pre ++ rest -> Forall (fun w => 1 <= w <= 8) rest ->
  bu + py_sum rest <= 8 -> py_sum rest <= bfp ->
  for_res (map Z.of_nat (seq (length pre) (length rest))) (bu, fs, bfp) F =
  Ok (bu + py_sum rest, fs ++ slices boolean N rest bfp, bfp - py_sum rest).
Proof.
  induction rest as [|w rest IH]; intros pre bu fs bfp Hw Hf Hbu Hbfp.
  - cbn. rewrite app_nil_r, Z.add_0_r, Z.sub_0_r. reflexivity.
  - pose proof (Forall_inv Hf) as Hw1. pose proof (Forall_inv_tail Hf) as Hw2. cbv beta in Hw1.
    pose proof (py_sum_nonneg rest (wf_byte_wf _ Hw2)). rewrite py_sum_cons in *.
    cbn [length seq map for_res]. rewrite (HF pre w rest bu fs bfp Hw) by lia. cbn [bind].
    replace (S (length pre)) with (length (pre ++ [w])) by (rewrite app_length; cbn; lia).
    rewrite (IH (pre ++ [w])); try assumption; try lia.
    + cbn [slices]. rewrite <- app_assoc. cbn [app]. f_equal. f_equal; [f_equal|]; lia.
    + rewrite <- app_assoc. exact Hw.
Qed.
End UnpackByteLoop.

Lemma unpackByte_ok : forall ws byte boolean, wf_byte_fmt ws ->
  unpackByte (byte_fmt ws) byte boolean = Ok (slices boolean (byte mod 256) ws 8).
Proof.
  intros ws byte boolean [Hf Hs]. unfold unpackByte. cbv zeta.
  rewrite py_range_up1 by apply py_len_nonneg. unfold py_len at 1. rewrite Nat2Z.id.
  unfold byte_fmt at 1. rewrite map_length.
  change 255 with (2 ^ 8 - 1). rewrite land_pow2m1 by lia. change (2 ^ 8) with 256.
  erewrite (unpackbyte_loop ws boolean (byte mod 256)) with (pre := []) (rest := ws); try reflexivity; try assumption; try lia.
  intros pre w rest bu fs bfp Hw Hw1 Hbu Hbfp. cbv beta iota zeta.
    rewrite Hw, byte_fmt_slice, int_bytes_digit by lia. cbn [bind].
    replace (negb ((0 <? w) && (w <=? 8))) with false by lia.
    replace (bu + w >? 8) with false by lia.
    rewrite py_pow_ok by lia. cbn [bind]. rewrite py_shl_ok by lia. cbn [bind]. rewrite py_shr_ok by lia.
    cbn [bind]. rewrite truth_bool. do 4 f_equal. unfold mkval, slice.
    rewrite Z.shiftr_land, Z.shiftr_shiftl_l, Z.sub_diag, Z.shiftl_0_r by lia.
    rewrite Z.ones_equiv, <- Z.sub_1_r. reflexivity.
Qed.

Lemma unpackByte_packByte_l : forall ws vs boolean, wf_byte_fmt ws -> length vs = length ws ->
  exists B, packByte (byte_fmt ws) vs = Ok B /\ 0 <= B < 256 /\
            unpackByte (byte_fmt ws) B boolean = Ok (fields_spec boolean ws vs).
Proof.
  intros ws vs boolean Hwf Hl. destruct Hwf as [Hf Hs]. pose proof (wf_byte_wf _ Hf) as Hw.
  exists (packZ ws vs 8). split; [apply packByte_ok; [split|]; assumption|].
  pose proof (packZ_range ws vs 8 Hw Hs) as Hr. change (2 ^ 8) with 256 in Hr. split; [exact Hr|].
  rewrite unpackByte_ok by (split; assumption). rewrite Z.mod_small by exact Hr. f_equal.
  apply (slices_packZ boolean ws vs 8 0 (packZ ws vs 8)); try assumption.
  - rewrite Z.lor_0_l. reflexivity.
  - intros. apply slice_0.
Qed.
