(* C40 -- lemmas about coq/gen/Byting.v (the translated byting.py).
   Structure: generic loop lemmas are parametrised by a specification of the loop BODY; the
   body specifications are proved against the generated lambdas by computation, so every
   expression of the source (masks, shift amounts, positions) is an obligation here. *)
From Coq Require Import ZArith List Bool Lia.
Import ListNotations.
Require Import V.Lib.C40_PyRt V.Lib.C40_Bits V.gen.Byting V.C40.Model.
Open Scope Z_scope.

Lemma signExtend_twos_l : forall x n, 1 <= n -> 0 <= x < 2 ^ n ->
  signExtend x n = Ok (twos x n).
Proof.
  intros x n Hn Hx. unfold signExtend, py_shl, twos.
  destruct (n - 1 <? 0) eqn:E; [lia|]. cbn [bind]. f_equal.
  rewrite Z.shiftl_1_l.
  assert (Hp: 2 ^ n = 2 * 2 ^ (n - 1)) by (rewrite <- Z.pow_succ_r by lia; f_equal; lia).
  destruct (x <? 2 ^ (n - 1)) eqn:E2.
  - rewrite lxor_pow2_clear by lia. lia.
  - rewrite lxor_pow2_set by lia. lia.
Qed.

Ltac Zify.zify_post_hook ::= Z.to_euclidean_division_equations.

(* ---- primitives on their good domain ---- *)
Lemma py_pow_ok : forall a b, 0 <= b -> py_pow a b = Ok (a ^ b).
Proof. intros. unfold py_pow. destruct (b <? 0) eqn:E; [lia|reflexivity]. Qed.
Lemma py_shl_ok : forall a k, 0 <= k -> py_shl a k = Ok (Z.shiftl a k).
Proof. intros. unfold py_shl. destruct (k <? 0) eqn:E; [lia|reflexivity]. Qed.
Lemma py_shr_ok : forall a k, 0 <= k -> py_shr a k = Ok (Z.shiftr a k).
Proof. intros. unfold py_shr. destruct (k <? 0) eqn:E; [lia|reflexivity]. Qed.
Lemma py_len_app : forall A (a b : list A), py_len (a ++ b) = py_len a + py_len b.
Proof. intros. unfold py_len. rewrite app_length. lia. Qed.
Lemma py_len_nonneg : forall A (a : list A), 0 <= py_len a.
Proof. intros. unfold py_len. lia. Qed.
Lemma py_index_app : forall A (pre : list A) v post, py_index (pre ++ v :: post) (py_len pre) = Ok v.
Proof.
  intros. unfold py_index. pose proof (py_len_nonneg _ pre).
  destruct (py_len pre <? 0) eqn:E; [lia|]. rewrite E.
  unfold py_len. rewrite Nat2Z.id, nth_error_app2 by lia. rewrite Nat.sub_diag. reflexivity.
Qed.
Lemma bytes_ok_app : forall a b, bytes_ok (a ++ b) = bytes_ok a && bytes_ok b.
Proof. intros. unfold bytes_ok. apply forallb_app. Qed.
Lemma bytes_ok_rev : forall a, bytes_ok (rev a) = bytes_ok a.
Proof.
  induction a; [reflexivity|]. cbn [rev]. rewrite bytes_ok_app, IHa. cbn. rewrite andb_true_r. apply andb_comm.
Qed.
Lemma py_bytearray_ok : forall l, bytes_ok l = true -> py_bytearray l = Ok l.
Proof. intros l H. unfold py_bytearray. rewrite H. reflexivity. Qed.
Lemma bytes_ok_repeat0 : forall k, bytes_ok (repeat 0 k) = true.
Proof. induction k; [reflexivity|]. cbn. exact IHk. Qed.
Lemma py_list_mul_0 : forall k, py_list_mul [0] k = repeat 0 (Z.to_nat k).
Proof.
  intros. unfold py_list_mul. induction (Z.to_nat k); [reflexivity|]. cbn [repeat concat]. rewrite IHn. reflexivity.
Qed.

(* ---- bytify's while loop ---- *)
Section BytifyLoop.
Variable body : (list Z * Z * Z) -> res (list Z * Z * Z).
Variable cond : (list Z * Z * Z) -> bool.
Hypothesis Hcond : forall b c n, cond (b, c, n) = py_truthZ n.
Hypothesis Hbody : forall b c n, body (b, c, n) = Ok (Z.land n 255 :: b, c + 1, Z.shiftr n 8).
Lemma bytify_loop : forall k fuel n b count, 0 <= n < 2 ^ (8 * Z.of_nat k) -> (k < fuel)%nat ->
  while_res fuel cond body (b, count, n) = Ok (digs k n ++ b, count + py_len (digs k n), 0).
Proof.
  induction k; intros fuel n b count Hn Hf.
  - change (8 * Z.of_nat 0) with 0 in Hn. assert (n = 0) by lia. subst.
    destruct fuel; [lia|]. cbn [while_res]. rewrite Hcond. cbn. rewrite Z.add_0_r. reflexivity.
  - destruct fuel; [lia|]. cbn [while_res digs]. rewrite Hcond. unfold py_truthZ.
    destruct (n =? 0) eqn:E.
    + cbn. apply Z.eqb_eq in E. subst. rewrite Z.add_0_r. reflexivity.
    + cbn [negb]. rewrite Hbody. cbn [bind]. apply Z.eqb_neq in E.
      rewrite IHk.
      * rewrite <- app_assoc. cbn [app]. rewrite py_len_app. unfold py_len at 3. cbn [length Z.of_nat].
        f_equal. f_equal. f_equal. lia.
      * rewrite Z.shiftr_div_pow2 by lia.
        replace (8 * Z.of_nat (S k)) with (8 + 8 * Z.of_nat k) in Hn by lia.
        rewrite Z.pow_add_r in Hn by lia. change (2 ^ 8) with 256 in *.
        assert (0 < 2 ^ (8 * Z.of_nat k)) by (apply pow2_pos; lia).
        split; [apply Z.div_pos; lia|]. apply Z.div_lt_upper_bound; lia.
      * lia.
Qed.
End BytifyLoop.
(* ---- digs / be_bytes / be_value ---- *)
Lemma be_bytes_length : forall k n, length (be_bytes k n) = k.
Proof. induction k; intros; cbn [be_bytes]; [reflexivity|]. rewrite app_length, IHk. cbn. lia. Qed.
Lemma be_bytes_0 : forall k, be_bytes k 0 = repeat 0 k.
Proof.
  induction k; [reflexivity|]. cbn [be_bytes]. change (0 / 256) with 0. change (0 mod 256) with 0.
  rewrite IHk. clear IHk. induction k; [reflexivity|]. cbn [repeat app] in *. rewrite IHk. reflexivity.
Qed.
Lemma repeat_snoc : forall A (x : A) k, repeat x k ++ [x] = x :: repeat x k.
Proof. induction k; [reflexivity|]. cbn [repeat app]. rewrite IHk. reflexivity. Qed.
Lemma bytes_ok_be_bytes : forall k n, bytes_ok (be_bytes k n) = true.
Proof.
  induction k; intros; cbn [be_bytes]; [reflexivity|]. rewrite bytes_ok_app, IHk. cbn. unfold is_byte.
  assert (0 <= n mod 256 < 256) by (apply Z.mod_pos_bound; lia). 
  destruct (0 <=? n mod 256) eqn:E1; destruct (n mod 256 <? 256) eqn:E2; try lia; reflexivity.
Qed.
Lemma digs_length : forall k n, (length (digs k n) <= k)%nat.
Proof.
  induction k; intros; cbn [digs]; [cbn; lia|]. destruct (n =? 0); [cbn; lia|].
  rewrite app_length. cbn [length]. specialize (IHk (Z.shiftr n 8)). lia.
Qed.
Lemma digs_be_bytes : forall k n, 0 <= n < 2 ^ (8 * Z.of_nat k) ->
  repeat 0 (k - length (digs k n)) ++ digs k n = be_bytes k n.
Proof.
  induction k; intros n Hn; [reflexivity|]. cbn [digs be_bytes].
  destruct (n =? 0) eqn:E.
  - apply Z.eqb_eq in E. subst. cbn [length]. rewrite Nat.sub_0_r, app_nil_r.
    change (0 / 256) with 0. change (0 mod 256) with 0. rewrite be_bytes_0. symmetry. apply repeat_snoc.
  - apply Z.eqb_neq in E. rewrite app_length. cbn [length].
    replace (S k - (length (digs k (Z.shiftr n 8)) + 1))%nat with (k - length (digs k (Z.shiftr n 8)))%nat by lia.
    rewrite app_assoc, IHk.
    + rewrite Z.shiftr_div_pow2 by lia. change (2 ^ 8) with 256.
      f_equal. f_equal. change 255 with (Z.ones 8). rewrite Z.land_ones by lia. reflexivity.
    + rewrite Z.shiftr_div_pow2 by lia. change (2 ^ 8) with 256.
      replace (8 * Z.of_nat (S k)) with (8 + 8 * Z.of_nat k) in Hn by lia.
      rewrite Z.pow_add_r in Hn by lia. change (2 ^ 8) with 256 in *.
      assert (0 < 2 ^ (8 * Z.of_nat k)) by (apply pow2_pos; lia).
      split; [apply Z.div_pos; lia|]. apply Z.div_lt_upper_bound; lia.
Qed.
Lemma be_value_snoc : forall l x, be_value (l ++ [x]) = be_value l * 256 + x.
Proof. intros. unfold be_value. rewrite fold_left_app. reflexivity. Qed.
Lemma be_value_be_bytes : forall k n, 0 <= n < 2 ^ (8 * Z.of_nat k) -> be_value (be_bytes k n) = n.
Proof.
  induction k; intros n Hn.
  - change (8 * Z.of_nat 0) with 0 in Hn. cbn. lia.
  - cbn [be_bytes]. rewrite be_value_snoc, IHk.
    + pose proof (Z.div_mod n 256). lia.
    + replace (8 * Z.of_nat (S k)) with (8 + 8 * Z.of_nat k) in Hn by lia.
      rewrite Z.pow_add_r in Hn by lia. change (2 ^ 8) with 256 in *.
      assert (0 < 2 ^ (8 * Z.of_nat k)) by (apply pow2_pos; lia).
      split; [apply Z.div_pos; lia|]. apply Z.div_lt_upper_bound; lia.
Qed.
Lemma be_value_repeat0 : forall k l, be_value (repeat 0 k ++ l) = be_value l.
Proof.
  intros. unfold be_value. rewrite fold_left_app. f_equal. induction k; [reflexivity|]. cbn. exact IHk.
Qed.
Lemma be_value_digs : forall k n, 0 <= n < 2 ^ (8 * Z.of_nat k) -> be_value (digs k n) = n.
Proof.
  intros. rewrite <- (be_value_repeat0 (k - length (digs k n))), digs_be_bytes by assumption.
  apply be_value_be_bytes; assumption.
Qed.
Lemma bytes_ok_digs : forall k n, bytes_ok (digs k n) = true.
Proof.
  induction k; intros; cbn [digs]; [reflexivity|]. destruct (n =? 0); [reflexivity|].
  rewrite bytes_ok_app, IHk. cbn. unfold is_byte. change 255 with (Z.ones 8). rewrite Z.land_ones by lia.
  assert (0 <= n mod 2 ^ 8 < 256) by (apply Z.mod_pos_bound; lia).
  destruct (0 <=? n mod 2 ^ 8) eqn:E1; destruct (n mod 2 ^ 8 <? 256) eqn:E2; try lia; reflexivity.
Qed.

(* ---- bytify ---- *)
Lemma py_ba_insert_0 : forall b x, is_byte x = true -> py_ba_insert b 0 x = Ok (x :: b).
Proof.
  intros. unfold py_ba_insert. rewrite H. unfold py_insert, py_clip. cbn [Z.ltb Z.compare].
  pose proof (py_len_nonneg _ b). rewrite Z.min_l by lia. reflexivity.
Qed.
Lemma is_byte_land255 : forall n, is_byte (Z.land n 255) = true.
Proof.
  intros. unfold is_byte. change 255 with (Z.ones 8). rewrite Z.land_ones by lia.
  assert (0 <= n mod 2 ^ 8 < 256) by (apply Z.mod_pos_bound; lia).
  destruct (0 <=? n mod 2 ^ 8) eqn:E1; destruct (n mod 2 ^ 8 <? 256) eqn:E2; try lia; reflexivity.
Qed.

(* bytify after the masking step: n0 >= 0 is what enters the loop *)
Definition bytify_result (k : nat) (n0 size : Z) (reverse : bool) : list Z :=
  maybe_rev reverse (repeat 0 (Z.to_nat (size - py_len (digs k n0))) ++ digs k n0).

Lemma bytify_nonneg : forall k fuel n size reverse, 0 <= n < 2 ^ (8 * Z.of_nat k) -> (k < fuel)%nat ->
  bytify fuel n size reverse false = Ok (bytify_result k n size reverse).
Proof.
  intros k fuel n size reverse Hn Hf. unfold bytify.
  destruct (n <? 0) eqn:E; [lia|]. cbn [orb bind].
  erewrite bytify_loop with (k := k); try eassumption.
  2: { intros. reflexivity. }
  2: { intros. cbv beta iota. rewrite py_ba_insert_0 by apply is_byte_land255. reflexivity. }
  cbn [bind]. rewrite app_nil_r, Z.add_0_l. unfold bytify_result.
  destruct (py_len (digs k n) <? size) eqn:E2.
  - rewrite py_list_mul_0, py_bytearray_ok by apply bytes_ok_repeat0. cbn [bind].
    destruct reverse; reflexivity.
  - cbn [bind]. replace (Z.to_nat (size - py_len (digs k n))) with 0%nat by lia. cbn [repeat app].
    destruct reverse; reflexivity.
Qed.

Lemma bytify_masked : forall fuel n size reverse strict, 0 <= size -> (Z.to_nat size < fuel)%nat ->
  ((n <? 0) || strict) = true ->
  bytify fuel n size reverse strict = Ok (maybe_rev reverse (be_bytes (Z.to_nat size) (n mod 2 ^ (8 * size)))).
Proof.
  intros fuel n size reverse strict Hs Hf Hm. unfold bytify. rewrite Hm.
  rewrite py_pow_ok by lia. cbn [bind]. rewrite land_pow2m1 by lia.
  replace (size * 8) with (8 * size) by lia.
  set (m := n mod 2 ^ (8 * size)).
  assert (Hm2: 0 <= m < 2 ^ (8 * Z.of_nat (Z.to_nat size))).
  { rewrite Z2Nat.id by lia. apply Z.mod_pos_bound, pow2_pos. lia. }
  erewrite bytify_loop with (k := Z.to_nat size); try eassumption.
  2: { intros. reflexivity. }
  2: { intros. cbv beta iota. rewrite py_ba_insert_0 by apply is_byte_land255. reflexivity. }
  cbn [bind]. rewrite app_nil_r, Z.add_0_l.
  pose proof (digs_length (Z.to_nat size) m) as HL.
  assert (E: (if py_len (digs (Z.to_nat size) m) <? size then
            bind (py_bytearray (py_list_mul [0] (size - py_len (digs (Z.to_nat size) m))))
              (fun t5_ => Ok (t5_ ++ digs (Z.to_nat size) m)) else Ok (digs (Z.to_nat size) m))
          = Ok (be_bytes (Z.to_nat size) m)).
  { rewrite <- (digs_be_bytes _ _ Hm2).
    destruct (py_len (digs (Z.to_nat size) m) <? size) eqn:E2.
    - rewrite py_list_mul_0, py_bytearray_ok by apply bytes_ok_repeat0. cbn [bind].
      do 3 f_equal. unfold py_len. lia.
    - unfold py_len in E2. replace (Z.to_nat size - length (digs (Z.to_nat size) m))%nat with 0%nat by lia.
      reflexivity. }
  rewrite E. cbn [bind]. destruct reverse; reflexivity.
Qed.
(* ---- unbytify ---- *)
Lemma py_pop_snoc : forall A (l : list A) x, py_pop (l ++ [x]) = Ok (x, l).
Proof. intros. unfold py_pop. rewrite rev_app_distr. cbn [rev app]. rewrite rev_involutive. reflexivity. Qed.

Section UnbytifyLoop.
Variable body : (Z * list Z) -> res (Z * list Z).
Variable cond : (Z * list Z) -> bool.
Hypothesis Hcond : forall n b, cond (n, b) = py_truthL b.
Hypothesis Hbody : forall n b x, body (n, b ++ [x]) = Ok (Z.shiftl n 8 + x, b).
Lemma unbytify_loop : forall m fuel n, (length m < fuel)%nat ->
  while_res fuel cond body (n, rev m) = Ok (fold_left (fun a x => a * 256 + x) m n, []).
Proof.
  induction m; intros fuel n Hf; destruct fuel; try (cbn in Hf; lia).
  - cbn [while_res rev]. rewrite Hcond. reflexivity.
  - cbn [while_res rev]. rewrite Hcond.
    assert (py_truthL (rev m ++ [a]) = true) as -> by (destruct (rev m); reflexivity).
    rewrite Hbody. cbn [bind]. rewrite IHm by (cbn in Hf; lia). cbn [fold_left].
    rewrite Z.shiftl_mul_pow2 by lia. reflexivity.
Qed.
End UnbytifyLoop.

Lemma unbytify_value : forall fuel b reverse, bytes_ok b = true -> (length b < fuel)%nat ->
  unbytify fuel b reverse = Ok (be_value (maybe_rev reverse b)).
Proof.
  intros fuel b reverse Hb Hf. unfold unbytify. rewrite py_bytearray_ok by assumption. cbn [bind].
  set (m := maybe_rev reverse b).
  assert (Hm: (if negb reverse then rev b else b) = rev m).
  { unfold m. destruct reverse; cbn [negb maybe_rev]; [rewrite rev_involutive|]; reflexivity. }
  rewrite Hm. erewrite unbytify_loop.
  - reflexivity.
  - intros. reflexivity.
  - intros. cbv beta iota. rewrite py_pop_snoc. reflexivity.
  - unfold m. destruct reverse; cbn [maybe_rev]; [rewrite rev_length|]; assumption.
Qed.

(* ---- the packing loop (shared by packify and packifyInto) ---- *)
Lemma py_sum_cons : forall w ws, py_sum (w :: ws) = w + py_sum ws.
Proof. reflexivity. Qed.
Lemma py_sum_nonneg : forall ws, wf_fmt ws -> 0 <= py_sum ws.
Proof. induction 1; [cbn; lia|]. rewrite py_sum_cons. lia. Qed.
Lemma nrm_range : forall w v, 0 <= w -> 0 <= nrm w v < 2 ^ w.
Proof.
  intros. unfold nrm. destruct (w =? 1) eqn:E.
  - apply Z.eqb_eq in E. subst. change (2 ^ 1) with 2. destruct (v =? 0); lia.
  - apply Z.mod_pos_bound, pow2_pos. assumption.
Qed.

Section PackLoop.
Variable fields : list Z.
Variable F : (Z * Z * Z) -> (Z * Z) -> res (Z * Z * Z).
Hypothesis HF : forall bu n bfp i w v, py_index fields i = Ok v -> 0 <= w <= bfp ->
  F (bu, n, bfp) (i, w) = Ok (bu + w, Z.lor n (Z.shiftl (nrm w v) (bfp - w)), bfp - w).
Lemma pack_loop : forall ws vs pre post bu n bfp, fields = pre ++ vs ++ post -> length vs = length ws ->
  wf_fmt ws -> py_sum ws <= bfp ->
  for_res (py_enumerate_from (py_len pre) ws) (bu, n, bfp) F =
  Ok (bu + py_sum ws, Z.lor n (packZ ws vs bfp), bfp - py_sum ws).
Proof.
  induction ws as [|w ws IH]; intros vs pre post bu n bfp Hf Hl Hw Hs.
  - destruct vs; [|discriminate]. cbn. rewrite Z.lor_0_r, Z.add_0_r, Z.sub_0_r. reflexivity.
  - destruct vs as [|v vs]; [discriminate|].
    pose proof (Forall_inv Hw) as Hw1. pose proof (Forall_inv_tail Hw) as Hw2. cbv beta in Hw1.
    pose proof (py_sum_nonneg ws Hw2). rewrite py_sum_cons in Hs.
    cbn [py_enumerate_from for_res]. rewrite (HF bu n bfp (py_len pre) w v).
    + cbn [bind]. replace (py_len pre + 1) with (py_len (pre ++ [v])) by (rewrite py_len_app; reflexivity).
      rewrite (IH vs (pre ++ [v]) post).
      * cbn [packZ]. rewrite py_sum_cons, Z.lor_assoc. f_equal. f_equal; [f_equal|]; lia.
      * rewrite <- app_assoc. exact Hf.
      * cbn in Hl. lia.
      * assumption.
      * lia.
    + rewrite Hf. cbn [app]. apply py_index_app.
    + lia.
Qed.
End PackLoop.

(* ---- the unpacking loop ---- *)
Section UnpackLoop.
Variable boolean : bool.
Variable N : Z.
Variable F : (Z * list val * Z) -> (Z * Z) -> res (Z * list val * Z).
Hypothesis HF : forall bu fs bfp i w, 0 <= w <= bfp ->
  F (bu, fs, bfp) (i, w) = Ok (bu + w, fs ++ [mkval boolean w (slice N (bfp - w) w)], bfp - w).
Lemma unpack_loop : forall ws i0 bu fs bfp, wf_fmt ws -> py_sum ws <= bfp ->
  for_res (py_enumerate_from i0 ws) (bu, fs, bfp) F =
  Ok (bu + py_sum ws, fs ++ slices boolean N ws bfp, bfp - py_sum ws).
Proof.
  induction ws as [|w ws IH]; intros i0 bu fs bfp Hw Hs.
  - cbn. rewrite app_nil_r, Z.add_0_r, Z.sub_0_r. reflexivity.
  - pose proof (Forall_inv Hw) as Hw1. pose proof (Forall_inv_tail Hw) as Hw2. cbv beta in Hw1.
    pose proof (py_sum_nonneg ws Hw2). rewrite py_sum_cons in Hs.
    cbn [py_enumerate_from for_res]. rewrite HF by lia. cbn [bind]. rewrite IH by (assumption || lia).
    cbn [slices]. rewrite py_sum_cons, <- app_assoc. cbn [app].
    f_equal. f_equal; [f_equal|]; lia.
Qed.
End UnpackLoop.
(* ---- bit-field arithmetic ---- *)
Lemma slice_lor : forall a b p w, slice (Z.lor a b) p w = Z.lor (slice a p w) (slice b p w).
Proof. intros. unfold slice. rewrite Z.shiftr_lor, Z.land_lor_distr_l. reflexivity. Qed.
Lemma slice_small : forall r p w, 0 <= p -> 0 <= r < 2 ^ p -> slice r p w = 0.
Proof.
  intros. unfold slice. rewrite Z.shiftr_div_pow2, Z.div_small by lia. apply Z.land_0_l.
Qed.
Lemma slice_shiftl_same : forall f p w, 0 <= p -> 0 <= w -> 0 <= f < 2 ^ w -> slice (Z.shiftl f p) p w = f.
Proof.
  intros. unfold slice. rewrite Z.shiftr_shiftl_l, Z.sub_diag, Z.shiftl_0_r by lia.
  rewrite Z.land_ones by lia. apply Z.mod_small. assumption.
Qed.
Lemma slice_shiftl_high : forall f q p w, 0 <= p -> 0 <= w -> p + w <= q -> slice (Z.shiftl f q) p w = 0.
Proof.
  intros. unfold slice. rewrite Z.shiftr_shiftl_l by lia. rewrite Z.land_ones by lia.
  rewrite Z.shiftl_mul_pow2 by lia. replace (q - p) with ((q - p - w) + w) by lia.
  rewrite Z.pow_add_r by lia. rewrite Z.mul_assoc. apply Z.mod_mul.
  pose proof (pow2_pos w). lia.
Qed.
Lemma land_ones_shiftl_high : forall f q k, 0 <= k <= q -> Z.land (Z.shiftl f q) (Z.ones k) = 0.
Proof.
  intros. rewrite Z.land_ones by lia. rewrite Z.shiftl_mul_pow2 by lia.
  replace q with ((q - k) + k) by lia. rewrite Z.pow_add_r by lia. rewrite Z.mul_assoc. apply Z.mod_mul.
  pose proof (pow2_pos k). lia.
Qed.

Lemma packZ_range : forall ws vs bfp, wf_fmt ws -> py_sum ws <= bfp -> 0 <= packZ ws vs bfp < 2 ^ bfp.
Proof.
  induction ws as [|w ws IH]; intros vs bfp Hw Hs.
  - cbn [packZ]. pose proof (py_sum_nonneg _ Hw). cbn in Hs. pose proof (pow2_pos bfp). lia.
  - pose proof (Forall_inv Hw) as Hw1. pose proof (Forall_inv_tail Hw) as Hw2. cbv beta in Hw1.
    pose proof (py_sum_nonneg ws Hw2). rewrite py_sum_cons in Hs.
    destruct vs as [|v vs]; cbn [packZ]. { pose proof (pow2_pos bfp). lia. }
    assert (Hb: 0 <= bfp) by lia.
    specialize (IH vs (bfp - w) Hw2 ltac:(lia)).
    assert (2 ^ (bfp - w) <= 2 ^ bfp) by (apply Z.pow_le_mono_r; lia).
    apply lor_lt_pow2; [lia| |lia].
    rewrite Z.shiftl_mul_pow2 by lia. pose proof (nrm_range w v Hw1).
    assert (E: 2 ^ bfp = 2 ^ w * 2 ^ (bfp - w)) by (rewrite <- Z.pow_add_r by lia; f_equal; lia).
    pose proof (pow2_pos (bfp - w)). nia.
Qed.

Lemma packZ_low_zero : forall ws vs bfp k, wf_fmt ws -> 0 <= k <= bfp - py_sum ws ->
  Z.land (packZ ws vs bfp) (Z.ones k) = 0.
Proof.
  induction ws as [|w ws IH]; intros vs bfp k Hw Hk.
  - cbn [packZ]. apply Z.land_0_l.
  - pose proof (Forall_inv Hw) as Hw1. pose proof (Forall_inv_tail Hw) as Hw2. cbv beta in Hw1.
    pose proof (py_sum_nonneg ws Hw2). rewrite py_sum_cons in Hk.
    destruct vs as [|v vs]; cbn [packZ]; [apply Z.land_0_l|].
    rewrite Z.land_lor_distr_l, land_ones_shiftl_high by lia. rewrite IH by (assumption || lia). reflexivity.
Qed.

(* unpacking the packed integer returns the normalised fields *)
Lemma slices_packZ : forall boolean ws vs bfp n0 N, wf_fmt ws -> length vs = length ws -> py_sum ws <= bfp ->
  N = Z.lor n0 (packZ ws vs bfp) ->
  (forall p w, 0 <= p -> 0 <= w -> p + w <= bfp -> slice n0 p w = 0) ->
  slices boolean N ws bfp = fields_spec boolean ws vs.
Proof.
  induction ws as [|w ws IH]; intros vs bfp n0 N Hw Hl Hs HN Hinv.
  - reflexivity.
  - destruct vs as [|v vs]; [discriminate|].
    pose proof (Forall_inv Hw) as Hw1. pose proof (Forall_inv_tail Hw) as Hw2. cbv beta in Hw1.
    pose proof (py_sum_nonneg ws Hw2). rewrite py_sum_cons in Hs.
    cbn [slices fields_spec]. cbn [packZ] in HN.
    pose proof (nrm_range w v Hw1) as Hn.
    pose proof (packZ_range ws vs (bfp - w) Hw2 ltac:(lia)) as Hr.
    f_equal.
    + f_equal. rewrite HN, !slice_lor, Hinv, slice_shiftl_same, slice_small by lia.
      rewrite Z.lor_0_l, Z.lor_0_r. reflexivity.
    + apply (IH vs (bfp - w) (Z.lor n0 (Z.shiftl (nrm w v) (bfp - w)))).
      * assumption.
      * cbn in Hl. lia.
      * lia.
      * rewrite HN. apply Z.lor_assoc.
      * intros p w' Hp Hw' Hpw. rewrite slice_lor, Hinv, slice_shiftl_high by lia. reflexivity.
Qed.
(* ---- sizes ---- *)
Lemma eff_size_eq : forall ws size,
  match size with
  | None => if py_truthZ (py_sum ws mod 8) then py_sum ws / 8 + 1 else py_sum ws / 8
  | Some t => t end = eff_size ws size.
Proof.
  intros. destruct size; [reflexivity|]. unfold eff_size, need_size, py_truthZ.
  destruct (py_sum ws mod 8 =? 0); reflexivity.
Qed.
Lemma eff_size_bound : forall ws size, wf_fmt ws -> size_ok ws size ->
  0 <= py_sum ws <= 8 * eff_size ws size.
Proof.
  intros ws size Hw Hs. pose proof (py_sum_nonneg _ Hw). destruct size; cbn [eff_size size_ok] in *; [lia|].
  unfold need_size. destruct (py_sum ws mod 8 =? 0) eqn:E; lia.
Qed.
Lemma map_id' : forall (l : list Z), map (fun x => x) l = l.
Proof. induction l; [reflexivity|]. cbn. rewrite IHl. reflexivity. Qed.

Lemma pack_loop0 : forall fields F,
  (forall bu n bfp i w v, py_index fields i = Ok v -> 0 <= w <= bfp ->
     F (bu, n, bfp) (i, w) = Ok (bu + w, Z.lor n (Z.shiftl (nrm w v) (bfp - w)), bfp - w)) ->
  forall ws bu n bfp, length fields = length ws -> wf_fmt ws -> py_sum ws <= bfp ->
  for_res (py_enumerate ws) (bu, n, bfp) F = Ok (bu + py_sum ws, Z.lor n (packZ ws fields bfp), bfp - py_sum ws).
Proof.
  intros fields F HF ws bu n bfp Hl Hw Hs.
  apply (pack_loop fields F HF ws fields [] [] bu n bfp); try assumption.
  rewrite app_nil_r. reflexivity.
Qed.

(* ---- packify ---- *)
Lemma packify_ok : forall fuel ws vs size reverse, wf_fmt ws -> length vs = length ws -> size_ok ws size ->
  (Z.to_nat (eff_size ws size) < fuel)%nat ->
  packify fuel ws vs size reverse =
  Ok (maybe_rev reverse (be_bytes (Z.to_nat (eff_size ws size)) (packZ ws vs (8 * eff_size ws size)))).
Proof.
  intros fuel ws vs size reverse Hw Hl Hso Hf. unfold packify. rewrite map_id', eff_size_eq.
  pose proof (eff_size_bound ws size Hw Hso) as Hb. set (sz := eff_size ws size) in *.
  replace (negb ((0 <=? py_sum ws) && (py_sum ws <=? sz * 8))) with false
    by (destruct (0 <=? py_sum ws) eqn:E1; destruct (py_sum ws <=? sz * 8) eqn:E2; try lia; reflexivity).
  erewrite pack_loop0; [ | | exact Hl | exact Hw | lia ].
  - cbn [bind]. rewrite Z.lor_0_l. rewrite bytify_masked by (lia || (rewrite orb_true_r; reflexivity)).
    pose proof (packZ_range ws vs (8 * sz) Hw ltac:(lia)).
    rewrite Z.mod_small by lia. reflexivity.
  - intros bu n bfp i w v Hi Hwb. cbv beta iota zeta. rewrite Hi. cbn [bind].
    unfold nrm. destruct (w =? 1) eqn:E.
    + cbn [bind]. unfold py_truthZ. destruct (v =? 0); cbn [negb bind]; rewrite py_shl_ok by lia; reflexivity.
    + cbn [bind]. rewrite py_pow_ok by lia. cbn [bind]. rewrite py_shl_ok by lia. cbn [bind].
      rewrite land_pow2m1 by lia. reflexivity.
Qed.
(* ---- unpackify ---- *)
Lemma py_slice_all : forall A (l : list A) n, n = py_len l -> py_slice l 0 n = l.
Proof.
  intros A l n ->. unfold py_slice, py_clip. pose proof (py_len_nonneg _ l).
  change (0 <? 0) with false. cbv iota. destruct (py_len l <? 0) eqn:E; [lia|].
  rewrite Z.min_id, (Z.min_l 0), Z.sub_0_r by lia. change (Z.to_nat 0) with 0%nat. cbn [skipn].
  unfold py_len. rewrite Nat2Z.id. apply firstn_all.
Qed.
Lemma truth_bool : forall x, (if py_truthZ x then true else false) = negb (x =? 0).
Proof. intros. unfold py_truthZ. destruct (x =? 0); reflexivity. Qed.
Lemma bytes_ok_maybe_rev : forall r b, bytes_ok (maybe_rev r b) = bytes_ok b.
Proof. intros. destruct r; [apply bytes_ok_rev|reflexivity]. Qed.
Lemma maybe_rev_length : forall A r (b : list A), length (maybe_rev r b) = length b.
Proof. intros. destruct r; [apply rev_length|reflexivity]. Qed.
Lemma maybe_rev_invol : forall A r (b : list A), maybe_rev r (maybe_rev r b) = b.
Proof. intros. destruct r; [apply rev_involutive|reflexivity]. Qed.

Lemma unpackify_fields_l : forall fuel ws b boolean size reverse, wf_fmt ws -> size_ok ws size ->
  bytes_ok b = true -> py_len b = eff_size ws size -> (length b < fuel)%nat ->
  unpackify fuel ws b boolean size reverse =
  Ok (unpack_fields boolean (be_value (maybe_rev reverse b)) ws (eff_size ws size)).
Proof.
  intros fuel ws b boolean size reverse Hw Hso Hb Hlen Hf. unfold unpackify.
  rewrite py_bytearray_ok by assumption. cbn [bind]. rewrite map_id', eff_size_eq.
  pose proof (eff_size_bound ws size Hw Hso) as Hbd. set (sz := eff_size ws size) in *.
  replace (negb ((0 <=? py_sum ws) && (py_sum ws <=? sz * 8))) with false
    by (destruct (0 <=? py_sum ws) eqn:E1; destruct (py_sum ws <=? sz * 8) eqn:E2; try lia; reflexivity).
  fold (maybe_rev reverse b). set (b' := maybe_rev reverse b).
  assert (Hlen' : py_len b' = sz) by (unfold b', py_len; rewrite maybe_rev_length; exact Hlen).
  rewrite py_slice_all by (symmetry; exact Hlen').
  rewrite unbytify_value by (unfold b'; rewrite ?bytes_ok_maybe_rev, ?maybe_rev_length; assumption).
  cbn [bind maybe_rev]. set (N := be_value b'). unfold py_enumerate.
  erewrite (unpack_loop boolean N); [ | | exact Hw | lia ].
  - cbn [bind app]. unfold unpack_fields. set (r := 8 * sz - py_sum ws).
    destruct (r =? 0) eqn:E; cbn [negb bind].
    + rewrite app_nil_r. reflexivity.
    + rewrite py_pow_ok by lia. cbn [bind]. rewrite land_pow2m1 by lia. rewrite truth_bool. reflexivity.
  - intros bu fs bfp i w Hwb. cbv beta iota zeta.
    rewrite py_pow_ok by lia. cbn [bind]. rewrite py_shl_ok by lia. cbn [bind]. rewrite py_shr_ok by lia.
    cbn [bind]. rewrite truth_bool. do 4 f_equal. unfold mkval, slice.
    rewrite Z.shiftr_land, Z.shiftr_shiftl_l, Z.sub_diag, Z.shiftl_0_r by lia.
    rewrite Z.ones_equiv, <- Z.sub_1_r. reflexivity.
Qed.

Lemma slice_0 : forall p w, slice 0 p w = 0.
Proof. intros. unfold slice. rewrite Z.shiftr_0_l. apply Z.land_0_l. Qed.

(* ---- the round trip ---- *)
Lemma unpack_pack_l : forall fuel ws vs size boolean reverse, wf_fmt ws -> length vs = length ws ->
  size_ok ws size -> (Z.to_nat (eff_size ws size) < fuel)%nat ->
  exists p, packify fuel ws vs size reverse = Ok p /\ py_len p = eff_size ws size /\
    unpackify fuel ws p boolean size reverse =
    Ok (fields_spec boolean ws vs ++ pad_spec boolean (8 * eff_size ws size - py_sum ws)).
Proof.
  intros fuel ws vs size boolean reverse Hw Hl Hso Hf.
  pose proof (eff_size_bound ws size Hw Hso) as Hbd.
  eexists. split; [apply packify_ok; assumption|].
  set (sz := eff_size ws size) in *. set (N := packZ ws vs (8 * sz)).
  assert (Hlen: length (maybe_rev reverse (be_bytes (Z.to_nat sz) N)) = Z.to_nat sz)
    by (rewrite maybe_rev_length; apply be_bytes_length).
  split; [unfold py_len; rewrite Hlen; lia|].
  rewrite unpackify_fields_l; try assumption.
  - rewrite maybe_rev_invol. fold sz.
    pose proof (packZ_range ws vs (8 * sz) Hw ltac:(lia)) as Hr. fold N in Hr.
    rewrite be_value_be_bytes by (rewrite Z2Nat.id by lia; exact Hr).
    unfold unpack_fields, pad_spec. f_equal. f_equal.
    + apply (slices_packZ boolean ws vs (8 * sz) 0 N); try assumption; try lia.
      * unfold N. rewrite Z.lor_0_l. reflexivity.
      * intros. apply slice_0.
    + destruct (8 * sz - py_sum ws =? 0); [reflexivity|].
      rewrite <- Z.land_ones by lia. unfold N. rewrite packZ_low_zero by (assumption || lia). reflexivity.
  - rewrite bytes_ok_maybe_rev. apply bytes_ok_be_bytes.
  - unfold py_len. rewrite Hlen. fold sz. lia.
  - rewrite Hlen. exact Hf.
Qed.
(* ---- bytify / unbytify round trips ---- *)
Lemma be_bytes_be_value : forall b, bytes_ok b = true -> be_bytes (length b) (be_value b) = b.
Proof.
  induction b as [|x l IH] using rev_ind; intros Hb; [reflexivity|].
  rewrite bytes_ok_app in Hb. apply andb_prop in Hb. destruct Hb as [Hl Hx].
  cbn in Hx. rewrite andb_true_r in Hx. unfold is_byte in Hx. 
  assert (0 <= x < 256) by (destruct (0 <=? x) eqn:E1; destruct (x <? 256) eqn:E2; try discriminate; lia).
  rewrite app_length, be_value_snoc. cbn [length]. replace (length l + 1)%nat with (S (length l)) by lia.
  cbn [be_bytes]. replace ((be_value l * 256 + x) / 256) with (be_value l) by lia.
  replace ((be_value l * 256 + x) mod 256) with x by lia. rewrite IH by assumption. reflexivity.
Qed.
Lemma be_value_range : forall b, bytes_ok b = true -> 0 <= be_value b < 2 ^ (8 * Z.of_nat (length b)).
Proof.
  induction b as [|x l IH] using rev_ind; intros Hb; [cbn; lia|].
  rewrite bytes_ok_app in Hb. apply andb_prop in Hb. destruct Hb as [Hl Hx].
  cbn in Hx. rewrite andb_true_r in Hx. unfold is_byte in Hx.
  assert (0 <= x < 256) by (destruct (0 <=? x) eqn:E1; destruct (x <? 256) eqn:E2; try discriminate; lia).
  rewrite app_length, be_value_snoc. cbn [length]. specialize (IH Hl).
  replace (8 * Z.of_nat (length l + 1)) with (8 * Z.of_nat (length l) + 8) by lia.
  rewrite Z.pow_add_r by lia. change (2 ^ 8) with 256. lia.
Qed.

Lemma unbytify_bytify_l : forall k fuel n size reverse, 0 <= n < 2 ^ (8 * Z.of_nat k) -> (k < fuel)%nat ->
  (Z.to_nat size < fuel)%nat ->
  exists b, bytify fuel n size reverse false = Ok b /\ size <= py_len b /\ unbytify fuel b reverse = Ok n.
Proof.
  intros k fuel n size reverse Hn Hk Hs. eexists. split; [apply (bytify_nonneg k); assumption|].
  unfold bytify_result. pose proof (digs_length k n) as HL.
  split.
  - unfold py_len. rewrite maybe_rev_length, app_length, repeat_length. unfold py_len. lia.
  - rewrite unbytify_value.
    + rewrite maybe_rev_invol, be_value_repeat0. f_equal. apply be_value_digs. assumption.
    + rewrite bytes_ok_maybe_rev, bytes_ok_app, bytes_ok_repeat0, bytes_ok_digs. reflexivity.
    + rewrite maybe_rev_length, app_length, repeat_length. unfold py_len. lia.
Qed.

Lemma bytify_strict_l : forall fuel n size reverse strict, 0 <= size -> (Z.to_nat size < fuel)%nat ->
  ((n <? 0) || strict) = true ->
  exists b, bytify fuel n size reverse strict = Ok b /\ py_len b = size /\
            b = maybe_rev reverse (be_bytes (Z.to_nat size) (n mod 2 ^ (8 * size))) /\
            unbytify fuel b reverse = Ok (n mod 2 ^ (8 * size)).
Proof.
  intros fuel n size reverse strict Hs Hf Hm. eexists. split; [apply bytify_masked; assumption|].
  split; [unfold py_len; rewrite maybe_rev_length, be_bytes_length; lia|]. split; [reflexivity|].
  rewrite unbytify_value.
  - rewrite maybe_rev_invol. f_equal. apply be_value_be_bytes. rewrite Z2Nat.id by lia.
    apply Z.mod_pos_bound, pow2_pos. lia.
  - rewrite bytes_ok_maybe_rev. apply bytes_ok_be_bytes.
  - rewrite maybe_rev_length, be_bytes_length. assumption.
Qed.

Lemma bytify_unbytify_l : forall fuel b reverse, bytes_ok b = true -> (length b < fuel)%nat ->
  exists n, unbytify fuel b reverse = Ok n /\ bytify fuel n (py_len b) reverse true = Ok b.
Proof.
  intros fuel b reverse Hb Hf. eexists. split; [apply unbytify_value; assumption|].
  pose proof (be_value_range (maybe_rev reverse b)) as Hr. rewrite bytes_ok_maybe_rev, maybe_rev_length in Hr.
  specialize (Hr Hb).
  rewrite bytify_masked.
  - unfold py_len. rewrite Nat2Z.id. rewrite Z.mod_small by exact Hr.
    rewrite <- (maybe_rev_length _ reverse b), be_bytes_be_value by (rewrite bytes_ok_maybe_rev; assumption).
    f_equal. apply maybe_rev_invol.
  - apply py_len_nonneg.
  - unfold py_len. rewrite Nat2Z.id. assumption.
  - apply orb_true_r.
Qed.

(* ---- mirror images ---- *)
Lemma packify_reverse_mirror_l : forall fuel ws vs size, wf_fmt ws -> length vs = length ws ->
  size_ok ws size -> (Z.to_nat (eff_size ws size) < fuel)%nat ->
  exists p, packify fuel ws vs size false = Ok p /\ packify fuel ws vs size true = Ok (rev p).
Proof.
  intros. eexists. split; rewrite packify_ok by assumption; reflexivity.
Qed.
Lemma unpackify_reverse_mirror_l : forall fuel ws b boolean size, wf_fmt ws -> size_ok ws size ->
  bytes_ok b = true -> py_len b = eff_size ws size -> (length b < fuel)%nat ->
  unpackify fuel ws (rev b) boolean size true = unpackify fuel ws b boolean size false.
Proof.
  intros. rewrite !unpackify_fields_l; try assumption.
  - cbn [maybe_rev]. rewrite rev_involutive. reflexivity.
  - rewrite bytes_ok_rev. assumption.
  - unfold py_len in *. rewrite rev_length. assumption.
  - rewrite rev_length. assumption.
Qed.
Lemma bytify_reverse_mirror_l : forall k fuel n size, 0 <= n < 2 ^ (8 * Z.of_nat k) -> (k < fuel)%nat ->
  exists b, bytify fuel n size false false = Ok b /\ bytify fuel n size true false = Ok (rev b).
Proof. intros. eexists. split; rewrite (bytify_nonneg k) by assumption; reflexivity. Qed.
(* ---- packifyInto ---- *)

Lemma packifyInto_ok : forall fuel b ws vs size offset reverse, wf_fmt ws -> length vs = length ws ->
  size_ok ws size -> (Z.to_nat (eff_size ws size) < fuel)%nat -> 0 <= offset ->
  let sz := eff_size ws size in
  let p := maybe_rev reverse (be_bytes (Z.to_nat sz) (packZ ws vs (8 * sz))) in
  let ext := extend_to b (offset + sz) in
  packifyInto fuel b ws vs size offset reverse =
  Ok (sz, firstn (Z.to_nat offset) ext ++ p ++ skipn (Z.to_nat (offset + sz)) ext).
Proof.
  intros fuel b ws vs size offset reverse Hw Hl Hso Hf Hoff sz p ext. unfold packifyInto.
  rewrite map_id', eff_size_eq. fold sz.
  pose proof (eff_size_bound ws size Hw Hso) as Hb. fold sz in Hb.
  replace (negb ((0 <=? py_sum ws) && (py_sum ws <=? sz * 8))) with false
    by (destruct (0 <=? py_sum ws) eqn:E1; destruct (py_sum ws <=? sz * 8) eqn:E2; try lia; reflexivity).
  assert (Hext: (if py_len b <? offset + sz
                 then bind (py_ba_extend b (py_list_mul [0] (offset + sz - py_len b))) (fun b0 => Ok b0)
                 else Ok b) = Ok ext).
  { unfold ext, extend_to. destruct (py_len b <? offset + sz) eqn:E.
    - unfold py_ba_extend. rewrite py_list_mul_0, bytes_ok_repeat0. reflexivity.
    - replace (Z.to_nat (offset + sz - py_len b)) with 0%nat by lia. rewrite app_nil_r. reflexivity. }
  rewrite Hext. cbn [bind].
  erewrite pack_loop0; [ | | exact Hl | exact Hw | lia ].
  - cbn [bind]. rewrite Z.lor_0_l. rewrite bytify_masked by (lia || (rewrite orb_true_r; reflexivity)).
    pose proof (packZ_range ws vs (8 * sz) Hw ltac:(lia)).
    rewrite Z.mod_small by lia. cbn [bind]. fold p.
    assert (Hp: py_len p = sz) by (unfold p, py_len; rewrite maybe_rev_length, be_bytes_length; lia).
    assert (He: offset + sz <= py_len ext).
    { unfold ext, extend_to. rewrite py_len_app. unfold py_len at 2. rewrite repeat_length.
      pose proof (py_len_nonneg _ b). lia. }
    unfold py_slice_assign, py_clip. rewrite Hp.
    destruct (offset <? 0) eqn:E1; [lia|]. destruct (offset + sz <? 0) eqn:E2; [lia|].
    rewrite !Z.min_l by lia. rewrite Z.max_r by lia. reflexivity.
  - intros bu n bfp i w v Hi Hwb. cbv beta iota zeta. rewrite Hi. cbn [bind].
    unfold nrm. destruct (w =? 1) eqn:E.
    + cbn [bind]. unfold py_truthZ. destruct (v =? 0); cbn [negb bind]; rewrite py_shl_ok by lia; reflexivity.
    + cbn [bind]. rewrite py_pow_ok by lia. cbn [bind]. rewrite py_shl_ok by lia. cbn [bind].
      rewrite land_pow2m1 by lia. reflexivity.
Qed.

(* framing: prefix and suffix of the (zero-extended) buffer are untouched, the window holds the packed bytes *)
Lemma packifyInto_frames_l : forall fuel b ws vs size offset reverse, wf_fmt ws -> length vs = length ws ->
  size_ok ws size -> (Z.to_nat (eff_size ws size) < fuel)%nat -> 0 <= offset ->
  let sz := eff_size ws size in
  let ext := extend_to b (offset + sz) in
  exists p b', packify fuel ws vs size reverse = Ok p /\
    packifyInto fuel b ws vs size offset reverse = Ok (sz, b') /\
    length b' = length ext /\
    firstn (Z.to_nat offset) b' = firstn (Z.to_nat offset) ext /\
    firstn (Z.to_nat sz) (skipn (Z.to_nat offset) b') = p /\
    skipn (Z.to_nat (offset + sz)) b' = skipn (Z.to_nat (offset + sz)) ext.
Proof.
  intros fuel b ws vs size offset reverse Hw Hl Hso Hf Hoff sz ext.
  pose proof (eff_size_bound ws size Hw Hso) as Hb. fold sz in Hb.
  set (p := maybe_rev reverse (be_bytes (Z.to_nat sz) (packZ ws vs (8 * sz)))).
  exists p. eexists. split; [apply packify_ok; assumption|].
  split; [apply packifyInto_ok; assumption|]. fold sz. fold ext. fold p.
  assert (Hp: length p = Z.to_nat sz) by (unfold p; rewrite maybe_rev_length, be_bytes_length; reflexivity).
  assert (He: (Z.to_nat offset + Z.to_nat sz <= length ext)%nat).
  { unfold ext, extend_to. rewrite app_length, repeat_length. unfold py_len. lia. }
  assert (Hf1: length (firstn (Z.to_nat offset) ext) = Z.to_nat offset) by (rewrite firstn_length; lia).
  replace (Z.to_nat (offset + sz)) with (Z.to_nat offset + Z.to_nat sz)%nat by lia.
  repeat split.
  - rewrite !app_length, Hf1, Hp, skipn_length. lia.
  - rewrite firstn_app, Hf1, Nat.sub_diag, firstn_firstn, Nat.min_id. cbn [firstn]. apply app_nil_r.
  - rewrite skipn_app, Hf1, Nat.sub_diag. rewrite skipn_all2 by (rewrite Hf1; lia). cbn [skipn app].
    rewrite firstn_app, Hp, Nat.sub_diag. cbn [firstn]. rewrite app_nil_r. rewrite <- Hp. apply firstn_all.
  - rewrite skipn_app, Hf1. rewrite skipn_all2 by (rewrite Hf1; lia). cbn [app].
    replace (Z.to_nat offset + Z.to_nat sz - Z.to_nat offset)%nat with (Z.to_nat sz) by lia.
    rewrite skipn_app, Hp, Nat.sub_diag. rewrite skipn_all2 by (rewrite Hp; lia). reflexivity.
Qed.
(* ---- binize / unbinize ---- *)
Lemma map_res_ok : forall A B (f : A -> res B) (g : A -> B) l,
  (forall x, In x l -> f x = Ok (g x)) -> map_res f l = Ok (map g l).
Proof.
  induction l as [|x l IH]; intros H; [reflexivity|].
  cbn [map_res map]. rewrite H by (left; reflexivity). cbn [bind]. rewrite IH; [reflexivity|].
  intros y Hy. apply H. right. exact Hy.
Qed.
Lemma concat_singletons : forall A B (h : A -> B) l, concat (map (fun x => [h x]) l) = map h l.
Proof. induction l; [reflexivity|]. cbn. rewrite IHl. reflexivity. Qed.

Lemma py_range_down : forall size, 0 <= size ->
  py_range (size - 1) (- 1) (- 1) = map (fun i => size - 1 - Z.of_nat i) (seq 0 (Z.to_nat size)).
Proof.
  intros. unfold py_range. change (0 <? - 1) with false. cbv iota.
  replace ((size - 1 - - 1 - - 1 - 1) / - - 1) with size by (change (- - 1) with 1; rewrite Z.div_1_r; lia).
  apply map_ext. intros. lia.
Qed.

Lemma binize_digits : forall n size, 0 <= size -> binize n size = Ok (bin_digits (Z.to_nat size) n).
Proof.
  intros n size Hs. unfold binize. rewrite py_range_down by assumption.
  rewrite (map_res_ok _ _ _ (fun y => [bit_char (Z.testbit n y)])).
  - cbn [bind]. rewrite concat_singletons. unfold bin_digits, bits_desc. rewrite !map_map.
    f_equal. apply map_ext. intros i. rewrite Z2Nat.id by lia. reflexivity.
  - intros y Hy. apply in_map_iff in Hy. destruct Hy as [i [Hi Hin]]. apply in_seq in Hin.
    rewrite py_shr_ok by lia. cbn [bind]. f_equal.
    change 1 with (Z.ones 1) at 1. rewrite Z.land_ones, Z.shiftr_div_pow2 by lia. change (2 ^ 1) with 2.
    rewrite <- Z.testbit_spec' by lia. destruct (Z.testbit n y); reflexivity.
Qed.

Section UnbinizeLoop.
Variable F : Z -> Z -> res Z.
Hypothesis HF : forall a b, F a (bit_char b) = Ok (2 * a + Z.b2z b).
Lemma unbinize_loop : forall bs a,
  for_res (map bit_char bs) a F = Ok (fold_left (fun a b => 2 * a + Z.b2z b) bs a).
Proof.
  induction bs as [|b bs IH]; intros a; [reflexivity|].
  cbn [map for_res fold_left]. rewrite HF. cbn [bind]. apply IH.
Qed.
End UnbinizeLoop.

Lemma lor_double_bit : forall a c, 0 <= c <= 1 -> Z.lor (2 * a) c = 2 * a + c.
Proof.
  intros a c Hc. apply lor_disjoint_add. assert (c = 0 \/ c = 1) as [-> | ->] by lia; [apply Z.land_0_r|].
  change 1 with (Z.ones 1). rewrite Z.land_ones by lia. change (2 ^ 1) with 2. lia.
Qed.

Lemma unbinize_value : forall bs, unbinize (map bit_char bs) = Ok (bin_value bs).
Proof.
  intros. unfold unbinize. erewrite unbinize_loop; [reflexivity|].
  intros a b. cbv beta zeta. rewrite Z.shiftl_mul_pow2 by lia. change (2 ^ 1) with 2. rewrite (Z.mul_comm a 2).
  destruct b; cbn [bit_char]; (change (py_int_char 49) with (Ok 1) || change (py_int_char 48) with (Ok 0));
    cbn [bind py_truthZ Z.eqb negb Z.b2z]; rewrite lor_double_bit by lia; reflexivity.
Qed.

Lemma bits_desc_S : forall k n, bits_desc (S k) n = bits_desc k (n / 2) ++ [Z.odd n].
Proof.
  intros. unfold bits_desc. rewrite seq_S, map_app. cbn [map plus]. f_equal.
  - apply map_ext_in. intros i Hi. apply in_seq in Hi.
    replace (Z.of_nat (S k) - 1 - Z.of_nat i) with (Z.succ (Z.of_nat k - 1 - Z.of_nat i)) by lia.
    rewrite <- Z.div2_div, Z.div2_spec, Z.shiftr_spec by lia. f_equal; lia.
  - f_equal. replace (Z.of_nat (S k) - 1 - Z.of_nat k) with 0 by lia. apply Z.bit0_odd.
Qed.
Lemma bin_value_snoc : forall l b, bin_value (l ++ [b]) = 2 * bin_value l + Z.b2z b.
Proof. intros. unfold bin_value. rewrite fold_left_app. reflexivity. Qed.
Lemma bin_value_bits_desc : forall k n, bin_value (bits_desc k n) = n mod 2 ^ Z.of_nat k.
Proof.
  induction k; intros n; [cbn; rewrite Z.mod_1_r; reflexivity|].
  rewrite bits_desc_S, bin_value_snoc, IHk.
  replace (Z.of_nat (S k)) with (1 + Z.of_nat k) by lia. rewrite Z.pow_add_r by lia. change (2 ^ 1) with 2.
  rewrite Z.rem_mul_r by (try lia; apply pow2_pos; lia).
  rewrite <- Z.bit0_odd, Z.bit0_mod. lia.
Qed.
Lemma bits_desc_bin_value : forall bs, bits_desc (length bs) (bin_value bs) = bs.
Proof.
  induction bs as [|b l IH] using rev_ind; [reflexivity|].
  rewrite app_length, bin_value_snoc. cbn [length]. replace (length l + 1)%nat with (S (length l)) by lia.
  rewrite bits_desc_S. f_equal.
  - replace ((2 * bin_value l + Z.b2z b) / 2) with (bin_value l) by (destruct b; cbn [Z.b2z]; lia). exact IH.
  - f_equal. rewrite Z.add_comm, Z.odd_add_mul_2. destruct b; reflexivity.
Qed.

Lemma unbinize_binize_l : forall n size, 0 <= size ->
  exists u, binize n size = Ok u /\ py_len u = size /\ unbinize u = Ok (n mod 2 ^ size).
Proof.
  intros n size Hs. eexists. split; [apply binize_digits; assumption|]. split.
  - unfold py_len, bin_digits, bits_desc. rewrite !map_length, seq_length. lia.
  - unfold bin_digits. rewrite unbinize_value, bin_value_bits_desc, Z2Nat.id by lia. reflexivity.
Qed.
Lemma binize_unbinize_l : forall bs,
  exists n, unbinize (map bit_char bs) = Ok n /\ binize n (py_len (map bit_char bs)) = Ok (map bit_char bs).
Proof.
  intros. eexists. split; [apply unbinize_value|].
  rewrite binize_digits by apply py_len_nonneg. unfold py_len, bin_digits.
  rewrite Nat2Z.id, map_length, bits_desc_bin_value. reflexivity.
Qed.
(* ---- hex ---- *)
Lemma fold_app_flat_map : forall A B (f : B -> list A) l h0,
  fold_left (fun h x => h ++ f x) l h0 = h0 ++ flat_map f l.
Proof.
  induction l as [|x l IH]; intros h0; cbn [fold_left flat_map]; [rewrite app_nil_r; reflexivity|].
  rewrite IH, app_assoc. reflexivity.
Qed.
Lemma fmt_02x_bytes : forall b, bytes_ok b = true -> flat_map py_fmt_02x b = hex_of_bytes b.
Proof.
  induction b as [|x b IH]; intros Hb; [reflexivity|]. cbn in Hb. apply andb_prop in Hb. destruct Hb as [Hx Hb].
  unfold hex_of_bytes. cbn [flat_map]. f_equal; [unfold py_fmt_02x; rewrite Hx; reflexivity|]. apply IH, Hb.
Qed.
Lemma hexify_spec_l : forall b, bytes_ok b = true -> hexify b = Ok (hex_of_bytes b).
Proof.
  intros b Hb. unfold hexify. rewrite py_bytearray_ok by assumption. cbn [bind].
  rewrite (fold_app_flat_map Z Z py_fmt_02x). cbn [app]. rewrite fmt_02x_bytes by assumption. reflexivity.
Qed.

Lemma py_slice_mid : forall A (pre mid post : list A),
  py_slice (pre ++ mid ++ post) (py_len pre) (py_len pre + py_len mid) = mid.
Proof.
  intros. unfold py_slice, py_clip. rewrite !py_len_app.
  pose proof (py_len_nonneg _ pre). pose proof (py_len_nonneg _ mid). pose proof (py_len_nonneg _ post).
  destruct (py_len pre <? 0) eqn:E1; [lia|]. destruct (py_len pre + py_len mid <? 0) eqn:E2; [lia|].
  rewrite !Z.min_l by lia. replace (py_len pre + py_len mid - py_len pre) with (py_len mid) by lia.
  unfold py_len. rewrite !Nat2Z.id. rewrite skipn_app, skipn_all, Nat.sub_diag. cbn [skipn app].
  rewrite firstn_app, firstn_all, Nat.sub_diag. cbn [firstn]. apply app_nil_r.
Qed.

Section IdxLoop.
Variable A : Type.
Variable bs : list Z.
Variable idx : nat -> Z.
Variable out : Z -> list A.
Variable F : list A -> Z -> res (list A).
Hypothesis HF : forall pre x rest acc, bs = pre ++ x :: rest -> F acc (idx (length pre)) = Ok (acc ++ out x).
Lemma idx_loop : forall rest pre acc, bs = pre ++ rest ->
  for_res (map idx (seq (length pre) (length rest))) acc F = Ok (acc ++ flat_map out rest).
Proof.
  induction rest as [|x rest IH]; intros pre acc Hb.
  - cbn. rewrite app_nil_r. reflexivity.
  - cbn [length seq map for_res flat_map]. rewrite (HF pre x rest acc Hb). cbn [bind].
    replace (S (length pre)) with (length (pre ++ [x])) by (rewrite app_length; cbn; lia).
    rewrite (IH (pre ++ [x])); [rewrite app_assoc; reflexivity|]. rewrite <- app_assoc. exact Hb.
Qed.
End IdxLoop.

Lemma py_range_up1 : forall n, 0 <= n -> py_range 0 n 1 = map Z.of_nat (seq 0 (Z.to_nat n)).
Proof.
  intros. unfold py_range. change (0 <? 1) with true. cbv iota.
  replace ((n - 0 + 1 - 1) / 1) with n by (rewrite Z.div_1_r; lia). apply map_ext. intros. lia.
Qed.
Lemma py_range_up2 : forall k, py_range 0 (2 * Z.of_nat k) 2 = map (fun i => 2 * Z.of_nat i) (seq 0 k).
Proof.
  intros. unfold py_range. change (0 <? 2) with true. cbv iota.
  replace ((2 * Z.of_nat k - 0 + 2 - 1) / 2) with (Z.of_nat k) by lia. rewrite Nat2Z.id.
  apply map_ext. intros. lia.
Qed.

Lemma hexize_spec_l : forall b, bytes_ok b = true -> hexize b = Ok (hex_of_bytes b).
Proof.
  intros b Hb. unfold hexize. rewrite py_range_up1 by apply py_len_nonneg. unfold py_len at 1. rewrite Nat2Z.id.
  rewrite (idx_loop Z b Z.of_nat py_fmt_02x _ ) with (pre := []) (rest := b) ; [ | | reflexivity].
  - cbn [bind app]. rewrite fmt_02x_bytes by assumption. reflexivity.
  - intros pre x rest acc Hbs. cbv beta zeta. rewrite Hbs.
    change (x :: rest) with ([x] ++ rest). fold (py_len pre). change 1 with (py_len [x]) at 1.
    rewrite py_slice_mid. reflexivity.
Qed.

(* decoding *)
Lemma hexdigit_cases : forall d, 0 <= d < 16 ->
  py_memZ (hexdigit d) py_hexdigits = true /\ hexval (hexdigit d) = Some d.
Proof.
  intros d Hd.
  assert (d = 0 \/ d = 1 \/ d = 2 \/ d = 3 \/ d = 4 \/ d = 5 \/ d = 6 \/ d = 7 \/ d = 8 \/ d = 9 \/ d = 10 \/
          d = 11 \/ d = 12 \/ d = 13 \/ d = 14 \/ d = 15) as H by lia.
  repeat (destruct H as [-> | H]; [split; reflexivity|]). subst. split; reflexivity.
Qed.
Lemma hex_of_bytes_mem : forall b c, bytes_ok b = true -> In c (hex_of_bytes b) -> py_memZ c py_hexdigits = true.
Proof.
  induction b as [|x b IH]; intros c Hb Hc; [destruct Hc|].
  cbn in Hb. apply andb_prop in Hb. destruct Hb as [Hx Hb]. unfold is_byte in Hx.
  assert (0 <= x < 256) by lia.
  unfold hex_of_bytes in Hc. cbn [flat_map app] in Hc.
  destruct Hc as [<- | [<- | Hc]]; [apply hexdigit_cases; lia | apply hexdigit_cases; lia | apply (IH c Hb Hc)].
Qed.
Lemma filter_hex_id : forall hh h, (forall c, In c hh -> py_memZ c py_hexdigits = true) ->
  fold_left (fun h c => if negb (py_memZ c py_hexdigits) then py_remove_char c h else h) hh h = h.
Proof.
  induction hh as [|c hh IH]; intros h H; [reflexivity|]. cbn [fold_left].
  rewrite (H c) by (left; reflexivity). cbn [negb]. apply IH. intros. apply H. right. assumption.
Qed.
Lemma hex_of_bytes_length : forall b, length (hex_of_bytes b) = (2 * length b)%nat.
Proof. induction b; [reflexivity|]. unfold hex_of_bytes in *. cbn [flat_map app length]. rewrite IHb. lia. Qed.
Lemma hex_of_bytes_app : forall a b, hex_of_bytes (a ++ b) = hex_of_bytes a ++ hex_of_bytes b.
Proof. intros. unfold hex_of_bytes. apply flat_map_app. Qed.
Lemma py_int_hex_pair : forall x, is_byte x = true -> py_int_hex [hexdigit (x / 16); hexdigit (x mod 16)] = Ok x.
Proof.
  intros x Hx. unfold is_byte in Hx. assert (0 <= x < 256) by lia.
  unfold py_int_hex. cbn [fold_left bind].
  destruct (hexdigit_cases (x / 16)) as [_ ->]; [lia|]. cbn [bind].
  destruct (hexdigit_cases (x mod 16)) as [_ ->]; [lia|]. f_equal. lia.
Qed.
Lemma flat_map_single : forall (l : list Z), flat_map (fun x => [x]) l = l.
Proof. induction l; [reflexivity|]. cbn. rewrite IHl. reflexivity. Qed.

Lemma slice_hex_pair : forall pre x rest,
  py_slice (hex_of_bytes (pre ++ x :: rest)) (2 * Z.of_nat (length pre)) (2 * Z.of_nat (length pre) + 2) =
  [hexdigit (x / 16); hexdigit (x mod 16)].
Proof.
  intros. rewrite hex_of_bytes_app. change (x :: rest) with ([x] ++ rest). rewrite hex_of_bytes_app.
  replace (2 * Z.of_nat (length pre)) with (py_len (hex_of_bytes pre))
    by (unfold py_len; rewrite hex_of_bytes_length; lia).
  change 2 with (py_len (hex_of_bytes [x])). apply py_slice_mid.
Qed.

Lemma unhexify_hex_l : forall b, bytes_ok b = true -> unhexify (hex_of_bytes b) = Ok b.
Proof.
  intros b Hb. unfold unhexify.
  rewrite filter_hex_id by (intros c Hc; apply (hex_of_bytes_mem b c Hb Hc)).
  assert (Hlen: py_len (hex_of_bytes b) = 2 * Z.of_nat (length b)) by (unfold py_len; rewrite hex_of_bytes_length; lia).
  rewrite Hlen. replace ((2 * Z.of_nat (length b)) mod 2) with 0 by lia. cbn [py_truthZ Z.eqb negb].
  rewrite Hlen, py_range_up2.
  rewrite (idx_loop Z b (fun i => 2 * Z.of_nat i) (fun x => [x])) with (pre := []) (rest := b); [ | | reflexivity].
  - cbn [bind app]. rewrite flat_map_single. reflexivity.
  - intros pre x rest acc Hbs. cbv beta zeta. rewrite Hbs, slice_hex_pair.
    assert (Hx: is_byte x = true).
    { rewrite Hbs, bytes_ok_app in Hb. apply andb_prop in Hb. destruct Hb as [_ Hb]. cbn in Hb.
      apply andb_prop in Hb. apply Hb. }
    rewrite py_int_hex_pair by assumption. cbn [bind]. unfold py_ba_append. rewrite Hx. reflexivity.
Qed.
Lemma unhexize_hex_l : forall b, bytes_ok b = true -> unhexize (hex_of_bytes b) = Ok b.
Proof.
  intros b Hb. unfold unhexize.
  rewrite filter_hex_id by (intros c Hc; apply (hex_of_bytes_mem b c Hb Hc)).
  assert (Hlen: py_len (hex_of_bytes b) = 2 * Z.of_nat (length b)) by (unfold py_len; rewrite hex_of_bytes_length; lia).
  rewrite Hlen. replace ((2 * Z.of_nat (length b)) mod 2) with 0 by lia. cbn [py_truthZ Z.eqb negb].
  rewrite Hlen, py_range_up2.
  rewrite (idx_loop Z b (fun i => 2 * Z.of_nat i) (fun x => [x])) with (pre := []) (rest := b); [ | | reflexivity].
  - cbn [bind app]. rewrite flat_map_single. reflexivity.
  - intros pre x rest acc Hbs. cbv beta zeta. rewrite Hbs, slice_hex_pair.
    assert (Hx: is_byte x = true).
    { rewrite Hbs, bytes_ok_app in Hb. apply andb_prop in Hb. destruct Hb as [_ Hb]. cbn in Hb.
      apply andb_prop in Hb. apply Hb. }
    rewrite py_int_hex_pair by assumption. cbn [bind]. unfold py_pack_B. rewrite Hx. reflexivity.
Qed.

Lemma unhexify_hexify_l : forall b, bytes_ok b = true ->
  exists h, hexify b = Ok h /\ py_len h = 2 * py_len b /\ unhexify h = Ok b /\ hexize b = Ok h /\ unhexize h = Ok b.
Proof.
  intros b Hb. exists (hex_of_bytes b). split; [apply hexify_spec_l; assumption|].
  split; [unfold py_len; rewrite hex_of_bytes_length; lia|].
  split; [apply unhexify_hex_l; assumption|]. split; [apply hexize_spec_l; assumption|].
  apply unhexize_hex_l; assumption.
Qed.
Lemma lower_hex_digit : forall c, is_lower_hex c = true -> exists d, 0 <= d < 16 /\ c = hexdigit d.
Proof.
  intros c H. unfold is_lower_hex in H.
  destruct ((48 <=? c) && (c <=? 57)) eqn:E.
  - exists (c - 48). unfold hexdigit. destruct (c - 48 <? 10) eqn:E2; lia.
  - cbn [orb] in H. exists (c - 87). unfold hexdigit. destruct (c - 87 <? 10) eqn:E2; lia.
Qed.
Lemma lower_hex_decompose : forall k h, length h = (2 * k)%nat -> forallb is_lower_hex h = true ->
  exists bs, bytes_ok bs = true /\ h = hex_of_bytes bs.
Proof.
  induction k; intros h Hl Hh.
  - destruct h; [|discriminate]. exists []. split; reflexivity.
  - destruct h as [|c1 [|c2 h]]; try (cbn in Hl; lia).
    cbn [forallb] in Hh. apply andb_prop in Hh. destruct Hh as [H1 Hh]. apply andb_prop in Hh. destruct Hh as [H2 Hh].
    destruct (lower_hex_digit c1 H1) as [d1 [Hd1 ->]]. destruct (lower_hex_digit c2 H2) as [d2 [Hd2 ->]].
    destruct (IHk h) as [bs [Hbs ->]]; [cbn in Hl; lia|assumption|].
    exists ((d1 * 16 + d2) :: bs). split.
    + cbn [bytes_ok forallb]. fold (bytes_ok bs). rewrite Hbs. unfold is_byte.
      destruct (0 <=? d1 * 16 + d2) eqn:E1; destruct (d1 * 16 + d2 <? 256) eqn:E2; try lia; try reflexivity.
    + unfold hex_of_bytes. cbn [flat_map app]. f_equal; [f_equal; lia|]. f_equal. f_equal. lia.
Qed.
Lemma hexify_unhexify_l : forall k h, length h = (2 * k)%nat -> forallb is_lower_hex h = true ->
  exists b, unhexify h = Ok b /\ hexify b = Ok h /\ unhexize h = Ok b /\ hexize b = Ok h.
Proof.
  intros k h Hl Hh. destruct (lower_hex_decompose k h Hl Hh) as [bs [Hbs ->]]. exists bs.
  split; [apply unhexify_hex_l; assumption|]. split; [apply hexify_spec_l; assumption|].
  split; [apply unhexize_hex_l; assumption|apply hexize_spec_l; assumption].
Qed.
(* ---- longer buffers are truncated to size; too-small sizes are rejected ---- *)
Lemma py_slice_prefix : forall A (l : list A) n, 0 <= n <= py_len l -> py_slice l 0 n = firstn (Z.to_nat n) l.
Proof.
  intros A l n Hn. unfold py_slice, py_clip. change (0 <? 0) with false. cbv iota.
  destruct (n <? 0) eqn:E; [lia|]. rewrite (Z.min_l 0), (Z.min_l n), Z.sub_0_r by lia.
  change (Z.to_nat 0) with 0%nat. reflexivity.
Qed.
Lemma bytes_ok_firstn : forall k l, bytes_ok l = true -> bytes_ok (firstn k l) = true.
Proof.
  induction k; intros l H; [reflexivity|]. destruct l as [|x l]; [reflexivity|].
  cbn in H. apply andb_prop in H. destruct H as [Hx Hl]. cbn [firstn bytes_ok forallb]. rewrite Hx.
  apply (IHk l Hl).
Qed.

Lemma unpackify_truncates_l : forall fuel ws b boolean size reverse, wf_fmt ws -> size_ok ws size ->
  bytes_ok b = true -> eff_size ws size <= py_len b -> (length b < fuel)%nat ->
  unpackify fuel ws b boolean size reverse =
  unpackify fuel ws (firstn (Z.to_nat (eff_size ws size)) (maybe_rev reverse b)) boolean size false.
Proof.
  intros fuel ws b boolean size reverse Hw Hso Hb Hlen Hf.
  pose proof (eff_size_bound ws size Hw Hso) as Hbd.
  assert (Hb' : bytes_ok (maybe_rev reverse b) = true) by (rewrite bytes_ok_maybe_rev; assumption).
  assert (Hl' : py_len (maybe_rev reverse b) = py_len b) by (unfold py_len; rewrite maybe_rev_length; reflexivity).
  set (sz := eff_size ws size) in *. set (c := firstn (Z.to_nat sz) (maybe_rev reverse b)).
  assert (Hc : bytes_ok c = true) by (apply bytes_ok_firstn; assumption).
  assert (Hcl : py_len c = sz).
  { unfold c, py_len. rewrite firstn_length, maybe_rev_length. unfold py_len in Hlen. lia. }
  unfold unpackify. rewrite !py_bytearray_ok by assumption. cbn [bind]. rewrite map_id', eff_size_eq. fold sz.
  replace (negb ((0 <=? py_sum ws) && (py_sum ws <=? sz * 8))) with false
    by (destruct (0 <=? py_sum ws) eqn:E1; destruct (py_sum ws <=? sz * 8) eqn:E2; try lia; reflexivity).
  fold (maybe_rev reverse b). rewrite py_slice_prefix by lia. fold c.
  rewrite (py_slice_all _ c sz) by (symmetry; exact Hcl). reflexivity.
Qed.

Lemma packify_too_small_l : forall fuel ws vs s reverse, 8 * s < py_sum ws ->
  packify fuel ws vs (Some s) reverse = Err ValueError.
Proof.
  intros. unfold packify. rewrite map_id'. cbv iota beta zeta.
  replace (negb ((0 <=? py_sum ws) && (py_sum ws <=? s * 8))) with true; [reflexivity|].
  destruct (py_sum ws <=? s * 8) eqn:E; [lia|]. rewrite andb_false_r. reflexivity.
Qed.
Lemma unpackify_too_small_l : forall fuel ws b boolean s reverse, bytes_ok b = true -> 8 * s < py_sum ws ->
  unpackify fuel ws b boolean (Some s) reverse = Err ValueError.
Proof.
  intros. unfold unpackify. rewrite py_bytearray_ok by assumption. cbn [bind]. rewrite map_id'. cbv iota beta zeta.
  replace (negb ((0 <=? py_sum ws) && (py_sum ws <=? s * 8))) with true; [reflexivity|].
  destruct (py_sum ws <=? s * 8) eqn:E; [lia|]. rewrite andb_false_r. reflexivity.
Qed.
Lemma pack_unpack_too_small_l : forall fuel ws vs b boolean s reverse, bytes_ok b = true -> 8 * s < py_sum ws ->
  packify fuel ws vs (Some s) reverse = Err ValueError /\
  unpackify fuel ws b boolean (Some s) reverse = Err ValueError.
Proof. intros. split; [apply packify_too_small_l | apply unpackify_too_small_l]; assumption. Qed.
(* ---- unhexify / unhexize on arbitrary text ---- *)
Lemma filter_filter : forall A (P Q : A -> bool) l, filter P (filter Q l) = filter (fun x => Q x && P x) l.
Proof.
  induction l as [|x l IH]; [reflexivity|]. cbn [filter]. destruct (Q x); cbn [filter andb]; rewrite IH; reflexivity.
Qed.
Lemma py_memZ_cons : forall x c hh, py_memZ x (c :: hh) = (x =? c) || py_memZ x hh.
Proof. reflexivity. Qed.
Lemma strip_loop : forall hh h,
  fold_left (fun h c => if negb (py_memZ c py_hexdigits) then py_remove_char c h else h) hh h =
  filter (fun x => is_hexdigit x || negb (py_memZ x hh)) h.
Proof.
  induction hh as [|c hh IH]; intros h.
  - cbn [fold_left]. symmetry. rewrite <- (filter_ext (fun _ => true)).
    + induction h; [reflexivity|]. cbn. f_equal. assumption.
    + intros. cbn. rewrite orb_true_r. reflexivity.
  - cbn [fold_left]. rewrite IH. destruct (py_memZ c py_hexdigits) eqn:E; cbn [negb].
    + apply filter_ext_in. intros x _. rewrite py_memZ_cons.
      destruct (Z.eqb_spec x c) as [->|]; [|reflexivity]. unfold is_hexdigit. rewrite E. reflexivity.
    + unfold py_remove_char. rewrite filter_filter. apply filter_ext_in. intros x _.
      rewrite py_memZ_cons.
      destruct (Z.eqb_spec x c) as [->|]; cbn [negb andb orb]; [|reflexivity].
      unfold is_hexdigit. rewrite E. reflexivity.
Qed.
Lemma strip_self : forall h,
  fold_left (fun h c => if negb (py_memZ c py_hexdigits) then py_remove_char c h else h) h h = filter is_hexdigit h.
Proof.
  intros. rewrite strip_loop. apply filter_ext_in. intros x Hx.
  assert (py_memZ x h = true) as ->.
  { unfold py_memZ. apply existsb_exists. exists x. split; [assumption|apply Z.eqb_refl]. }
  apply orb_false_r.
Qed.
Lemma even_len_mod : forall A (l : list A), py_truthZ (py_len l mod 2) = negb (Nat.even (length l)).
Proof.
  intros. unfold py_truthZ, py_len.
  destruct (Nat.even (length l)) eqn:E.
  - apply Nat.even_spec in E. destruct E as [k ->]. replace (Z.of_nat (2 * k) mod 2) with 0 by lia. reflexivity.
  - apply (f_equal negb) in E. rewrite Nat.negb_even in E. apply Nat.odd_spec in E. destruct E as [k ->].
    replace (Z.of_nat (2 * k + 1) mod 2) with 1 by lia. reflexivity.
Qed.

Lemma hexdigit_char : forall c, is_hexdigit c = true -> exists d, hexval c = Some d /\ 0 <= d < 16.
Proof.
  intros c H. unfold is_hexdigit, py_memZ in H. apply existsb_exists in H. destruct H as [x [Hin Heq]].
  apply Z.eqb_eq in Heq. subst x. unfold py_hexdigits in Hin. cbn [In] in Hin.
  repeat (destruct Hin as [<- | Hin]; [eexists; split; [reflexivity|lia]|]). destruct Hin.
Qed.

Lemma unpair_of_even : forall k h, length h = (2 * k)%nat -> exists ps, h = unpair ps.
Proof.
  induction k; intros h Hl.
  - destruct h; [|discriminate]. exists []. reflexivity.
  - destruct h as [|c1 [|c2 h]]; try (cbn in Hl; lia). destruct (IHk h) as [ps ->]; [cbn in Hl; lia|].
    exists ((c1, c2) :: ps). reflexivity.
Qed.
Lemma decode_unpair : forall ps, decode_pairs (unpair ps) = map (fun p => hexval0 (fst p) * 16 + hexval0 (snd p)) ps.
Proof. induction ps as [|[a b] ps IH]; [reflexivity|]. unfold unpair in *. cbn [flat_map app decode_pairs map fst snd]. rewrite IH. reflexivity. Qed.
Lemma unpair_app : forall a b, unpair (a ++ b) = unpair a ++ unpair b.
Proof. intros. unfold unpair. apply flat_map_app. Qed.
Lemma unpair_length : forall ps, length (unpair ps) = (2 * length ps)%nat.
Proof. induction ps; [reflexivity|]. unfold unpair in *. cbn [flat_map app length]. rewrite IHps. lia. Qed.

Section PairLoop.
Variable ps : list (Z * Z).
Variable F : list Z -> Z -> res (list Z).
Hypothesis HF : forall pre p rest acc, ps = pre ++ p :: rest ->
  F acc (2 * Z.of_nat (length pre)) = Ok (acc ++ [hexval0 (fst p) * 16 + hexval0 (snd p)]).
Lemma pair_loop : forall rest pre acc, ps = pre ++ rest ->
  for_res (map (fun i => 2 * Z.of_nat i) (seq (length pre) (length rest))) acc F =
  Ok (acc ++ map (fun p => hexval0 (fst p) * 16 + hexval0 (snd p)) rest).
Proof.
  induction rest as [|p rest IH]; intros pre acc Hb.
  - cbn. rewrite app_nil_r. reflexivity.
  - cbn [length seq map for_res]. rewrite (HF pre p rest acc Hb). cbn [bind].
    replace (S (length pre)) with (length (pre ++ [p])) by (rewrite app_length; cbn; lia).
    rewrite (IH (pre ++ [p])); [rewrite <- app_assoc; reflexivity|]. rewrite <- app_assoc. exact Hb.
Qed.
End PairLoop.

Lemma slice_unpair : forall pre p rest,
  py_slice (unpair (pre ++ p :: rest)) (2 * Z.of_nat (length pre)) (2 * Z.of_nat (length pre) + 2) = [fst p; snd p].
Proof.
  intros. rewrite unpair_app. change (p :: rest) with ([p] ++ rest). rewrite unpair_app.
  replace (2 * Z.of_nat (length pre)) with (py_len (unpair pre)) by (unfold py_len; rewrite unpair_length; lia).
  change 2 with (py_len (unpair [p])). apply py_slice_mid.
Qed.
Lemma int_hex_pair : forall c1 c2, is_hexdigit c1 = true -> is_hexdigit c2 = true ->
  py_int_hex [c1; c2] = Ok (hexval0 c1 * 16 + hexval0 c2) /\ is_byte (hexval0 c1 * 16 + hexval0 c2) = true.
Proof.
  intros c1 c2 H1 H2. destruct (hexdigit_char c1 H1) as [d1 [E1 Hd1]]. destruct (hexdigit_char c2 H2) as [d2 [E2 Hd2]].
  unfold py_int_hex, hexval0. cbn [fold_left bind]. rewrite E1. cbn [bind]. rewrite E2. split; [f_equal; lia|].
  unfold is_byte. destruct (0 <=? d1 * 16 + d2) eqn:A; destruct (d1 * 16 + d2 <? 256) eqn:B; try lia; reflexivity.
Qed.

Lemma clean_hex_props : forall h, exists ps, clean_hex h = unpair ps /\ forallb is_hexdigit (clean_hex h) = true.
Proof.
  intros h. unfold clean_hex. set (f := filter is_hexdigit h).
  assert (Hf: forallb is_hexdigit f = true).
  { apply forallb_forall. intros x Hx. apply filter_In in Hx. apply Hx. }
  destruct (Nat.even (length f)) eqn:E.
  - apply Nat.even_spec in E. destruct E as [k Hk]. destruct (unpair_of_even k f Hk) as [ps Hps].
    exists ps. split; assumption.
  - apply (f_equal negb) in E. rewrite Nat.negb_even in E. apply Nat.odd_spec in E. destruct E as [k Hk].
    destruct (unpair_of_even (S k) (48 :: f)) as [ps Hps]; [cbn [length]; lia|].
    exists ps. split; [assumption|]. cbn [forallb]. rewrite Hf. reflexivity.
Qed.

Lemma unhex_general_l : forall h,
  unhexify h = Ok (decode_pairs (clean_hex h)) /\ unhexize h = Ok (decode_pairs (clean_hex h)).
Proof.
  intros h. destruct (clean_hex_props h) as [ps [Hps Hall]].
  assert (Hclean: (if py_truthZ (py_len (filter is_hexdigit h) mod 2) then [48] ++ filter is_hexdigit h
                   else filter is_hexdigit h) = clean_hex h).
  { rewrite even_len_mod. unfold clean_hex. destruct (Nat.even (length (filter is_hexdigit h))); reflexivity. }
  assert (Hchars: forall pre p rest, ps = pre ++ p :: rest -> is_hexdigit (fst p) = true /\ is_hexdigit (snd p) = true).
  { intros pre p rest E. rewrite Hps, E, unpair_app in Hall. rewrite forallb_app in Hall.
    apply andb_prop in Hall. destruct Hall as [_ Hall]. unfold unpair in Hall. cbn [flat_map app forallb] in Hall.
    apply andb_prop in Hall. destruct Hall as [A Hall]. apply andb_prop in Hall. destruct Hall as [B _]. split; assumption. }
  assert (Hlen: py_len (unpair ps) = 2 * Z.of_nat (length ps)) by (unfold py_len; rewrite unpair_length; lia).
  split.
  - unfold unhexify. rewrite strip_self. cbv zeta. rewrite Hclean, Hps, Hlen, py_range_up2.
    rewrite (pair_loop ps) with (pre := []) (rest := ps); [ | | reflexivity].
    + cbn [bind app]. rewrite decode_unpair. reflexivity.
    + intros pre p rest acc E. cbv beta zeta. rewrite E, slice_unpair.
      destruct (Hchars pre p rest E) as [A B]. destruct (int_hex_pair _ _ A B) as [-> Hbyte]. cbn [bind].
      unfold py_ba_append. rewrite Hbyte. reflexivity.
  - unfold unhexize. rewrite strip_self. cbv zeta. rewrite Hclean, Hps, Hlen, py_range_up2.
    rewrite (pair_loop ps) with (pre := []) (rest := ps); [ | | reflexivity].
    + cbn [bind app]. rewrite decode_unpair. reflexivity.
    + intros pre p rest acc E. cbv beta zeta. rewrite E, slice_unpair.
      destruct (Hchars pre p rest E) as [A B]. destruct (int_hex_pair _ _ A B) as [-> Hbyte]. cbn [bind].
      unfold py_pack_B. rewrite Hbyte. reflexivity.
Qed.
