(* C01 -- property theorems only.  Each closed by [exact]; Print Assumptions beneath.
   They are stated about the GENERATED import graph of the tree under test (gen/ImportGraph.v:
   events, chain, all_modules, startup, waived, fuel) in the import model of Model.v. *)
From Coq Require Import List NArith Bool.
Import ListNotations.
Require Import V.C01.Model V.C01.Proofs V.C01.GraphFacts V.gen.ImportGraph.
Open Scope N_scope.

(* Every ioflo module (every .py file under ioflo/, packages included), imported alone by
   `import <dotted name>` from the measured start-up state of the interpreter, finishes without
   an exception.  Finite domain: [checked] = [all_modules] of the generated graph minus [waived]
   (GraphFacts.checked := filter (fun m => negb (memN m waived)) all_modules). *)
Theorem all_import_alone :
  forallb (fun m => is_ok (import_alone m)) checked = true.
Proof. exact all_import_alone_l. Qed.
Print Assumptions all_import_alone.

(* ALL import sequences (any length, any order, repetitions allowed) over those modules run
   to the end without an exception. *)
Theorem order_independent : forall l,
  (forall m, In m l -> In m all_modules /\ ~ In m waived) ->
  exists u, import_seq events chain fuel l fresh = Ok u.
Proof. exact order_independent_l. Qed.
Print Assumptions order_independent.

(* The result of importing m does not depend on what was imported before it: after ANY such
   sequence, importing any module m still succeeds. *)
Theorem each_ok_after_any_prefix : forall l m,
  (forall k, In k l -> In k all_modules /\ ~ In k waived) -> In m all_modules -> ~ In m waived ->
  exists u u', import_seq events chain fuel l fresh = Ok u /\ import_top events chain fuel m u = Ok u'.
Proof. exact each_ok_after_any_prefix_l. Qed.
Print Assumptions each_ok_after_any_prefix.

(* No package __init__ body binds a name that is also a submodule file of that package to anything
   but that submodule (generated tables [pkg_bindings], [submodule_files]; star imports expanded). *)
Theorem no_shadowed_submodule : no_shadow_b pkg_bindings submodule_files = true.
Proof. exact no_shadowed_submodule_l. Qed.
Print Assumptions no_shadowed_submodule.

(* Hence `from pkg import sub` yields the submodule pkg.sub whatever was imported before
   (after = the submodule was / was not imported explicitly after the package body ran). *)
Theorem from_import_history_independent : forall p n sub, In (p, n, sub) submodule_files ->
  forall after, from_import (lookup_binding pkg_bindings p n) after sub = sub.
Proof. exact from_import_history_independent_l. Qed.
Print Assumptions from_import_history_independent.

(* Module-local discipline: every attribute use X.Y of a SUBMODULE Y at import time in a checked module
   m is covered in m itself -- m imports Y explicitly, or `import X` alone binds Y (measured in the
   interpreter started with -S), or Y is loaded at that interpreter's start-up.  No module relies on
   another module (or the host program, site hooks, pytest) having imported Y first. *)
Theorem submodule_uses_locally_covered : locally_covered_b events chain startup checked = true.
Proof. exact submodule_uses_locally_covered_l. Qed.
Print Assumptions submodule_uses_locally_covered.

(* The same discipline for attribute uses X.Y inside function and method bodies (run time, generated
   table [fn_uses]; imports made inside the module's own functions count, [fn_imports]). *)
Theorem runtime_submodule_uses_locally_covered :
  fn_uses_covered_b events chain startup fn_uses fn_imports = true.
Proof. exact runtime_submodule_uses_locally_covered_l. Qed.
Print Assumptions runtime_submodule_uses_locally_covered.

(* No code that can run while an ioflo module is imported (module / class bodies and, name based and
   transitively, every function or constructor called from them; generated table [stdio_derefs])
   dereferences sys.stdout / sys.stderr / sys.stdin unguarded (outside try / except handler / an `if` on that
   stream): importing does not depend on the host process having standard streams. *)
Theorem import_time_stdio_guarded : forallb (fun d => snd d) stdio_derefs = true.
Proof. exact import_time_stdio_guarded_l. Qed.
Print Assumptions import_time_stdio_guarded.

(* the generic monotonicity (simulation) lemma the two theorems above rest on, for EVERY graph:
   if S is closed under imports and the state u is the state t plus all of S finished, a
   successful import from t also succeeds from u and keeps the relation *)
Theorem import_success_monotone : forall (ev : N -> list event) S, Closed ev S ->
  forall fuel m t u t', Rel S t u -> imp ev fuel m t = Ok t' ->
  exists u', imp ev fuel m u = Ok u' /\ Rel S t' u'.
Proof. exact imp_sim. Qed.
Print Assumptions import_success_monotone.

(* non-vacuity 1: the model does reject the defect this property is about -- a graph in which
   module 2 does `import 5` (collections) and then evaluates 5.6 (collections.abc) without
   anybody having imported 6 fails, and succeeds once 6 is imported first *)
Example c01_model_rejects_unimported_submodule :
  let ev := fun m => match m with 2 => [EImport 5; EUse 6] | _ => [] end in
  imp ev 5 2 (mkst [5] [5]) = Err /\
  is_ok (imp (fun m => match m with 2 => [EImport 5; EImport 6; EUse 6] | _ => [] end) 5 2 (mkst [5] [5])) = true.
Proof. vm_compute. split; reflexivity. Qed.

(* non-vacuity 2: the generated graph is not empty and importing the package loads many modules *)
Example c01_graph_nonempty :
  (100 <=? N.of_nat (length all_modules)) = true /\
  match import_alone 1 with Ok t => (30 <=? N.of_nat (length (loaded t))) | _ => false end = true.
Proof. vm_compute. split; reflexivity. Qed.
