(* C01 -- finite facts about the GENERATED import graph (gen/ImportGraph.v), by computation,
   and the instantiation of the generic order-independence lemma. *)
From Coq Require Import List NArith Bool.
Import ListNotations.
Require Import V.C01.Model V.C01.Proofs V.gen.ImportGraph.
Open Scope N_scope.

Definition fresh : st := mkst startup startup.

(* the modules the theorems speak about: every module file of ioflo except those listed as an
   OPEN finding in known_findings.json (generated [waived]; empty unless the integrator lists one) *)
Definition checked : list N := filter (fun m => negb (memN m waived)) all_modules.

Definition import_alone (m : N) : res := import_top events chain fuel m fresh.

Lemma startup_closed : closedb events startup = true.
Proof. vm_compute. reflexivity. Qed.

Lemma all_good : forallb (good_b events chain fuel fresh) checked = true.
Proof. vm_compute. reflexivity. Qed.

Lemma all_import_alone_l : forallb (fun m => is_ok (import_alone m)) checked = true.
Proof. vm_compute. reflexivity. Qed.

Lemma checked_spec : forall m, In m checked <-> In m all_modules /\ ~ In m waived.
Proof.
  intros m. unfold checked. rewrite filter_In. rewrite negb_true_iff. rewrite memN_false. tauto.
Qed.

Lemma order_independent_l : forall l, (forall m, In m l -> In m all_modules /\ ~ In m waived) ->
  exists u, import_seq events chain fuel l fresh = Ok u.
Proof.
  intros l Hl. apply (order_independent_gen events chain fuel startup checked startup_closed all_good).
  intros m Hm. apply checked_spec. auto.
Qed.

Lemma each_ok_after_any_prefix_l : forall l m,
  (forall k, In k l -> In k all_modules /\ ~ In k waived) -> In m all_modules -> ~ In m waived ->
  exists u u', import_seq events chain fuel l fresh = Ok u /\ import_top events chain fuel m u = Ok u'.
Proof.
  intros l m Hl Hm Hw.
  apply (each_ok_in_any_order events chain fuel startup checked startup_closed all_good).
  - intros k Hk. apply checked_spec. auto.
  - apply checked_spec. auto.
Qed.

Lemma no_shadowed_submodule_l : no_shadow_b pkg_bindings submodule_files = true.
Proof. vm_compute. reflexivity. Qed.

Lemma from_import_history_independent_l : forall p n sub, In (p, n, sub) submodule_files ->
  forall after, from_import (lookup_binding pkg_bindings p n) after sub = sub.
Proof. exact (from_import_history_independent_gen pkg_bindings submodule_files no_shadowed_submodule_l). Qed.

Lemma submodule_uses_locally_covered_l : locally_covered_b events chain startup checked = true.
Proof. vm_compute. reflexivity. Qed.

Lemma runtime_submodule_uses_locally_covered_l :
  fn_uses_covered_b events chain startup fn_uses fn_imports = true.
Proof. vm_compute. reflexivity. Qed.

Lemma import_time_stdio_guarded_l : forallb (fun d => snd d) stdio_derefs = true.
Proof. vm_compute. reflexivity. Qed.
