(* C01 -- proofs about the import model, generic in the graph (Section variables are
   instantiated with the generated graph in GraphFacts.v / Props.v). *)
From Coq Require Import List NArith Bool.
Import ListNotations.
Require Import V.C01.Model.
Open Scope N_scope.

Lemma memN_In : forall x l, memN x l = true <-> In x l.
Proof.
  intros x l. unfold memN. rewrite existsb_exists. split.
  - intros [y [Hy He]]. apply N.eqb_eq in He. subst. exact Hy.
  - intros H. exists x. split; [exact H | apply N.eqb_refl].
Qed.

Lemma memN_false : forall x l, memN x l = false <-> ~ In x l.
Proof.
  intros x l. rewrite <- memN_In. destruct (memN x l); split; congruence.
Qed.

Lemma subsetb_spec : forall a b, subsetb a b = true <-> (forall x, In x a -> In x b).
Proof.
  intros a b. unfold subsetb. rewrite forallb_forall. split; intros H x Hx.
  - apply memN_In. apply H. exact Hx.
  - apply memN_In. apply H. exact Hx.
Qed.

(* generic facts about run_with *)
Section RunWith.
  Variable I : N -> st -> res.

  (* a reflexive, transitive relation kept by every nested import is kept by the body *)
  Lemma run_with_rel : forall (P : st -> st -> Prop),
    (forall s, P s s) -> (forall a b c, P a b -> P b c -> P a c) ->
    forall evs,
    (forall j s s', In (EImport j) evs -> I j s = Ok s' -> P s s') ->
    forall s s', run_with I evs s = Ok s' -> P s s'.
  Proof.
    intros P Hr Ht evs. induction evs as [|e r IH]; intros HI s s' H; simpl in H.
    - inversion H. apply Hr.
    - destruct e as [k|k|].
      + destruct (I k s) as [s1| |] eqn:E; try discriminate.
        apply Ht with s1.
        * apply (HI k); [left; reflexivity | exact E].
        * apply IH; [|exact H]. intros j a b Hj. apply HI. right. exact Hj.
      + destruct (memN k (bound s)); try discriminate.
        apply IH; [|exact H]. intros j a b Hj. apply HI. right. exact Hj.
      + discriminate.
  Qed.
End RunWith.

Section Graph.
  Variable events : N -> list event.
  Variable chain : N -> list N.

  Notation imp := (imp events).
  Notation run := (run events).
  Notation import_top := (import_top events chain).
  Notation import_seq := (import_seq events chain).

  Definition Closed (S : list N) : Prop :=
    forall k j, In k S -> In (EImport j) (events k) -> In j S.

  Lemma closedb_Closed : forall S, closedb events S = true -> Closed S.
  Proof.
    intros S H k j Hk Hj. unfold closedb in H. rewrite forallb_forall in H.
    specialize (H k Hk). rewrite forallb_forall in H. specialize (H _ Hj). simpl in H.
    apply memN_In. exact H.
  Qed.

  Lemma Closed_app : forall A B, Closed A -> Closed B -> Closed (A ++ B).
  Proof.
    intros A B HA HB k j Hk Hj. apply in_app_iff. apply in_app_iff in Hk. destruct Hk as [Hk|Hk].
    - left. eapply HA; eauto.
    - right. eapply HB; eauto.
  Qed.

  (* t' has at most grown from t, and only inside S *)
  Definition grows_in (S : list N) (t t' : st) : Prop :=
    (forall x, In x (loaded t') -> In x (loaded t) \/ In x S) /\
    (forall x, In x (bound t') -> In x (bound t) \/ In x S) /\
    (forall x, In x (loaded t) -> In x (loaded t')) /\
    (forall x, In x (bound t) -> In x (bound t')).

  Lemma grows_refl : forall S t, grows_in S t t.
  Proof. intros. unfold grows_in. repeat split; auto. Qed.

  Lemma grows_trans : forall S a b c, grows_in S a b -> grows_in S b c -> grows_in S a c.
  Proof.
    intros S a b c (A1 & A2 & A3 & A4) (B1 & B2 & B3 & B4). unfold grows_in. repeat split; intros x Hx.
    - destruct (B1 x Hx) as [H|H]; auto.
    - destruct (B2 x Hx) as [H|H]; auto.
    - auto.
    - auto.
  Qed.

  (* Lemma A: importing a member of a closed set only adds members of that set *)
  Lemma imp_closed_grows : forall S, Closed S ->
    forall fuel m t t', In m S -> imp fuel m t = Ok t' -> grows_in S t t'.
  Proof.
    intros S HS fuel. induction fuel as [|f IH]; intros m t t' Hm H; simpl in H.
    - destruct (memN m (loaded t)); try discriminate. inversion H. apply grows_refl.
    - destruct (memN m (loaded t)) eqn:Em.
      + inversion H. apply grows_refl.
      + destruct (run_with (Model.imp events f) (events m) (start m t)) as [t1| |] eqn:Er; try discriminate.
        inversion H; subst t'. clear H.
        assert (G : grows_in S (start m t) t1).
        { apply (run_with_rel (Model.imp events f) (grows_in S) (grows_refl S) (grows_trans S) (events m)); [|exact Er].
          intros j a b Hj Hab. apply (IH j); [|exact Hab]. eapply HS; eauto. }
        destruct G as (G1 & G2 & G3 & G4). unfold grows_in. simpl in *. repeat split; intros x Hx.
        * destruct (G1 x Hx) as [[E|E]|E]; auto. subst. auto.
        * destruct Hx as [E|Hx]; [subst; auto|]. destruct (G2 x Hx); auto.
        * apply G3. right. exact Hx.
        * right. apply G4. exact Hx.
  Qed.

  (* the simulation relation between a run from t and the run from a state u that additionally
     has the closed set S completely imported *)
  Definition Rel (S : list N) (t u : st) : Prop :=
    (forall x, In x (loaded u) <-> In x (loaded t) \/ In x S) /\
    (forall x, In x (bound u) <-> In x (bound t) \/ In x S).

  Lemma run_with_sim : forall S (I : N -> st -> res),
    (forall j t u t', Rel S t u -> I j t = Ok t' -> exists u', I j u = Ok u' /\ Rel S t' u') ->
    forall evs t u t', Rel S t u -> run_with I evs t = Ok t' ->
    exists u', run_with I evs u = Ok u' /\ Rel S t' u'.
  Proof.
    intros S I HI evs. induction evs as [|e r IH]; intros t u t' HR H; simpl in *.
    - inversion H; subst. exists u. split; auto.
    - destruct e as [k|k|].
      + destruct (I k t) as [t1| |] eqn:E; try discriminate.
        destruct (HI k t u t1 HR E) as [u1 [Eu HR1]]. rewrite Eu. eapply IH; eauto.
      + destruct (memN k (bound t)) eqn:Ek; try discriminate.
        apply memN_In in Ek.
        assert (Hu : memN k (bound u) = true). { apply memN_In. apply (proj2 HR). left. exact Ek. }
        rewrite Hu. eapply IH; eauto.
      + discriminate.
  Qed.

  (* Lemma B: success is preserved when more (closed, finished) modules are already imported *)
  Lemma imp_sim : forall S, Closed S ->
    forall fuel m t u t', Rel S t u -> imp fuel m t = Ok t' ->
    exists u', imp fuel m u = Ok u' /\ Rel S t' u'.
  Proof.
    intros S HS fuel. induction fuel as [|f IH]; intros m t u t' HR H.
    - simpl in H. destruct (memN m (loaded t)) eqn:Em; try discriminate. inversion H; subst t'.
      exists u. split; auto. simpl.
      assert (Hu : memN m (loaded u) = true).
      { apply memN_In. apply (proj1 HR). left. apply memN_In. exact Em. }
      rewrite Hu. reflexivity.
    - simpl in H. destruct (memN m (loaded t)) eqn:Em.
      + inversion H; subst t'. exists u. split; auto. simpl.
        assert (Hu : memN m (loaded u) = true).
        { apply memN_In. apply (proj1 HR). left. apply memN_In. exact Em. }
        rewrite Hu. reflexivity.
      + destruct (run_with (Model.imp events f) (events m) (start m t)) as [t1| |] eqn:Er; try discriminate.
        inversion H; subst t'. clear H.
        destruct (memN m (loaded u)) eqn:Eu.
        * (* m was imported before: it is in S; the run from t stays inside S *)
          exists u. split. { simpl. rewrite Eu. reflexivity. }
          apply memN_In in Eu. apply memN_false in Em.
          assert (HmS : In m S). { destruct (proj1 (proj1 HR m) Eu); [contradiction|assumption]. }
          assert (G : grows_in S (start m t) t1).
          { apply (run_with_rel (Model.imp events f) (grows_in S) (grows_refl S) (grows_trans S) (events m)); [|exact Er].
            intros j a b Hj Hab. apply (imp_closed_grows S HS f j); [|exact Hab]. eapply HS; eauto. }
          destruct G as (G1 & G2 & G3 & G4). destruct HR as [HR1 HR2].
          split; intros x; simpl in *; split; intros Hx.
          -- apply HR1 in Hx. destruct Hx as [Hx|Hx]; auto.
          -- apply HR1. destruct Hx as [Hx|Hx]; auto.
             destruct (G1 x Hx) as [[E|E]|E]; auto. subst. auto.
          -- apply HR2 in Hx. destruct Hx as [Hx|Hx]; auto.
          -- apply HR2. destruct Hx as [[E|Hx]|Hx]; auto; try (subst; auto; fail); destruct (G2 x Hx); auto.
        * (* m is new on both sides: run the body in lock step *)
          assert (HR0 : Rel S (start m t) (start m u)).
          { destruct HR as [HR1 HR2]. split; intros x; simpl; split; intros Hx.
            - destruct Hx as [E|Hx]; auto. apply HR1 in Hx. destruct Hx; auto.
            - destruct Hx as [[E|Hx]|Hx]; auto; right; apply HR1; auto.
            - apply HR2. exact Hx.
            - apply HR2. exact Hx. }
          destruct (run_with_sim S (Model.imp events f) (IH) (events m) _ _ _ HR0 Er) as [u1 [Eu1 HR1]].
          exists (finish m u1). split. { simpl. rewrite Eu. rewrite Eu1. reflexivity. }
          destruct HR1 as [A B]. split; intros x; simpl; split; intros Hx.
          -- apply A. exact Hx.
          -- apply A. exact Hx.
          -- destruct Hx as [E|Hx]; auto. apply B in Hx. destruct Hx; auto.
          -- destruct Hx as [[E|Hx]|Hx]; auto; right; apply B; auto.
  Qed.

  Lemma run_sim : forall S, Closed S ->
    forall fuel evs t u t', Rel S t u -> run fuel evs t = Ok t' ->
    exists u', run fuel evs u = Ok u' /\ Rel S t' u'.
  Proof.
    intros S HS fuel evs t u t' HR H. unfold Model.run in *.
    eapply run_with_sim; eauto. intros j a b c. apply imp_sim. exact HS.
  Qed.

  (* states between two host-level imports: exactly a closed set is loaded, all of it finished *)
  Definition TopInv (S : list N) (u : st) : Prop :=
    Closed S /\ (forall x, In x (loaded u) <-> In x S) /\ (forall x, In x (bound u) <-> In x S).

  Section Fresh.
    Variable fuel : nat.
    Variable startup : list N.
    Let fresh := mkst startup startup.

    Lemma top_step : forall S u m,
      TopInv S u -> (forall x, In x startup -> In x S) ->
      good_b events chain fuel fresh m = true ->
      exists u' S', import_top fuel m u = Ok u' /\ TopInv S' u' /\ (forall x, In x startup -> In x S').
    Proof.
      intros S u m (HC & HL & HB) Hst Hg. unfold good_b in Hg.
      destruct (Model.import_top events chain fuel m fresh) as [t| |] eqn:Et; try discriminate.
      apply andb_prop in Hg. destruct Hg as [Hg H3]. apply andb_prop in Hg. destruct Hg as [H1 H2].
      apply closedb_Closed in H1. rewrite subsetb_spec in H2, H3.
      assert (HR : Rel S fresh u).
      { split; intros x; simpl; split; intros Hx.
        - right. apply HL. exact Hx.
        - apply HL. destruct Hx; auto.
        - right. apply HB. exact Hx.
        - apply HB. destruct Hx; auto. }
      unfold Model.import_top in *.
      destruct (run_sim S HC fuel _ _ _ _ HR Et) as [u' [Eu [A B]]].
      exists u', (loaded t ++ S). split; [exact Eu|]. split.
      - split; [apply Closed_app; assumption|]. split; intros x; rewrite in_app_iff.
        + apply A.
        + rewrite B. split; intros [Hx|Hx]; auto.
      - intros x Hx. apply in_app_iff. right. auto.
    Qed.

    Lemma seq_all_ok : forall l S u,
      TopInv S u -> (forall x, In x startup -> In x S) ->
      (forall m, In m l -> good_b events chain fuel fresh m = true) ->
      exists u', import_seq fuel l u = Ok u'.
    Proof.
      induction l as [|m r IH]; intros S u HT Hst Hl; simpl.
      - exists u. reflexivity.
      - destruct (top_step S u m HT Hst (Hl m (or_introl eq_refl))) as [u1 [S1 [E [HT1 Hst1]]]].
        rewrite E. apply (IH S1 u1 HT1 Hst1). intros k Hk. apply Hl. right. exact Hk.
    Qed.

    (* ORDER INDEPENDENCE (generic form): if the start-up set is closed and every module of a
       list satisfies the finite check [good_b] from the fresh state, then every sequence over
       that list imports without error *)
    Lemma order_independent_gen : forall good,
      closedb events startup = true ->
      forallb (good_b events chain fuel fresh) good = true ->
      forall l, (forall m, In m l -> In m good) -> exists u, import_seq fuel l fresh = Ok u.
    Proof.
      intros good Hc Hg l Hl. rewrite forallb_forall in Hg.
      apply (seq_all_ok l startup fresh).
      - split; [apply closedb_Closed; exact Hc|]. split; intros x; simpl; split; auto.
      - auto.
      - intros m Hm. apply Hg. apply Hl. exact Hm.
    Qed.

    (* in such a sequence each module's own import succeeds wherever it stands *)
    Lemma each_ok_in_any_order : forall good,
      closedb events startup = true ->
      forallb (good_b events chain fuel fresh) good = true ->
      forall l m, (forall k, In k l -> In k good) -> In m good ->
      exists u u', import_seq fuel l fresh = Ok u /\ import_top fuel m u = Ok u'.
    Proof.
      intros good Hc Hg l m Hl Hm.
      destruct (order_independent_gen good Hc Hg (l ++ [m])) as [u' Hu'].
      { intros k Hk. apply in_app_iff in Hk. destruct Hk as [Hk|[Hk|[]]]; subst; auto. }
      revert Hu'. generalize fresh. clear Hl. induction l as [|a r IH]; intros s Hu'; simpl in *.
      - destruct (Model.import_top events chain fuel m s) as [s1| |] eqn:E; try discriminate.
        exists s, s1. split; auto.
      - destruct (Model.import_top events chain fuel a s) as [s1| |] eqn:E; try discriminate.
        apply IH. exact Hu'.
    Qed.
  End Fresh.
End Graph.

(* if no package-body binding shadows a submodule file, `from pkg import sub` yields the submodule
   under every import history *)
Lemma from_import_history_independent_gen : forall bindings files,
  no_shadow_b bindings files = true ->
  forall p n sub, In (p, n, sub) files ->
  forall after, from_import (lookup_binding bindings p n) after sub = sub.
Proof.
  intros bindings files H p n sub Hin after. unfold no_shadow_b in H. rewrite forallb_forall in H.
  specialize (H _ Hin). simpl in H. unfold from_import. destruct after; auto.
  destruct (lookup_binding bindings p n) as [t|]; auto. apply N.eqb_eq in H. exact H.
Qed.
