(* C01 -- a small model of CPython's import system (definitions only).

   Modules are numbered (N); the generated file gen/ImportGraph.v gives, for every ioflo module and
   every external module ioflo touches at import time, the ordered list of import-time events of
   its body, and the start-up module set of the interpreter.

   State: [loaded] = keys of sys.modules (a module is entered there BEFORE its body runs, so an
   import cycle sees a partially initialised module and does not recurse);  [bound] = modules
   whose import has FINISHED: only then does CPython set the attribute  parent.child  on the
   parent package (importlib._bootstrap._find_and_load_unlocked), which is what an attribute
   use  pkg.sub  needs.

   [imp fuel m s]: `import m` (m's parents are explicit earlier events).  Result  Ok s' | Err
   (an exception escapes: ImportError / AttributeError) | OutOfFuel (fuel is a recursion-depth
   bound; the generated [fuel] exceeds the number of modules). *)
From Coq Require Import List NArith Bool.
Import ListNotations.
Open Scope N_scope.

Inductive event :=
| EImport (m : N)     (* import statement reaching module m *)
| EUse (m : N)        (* evaluation of  parent.m  as an attribute: needs m's import finished *)
| EFail.              (* statement that raises in every state (missing module / name) *)

Record st := mkst { loaded : list N; bound : list N }.

Inductive res := Ok (s : st) | Err | OutOfFuel.

Definition memN (x : N) (l : list N) : bool := existsb (N.eqb x) l.

Definition start (m : N) (s : st) : st := mkst (m :: loaded s) (bound s).
Definition finish (m : N) (s : st) : st := mkst (loaded s) (m :: bound s).

(* run a module body given the import function for nested imports *)
Fixpoint run_with (I : N -> st -> res) (evs : list event) (s : st) : res :=
  match evs with
  | [] => Ok s
  | EImport k :: r => match I k s with Ok s' => run_with I r s' | e => e end
  | EUse k :: r => if memN k (bound s) then run_with I r s else Err
  | EFail :: _ => Err
  end.

Section Graph.
  Variable events : N -> list event.
  Variable chain : N -> list N.     (* m's ancestors then m: `import a.b.c` imports a, a.b, a.b.c *)

  Fixpoint imp (fuel : nat) (m : N) (s : st) : res :=
    if memN m (loaded s) then Ok s else
    match fuel with
    | O => OutOfFuel
    | S f =>
      match run_with (imp f) (events m) (start m s) with
      | Ok s' => Ok (finish m s')
      | e => e
      end
    end.

  Definition run (fuel : nat) := run_with (imp fuel).

  (* the statement `import <dotted name of m>` executed by the host program *)
  Definition import_top (fuel : nat) (m : N) (s : st) : res :=
    run fuel (map EImport (chain m)) s.

  (* a host program importing a sequence of modules; stops at the first exception *)
  Fixpoint import_seq (fuel : nat) (l : list N) (s : st) : res :=
    match l with
    | [] => Ok s
    | m :: r => match import_top fuel m s with Ok s' => import_seq fuel r s' | e => e end
    end.

  Definition is_ok (r : res) : bool := match r with Ok _ => true | _ => false end.

  (* boolean facts computed on the generated graph *)
  Definition subsetb (a b : list N) : bool := forallb (fun x => memN x b) a.

  Definition closedb (S : list N) : bool :=
    forallb (fun k => forallb (fun e => match e with EImport j => memN j S | _ => true end) (events k)) S.

  (* m imports alone from the state s0, everything it started has finished, and the set of
     modules it leaves loaded is closed under "imports" *)
  Definition good_b (fuel : nat) (s0 : st) (m : N) : bool :=
    match import_top fuel m s0 with
    | Ok t => closedb (loaded t) && subsetb (loaded t) (bound t) && subsetb (bound t) (loaded t)
    | _ => false
    end.
End Graph.

(* ---- `from pkg import sub`: which object does the host program get? ---------------------------
   CPython returns the attribute  pkg.sub  when it exists and imports the submodule otherwise.  The
   attribute is set (a) by the import machinery to the submodule whenever pkg.sub finishes
   importing, (b) by the body of pkg/__init__ when it binds the NAME sub (explicit or star import,
   def, class, assignment).  [body] = what the package body binds the name to (None: it does not
   bind it; Some t: the module with id t, 0 = not a module); [after] = the submodule was imported
   after the package body ran (any import history). *)
Definition from_import (body : option N) (after : bool) (sub : N) : N :=
  if after then sub else match body with Some t => t | None => sub end.

Definition lookup_binding (b : list (N * N * N)) (p n : N) : option N :=
  match find (fun x => N.eqb (fst (fst x)) p && N.eqb (snd (fst x)) n) b with
  | Some x => Some (snd x) | None => None end.

(* no name bound by a package body hides a submodule file of that package behind another object *)
Definition no_shadow_b (bindings files : list (N * N * N)) : bool :=
  forallb (fun f => match lookup_binding bindings (fst (fst f)) (snd (fst f)) with
                    | Some t => N.eqb t (snd f) | None => true end) files.

(* ---- module-local discipline: an attribute use  X.Y  of a submodule Y in module m is COVERED when m
   itself imports Y explicitly, or importing X alone already binds Y (measured in the -S interpreter:
   the events of the external X), or Y is loaded at interpreter start-up. ------------------------- *)
Definition imports_of (evs : list event) : list N :=
  flat_map (fun e => match e with EImport k => [k] | _ => [] end) evs.

Section Local.
  Variable events : N -> list event.
  Variable chain : N -> list N.
  Variable startup : list N.

  Definition parent_of (y : N) : option N :=
    match rev (chain y) with _ :: x :: _ => Some x | _ => None end.

  Definition use_covered (m y : N) : bool :=
    memN y (imports_of (events m))
    || match parent_of y with Some x => memN y (imports_of (events x)) | None => false end
    || memN y startup.

  (* the same for uses inside function bodies (run time), where imports made inside the module's
     functions count as the module's own imports *)
  Definition fn_uses_covered_b (fn_uses fn_imports : list (N * N)) : bool :=
    forallb (fun u => use_covered (fst u) (snd u)
                      || existsb (fun p => N.eqb (fst p) (fst u) && N.eqb (snd p) (snd u)) fn_imports) fn_uses.

  Definition locally_covered_b (mods : list N) : bool :=
    forallb (fun m => forallb (fun e => match e with EUse y => use_covered m y | _ => true end) (events m)) mods.
End Local.
