(* C16 -- the documented reserved words of FloScript (connectives + comparisons).  Definitions only. *)
From Coq Require Import String.
From Coq Require Import List ZArith Bool.
Import ListNotations.
Require Import V.gen.C16_Tables V.Lib.C16_Str V.C16.Model.

Definition documented_reserved : list (list Z) :=
  map zs ["to"; "by"; "with"; "from"; "per"; "for"; "cum"; "qua"; "via"; "as"; "at"; "in"; "of"; "on"; "re";
          "is"; "if"; "be"; "into"; "and"; "not"; "+-"; "rx"; "tx"; "=="; "<"; "<="; ">="; ">"; "!="]%string.

(* every extracted Reserved entry is a documented word, and every documented word that a command
   parser compares the current token with is Reserved (so a line starting with it continues) *)
Definition reserved_sound : bool := forallb (fun w => in_words w documented_reserved) gen_reserved.
Definition reserved_complete : bool :=
  forallb (fun w => implb (in_words w documented_reserved) (in_words w gen_reserved)) gen_parser_connectives.
